(* Admission — the admission path of relay.go `serveRead`, end to end: the
   decision chain of C12 with its abstract outcome fields instantiated by the
   models of ParseClientMsg (C10), ValidClientMsg (C11) and Event.Verify (C01).
   Statements only; each is closed by [exact] of a lemma proved in
   AdmissionProofs.v and followed by Print Assumptions.

   A frame is [Binary payload] or [Text payload utf8_ok json], [json = None]
   when json.Valid fails, [Some t] with [t : ctext] (the JSON value of the text
   plus the two token-level facts the label pattern of ParseClientMsg looks
   at) otherwise.  [H PK SG V] are SHA-256, schnorr.ParsePubKey succeeds,
   schnorr.ParseSignature succeeds and Signature.Verify: universally
   quantified, nothing is assumed about them.

   [admit_frame f]      Gate.gate on the outcomes computed from f by the real functions
   [forwarded f]  the message sent on [recv] for f, if any
   [admissible f m] (specification) f is a text frame of valid UTF-8 and valid
                  JSON whose text decodes to m, m is well-formed under NIP-01
                  (C11's [wf_nip01]) and, if an EVENT, authentic (C01's
                  [authentic_spec])

   PARTIAL in the same sense as C10/C11/C12/C01: the text <-> JSON value layer
   (encoding/json, utf8.Valid, json.Valid), the WebSocket library and the
   goroutine plumbing are not modelled; that the composition is the one
   serveRead performs is pinned by C12's regenerated statement order
   (C12_gate_order_pinned) and exercised by C12's correspondence run on the
   outcomes of the real functions. *)
From Moc Require Import Base Json CodecMsg Codec Valid Ser SerProofs Gate Admission AdmissionProofs.
From Moc.Gen Require Import GenSer.
Import String.StringSyntax.
Open Scope Z_scope.

(** For ALL frames: the frame's message m is forwarded to the handler iff the
    frame is a text frame, valid UTF-8, valid JSON, its text decodes to m, m
    is a well-formed NIP-01 client message and — when m is an EVENT — the id
    is (a hexadecimal writing of) H of the NIP-01 canonical serialization and
    the signature oracle accepts.  Exact, both directions: ValidClientMsg
    decides [wf_nip01] exactly (C11_valid_is_wf), Verify decides
    [authentic_spec] exactly (C01_authentic_iff). *)
Theorem ADM_forward_iff : forall H PK SG V f m,
  forwarded H PK SG V f = Some m <->
  exists p t,
    f = Text p true (Some t) /\ parse_client_msg t = Val m /\ wf_nip01 m /\
    (forall e, m = CEvent (Some e) -> authentic_spec H PK SG V (event_of_gevent e)).
Proof. exact forwarded_iff. Qed.
Print Assumptions ADM_forward_iff.

(** the same about the verdict alone *)
Theorem ADM_admit_forward_iff : forall H PK SG V f,
  admit_frame H PK SG V f = Forward 0 <-> exists m, admissible H PK SG V f m.
Proof. exact admit_forward_iff. Qed.
Print Assumptions ADM_admit_forward_iff.

(** Completeness on the JSON value of the text (C11_gate_complete lifted): a
    text frame of valid UTF-8 whose JSON value is a well-formed client message
    in the sense of [wf_json_cmsg] (label, arity, member names and types, hex
    lengths, kind range, ...; members in any order; white space before the
    bracket or not) decodes to a message that is well-formed under NIP-01 and
    is forwarded, provided the message, if an EVENT, is authentic.
    [wf_json_cmsg] is sufficient, not necessary (JSON null in place of a
    value, duplicate members: not claimed either way, as in C11), hence an
    implication; the exact characterisation is ADM_forward_iff. *)
Theorem ADM_forward_complete : forall H PK SG V p lead j,
  wf_json_cmsg false j = true ->
  exists m, parse_client_msg (mkCText lead false j) = Val m /\ wf_nip01 m /\ wf_cmsg m /\
            first_label j = Some (label_of_cmsg m) /\
            ((forall e, m = CEvent (Some e) -> authentic_spec H PK SG V (event_of_gevent e)) ->
             forwarded H PK SG V (Text p true (Some (mkCText lead false j))) = Some m).
Proof. exact forward_complete_json. Qed.
Print Assumptions ADM_forward_complete.

(** Soundness (C11_gate_sound lifted): whatever is forwarded came in a text
    frame of valid UTF-8 and valid JSON, is the decoded text, completely
    filled, with the label of the text, well-formed under NIP-01 (hence breaks
    none of C11's [constraints]) and, if an EVENT, authentic. *)
Theorem ADM_forward_sound : forall H PK SG V f m,
  forwarded H PK SG V f = Some m ->
  exists p t, f = Text p true (Some t) /\ parse_client_msg t = Val m /\
              wf_cmsg m /\ first_label (ct_json t) = Some (label_of_cmsg m) /\
              wf_nip01 m /\ constraints m /\
              (forall e, m = CEvent (Some e) -> authentic_spec H PK SG V (event_of_gevent e)).
Proof. exact forward_sound. Qed.
Print Assumptions ADM_forward_sound.

(** What reaches the handler is exactly ParseClientMsg of the frame's text, is
    filled, and carries the label of the text (C10). *)
Theorem ADM_forwarded_message_is_parsed : forall H PK SG V f m,
  forwarded H PK SG V f = Some m ->
  parsed f = Some m /\
  exists t, frame_text f = Some t /\ parse_client_msg t = Val m /\
            wf_cmsg m /\ first_label (ct_json t) = Some (label_of_cmsg m).
Proof. exact forwarded_message_is_parsed. Qed.
Print Assumptions ADM_forwarded_message_is_parsed.

(** ParseClientMsg never panics on a frame's text; a parsed EVENT always has
    an event, whose view in Base.event (on which Verify is modelled) loses
    nothing: the nil cases of the Go types are not reachable behind the parser. *)
Theorem ADM_parsed_total : forall f,
  (forall t, frame_text f = Some t -> parse_client_msg t <> Panic) /\
  (forall e, parsed f = Some (CEvent e) ->
             exists e', e = Some e' /\ gevent_of_event (event_of_gevent e') = e').
Proof. exact (fun f => conj (parsed_never_panics f) (parsed_event_view_lossless f)). Qed.
Print Assumptions ADM_parsed_total.

(** Every other frame, read by a live session as the frame numbered i, yields
    exactly one rejection — for this frame, of the class serveRead names, with
    the text serveRead builds — and nothing for the handler; the loop goes on
    (C12_gate_exactly_one_response lifted). *)
Theorem ADM_rejected_gets_one_notice : forall H PK SG V s i f,
  live s = true -> forwarded H PK SG V f = None ->
  handler_input (step s (frame_outcomes H PK SG V i f)) = handler_input s /\
  live (step s (frame_outcomes H PK SG V i f)) = true /\
  exists r, rejections (step s (frame_outcomes H PK SG V i f)) = rejections s ++ [r] /\
            rj_msg r = i /\ admit_frame H PK SG V f = Reject (rj_class r) /\
            rj_text r = notice_text (rj_class r) (frame_outcomes H PK SG V i f).
Proof. exact rejected_gets_one_notice. Qed.
Print Assumptions ADM_rejected_gets_one_notice.

(** ... and an admissible frame yields its message and no rejection. *)
Theorem ADM_forwarded_gets_no_notice : forall H PK SG V s i f m,
  live s = true -> forwarded H PK SG V f = Some m ->
  handler_input (step s (frame_outcomes H PK SG V i f)) = handler_input s ++ [i] /\
  rejections (step s (frame_outcomes H PK SG V i f)) = rejections s /\
  live (step s (frame_outcomes H PK SG V i f)) = true.
Proof. exact forwarded_step. Qed.
Print Assumptions ADM_forwarded_gets_no_notice.

(** For every frame sequence (C12_session_order lifted; message ids are the
    positions of the frames): the handler receives exactly the messages of the
    admissible frames, once each, in the order sent — stated with the decision
    function and, equivalently, with the declarative relation [delivers]
    (built from [admissible] only); the rejections are one per other frame, in
    the order sent, each naming its frame; the read loop is still running. *)
Theorem ADM_session : forall H PK SG V fs,
  handler_msgs H PK SG V fs = List.map Some (filter_map (forwarded H PK SG V) fs) /\
  (forall ms, delivers H PK SG V fs ms <-> handler_msgs H PK SG V fs = List.map Some ms) /\
  List.map rj_msg (rejections (relay_session H PK SG V fs)) =
    filter_map (fun p => match forwarded H PK SG V (snd p) with None => Some (fst p) | Some _ => None end)
               (combine (List.map Z.of_nat (seq 0 (length fs))) fs) /\
  length (rejections (relay_session H PK SG V fs)) =
    count_occ_b (fun f => match forwarded H PK SG V f with None => true | Some _ => false end) fs /\
  live (relay_session H PK SG V fs) = true.
Proof. exact session_delivers. Qed.
Print Assumptions ADM_session.

(** A forwarded EVENT, and a second EVENT frame that differs from it in a
    signed field (pubkey, created_at, kind, tags, content) under the same id
    bytes: the second is not forwarded unless the two canonical
    serializations are different texts with the same hash
    (C01_tamper_signed_field lifted through the gate).  Hypothesis
    [bytes_ok_event]: the strings of the two events are byte strings (every
    element below 256), as in C01. *)
Theorem ADM_tamper : forall H PK SG V f f' g g',
  forwarded H PK SG V f = Some (CEvent (Some g)) ->
  parsed f' = Some (CEvent (Some g')) ->
  bytes_ok_event (event_of_gevent g) -> bytes_ok_event (event_of_gevent g') ->
  id_bytes (event_of_gevent g') = id_bytes (event_of_gevent g) ->
  signed_fields (event_of_gevent g') <> signed_fields (event_of_gevent g) ->
  forwarded H PK SG V f' <> None ->
  canonical (event_of_gevent g) <> canonical (event_of_gevent g') /\
  H (canonical (event_of_gevent g)) = H (canonical (event_of_gevent g')).
Proof. exact tamper_through_gate. Qed.
Print Assumptions ADM_tamper.

(** read the other way: if H separates the two serializations, the altered
    frame is rejected *)
Theorem ADM_tamper_rejected : forall H PK SG V f f' g g',
  forwarded H PK SG V f = Some (CEvent (Some g)) ->
  parsed f' = Some (CEvent (Some g')) ->
  bytes_ok_event (event_of_gevent g) -> bytes_ok_event (event_of_gevent g') ->
  id_bytes (event_of_gevent g') = id_bytes (event_of_gevent g) ->
  signed_fields (event_of_gevent g') <> signed_fields (event_of_gevent g) ->
  (canonical (event_of_gevent g) <> canonical (event_of_gevent g') ->
   H (canonical (event_of_gevent g)) <> H (canonical (event_of_gevent g'))) ->
  forwarded H PK SG V f' = None /\ exists c, admit_frame H PK SG V f' = Reject c.
Proof. exact tamper_rejected. Qed.
Print Assumptions ADM_tamper_rejected.

(** changing the id bytes of a forwarded EVENT, signed fields unchanged: not
    forwarded (C01_tamper_id lifted) *)
Theorem ADM_tamper_id : forall H PK SG V f f' g g',
  forwarded H PK SG V f = Some (CEvent (Some g)) ->
  parsed f' = Some (CEvent (Some g')) ->
  signed_fields (event_of_gevent g') = signed_fields (event_of_gevent g) ->
  id_bytes (event_of_gevent g') <> id_bytes (event_of_gevent g) ->
  forwarded H PK SG V f' = None.
Proof. exact tamper_id_through_gate. Qed.
Print Assumptions ADM_tamper_id.

(** The tie to the tree under test: Event.Serialize is the hand-written
    NIP-01 serializer (regenerated from message.go on every run), so the
    Verify of the tree — which [frame_outcomes] uses — is the Verify of C01. *)
Theorem ADM_tree_verify_is_C01_verify :
  g_serialize_uses_json_marshal = false /\
  forall H PK SG V e, verify_tree H PK SG V e = verify H PK SG V e.
Proof. exact (conj adm_tree_uses_canonical_serializer verify_tree_is_verify). Qed.
Print Assumptions ADM_tree_verify_is_C01_verify.

(* ------------------------------------------------------------------ *)
(** Non-vacuity: concrete ASTs, computable oracles ([toy_H]: a rolling byte
    sum spread over 32 bytes; [toy_V pk m sg]: sg = m ++ pk; [toy_PK] refuses
    the all-ones key). *)

(** ["REQ","sub1",{"kinds":[1],"#t":["x"],"limit":10},{}] is admitted, whatever the oracles *)
Example ADM_example_req_admitted : forall H PK SG V,
  wf_json_cmsg false ex_req_ast = true /\
  forwarded H PK SG V (text_frame "[""REQ"",...]" ex_req_ast) =
  Some (CReq (gtxt "sub1")
          [ Some (mkGFilter None None (Some [1]) (Some [(gtxt "t", Some [gtxt "x"])]) None None (Some 10));
            Some empty_gfilter ]).
Proof. exact ex_req_admitted. Qed.
Print Assumptions ADM_example_req_admitted.

(** ["EVENT",{...}] with id = hex (toy_H canonical) and sig = hex (id ++ pk) is admitted *)
Example ADM_example_event_admitted :
  wf_json_cmsg false ex_event_ast = true /\
  forwarded toy_H toy_PK toy_SG toy_V (text_frame "[""EVENT"",...]" ex_event_ast)
  = Some (CEvent (Some (ex_gevent ex_id ex_pk (gtxt "hi") ex_sig))) /\
  authentic_spec toy_H toy_PK toy_SG toy_V (event_of_gevent (ex_gevent ex_id ex_pk (gtxt "hi") ex_sig)).
Proof. exact ex_event_admitted. Qed.
Print Assumptions ADM_example_event_admitted.

(** its altered copies are rejected (content changed: not authentic; sig
    changed: not authentic; key that does not parse: internal error), while
    the same altered event inside AUTH passes *)
Example ADM_example_event_altered_rejected :
  wf_json_cmsg false ex_event_ast_content_altered = true /\
  parsed (text_frame "[""EVENT"",...]" ex_event_ast_content_altered)
  = Some (CEvent (Some (ex_gevent ex_id ex_pk (gtxt "ho") ex_sig))) /\
  admit_frame toy_H toy_PK toy_SG toy_V (text_frame "[""EVENT"",...]" ex_event_ast_content_altered) = Reject NNotAuthentic /\
  forwarded toy_H toy_PK toy_SG toy_V (text_frame "[""EVENT"",...]" ex_event_ast_content_altered) = None /\
  admit_frame toy_H toy_PK toy_SG toy_V (text_frame "[""EVENT"",...]" ex_event_ast_sig_altered) = Reject NNotAuthentic /\
  admit_frame toy_H toy_PK toy_SG toy_V (text_frame "[""EVENT"",...]" ex_event_ast_bad_pubkey) = Reject NInternal /\
  forwarded toy_H toy_PK toy_SG toy_V (text_frame "[""AUTH"",...]" ex_auth_ast)
  = Some (CAuth (Some (ex_gevent ex_id ex_pk (gtxt "ho") ex_sig))).
Proof. exact ex_event_altered_rejected. Qed.
Print Assumptions ADM_example_event_altered_rejected.

(** the hypotheses of ADM_tamper / ADM_tamper_rejected are met by that pair *)
Example ADM_example_tamper_hypotheses :
  let g := ex_gevent ex_id ex_pk (gtxt "hi") ex_sig in
  let g' := ex_gevent ex_id ex_pk (gtxt "ho") ex_sig in
  forwarded toy_H toy_PK toy_SG toy_V (text_frame "e" ex_event_ast) = Some (CEvent (Some g)) /\
  parsed (text_frame "e'" ex_event_ast_content_altered) = Some (CEvent (Some g')) /\
  bytes_ok_event (event_of_gevent g) /\ bytes_ok_event (event_of_gevent g') /\
  id_bytes (event_of_gevent g') = id_bytes (event_of_gevent g) /\
  signed_fields (event_of_gevent g') <> signed_fields (event_of_gevent g) /\
  toy_H (canonical (event_of_gevent g)) <> toy_H (canonical (event_of_gevent g')).
Proof. exact ex_tamper_hypotheses. Qed.
Print Assumptions ADM_example_tamper_hypotheses.

(** a session over every kind of frame: REQ, binary, invalid UTF-8, not JSON,
    unknown label, invalid field, authentic EVENT, two altered EVENTs, EVENT
    with an unparsable key, AUTH, CLOSE after white space *)
Example ADM_example_session :
  handler_input (relay_session toy_H toy_PK toy_SG toy_V ex_frames_adm) = [0; 6; 10; 11] /\
  List.map (fun r => (rj_msg r, rj_class r)) (rejections (relay_session toy_H toy_PK toy_SG toy_V ex_frames_adm))
  = [(1, NBinary); (2, NBadJson); (3, NBadJson); (4, NParse); (5, NInvalid);
     (7, NNotAuthentic); (8, NNotAuthentic); (9, NInternal)] /\
  List.map (option_map label_of_cmsg) (handler_msgs toy_H toy_PK toy_SG toy_V ex_frames_adm)
  = [Some L_REQ; Some L_EVENT; Some L_AUTH; Some L_CLOSE].
Proof. exact ex_session_adm. Qed.
Print Assumptions ADM_example_session.
