(* C01 — Event authenticity.  Statements only; each is closed by [exact] of a
   lemma of SerProofs.v and followed by Print Assumptions.

   The theorems are about the hand-written NIP-01 serializer
   ([serialize_fixed], [verify]), whose escape table and statement sequence
   are regenerated from message.go.  That the tree under test really uses
   that serializer is the separate obligation
   [C01_tree_uses_canonical_serializer] in Properties/C01Fixed.v; on a tree
   whose Serialize goes through json.Marshal that obligation does not
   compile, and [C01_serialize_canonical_refuted] below is the finding. *)
From Moc Require Import Base Ser SerProofs.
Open Scope Z_scope.

(** the escaper is the NIP-01 table, byte by byte (finite sweep; the bound is
    in the statement) *)
Theorem C01_esc_byte_canonical : forall b, (b < 256)%N -> esc_byte b = canon_esc b.
Proof. exact esc_byte_canonical. Qed.
Print Assumptions C01_esc_byte_canonical.

(** every string whose bytes are outside the escape set is written verbatim
    between quotes, whatever its length *)
Theorem C01_ser_string_verbatim : forall s,
  bytes_ok s ->
  (forall b, In b s -> (32 <= b)%N /\ b <> 34%N /\ b <> 92%N) ->
  ser_string s = quote s.
Proof. exact ser_string_verbatim. Qed.
Print Assumptions C01_ser_string_verbatim.

(** the serialized form is the NIP-01 canonical form, for every event *)
Theorem C01_serialize_canonical : forall e, serialize_fixed e = canonical e.
Proof. exact serialize_canonical. Qed.
Print Assumptions C01_serialize_canonical.

(** the serialized form determines the signed fields: it parses back *)
Theorem C01_parse_ser_serialize : forall e, parse_ser (serialize_fixed e) = Some (signed_fields e).
Proof. exact parse_ser_serialize. Qed.
Print Assumptions C01_parse_ser_serialize.

Theorem C01_serialize_injective : forall e1 e2,
  bytes_ok_event e1 -> bytes_ok_event e2 ->
  serialize_fixed e1 = serialize_fixed e2 -> signed_fields e1 = signed_fields e2.
Proof. exact serialize_injective. Qed.
Print Assumptions C01_serialize_injective.

(** Verify answers true exactly when the id is (a hexadecimal writing of) the
    SHA-256 of the canonical serialization and the signature is a valid
    BIP-340 signature of that id under the pubkey.  [H], [PK], [SG], [V] are
    arbitrary: nothing is assumed about SHA-256 or BIP-340. *)
Theorem C01_authentic_iff : forall H PK SG V e,
  verify H PK SG V e = VOk true <-> authentic_spec H PK SG V e.
Proof. exact authentic_iff. Qed.
Print Assumptions C01_authentic_iff.

(** the branches of Verify, all at once *)
Theorem C01_verify_true_iff : forall H PK SG V e,
  verify H PK SG V e = VOk true <->
  exists idb pkb sgb,
    hex_decode (ev_id e) = Some idb /\ idb = H (serialize_fixed e) /\
    hex_decode (ev_pk e) = Some pkb /\ PK pkb = true /\
    hex_decode (ev_sig e) = Some sgb /\ SG sgb = true /\ V pkb idb sgb = true.
Proof. exact verify_true_iff. Qed.

(** errors are exactly: id not hexadecimal text, or (the id having matched) a
    pubkey or signature that is not hexadecimal text or does not parse *)
Theorem C01_verify_error_iff : forall H PK SG V e,
  verify H PK SG V e = VErr <->
  id_bytes e = None \/
  (id_bytes e = Some (H (serialize_fixed e)) /\
   match hex_decode (ev_pk e) with
   | None => True
   | Some pkb => PK pkb = false \/
       match hex_decode (ev_sig e) with
       | None => True
       | Some sgb => SG sgb = false
       end
   end).
Proof. exact verify_error_iff. Qed.
Print Assumptions C01_verify_error_iff.

(** hex.DecodeString decodes exactly the texts that denote a byte string *)
Theorem C01_hex_decode_denotes : forall s bs, hex_decode s = Some bs <-> hex_denotes s bs.
Proof. exact hex_decode_denotes. Qed.

(** an accepted alteration of a signed field under the same id bytes exhibits
    a collision of the hash *)
Theorem C01_tamper_signed_field : forall H PK SG V e e',
  bytes_ok_event e -> bytes_ok_event e' ->
  verify H PK SG V e = VOk true -> verify H PK SG V e' = VOk true ->
  id_bytes e' = id_bytes e -> signed_fields e' <> signed_fields e ->
  serialize_fixed e <> serialize_fixed e' /\ H (serialize_fixed e) = H (serialize_fixed e').
Proof. exact tamper_signed_field. Qed.
Print Assumptions C01_tamper_signed_field.

(** changing the id bytes of an authentic event makes it not authentic *)
Theorem C01_tamper_id : forall H PK SG V e e',
  verify H PK SG V e = VOk true -> signed_fields e' = signed_fields e ->
  id_bytes e' <> id_bytes e -> verify H PK SG V e' <> VOk true.
Proof. exact tamper_id. Qed.
Print Assumptions C01_tamper_id.

(** the hypotheses of the tamper theorems are satisfiable on a non-trivial
    pair of events (constant hash, accepting signature check) *)
Example C01_tamper_hypotheses_satisfiable :
  verify ex_H (fun _ => true) (fun _ => true) (fun _ _ _ => true) ex_e1 = VOk true /\
  verify ex_H (fun _ => true) (fun _ => true) (fun _ _ _ => true) ex_e2 = VOk true /\
  id_bytes ex_e2 = id_bytes ex_e1 /\ signed_fields ex_e2 <> signed_fields ex_e1 /\
  bytes_ok_event ex_e1 /\ bytes_ok_event ex_e2.
Proof. exact tamper_hypotheses_satisfiable. Qed.

(** the boolean oracle used by the correspondence check is the specification *)
Theorem C01_oracle_is_spec : forall H PK SG V e,
  authentic_spec H PK SG V e <-> exists pkb sgb, authentic_specb H PK SG V e pkb sgb = true.
Proof. exact authentic_specb_spec. Qed.
Print Assumptions C01_oracle_is_spec.

(** json.Marshal's escaper is not the canonical form: content "<" *)
Theorem C01_serialize_canonical_refuted : exists e, serialize_pinned e <> canonical e.
Proof. exact serialize_canonical_refuted. Qed.
Print Assumptions C01_serialize_canonical_refuted.
