(* C12 — WebSocket session: only valid authentic messages reach the handler;
   every other frame gets exactly one rejection; handler output reaches the
   client as text frames in order.  Statements only; each is closed by [exact]
   of a lemma proved in GateProofs.v and followed by Print Assumptions.

   PARTIAL: these theorems are about the model of serveRead / serveReadLoop /
   serveWriteLoop (Gate.v), whose tests are regenerated from relay.go and whose
   statement order is pinned (C12_gate_order_pinned).  TCP, the WebSocket
   library and the goroutine/channel plumbing of Relay.ServeHTTP are exercised
   by the correspondence harness, not proved. *)
From Moc Require Import Base Gate GateProofs.
From Moc.Gen Require Import GenGate.
Import String.StringSyntax.
Open Scope Z_scope.

(** A frame is forwarded iff it is a text frame of valid UTF-8 and valid JSON
    that parses to a client message which is valid and, for EVENT, authentic. *)
Theorem C12_gate_forward_iff : forall f,
  gate f = Forward (fr_msg f) <->
  fr_text f = true /\ fr_utf8 f = true /\ fr_json f = true /\ (exists k, fr_parse f = Some k) /\
  fr_valid f = true /\ (fr_parse f = Some KEvent -> fr_verify f = VOk true).
Proof. exact gate_forward_iff. Qed.
Print Assumptions C12_gate_forward_iff.

(** Nothing but the frame's own message is ever forwarded for it. *)
Theorem C12_gate_forward_only_own : forall f m, gate f = Forward m -> m = fr_msg f.
Proof. exact gate_forward_only_own. Qed.
Print Assumptions C12_gate_forward_only_own.

(** The notice names the first test of the chain that failed. *)
Theorem C12_gate_reject_class : forall f c,
  gate f = Reject c ->
  match c with
  | NBinary => fr_text f = false
  | NBadJson => fr_text f = true /\ (fr_utf8 f = false \/ fr_json f = false)
  | NParse => fr_text f = true /\ fr_utf8 f = true /\ fr_json f = true /\ fr_parse f = None
  | NInvalid => fr_text f = true /\ fr_utf8 f = true /\ fr_json f = true /\ fr_parse f <> None /\ fr_valid f = false
  | NInternal => fr_parse f = Some KEvent /\ fr_valid f = true /\ fr_verify f = VErr
  | NNotAuthentic => fr_parse f = Some KEvent /\ fr_valid f = true /\ fr_verify f = VOk false
  end.
Proof. exact gate_reject_class. Qed.
Print Assumptions C12_gate_reject_class.

(** Every frame read by a live session adds exactly one item: its message to
    the handler's input if it is forwardable and then no rejection; otherwise
    one rejection (for this frame, of the class the gate names) and nothing
    for the handler. *)
Theorem C12_gate_exactly_one_response : forall s f,
  live s = true ->
  (forwardable_spec f = true /\
   handler_input (step s f) = handler_input s ++ [fr_msg f] /\ rejections (step s f) = rejections s)
  \/
  (forwardable_spec f = false /\
   handler_input (step s f) = handler_input s /\
   exists r, rejections (step s f) = rejections s ++ [r] /\ rj_msg r = fr_msg f /\ gate f = Reject (rj_class r)
             /\ rj_text r = notice_text (rj_class r) f).
Proof. exact step_exactly_one. Qed.
Print Assumptions C12_gate_exactly_one_response.

(** For all frame sequences: the handler's input is the forwardable frames,
    once each, in the order sent; the rejections are one per rejected frame,
    in the order sent. *)
Theorem C12_session_order : forall fs,
  handler_input (session fs) = filter_map forwardable fs /\
  List.map rj_msg (rejections (session fs)) = List.map fr_msg (rejected_frames fs) /\
  length (rejections (session fs)) = count_occ_b (fun f => negb (forwardable_spec f)) fs.
Proof. exact session_order. Qed.
Print Assumptions C12_session_order.

(** A rejected frame never ends the read loop: after any prefix the session
    is live, and a forwardable frame is delivered whatever preceded it. *)
Theorem C12_connection_stays_usable : forall fs1 f fs2,
  live (session (fs1 ++ f :: fs2)) = true /\
  (forwardable_spec f = true ->
   handler_input (session (fs1 ++ f :: fs2)) =
   handler_input (session fs1) ++ fr_msg f :: handler_input (session fs2)).
Proof. exact connection_stays_usable. Qed.
Print Assumptions C12_connection_stays_usable.

(** The gate has no memory: a session over fs1 ++ fs2 is the session over fs1
    followed by the session over fs2. *)
Theorem C12_session_compositional : forall fs1 fs2,
  handler_input (session (fs1 ++ fs2)) = handler_input (session fs1) ++ handler_input (session fs2) /\
  rejections (session (fs1 ++ fs2)) = rejections (session fs1) ++ rejections (session fs2).
Proof. exact session_app. Qed.
Print Assumptions C12_session_compositional.

(** In lock-step the client sees, per frame in order, the gate's notice or the
    handler's reply to the forwarded message. *)
Theorem C12_lockstep_stream : forall reply fs,
  notices_of (lockstep_stream reply fs) = rejections (session fs) /\
  handler_part (lockstep_stream reply fs) = flat_map reply (handler_input (session fs)).
Proof. exact lockstep_stream_session. Qed.
Print Assumptions C12_lockstep_stream.

(** Handler output o1..on (each encodable) is written as n text frames, one
    each, in the same order, each carrying the encoding of its message. *)
Theorem C12_write_order : forall (smsg : Type) (enc : smsg -> option str) ms,
  encodable smsg enc ms ->
  List.map (fun w => Some (wf_body w)) (write_loop smsg enc ms) = List.map enc ms /\
  length (write_loop smsg enc ms) = length ms /\
  (forall w, In w (write_loop smsg enc ms) -> wf_type w = 1).
Proof. exact write_order. Qed.
Print Assumptions C12_write_order.

(** With a decoder inverting the encoder on these messages (that is C10), the
    client decodes exactly the emitted messages in emission order. *)
Theorem C12_write_roundtrip : forall (smsg : Type) (enc : smsg -> option str) (dec : str -> option smsg) ms,
  encodable smsg enc ms ->
  (forall m b, In m ms -> enc m = Some b -> dec b = Some m) ->
  List.map (fun w => dec (wf_body w)) (write_loop smsg enc ms) = List.map Some ms.
Proof. exact write_roundtrip. Qed.
Print Assumptions C12_write_roundtrip.

(** The statement order of serveRead as regenerated from relay.go on this run. *)
Theorem C12_gate_order_pinned :
  g_gate_order =
  [ gtxt "wait";
    gtxt "read";
    gtxt "if read_err { stop }";
    gtxt "if not_text { text; notice; return nil }";
    gtxt "if bad_json { text; notice; return nil }";
    gtxt "parse";
    gtxt "if parse_err { text; notice; return nil }";
    gtxt "if invalid { text(payload); notice; return nil }";
    gtxt "when *ClientEventMsg {";
    gtxt "verify";
    gtxt "if verify_err { text; notice; return nil }";
    gtxt "if not_authentic { text(msg.Event.ID); notice; return nil }";
    gtxt "}";
    gtxt "forward";
    gtxt "return nil" ].
Proof. exact gate_order_pinned. Qed.
Print Assumptions C12_gate_order_pinned.

Theorem C12_write_shape_pinned :
  g_gate_write_order =
  [ gtxt "marshal"; gtxt "if marshal_err { stop }"; gtxt "write"; gtxt "if write_err { stop }" ]
  /\ g_gate_write_type = 1 /\ length g_gate_notice_fmts = 6%nat /\ g_gate_untranslated = [].
Proof. exact (conj gate_write_order_pinned (conj gate_write_type_text (conj gate_notice_count gate_all_translated))). Qed.
Print Assumptions C12_write_shape_pinned.

(** Non-vacuity: a session with every kind of frame (the hypotheses of the
    theorems above are met by concrete frames of both outcomes). *)
Example C12_example_session :
  handler_input (session ex_frames) = [0; 8; 9; 10] /\
  List.map (fun r => (rj_msg r, rj_class r)) (rejections (session ex_frames)) =
  [(1, NBinary); (2, NBadJson); (3, NBadJson); (4, NParse); (5, NInvalid); (6, NNotAuthentic); (7, NInternal)].
Proof. exact (conj ex_session_input ex_session_rejections). Qed.
Print Assumptions C12_example_session.
