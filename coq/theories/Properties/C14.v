(* C14 — SQLite batches are atomic and idempotent; data and semantics survive
   reopen.  Statements only; proofs are in SqlC14.v.  PARTIAL: atomicity
   itself is SQLite's transaction contract; in the model a faulted batch
   yields the old state by construction (C14_atomic_by_tx carries that
   assumption); it is exercised by fault injection in the correspondence run. *)
From Moc Require Import SqlProofs.
Open Scope Z_scope.

(** inserting the same batch again (after a success) changes no table, hence
    no query answer *)
Theorem C14_batch_idempotent : forall seed s b,
  Inv s -> id_ts_compat s b -> insert_batch seed (insert_batch seed s b) b = insert_batch seed s b.
Proof. exact batch_idempotent. Qed.
Print Assumptions C14_batch_idempotent.

(** a fault at any driver call followed by a retry equals one clean insertion *)
Theorem C14_retry_after_fault : forall seed s b k,
  Inv s -> id_ts_compat s b ->
  insert_batch seed (insert_batch_faulty seed s b k) b = insert_batch seed s b.
Proof. exact retry_after_fault. Qed.
Print Assumptions C14_retry_after_fault.

(** assumption-carrying: the model of a faulted transaction IS the old state *)
Theorem C14_atomic_by_tx : forall seed s b k,
  (k < batch_calls seed s b)%nat -> insert_batch_faulty seed s b k = s.
Proof. exact atomic_by_tx. Qed.
Print Assumptions C14_atomic_by_tx.

(** reopening re-reads the seed: the handle, hence every answer, is unchanged *)
Theorem C14_reopen_same_seed : forall h rnd, opened h -> reopen h rnd = h.
Proof. exact reopen_same_seed. Qed.
Print Assumptions C14_reopen_same_seed.

Theorem C14_open_is_opened : forall d rnd, opened (open_db d rnd).
Proof. exact open_db_opened. Qed.

Theorem C14_reopen_query : forall h rnd fs ml, opened h ->
  query (h_db (reopen h rnd)) fs ml = query (h_db h) fs ml.
Proof. exact reopen_query. Qed.

(** a version inserted after the restart gets the key of the version stored
    before it (same address), so the upsert replaces it *)
Theorem C14_replace_across_reopen : forall h rnd v1 v2 a k,
  opened h -> address v1 = Some a -> address v2 = Some a ->
  get_event_key (h_seed h) v1 = Some k -> get_event_key (h_seed (reopen h rnd)) v2 = Some k.
Proof. exact replace_across_reopen. Qed.
Print Assumptions C14_replace_across_reopen.

(** any insertion after a restart - in particular a deletion request - acts
    on the tables as it would without the restart *)
Theorem C14_delete_across_reopen : forall h rnd b, opened h -> h_insert (reopen h rnd) b = h_insert h b.
Proof. exact insert_across_reopen. Qed.
Print Assumptions C14_delete_across_reopen.

(** close/reopen at any positions of a batch history: the tables are those of
    the history without restarts, so every C06 statement carries over *)
Theorem C14_restarts_invisible : forall ops h, opened h ->
  fold_left run_op ops h = mkHandle (run (h_seed h) (h_db h) (batches_of ops)) (h_seed h).
Proof. exact restarts_invisible. Qed.
Print Assumptions C14_restarts_invisible.

(** why the seed must be the same: with a regenerated seed the newer version
    would not replace the stored one *)
Example C14_fresh_seed_breaks_replacement :
  let d1 := insert_batch 1 empty_db [ev_v1] in
  List.length (d_events (insert_batch 1 d1 [ev_v2])) = 1%nat /\
  List.length (d_events (insert_batch 2 d1 [ev_v2])) = 2%nat.
Proof. exact fresh_seed_breaks_replacement. Qed.
