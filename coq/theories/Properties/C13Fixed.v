(* C13 (after the repair of F5) — the write and ping deadlines are applied whenever a send
   timeout is configured, whatever the other relay options are.  Compiles only once relay.go
   guards context.WithTimeout on relay.opt.SendTimeout > 0. *)
From Moc Require Import Base.
From Moc.Gen Require Import GenSession.
Open Scope Z_scope.

Lemma g_write_deadline_guard_spec ping st : g_write_deadline_guard ping st = (st >? 0).
Proof. reflexivity. Qed.

Lemma g_ping_deadline_guard_spec ping st : g_ping_deadline_guard ping st = (st >? 0).
Proof. reflexivity. Qed.

Theorem C13_write_deadline_always : forall ping st, st > 0 -> g_write_deadline_guard ping st = true.
Proof. intros ping st H. rewrite g_write_deadline_guard_spec. apply Z.gtb_lt. lia. Qed.
Print Assumptions C13_write_deadline_always.

Theorem C13_ping_deadline_always : forall ping st, st > 0 -> g_ping_deadline_guard ping st = true.
Proof. intros ping st H. rewrite g_ping_deadline_guard_spec. apply Z.gtb_lt. lia. Qed.
Print Assumptions C13_ping_deadline_always.
