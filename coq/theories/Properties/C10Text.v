(* C10T -- extension of C10 (wire codec) down to bytes.  Statements only; each
   is closed by [exact] of a lemma proved in JsonTextProofs.v and followed by
   Print Assumptions.

   Scope.  JsonText.v models, on byte strings ([str = list N]), the part of
   Go's encoding/json, unicode/utf8 and regexp that the codec of message.go
   relies on: json.Valid / the decoder with UseNumber into [any]
   ([parse_json], [json_valid]), utf8.Valid ([utf8_valid]), the label pattern
   of ParseClientMsg ([label_match]), and json.Marshal's string escaping in a
   compact printer ([print_json]).  That this model is what the Go libraries
   do is NOT proved here (it is a model of library code that is not
   translated); it is compared with the libraries on every run of
   ./check C10T (harness/cmd/core/c10text.go, Check/C10TextCheck.v).  What is
   proved is everything above that layer: the C10 theorems now start from
   bytes.

   [decode_bytes t b] is json.Unmarshal(b, &x) for the Go type named t;
   [parse_client_msg_bytes b] is ParseClientMsg(b) as written (pattern on the
   bytes, label dispatch, UnmarshalJSON on the same bytes).
   [fuel_of b = length b + 1]. *)
From Moc Require Import Base Json CodecMsg Codec CodecProofs JsonText JsonTextProofs.
From Coq Require String.
Open Scope N_scope.

(** The byte-level decoder model is total: run with at least [length b + 1]
    fuel it never stops for lack of fuel, i.e. it returns a definite accept
    ([POk]) or reject ([PRej]) ... *)
Theorem C10T_parse_total : forall fuel b,
  (length b + 1 <= fuel)%nat -> parse_json_res fuel b <> PFuel.
Proof. exact parse_total. Qed.
Print Assumptions C10T_parse_total.

(** ... and the answer does not depend on how much more fuel it is given. *)
Theorem C10T_parse_fuel_irrelevant : forall f1 f2 b,
  (length b + 1 <= f1)%nat -> (length b + 1 <= f2)%nat -> parse_json_res f1 b = parse_json_res f2 b.
Proof. exact parse_fuel_irrelevant. Qed.
Print Assumptions C10T_parse_fuel_irrelevant.

(** The byte-level round trip.  [text_ok j]: every string and every member
    name in [j] is valid UTF-8, and [j] nests at most 10000 containers (Go's
    limit).  Nothing is asked of member names being distinct (the parser keeps
    duplicates, in order), of numbers (any magnitude), or of characters
    (quotes, backslashes, controls, DEL, < > &, U+2028/9 are all escaped and
    unescaped). *)
Theorem C10T_print_parse : forall j fuel,
  text_ok j = true -> (length (print_json j) + 1 <= fuel)%nat ->
  parse_json fuel (print_json j) = Some j.
Proof. exact print_parse. Qed.
Print Assumptions C10T_print_parse.

(** White space is irrelevant.  [wjv] is a value decorated with an arbitrary
    string at every place where JSON allows white space (after an opening
    bracket or brace, before and after every element, before and after a member
    name, after the colon, after a member's value; [w1], [w2] around the whole
    text); [wprint] writes the tokens as [print_json] does with those strings
    in between, [erase] forgets them.  If every decoration consists of space,
    tab, LF, CR, the text parses to the undecorated value, i.e. to what the
    compact text parses to (C10T_print_parse). *)
Theorem C10T_whitespace_irrelevant : forall x w1 w2 fuel,
  ws_okb x = true -> all_ws w1 = true -> all_ws w2 = true -> text_ok (erase x) = true ->
  (length (w1 ++ wprint x ++ w2) + 1 <= fuel)%nat ->
  parse_json fuel (w1 ++ wprint x ++ w2) = Some (erase x).
Proof. exact whitespace_irrelevant. Qed.
Print Assumptions C10T_whitespace_irrelevant.

(** On every text that is valid JSON, the label pattern matched on the bytes
    gives exactly what Codec's token-level pre-check gives on the value plus
    the two token-level facts read off the bytes; hence ParseClientMsg on
    bytes is Codec.parse_client_msg on [ctext_of_bytes]. *)
Theorem C10T_label_bridge : forall b j,
  parse_json (fuel_of b) b = Some j ->
  label_match b = label_precheck (mkCText (lead_ws b) (label_escaped b) j).
Proof. exact label_bridge. Qed.
Print Assumptions C10T_label_bridge.

Theorem C10T_parse_bytes_is_ctext : forall b,
  parse_client_msg_bytes b =
  match ctext_of_bytes b with Some t => parse_client_msg t | None => Err end.
Proof. exact parse_bytes_bridge. Qed.
Print Assumptions C10T_parse_bytes_is_ctext.

(** C10, first sentence, at the level it is stated: for EVERY byte string,
    each of the fourteen decoders and ParseClientMsg return a value or an
    error, never a panic. *)
Theorem C10T_decode_bytes_never_panics : forall t b,
  (exists v, decode_bytes t b = Val v) \/ decode_bytes t b = Err.
Proof.
  intros t b. pose proof (decode_bytes_never_panics t b).
  destruct (decode_bytes t b); [left; eauto | now right | congruence].
Qed.
Print Assumptions C10T_decode_bytes_never_panics.

Theorem C10T_parse_bytes_never_panics : forall b,
  (exists m, parse_client_msg_bytes b = Val m) \/ parse_client_msg_bytes b = Err.
Proof.
  intro b. pose proof (parse_client_msg_bytes_never_panics b).
  destruct (parse_client_msg_bytes b); [left; eauto | now right | congruence].
Qed.
Print Assumptions C10T_parse_bytes_never_panics.

(** ... and whatever is accepted is a completely filled value of the type
    named (the bare text null, a no-op by Go's Unmarshaler convention, is the
    one excluded input, as in C10) ... *)
Theorem C10T_decode_bytes_filled : forall t b v,
  decode_bytes t b = Val v -> parse_json (fuel_of b) b <> Some JNull -> wf_wval v /\ ty_of v = t.
Proof. exact decode_bytes_filled. Qed.
Print Assumptions C10T_decode_bytes_filled.

(** ... for ParseClientMsg: of the type named by the label that the pattern
    captures from the bytes. *)
Theorem C10T_parse_bytes_filled : forall b m,
  parse_client_msg_bytes b = Val m -> wf_cmsg m /\ label_match b = Some (label_of_cmsg m).
Proof. exact parse_client_msg_bytes_filled. Qed.
Print Assumptions C10T_parse_bytes_filled.

(** Round trip through bytes: for every well-formed protocol value whose
    strings are valid UTF-8 (json.Marshal replaces any other byte, so only
    these can come back), decoding the printed encoding yields the value. *)
Theorem C10T_roundtrip_bytes : forall v,
  wf_wval v -> utf8_wvalb v = true ->
  decode_bytes (ty_of v) (print_json (enc_wval v)) = Val v.
Proof. intros v Hw Hu. apply roundtrip_bytes; [exact Hw | now apply text_ok_wval]. Qed.
Print Assumptions C10T_roundtrip_bytes.

Theorem C10T_roundtrip_client_msg_bytes : forall m,
  wf_cmsg m -> utf8_cmsgb m = true ->
  parse_client_msg_bytes (print_json (enc_cmsg m)) = Val m.
Proof. intros m Hw Hu. apply roundtrip_client_msg_bytes; [exact Hw | now apply text_ok_cmsg]. Qed.
Print Assumptions C10T_roundtrip_client_msg_bytes.

(** the encodings of protocol values are always printable when their strings are *)
Theorem C10T_encodings_printable : forall v, utf8_wvalb v = true -> text_ok (enc_wval v) = true.
Proof. exact text_ok_wval. Qed.

(** for every accepted text, decode-encode-decode yields the same value as decode *)
Theorem C10T_decode_encode_decode_bytes : forall t b v,
  decode_bytes t b = Val v -> parse_json (fuel_of b) b <> Some JNull -> text_ok (enc_wval v) = true ->
  decode_bytes t (print_json (enc_wval v)) = Val v.
Proof. exact decode_encode_decode_bytes. Qed.
Print Assumptions C10T_decode_encode_decode_bytes.

(* ------------------------------------------------------------------ *)
(** Non-vacuity: the model on concrete texts. *)

Import String.   (* for the %string delimiter only; placed after the statements so that [length] above is List.length *)
Local Notation "$ s" := (str_of_string s%string) (at level 0).
Definition bs_u : str := [92; 117].     (* backslash, u *)

(** a REQ with odd white space (space, tab, LF, CR) between the tokens and a
    backslash-u escape (0041, the letter A) in the subscription id *)
Definition ex_req_text : str :=
  $" [ ""REQ"" ," ++ [9] ++ $"""s" ++ bs_u ++ $"0041""" ++ [10] ++
  $", { ""kinds"" : [ 1 ] , ""limit"":2 } ]" ++ [13; 10].

Example C10T_example_req :
  parse_client_msg_bytes ex_req_text =
  Val (CReq $"sA" [Some (mkGFilter None None (Some [1%Z]) None None None (Some 2%Z))]) /\
  label_match ex_req_text = Some $"REQ" /\ utf8_valid ex_req_text = true /\ json_valid ex_req_text = true.
Proof. vm_compute. repeat split. Qed.

(** the same label spelled with an escape is valid JSON but is not matched by the pattern *)
Example C10T_example_escaped_label :
  let b := $"[""" ++ bs_u ++ $"0052EQ"",""s"",{}]" in
  json_valid b = true /\ label_match b = None /\ parse_client_msg_bytes b = Err /\
  option_map ct_label_escaped (ctext_of_bytes b) = Some true.
Proof. vm_compute. repeat split. Qed.

(** duplicate member names are kept in order; Codec reads them as Go's map does (last wins) *)
Example C10T_example_duplicate_keys :
  parse_json 40 $"{""a"":1,""b"":2,""a"":3}" =
    Some (JObj [($"a", JNum (NInt false 1)); ($"b", JNum (NInt false 2)); ($"a", JNum (NInt false 3))]) /\
  option_map (fun j => match j with JObj m => obj_get $"a" m | _ => None end)
             (parse_json 40 $"{""a"":1,""b"":2,""a"":3}") = Some (Some (JNum (NInt false 3))) /\
  parse_client_msg_bytes $"[""REQ"",""s"",{""limit"":1,""limit"":7}]" =
    Val (CReq $"s" [Some (mkGFilter None None None None None None (Some 7%Z))]).
Proof. vm_compute. repeat split. Qed.

(** a 30-digit integer literal keeps its magnitude; it is refused as an int64 *)
Example C10T_example_30_digits :
  parse_json 40 $"-123456789012345678901234567890" = Some (JNum (NInt true 123456789012345678901234567890)) /\
  parse_json 40 (print_json (JNum (NInt true 123456789012345678901234567890))) =
    Some (JNum (NInt true 123456789012345678901234567890)) /\
  parse_client_msg_bytes $"[""REQ"",""s"",{""limit"":123456789012345678901234567890}]" = Err /\
  parse_json 10 $"1.50e+3" = Some (JNum NFrac) /\ parse_json 10 $"-0" = Some (JNum (NInt true 0)) /\
  parse_json 10 $"01" = None /\ parse_json 10 $"1." = None /\ parse_json 10 $".5" = None /\
  parse_json 10 $"+1" = None /\ parse_json 10 $"1e" = None /\ parse_json 10 $"-" = None.
Proof. vm_compute. repeat split. Qed.

(** a surrogate pair is one code point (U+1F600 = F0 9F 98 80); a lone or
    reversed surrogate becomes U+FFFD (EF BF BD), six bytes at a time *)
Example C10T_example_surrogates :
  parse_json 40 ($"""" ++ bs_u ++ $"d83d" ++ bs_u ++ $"DE00""") = Some (JStr [240; 159; 152; 128]) /\
  parse_json 40 ($"""" ++ bs_u ++ $"d83dx""") = Some (JStr [239; 191; 189; 120]) /\
  parse_json 40 ($"""" ++ bs_u ++ $"de00" ++ bs_u ++ $"d83d""") = Some (JStr [239; 191; 189; 239; 191; 189]) /\
  parse_json 40 ($"""" ++ bs_u ++ $"d83d" ++ bs_u ++ $"0041""") = Some (JStr [239; 191; 189; 65]).
Proof. vm_compute. repeat split. Qed.

(** raw bytes: a valid sequence is copied, every other byte >= 0x80 becomes
    U+FFFD; such a text is valid JSON but not valid UTF-8 (the relay's gate
    refuses it); a control byte inside a string is an error *)
Example C10T_example_invalid_utf8 :
  parse_json 40 [34; 195; 169; 255; 226; 130; 34] =
    Some (JStr [195; 169; 239; 191; 189; 239; 191; 189; 239; 191; 189]) /\
  json_valid [34; 255; 34] = true /\ utf8_valid [34; 255; 34] = false /\ frame_ok [34; 255; 34] = false /\
  utf8_valid [237; 160; 128] = false /\ utf8_valid [237; 159; 191] = true /\
  utf8_valid [244; 143; 191; 191] = true /\ utf8_valid [244; 144; 128; 128] = false /\
  utf8_valid [192; 175] = false /\
  json_valid [34; 10; 34] = false /\ json_valid [34; 127; 34] = true.
Proof. vm_compute. repeat split. Qed.

(** the printer escapes as json.Marshal does, and the text reads back *)
Example C10T_example_print :
  print_json (JArr [JStr [60; 34; 92; 10; 1; 226; 128; 168; 195; 169]; JObj [($"k", JNull)]; JBool true]) =
    $"[""" ++ bs_u ++ $"003c\""\\\n" ++ bs_u ++ $"0001" ++ bs_u ++ $"2028" ++ [195; 169] ++ $""",{""k"":null},true]" /\
  text_ok (JArr [JStr [60; 34; 92; 10; 1; 226; 128; 168; 195; 169]; JObj [($"k", JNull)]; JBool true]) = true.
Proof. vm_compute. repeat split. Qed.

(** trailing text, nesting, and the whole-input requirement *)
Example C10T_example_structure :
  json_valid $"[] x" = false /\ json_valid $" [ ] " = true /\ json_valid $"[1,]" = false /\
  json_valid $"" = false /\ json_valid $"nul" = false /\ json_valid $"NaN" = false /\
  json_valid ([239; 187; 191] ++ $"[]") = false /\ json_valid ([12] ++ $"[]") = false /\
  json_valid (repeat 91 300 ++ repeat 93 300) = true /\ json_valid (repeat 91 300 ++ repeat 93 299) = false.
Proof. vm_compute. repeat split. Qed.

(** a decorated value: [ LF "a" TAB , SP { CR "k" SP : SP SP 1 LF } SP ] *)
Example C10T_example_whitespace :
  let x := WArr [10] [([], WAtom (JStr $"a"), [9]);
                      ([32], WObj [13] [([], $"k", [32], [32; 32], WAtom (JNum (NInt false 1)), [10])], [32])] in
  wprint x = [91; 10] ++ $"""a""" ++ [9] ++ $", {" ++ [13] ++ $"""k"" :  1" ++ [10] ++ $"} ]" /\
  ws_okb x = true /\ erase x = JArr [JStr $"a"; JObj [($"k", JNum (NInt false 1))]] /\
  parse_json (fuel_of (wprint x)) (wprint x) = Some (erase x).
Proof. vm_compute. repeat split. Qed.

(** the hypotheses of the round-trip theorem are satisfiable on a non-trivial value *)
Definition ex_event_t : gevent :=
  mkGEvent $"id" $"pk" 1700000000 30023
    (Some [Some [$"e"; [120; 195; 169; 34; 10]]; Some [$"d"; []]; Some []]) [60; 240; 159; 152; 128; 92] $"sig".

Example C10T_example_roundtrip :
  wf_wval (WS (SEvent $"sub" (Some ex_event_t))) /\ utf8_wvalb (WS (SEvent $"sub" (Some ex_event_t))) = true /\
  decode_bytes TSEvent (print_json (enc_wval (WS (SEvent $"sub" (Some ex_event_t))))) =
    Val (WS (SEvent $"sub" (Some ex_event_t))).
Proof. vm_compute. repeat split. Qed.
