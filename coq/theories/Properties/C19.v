(* C19 — the Prometheus middleware is transparent; its gauges and counters
   equal what happened.  Statements only.

   [run h = POk st]: the model of middleware/prometheus/prometheus.go (an
   interpreter of the tables regenerated from the source, Gen/GenProm.v) has
   executed the history [h] — a list of atomic steps Start / End / Client /
   Server of any number of sessions in any interleaving — and reached [st].
   [wf h]: every step of a session lies between its Start and its End. *)
From Moc Require Import Base Prom PromProofs.
Open Scope Z_scope.
Import Coq.Strings.String.StringSyntax.

(** a well-formed history never panics (no write to a nil inner map) *)
Theorem C19_no_panic : forall h, wf h -> exists st, run h = POk st.
Proof. exact run_no_panic. Qed.
Print Assumptions C19_no_panic.

(** the connection gauge is the number of sessions started and not ended:
    the cardinality of any duplicate-free enumeration of the live sessions *)
Theorem C19_conn_gauge_eq : forall h st,
  wf h -> run h = POk st ->
  forall L, NoDup L -> (forall s, In s L <-> live h s) -> p_conn st = Z.of_nat (length L).
Proof. exact conn_gauge_eq. Qed.
Print Assumptions C19_conn_gauge_eq.

(** the subscription gauge is the number of subscriptions opened by REQ and not
    yet ended by CLOSE, CLOSED or the end of their session *)
Theorem C19_req_gauge_eq : forall h st,
  wf h -> run h = POk st ->
  forall L, NoDup L -> (forall s sub, In (s, sub) L <-> sub_open h s sub) ->
  p_req st = Z.of_nat (length L).
Proof. exact req_gauge_eq. Qed.
Print Assumptions C19_req_gauge_eq.

(** reqCounter.m is exactly: live sessions |-> their open subscriptions *)
Theorem C19_open_is_spec : forall h st,
  wf h -> run h = POk st ->
  (forall s, zget s (p_open st) <> None <-> live h s) /\
  (forall s sub, (exists l, zget s (p_open st) = Some l /\ In sub l) <-> sub_open h s sub).
Proof. exact open_is_spec. Qed.
Print Assumptions C19_open_is_spec.

(** per-type counters (client side incl. UNDEFINED, server side incl.
    UNDEFINED) and the per-kind event counter equal the numbers of messages *)
Theorem C19_counters_eq : forall h st,
  wf h -> run h = POk st ->
  forall l, cv_get l (p_recv st) = Z.of_nat (n_recv h l) /\
            cv_get l (p_kind st) = Z.of_nat (n_kind h l) /\
            cv_get l (p_send st) = Z.of_nat (n_send h l).
Proof. exact counters_eq. Qed.
Print Assumptions C19_counters_eq.

(** what the inner handler receives of a session is what the client sent, and
    what the client receives is what the inner handler sent: same messages,
    same order, nothing added, nothing dropped *)
Theorem C19_prom_transparent : forall h s,
  handler_view s (trace h) = client_sent s h /\ client_view s (trace h) = server_sent s h.
Proof. exact prom_transparent. Qed.
Print Assumptions C19_prom_transparent.

(** the oracle used by the correspondence check computes the same numbers *)
Theorem C19_gauges_eq_oracle : forall h st,
  wf h -> run h = POk st ->
  p_conn st = Z.of_nat (length (live_list h)) /\ p_req st = Z.of_nat (length (open_list h)).
Proof. exact gauges_eq_oracle. Qed.
Print Assumptions C19_gauges_eq_oracle.

Theorem C19_liveb_is_live : forall h s, liveb h s = true <-> live h s.
Proof. exact liveb_spec. Qed.
Theorem C19_sub_openb_is_sub_open : forall h s sub, sub_openb h s sub = true <-> sub_open h s sub.
Proof. exact sub_openb_spec. Qed.
Theorem C19_wfb_sound : forall h, wfb h = true -> wf h.
Proof. exact wfb_sound. Qed.

(** an open subscription belongs to a live session *)
Theorem C19_open_live : forall h, wf h -> forall s sub, sub_open h s sub -> live h s.
Proof. exact open_live. Qed.

(** every method of reqCounter takes c.mu (deferred unlock) before touching the
    map or the gauge: the atomicity the step granularity relies on *)
Theorem C19_req_counter_locked : all_locked = true.
Proof. exact all_locked_spec. Qed.
Print Assumptions C19_req_counter_locked.

(** the key under which a session's subscriptions are filed is a fresh uuid
    (ServeNostrStart: [reqID := uuid.NewString(); ctx = setRequestID(ctx, reqID)]
    and nothing else beside the dispatches), so that a history of the
    implementation is a well-formed history of the model: a key is live at
    most once at a time, whatever the clients send *)
Theorem C19_session_key_fresh : session_key_fresh = true.
Proof. exact session_key_fresh_spec. Qed.
Print Assumptions C19_session_key_fresh.

(** the hypotheses are satisfiable on a non-trivial history *)
Example C19_example :
  wf ex_hist /\ wf (ex_hist ++ [End 2]) /\
  exists st st', run ex_hist = POk st /\ p_conn st = 2 /\ p_req st = 2 /\
                 run (ex_hist ++ [End 2]) = POk st' /\ p_conn st' = 1 /\ p_req st' = 1 /\
                 cv_get (sl "REQ") (p_recv st') = 5 /\ cv_get (sl "7") (p_kind st') = 1 /\
                 cv_get (sl "CLOSED") (p_send st') = 1.
Proof. destruct ex_hist_wf as [A B]. exact (conj A (conj B ex_hist_values)). Qed.
