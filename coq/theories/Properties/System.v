(* SYS — the relay that cmd/mocrelay/main.go assembles,

       prometheus( NewMergeHandler( NewCacheHandler(100), NewRouterHandler(100), sqliteHandler ) )

   as a composition of the component models (System.v).  Statements only; each
   is closed by a lemma of SystemProofs.v / SystemGateProofs.v and followed by
   Print Assumptions.  (An extension: SYS is not one of the 20 given properties.)

   Reading guide.
   - The composed system is generic in the store behind the SQLite handler:
     [db], [query], [insert_batch] (for the code: Sql.db, Sql.query,
     Sql.insert_batch — C06), the inserter's batch size [bulk], the router's
     [buflen], the cache capacity [cap].  The store's answers are GIVEN
     functions; so are the cache's ([Cache.c_find], C03).
   - A schedule [l : list label] resolves every interleaving: [LNext ord] the
     merge session reads the next client message and hands it to child 0, 1, 2
     ([ord]: the iteration order of the router's Go map); [LDel x] one pending
     reply of child [x] reaches the merge session (each child's own order is
     kept; [Src1M]: a direct reply of the router child overtakes queued live
     events); [LBg b] one step of the SQLite inserter.  EVERY list of labels
     is a schedule and every theorem below quantifies over all of them, with
     any number of client messages in flight.
   - [run .. l msgs = (s, t, o)]: the state reached, the history [t] of inputs
     of the merge session (client inputs and [Merge.Child i m]), and the
     client-side sequence [o].  [quiet s]: everything was read and delivered.
   - [sys_hyps]: what the admission gate guarantees ([SYS_gate_gives_hyps]):
     events carry no empty tag, filters are decoder-producible, the cache
     never returns an event with an empty tag, and the store satisfies an
     invariant [dbok] under which it returns only such events.
   - [y_dead s = false]: no goroutine has panicked; behind the gate this holds
     under every schedule ([SYS_no_panic]). *)
From Moc Require Import Base Match MatchProofs Msg Cache CacheInv CacheHyp CacheFacts Handlers HandlersReach
     System SystemProofs SystemGateProofs.
From Moc Require Merge MergeProofs Router Sql PromProofs.
From Moc.Gen Require Import GenProm.
Open Scope Z_scope.

Definition run (db : Type) query insert_batch bulk buflen cap (d0 : db) l msgs :=
  sys_exec db query insert_batch bulk buflen cap d0 l msgs.

Definition sys_hyps (db : Type) query insert_batch (dbok : db -> Prop) cap (d0 : db) (msgs : list cmsg) : Prop :=
  gated msgs /\ store_ok db query insert_batch dbok /\ dbok d0 /\ cache_gated_from (c_empty cap) msgs.

(* ------------------------------------------------------------------ *)
(** * The hypotheses are what the gate gives; the process never panics *)

Theorem SYS_gate_gives_hyps :
  forall (db : Type) query insert_batch (dbok : db -> Prop) cap (d0 : db) msgs,
    hist_ok (events_of msgs) -> Forall msg_ok msgs -> gated msgs ->
    store_ok db query insert_batch dbok -> dbok d0 ->
    sys_hyps db query insert_batch dbok cap d0 msgs.
Proof.
  intros db query ins dbok cap d0 msgs Hh Hok Hg Hs Hd. repeat split; auto; try apply Hs.
  now apply cache_gated_of_gate.
Qed.
Print Assumptions SYS_gate_gives_hyps.

Theorem SYS_no_panic :
  forall (db : Type) query insert_batch bulk buflen (dbok : db -> Prop) cap (d0 : db) msgs l,
    hist_ok (events_of msgs) -> Forall msg_ok msgs -> gated msgs ->
    store_ok db query insert_batch dbok -> dbok d0 ->
    y_dead (a_sys (run db query insert_batch bulk buflen cap d0 l msgs)) = false.
Proof. intros. eapply gate_keeps_alive; eauto. Qed.
Print Assumptions SYS_no_panic.

(** the client-side sequence is what the merge session (C08/C09's model, n = 3)
    makes of the history of its inputs *)
Theorem SYS_outputs_are_merge_outputs :
  forall (db : Type) query insert_batch bulk buflen (dbok : db -> Prop) cap (d0 : db) msgs l,
    sys_hyps db query insert_batch dbok cap d0 msgs ->
    y_dead (a_sys (run db query insert_batch bulk buflen cap d0 l msgs)) = false ->
    a_outs (run db query insert_batch bulk buflen cap d0 l msgs) =
    vis (Merge.outs (Merge.init 3) (a_trace (run db query insert_batch bulk buflen cap d0 l msgs))) /\
    Merge.trace_ok 3 (a_trace (run db query insert_batch bulk buflen cap d0 l msgs)) /\
    Merge.answers_in_order (a_trace (run db query insert_batch bulk buflen cap d0 l msgs)).
Proof.
  intros db query ins bulk buflen dbok cap d0 msgs l [Hg [Hs [Hd Hc]]] Ha. unfold run, sys_exec in *.
  pose proof (inv_run db query ins bulk buflen dbok cap d0 msgs Hg Hs Hd Hc l Ha) as I.
  split; [now apply run_outs|]. split; [exact (i_tok _ _ _ _ _ I) | exact (i_aio _ _ _ _ _ I)].
Qed.
Print Assumptions SYS_outputs_are_merge_outputs.

(* ------------------------------------------------------------------ *)
(** * SYS_event_one_ok

    For every schedule: never more OKs for an id than EVENTs read with that id;
    exactly one per EVENT once everything is delivered; and the j-th OK for [id]
    answers the j-th EVENT [id]: it accepts iff the cache handler's own j-th
    reply for [id] accepts — i.e. iff [EventCache.Add] reported the event as
    new (C16: [cache_base]; the router and the SQLite handler always accept) —
    and when it rejects, its text starts with the cache's [duplicate: ] prefix.
    (C09 with n = 3: [ok_le_events], [ok_exactly_one], [ok_at],
    [ok_merge_verdict].) *)
Theorem SYS_event_one_ok :
  forall (db : Type) query insert_batch bulk buflen (dbok : db -> Prop) cap (d0 : db) msgs l id,
    sys_hyps db query insert_batch dbok cap d0 msgs ->
    let a := run db query insert_batch bulk buflen cap d0 l msgs in
    y_dead (a_sys a) = false ->
    (count_occ_b (is_ok_id id) (a_outs a) <= count_occ_b (is_event_id id) (y_done (a_sys a)))%nat /\
    (quiet (a_sys a) -> count_occ_b (is_ok_id id) (a_outs a) = count_occ_b (is_event_id id) msgs) /\
    (forall sc R0, cache_session (c_empty cap) (y_done (a_sys a)) = Ok (sc, R0) ->
       forall j r, nth_error (ok_of id (a_outs a)) j = Some r ->
         exists c, nth_error (ok_of id R0) j = Some c /\
                   ok_acc_of r = ok_acc_of c /\
                   (ok_acc_of r = false -> exists tail, ok_text_of r = dup_prefix ++ already_have ++ tail)).
Proof.
  intros db query ins bulk buflen dbok cap d0 msgs l id [Hg [Hs [Hd Hc]]] a Ha.
  exact (event_one_ok db query ins bulk buflen dbok cap d0 msgs Hg Hs Hd Hc l id Ha).
Qed.
Print Assumptions SYS_event_one_ok.

(* ------------------------------------------------------------------ *)
(** * SYS_count_zero

    Every COUNT is answered by exactly one COUNT reply, and every COUNT reply
    is [COUNT sub 0] (all three children answer 0; C09: [cnt_le_requests],
    [count_exactly_one], [count_at], [cnt_merge_max]). *)
Theorem SYS_count_zero :
  forall (db : Type) query insert_batch bulk buflen (dbok : db -> Prop) cap (d0 : db) msgs l sub,
    sys_hyps db query insert_batch dbok cap d0 msgs ->
    let a := run db query insert_batch bulk buflen cap d0 l msgs in
    y_dead (a_sys a) = false ->
    (count_occ_b (is_cnt_sub sub) (a_outs a) <= count_occ_b (is_count_sub sub) (y_done (a_sys a)))%nat /\
    (quiet (a_sys a) -> count_occ_b (is_cnt_sub sub) (a_outs a) = count_occ_b (is_count_sub sub) msgs) /\
    (forall m, In m (a_outs a) -> is_cnt_sub sub m = true -> m = SCount sub 0 None).
Proof.
  intros db query ins bulk buflen dbok cap d0 msgs l sub [Hg [Hs [Hd Hc]]] a Ha.
  exact (count_zero db query ins bulk buflen dbok cap d0 msgs Hg Hs Hd Hc l sub Ha).
Qed.
Print Assumptions SYS_count_zero.

(* ------------------------------------------------------------------ *)
(** * SYS_req_stream

    A REQ whose subscription id is used by no other REQ of the history and is
    not closed afterwards.  The schedule is [l1 ++ LNext ord :: l2]: after [l1]
    the REQ is the next message; [a2] is the run from the moment it is read.
    Let [A0] be the cache's answer and [A2] the store's answer AT THAT MOMENT.
    Then, under every schedule:
      - at most one merged EOSE; if it has been sent, every one of the three
        children had delivered its own EOSE before; once everything is
        delivered there is exactly one;
      - as long as the merged EOSE has not been sent, the events the client has
        received for the subscription match the filters, are pairwise distinct
        (as (created_at, id)), arrive in non-increasing created_at, and each
        of them is in [A0] or in [A2] — nothing is invented, and no live event
        slips in (the router child's EOSE precedes its live events).
    (C08 with n = 3: [eose_exactly_once], [pre_eose_match], [pre_eose_distinct],
    [pre_eose_sorted], the window simulation; C16's bases for the shape of the
    children's replies.)

    NOT guaranteed: completeness.  The merge session drops an event whose
    created_at is greater than that of the last event it looked at (a child's
    answer that arrives after another child's older events), so a stored,
    matching event can be missing from the merged answer:
    [SYS_req_incomplete_example].  This is an observation about the design of
    the merge handler, not a violation of a stated property. *)
Theorem SYS_req_stream :
  forall (db : Type) query insert_batch bulk buflen (dbok : db -> Prop) cap (d0 : db) msgs
         l1 ord l2 sub fs rest,
    sys_hyps db query insert_batch dbok cap d0 msgs ->
    let s1 := a_sys (run db query insert_batch bulk buflen cap d0 l1 msgs) in
    y_dead (a_sys (run db query insert_batch bulk buflen cap d0 (l1 ++ LNext ord :: l2) msgs)) = false ->
    y_in s1 = CReq sub fs :: rest ->
    (forall m, In m (y_done s1) -> is_req_sub sub m = false) ->
    (forall m, In m rest -> is_req_sub sub m = false /\ is_close_sub sub m = false) ->
    exists A0, c_find (y_cache s1) fs = Ok A0 /\
      let A2 := match query (sq_db (y_sq s1)) fs with Some evs => evs | None => [] end in
      let a2 := sys_exec_from db query insert_batch bulk buflen s1 (LNext ord :: l2) in
      (count_occ_b (is_eose_sub sub) (a_outs a2) <= 1)%nat /\
      (In (SEose sub) (a_outs a2) ->
         forall i, (i < 3)%nat -> In (Merge.Child i (Merge.SEose sub)) (a_trace a2)) /\
      (quiet (a_sys a2) -> count_occ_b (is_eose_sub sub) (a_outs a2) = 1%nat) /\
      (count_occ_b (is_eose_sub sub) (a_outs a2) = 0%nat ->
         (forall e, In e (events_for sub (a_outs a2)) -> matches_spec e fs) /\
         NoDup (List.map MergeProofs.ev_key (events_for sub (a_outs a2))) /\
         Merge.ts_noninc (events_for sub (a_outs a2)) /\
         (forall e, In e (events_for sub (a_outs a2)) -> In e A0 \/ In e A2)).
Proof.
  intros db query ins bulk buflen dbok cap d0 msgs l1 ord l2 sub fs rest [Hg [Hs [Hd Hc]]] s1 Ha Hin Hf Hr.
  exact (req_stream db query ins bulk buflen dbok cap d0 msgs Hg Hs Hd Hc l1 ord l2 sub fs rest Ha Hin Hf Hr).
Qed.
Print Assumptions SYS_req_stream.

(* ------------------------------------------------------------------ *)
(** * SYS_live_after_eose

    [l0]: up to the REQ; [LNext ord0 :: l1]: the REQ is read and, during [l1],
    the merged EOSE reaches the client; then an EVENT that matches the filters
    is the next message; [LNext ord :: l2]: it is read (published) and, if the
    router's queue had room and is empty again at the end, the client has
    received the event labelled with the subscription id — provided no REQ or
    CLOSE for that id was read in between.  (C07: [visit_loop_spec]; C08:
    [post_eose_passthrough].) *)
Theorem SYS_live_after_eose :
  forall (db : Type) query insert_batch bulk buflen (dbok : db -> Prop) cap (d0 : db) msgs
         l0 ord0 l1 ord l2 sub fs e rest0 rest1,
    sys_hyps db query insert_batch dbok cap d0 msgs ->
    let s0 := a_sys (run db query insert_batch bulk buflen cap d0 l0 msgs) in
    let a1 := sys_exec_from db query insert_batch bulk buflen s0 (LNext ord0 :: l1) in
    let a2 := sys_exec_from db query insert_batch bulk buflen (a_sys a1) (LNext ord :: l2) in
    y_dead (a_sys (run db query insert_batch bulk buflen cap d0 (l0 ++ (LNext ord0 :: l1) ++ LNext ord :: l2) msgs)) = false ->
    y_in s0 = CReq sub fs :: rest0 ->
    (forall m, In m rest0 -> is_req_sub sub m = false /\ is_close_sub sub m = false) ->
    In (SEose sub) (a_outs a1) ->
    y_in (a_sys a1) = CEvent e :: rest1 ->
    Router.sub_matches e fs = true ->
    (queued (a_sys a1) + length (y_subs (a_sys a1)) <= buflen)%nat ->
    filter smsg_is_event (y_p1 (a_sys a2)) = [] ->
    In (SEvent sub e) (a_outs a2).
Proof.
  intros db query ins bulk buflen dbok cap d0 msgs l0 ord0 l1 ord l2 sub fs e rest0 rest1 [Hg [Hs [Hd Hc]]].
  exact (live_after_eose db query ins bulk buflen dbok cap d0 msgs Hg Hs Hd Hc l0 ord0 l1 ord l2 sub fs e rest0 rest1).
Qed.
Print Assumptions SYS_live_after_eose.

(** the router's test is the NIP-01 predicate of C02 (C07_match_is_nip01) *)

(* ------------------------------------------------------------------ *)
(** * SYS_close_silent

    Reading a CLOSE gives the client nothing and no child replies to it; from
    then on no merged EOSE is sent for the subscription (until a new REQ uses
    the id); and if nothing labelled with the id was still on its way when the
    CLOSE was read, no event for it reaches the client either (the router child
    has dropped the subscription).
    What does NOT hold: an event that WAS on its way is not stopped — after
    CLOSE the merge session has no entry for the id and lets it through
    unfiltered: [SYS_close_inflight_passes_example]. *)
Theorem SYS_close_silent :
  forall (db : Type) query insert_batch bulk buflen (dbok : db -> Prop) cap (d0 : db) msgs
         l1 ord l2 sub rest,
    sys_hyps db query insert_batch dbok cap d0 msgs ->
    let s1 := a_sys (run db query insert_batch bulk buflen cap d0 l1 msgs) in
    let a2 := sys_exec_from db query insert_batch bulk buflen s1 (LNext ord :: l2) in
    y_dead (a_sys (run db query insert_batch bulk buflen cap d0 (l1 ++ LNext ord :: l2) msgs)) = false ->
    y_in s1 = CClose sub :: rest ->
    (forall m, In m rest -> is_req_sub sub m = false) ->
    (forall s' t1 o1, sys_step db query insert_batch bulk buflen s1 (LNext ord) = (s', t1, o1) ->
       o1 = [] /\ y_p0 s' = y_p0 s1 /\ y_p1 s' = y_p1 s1 /\ y_p2 s' = y_p2 s1) /\
    count_occ_b (is_eose_sub sub) (a_outs a2) = 0%nat /\
    ((forall i z, In z (pend db s1 i) -> labelled sub z = false) -> events_for sub (a_outs a2) = []).
Proof.
  intros db query ins bulk buflen dbok cap d0 msgs l1 ord l2 sub rest [Hg [Hs [Hd Hc]]] s1 a2 Ha Hin Hr.
  exact (close_silent db query ins bulk buflen dbok cap d0 msgs Hg Hs Hd Hc l1 ord l2 sub rest Ha Hin Hr).
Qed.
Print Assumptions SYS_close_silent.

(* ------------------------------------------------------------------ *)
(** * SYS_prom_transparent

    The Prometheus middleware forwards every client message
    [g_prom_client_forward] times to the handler and every server message
    [g_prom_server_forward] times to the client (Prom.emits, regenerated from
    prometheus.go; C19: both are 1 and nothing else is emitted,
    [C19_prom_transparent]).  Wrapped in it, the composed relay shows the client
    exactly what it shows without it, under every schedule. *)
Theorem SYS_prom_transparent :
  forall (db : Type) query insert_batch bulk buflen cap (d0 : db) l msgs,
    prom_wrap g_prom_server_forward
      (sys_run db query insert_batch bulk buflen cap d0 l (prom_wrap g_prom_client_forward msgs)) =
    sys_run db query insert_batch bulk buflen cap d0 l msgs.
Proof.
  intros. destruct PromProofs.forward_spec as [-> ->]. now rewrite !prom_wrap_one.
Qed.
Print Assumptions SYS_prom_transparent.

(** and in C19's own terms: whatever the session does, the handler's view is
    what the client sent and the client's view is what the handler sent *)
Theorem SYS_prom_views : forall h s,
  Prom.handler_view s (Prom.trace h) = Prom.client_sent s h /\
  Prom.client_view s (Prom.trace h) = Prom.server_sent s h.
Proof. exact PromProofs.prom_transparent. Qed.
Print Assumptions SYS_prom_views.

(* ------------------------------------------------------------------ *)
(** * Non-vacuity: a concrete history on the relational store of Sql.v

    EVENT a; REQ s1 [{}]; EVENT a again; COUNT c1; CLOSE s1 — with cache
    capacity 100, router buflen 100, EventBulkInsertNum 1, the store of C06. *)
Definition xq (d : Sql.db) (fs : list rfilter) := Sql.query d fs Sql.NoLimit.
Definition xi (d : Sql.db) (b : list event) := Sql.insert_batch 0 d b.
Definition xrun := sys_run Sql.db xq xi 1 100 100 Sql.empty_db.
Definition xexec := sys_exec Sql.db xq xi 1 100 100 Sql.empty_db.

Definition hx (c : N) : str := repeat c 64.
Definition ex_pk : str := repeat 49%N 64.
Definition ex_sig : str := repeat 50%N 128.
Definition ex_a := mkEvent (hx 97) ex_pk 5 1 [] [104; 105]%N ex_sig.
Definition ex_b := mkEvent (hx 98) ex_pk 3 1 [] [] ex_sig.
Definition ex_c := mkEvent (hx 99) ex_pk 4 1 [] [] ex_sig.
Definition ex_s1 : str := [115; 49]%N.
Definition ex_c1 : str := [99; 49]%N.
Definition ex_all : list rfilter := [empty_filter].
Definition ex_msgs := [CEvent ex_a; CReq ex_s1 ex_all; CEvent ex_a; CCount ex_c1 ex_all; CClose ex_s1].
Definition d3 := [LDel Src0; LDel Src1; LDel Src2].
Definition ex_sched :=
  [LNext []] ++ d3 ++ [LBg BgRecv] ++
  [LNext []; LDel Src0; LDel Src2; LDel Src1; LDel Src0; LDel Src2] ++
  [LNext []; LDel Src1M; LDel Src2; LDel Src0; LDel Src1; LBg BgRecv] ++
  [LNext []] ++ d3 ++ [LNext []].

(** the first EVENT is accepted, the REQ gets the stored event once (cache and
    store both hold it) and one EOSE, the second EVENT is rejected as a
    duplicate — the router's OK overtakes the live copy ([Src1M]), which then
    reaches the open subscription —, the COUNT gets 0, the CLOSE nothing *)
Example SYS_example_run :
  xrun ex_sched ex_msgs =
  [SOk (hx 97) true [] []; SEvent ex_s1 ex_a; SEose ex_s1;
   SOk (hx 97) false [] (dup_prefix ++ already_have); SEvent ex_s1 ex_a; SCount ex_c1 0 None] /\
  quietb (a_sys (xexec ex_sched ex_msgs)) = true /\
  y_dead (a_sys (xexec ex_sched ex_msgs)) = false.
Proof. vm_compute. repeat split; reflexivity. Qed.

(** the hypotheses are satisfiable: a store of gated events, the same history *)
Definition toy_query (d : list event) (fs : list rfilter) : option (list event) :=
  Some (filter (fun e => matches_specb e fs) d).
Definition toy_insert (d b : list event) : list event := d ++ b.
Definition toy_ok (d : list event) : Prop := Forall tags_nonempty d.

Example SYS_example_hypotheses :
  sys_hyps (list event) toy_query toy_insert toy_ok 100 [] ex_msgs /\
  hist_ok (events_of ex_msgs) /\ Forall msg_ok ex_msgs.
Proof.
  assert (Hh : hist_ok (events_of ex_msgs)) by (apply hist_okb_spec; vm_compute; reflexivity).
  assert (Hok : Forall msg_ok ex_msgs) by (repeat constructor).
  assert (Hg : gated ex_msgs).
  { unfold gated, ex_msgs. repeat constructor; cbn; unfold tags_nonempty; cbn; constructor. }
  split; [|split; assumption].
  apply SYS_gate_gives_hyps; auto.
  - split.
    + intros d b Hd Hb. unfold toy_ok, toy_insert. apply Forall_app. now split.
    + intros d fs evs Hd E. unfold toy_query in E. inversion E; subst.
      apply Forall_forall. intros x Hx. apply filter_In in Hx as [Hx _].
      unfold toy_ok in Hd. rewrite Forall_forall in Hd. now apply Hd.
  - constructor.
Qed.

(* ------------------------------------------------------------------ *)
(** * What is NOT guaranteed (observations about the design, not violations)

    Completeness of the merged answer.  EVENT a (created_at 5), EVENT b (3),
    EVENT c (4), then REQ s1 [{}].  The background inserter has stored a and b
    but not yet c (c is in the handler's channel): the cache's answer is
    a, c, b, the store's is a, b.  If the store's answer reaches the merge
    session first, its last forwarded event is b (created_at 3); the cache's
    c (created_at 4) is newer than the last one and is dropped ("older first"
    rule of IsSendableEventMsg): the client gets a, b and EOSE — c, stored in
    the cache and matching, is missing.  Under the other order it gets a, c, b.
    (With the code's defaults — 1000 events or 2 minutes per batch — the store
    lags behind the cache all the time.) *)
Definition ex_msgs2 := [CEvent ex_a; CEvent ex_b; CEvent ex_c; CReq ex_s1 ex_all].
Definition ex_pre2 := [LNext []] ++ d3 ++ [LBg BgRecv; LNext []] ++ d3 ++ [LBg BgRecv; LNext []] ++ d3.
Definition ex_sched2 :=
  ex_pre2 ++ [LNext []; LDel Src2; LDel Src2; LDel Src2; LDel Src0; LDel Src0; LDel Src0; LDel Src0; LDel Src1].
Definition ex_sched2' :=
  ex_pre2 ++ [LNext []; LDel Src0; LDel Src0; LDel Src0; LDel Src0; LDel Src2; LDel Src2; LDel Src2; LDel Src1].

Example SYS_req_incomplete_example :
  c_find (y_cache (a_sys (xexec ex_pre2 ex_msgs2))) ex_all = Ok [ex_a; ex_c; ex_b] /\
  xq (sq_db (y_sq (a_sys (xexec ex_pre2 ex_msgs2)))) ex_all = Some [ex_a; ex_b] /\
  events_for ex_s1 (xrun ex_sched2 ex_msgs2) = [ex_a; ex_b] /\
  count_occ_b (is_eose_sub ex_s1) (xrun ex_sched2 ex_msgs2) = 1%nat /\
  quietb (a_sys (xexec ex_sched2 ex_msgs2)) = true /\
  events_for ex_s1 (xrun ex_sched2' ex_msgs2) = [ex_a; ex_c; ex_b].
Proof. vm_compute. repeat split; reflexivity. Qed.

(** In-flight events after CLOSE.  EVENT a; REQ s1 [{}]; CLOSE s1, where the
    CLOSE is read while the cache's and the store's answers to the REQ are
    still pending (only the router's EOSE has been delivered).  After the CLOSE
    both copies of a are let through, unfiltered and not de-duplicated. *)
Definition ex_msgs3 := [CEvent ex_a; CReq ex_s1 ex_all; CClose ex_s1].
Definition ex_pre3 := [LNext []] ++ d3 ++ [LBg BgRecv; LNext []; LDel Src1].
Definition ex_sched3 := ex_pre3 ++ [LNext []; LDel Src0; LDel Src2; LDel Src0; LDel Src2].

Example SYS_close_inflight_passes_example :
  y_in (a_sys (xexec ex_pre3 ex_msgs3)) = [CClose ex_s1] /\
  xrun ex_pre3 ex_msgs3 = [SOk (hx 97) true [] []] /\
  xrun ex_sched3 ex_msgs3 = [SOk (hx 97) true [] []; SEvent ex_s1 ex_a; SEvent ex_s1 ex_a] /\
  quietb (a_sys (xexec ex_sched3 ex_msgs3)) = true.
Proof. vm_compute. repeat split; reflexivity. Qed.

(** The single-connection router child agrees with Router.v's transition
    system run without interruption: REQ s1 [{}] then EVENT a on connection 0
    of the multi-connection model puts EOSE, the labelled copy and OK into the
    connection's flow, as [router_main] / [live_copies] say. *)
Example SYS_router_child_is_router_model :
  let s := Router.run (Router.r_init 100%nat)
             [Router.LOp 0%nat (Router.OReq ex_s1 ex_all); Router.LRun 0%nat; Router.LRun 0%nat; Router.LRun 0%nat;
              Router.LOp 0%nat (Router.OEvent ex_a); Router.LRun 0%nat; Router.LRun 0%nat; Router.LRun 0%nat; Router.LRun 0%nat;
              Router.LRun 0%nat; Router.LRun 0%nat; Router.LTake 0%nat; Router.LDeliver 0%nat] in
  List.map of_router (Router.c_out (Router.r_cs s 0%nat)) =
  router_main (CReq ex_s1 ex_all) ++
  router_main (CEvent ex_a) ++ router_live 100%nat [] (router_subs [CReq ex_s1 ex_all]) 0%nat (CEvent ex_a).
Proof. vm_compute. reflexivity. Qed.
