(* C11 — Admission: well-formed messages are accepted, accepted ones are sound.
   Statements only; each is closed by [exact] of a lemma proved in
   ValidProofs.v, ValidJsonProofs.v, ValidTheorems.v (and ValidHistory.v for
   the record of the defects found) and followed by Print Assumptions.

   Reading of the property.  "Well-formed under NIP-01" is [wf_json_cmsg] on
   the JSON value of the text (label, arity, member names and types, lowercase
   hex of the right length, kinds 0..65535, integer timestamps, non-negative
   since/until/limit with since <= until, one-letter tag filters with string
   values, #a values kind:pubkey:d for ANY d) resp. [wf_nip01] on the decoded
   message; "the constraints" are [constraints] (the same list without
   since <= until).  Insignificant white space includes white space before the
   opening bracket.  JSON null in place of a value, duplicate members and
   labels spelled with escapes are not claimed either way.

   All comparison guards of the validators, the arity and label tests, the
   kind range, the way validNaddr cuts its argument and the label pattern are
   regenerated from the source on every run (Gen/GenMsg.v, Gen/GenCodec.v): a
   regression of validKind, validNaddr or the pattern breaks
   [g_valid_kind_spec], [naddr_split_is_3] resp. [lead_ws_is_allowed]. *)
From Moc Require Import Base Json CodecMsg Codec CodecProofs Valid ValidProofs ValidJsonProofs ValidTheorems ValidHistory.
From Moc.Gen Require Import GenMsg GenCodec.
Open Scope Z_scope.

(* ================================================================== *)
(** * The property *)

(** every well-formed client message text is parsed and judged valid,
    whatever insignificant white space precedes it *)
Theorem C11_gate_complete : forall lead j,
  wf_json_cmsg false j = true -> gate_admits (mkCText lead false j) = true.
Proof. exact gate_complete_any_ws. Qed.
Print Assumptions C11_gate_complete.

(** conversely, whatever passes the gate is a completely filled message with
    the label of the text that breaks none of the constraints *)
Theorem C11_gate_sound : forall t,
  gate_admits t = true ->
  exists m, parse_client_msg t = Val m /\ wf_cmsg m /\
            first_label (ct_json t) = Some (label_of_cmsg m) /\ constraints m.
Proof. exact gate_sound. Qed.
Print Assumptions C11_gate_sound.

(** ValidClientMsg decides NIP-01 well-formedness of a message value exactly *)
Theorem C11_valid_is_wf : forall m, valid_client_msg m = wf_nip01b m.
Proof. exact valid_is_wf. Qed.
Print Assumptions C11_valid_is_wf.

(** no false rejection *)
Theorem C11_valid_complete : forall m, wf_nip01 m -> valid_client_msg m = true.
Proof. exact valid_complete. Qed.
Print Assumptions C11_valid_complete.

(** no unsound acceptance *)
Theorem C11_valid_sound : forall m, valid_client_msg m = true -> constraints m.
Proof. exact valid_sound. Qed.
Print Assumptions C11_valid_sound.

(** the kind guard is the range 0..65535 *)
Theorem C11_kind_guard : forall k, g_valid_kind k = true <-> kind_spec k.
Proof. intro k. rewrite g_valid_kind_spec. apply kind_specb_spec. Qed.
Print Assumptions C11_kind_guard.

(** validNaddr accepts exactly kind:pubkey:d, for any d (colons included) *)
Theorem C11_valid_naddr : forall s, valid_naddr s = true <-> naddr_spec s.
Proof. exact valid_naddr_iff. Qed.
Print Assumptions C11_valid_naddr.

(** white space before the opening bracket is irrelevant *)
Theorem C11_leading_ws_irrelevant : forall esc j,
  gate_admits (mkCText true esc j) = gate_admits (mkCText false esc j).
Proof. exact admit_leading_ws_irrelevant. Qed.
Print Assumptions C11_leading_ws_irrelevant.

(** the gate on the canonical text of a well-formed message value *)
Theorem C11_admit_complete : forall m, wf_nip01 m -> wf_cmsg m -> gate_admits (plain_text (enc_cmsg m)) = true.
Proof. exact admit_complete. Qed.
Print Assumptions C11_admit_complete.

(* ================================================================== *)
(** * Supporting statements (hold whatever the kind guard and the splitter are) *)

(** ValidClientMsg decides exactly the NIP-01 constraint list instantiated
    with the code's own kind guard and address validator (holds on every
    tree; the other hex/length/tag/time guards are characterised here). *)
Theorem C11_valid_char : forall m, valid_client_msg m = cmsg_okb g_valid_kind valid_naddr true m.
Proof. exact valid_char. Qed.
Print Assumptions C11_valid_char.

(** validHexString over Go's UTF-8 range loop: non-empty, lowercase hex bytes only *)
Theorem C11_valid_hex : forall s,
  valid_hex s = negb (Nat.eqb (length s) 0) && forallb lower_hex_char s.
Proof. exact valid_hex_spec. Qed.
Print Assumptions C11_valid_hex.

Theorem C11_valid_id : forall s, valid_id s = true <-> lower_hex 64 s.
Proof. intro s. rewrite valid_id_spec. apply hexb_lower_hex. Qed.
Theorem C11_valid_pubkey : forall s, valid_pubkey s = true <-> lower_hex 64 s.
Proof. intro s. rewrite valid_pubkey_spec. apply hexb_lower_hex. Qed.
Theorem C11_valid_sig : forall s, valid_sig s = true <-> lower_hex 128 s.
Proof. intro s. rewrite valid_sig_spec. apply hexb_lower_hex. Qed.
Theorem C11_valid_tag : forall t, valid_tag t = tag_okb t.
Proof. exact valid_tag_spec. Qed.

(** strconv.ParseInt(s, 10, 64) is the signed decimal numeral, when it fits *)
Theorem C11_parse_int10 : forall s,
  parse_int10 s = match numeral_value s with
                  | Some k => if int64_okb k then Some k else None
                  | None => None
                  end.
Proof. exact parse_int10_numeral. Qed.
Print Assumptions C11_parse_int10.

(** the boolean address predicate of the oracle is the declarative one:
    kind:pubkey:d with the kind a numeral in 0..65535, a pubkey, and ANY d *)
Theorem C11_naddr_spec_decided : forall s, naddr_specb s = true <-> naddr_spec s.
Proof. exact naddr_specb_spec. Qed.
Print Assumptions C11_naddr_spec_decided.

(** validNaddr under either way of cutting *)
Theorem C11_valid_naddr_split3 :
  g_naddr_split_n = 3 -> forall s, valid_naddr s = naddr_okb g_valid_kind s.
Proof. exact valid_naddr_split3. Qed.
Theorem C11_valid_naddr_splitall :
  g_naddr_split_n = -1 -> forall s, valid_naddr s = naddr_okb g_valid_kind s && d_colon_free s.
Proof. exact valid_naddr_splitall. Qed.
Print Assumptions C11_valid_naddr_splitall.

(** what passes the gate (parse, then validate) is a completely filled value
    with the label of the text *)
Theorem C11_gate_inv : forall t,
  gate_admits t = true ->
  exists m, parse_client_msg t = Val m /\ wf_cmsg m /\
            first_label (ct_json t) = Some (label_of_cmsg m) /\
            cmsg_okb g_valid_kind valid_naddr true m = true.
Proof. exact admit_inv. Qed.
Print Assumptions C11_gate_inv.

(** every text that is well-formed under NIP-01 (judged on its JSON value,
    members in any order; this is the predicate the correspondence oracle uses)
    is parsed, to a message that is well-formed under NIP-01 *)
Theorem C11_wf_json_parse : forall j,
  wf_json_cmsg false j = true ->
  exists m, parse_client_msg (plain_text j) = Val m /\ wf_nip01 m.
Proof. exact wf_json_parse. Qed.
Print Assumptions C11_wf_json_parse.

(** well-formed messages satisfy the constraints (the hypothesis adds since <= until) *)
Theorem C11_wf_implies_constraints : forall m, wf_nip01 m -> constraints m.
Proof. exact wf_nip01_constraints. Qed.

(* ------------------------------------------------------------------ *)
(** The hypotheses are satisfiable on non-trivial messages. *)

Definition ex_hex64 : str := repeat 97%N 64.    (* "aaa...a" *)
Definition ex_addr : str :=                     (* "30023:" ++ pk ++ ":a:b" — d contains ':' *)
  [51; 48; 48; 50; 51; 58]%N ++ ex_hex64 ++ [58; 97; 58; 98]%N.
Definition ex_event11 : gevent :=
  mkGEvent ex_hex64 ex_hex64 (-1) 65535 (Some [Some [[101]%N; [120]%N]; Some [[100]%N]]) [104]%N
    (ex_hex64 ++ ex_hex64).
Definition ex_filter11 : gfilter :=
  mkGFilter (Some [ex_hex64]) (Some []) (Some [0; 65535])
    (Some [(tn_a, Some [ex_addr]); ([116]%N, Some [[]])]) (Some 5) (Some 5) (Some 0).

Example C11_example_wf :
  wf_nip01 (CEvent (Some ex_event11)) /\ wf_nip01 (CReq [] [Some ex_filter11; Some empty_gfilter]) /\
  naddr_spec ex_addr.
Proof. split; [reflexivity|]. split; [reflexivity|]. apply naddr_specb_spec. reflexivity. Qed.

(** the former witnesses now come out right *)
Example C11_example_kind_rejected : valid_client_msg msg_kind_70000 = false.
Proof. reflexivity. Qed.
Example C11_example_colon_accepted : valid_client_msg msg_addr_colon = true /\ valid_naddr ex_addr = true.
Proof. split; reflexivity. Qed.
Example C11_example_leading_ws :
  gate_admits (mkCText true false (JArr [JStr L_CLOSE; JStr []])) = true.
Proof. reflexivity. Qed.

(* ================================================================== *)
(** * Record of the defects found by this check before the repairs
      (about explicit copies of the former guards; see ValidHistory.v) *)

Theorem C11_history_F1_kind_guard_accepted_everything : forall k, kind_guard_before k = true.
Proof. exact kind_guard_before_always. Qed.
Theorem C11_history_F1_soundness_was_refuted :
  cmsg_okb kind_guard_before naddr_before true msg_kind_70000 = true /\ constraintsb msg_kind_70000 = false.
Proof. exact valid_sound_was_refuted. Qed.
Theorem C11_history_F2_completeness_was_refuted :
  wf_nip01 msg_addr_colon /\ cmsg_okb kind_guard_before naddr_before true msg_addr_colon = false.
Proof. exact valid_complete_was_refuted. Qed.
Theorem C11_history_F2_address_was_refused : naddr_spec addr_colon_in_d /\ naddr_before addr_colon_in_d = false.
Proof. exact naddr_before_refuted. Qed.
Theorem C11_history_F10_anchored_pattern : str_eqb re_anchored re_lead_ws = false.
Proof. exact anchored_pattern_rejects_leading_ws. Qed.
Print Assumptions C11_history_F2_completeness_was_refuted.
