(* C11 — Admission: well-formed messages are accepted, accepted ones are sound.
   Statements only; each is closed by [exact] of a lemma proved in
   ValidProofs.v / ValidRefuted.v and followed by Print Assumptions.

   THE TREE AS IT STANDS.  Both directions of the property are REFUTED by
   genuine defects of /repo:
     F1  validKind is [0 <= kind || kind <= 65535]: every integer passes;
     F2  validNaddr cuts with strings.Split: a d part containing ':' is refused.
   This file states the refutations (witnesses) and the strongest partial
   theorems.  It compiles only against the defective guards; after the two
   repairs it is replaced by C11Fixed.v (full theorems). *)
From Moc Require Import Base Json CodecMsg Codec CodecProofs Valid ValidProofs ValidJsonProofs ValidRefuted.
From Moc.Gen Require Import GenMsg GenCodec.
Open Scope Z_scope.

(** ValidClientMsg decides exactly the NIP-01 constraint list instantiated
    with the code's own kind guard and address validator (holds on every
    tree; the other hex/length/tag/time guards are characterised here). *)
Theorem C11_valid_char : forall m, valid_client_msg m = cmsg_okb g_valid_kind valid_naddr true m.
Proof. exact valid_char. Qed.
Print Assumptions C11_valid_char.

(** validHexString over Go's UTF-8 range loop: non-empty, lowercase hex bytes only *)
Theorem C11_valid_hex : forall s,
  valid_hex s = negb (Nat.eqb (length s) 0) && forallb lower_hex_char s.
Proof. exact valid_hex_spec. Qed.
Print Assumptions C11_valid_hex.

Theorem C11_valid_id : forall s, valid_id s = true <-> lower_hex 64 s.
Proof. intro s. rewrite valid_id_spec. apply hexb_lower_hex. Qed.
Theorem C11_valid_pubkey : forall s, valid_pubkey s = true <-> lower_hex 64 s.
Proof. intro s. rewrite valid_pubkey_spec. apply hexb_lower_hex. Qed.
Theorem C11_valid_sig : forall s, valid_sig s = true <-> lower_hex 128 s.
Proof. intro s. rewrite valid_sig_spec. apply hexb_lower_hex. Qed.
Theorem C11_valid_tag : forall t, valid_tag t = tag_okb t.
Proof. exact valid_tag_spec. Qed.

(** strconv.ParseInt(s, 10, 64) is the signed decimal numeral, when it fits *)
Theorem C11_parse_int10 : forall s,
  parse_int10 s = match numeral_value s with
                  | Some k => if int64_okb k then Some k else None
                  | None => None
                  end.
Proof. exact parse_int10_numeral. Qed.
Print Assumptions C11_parse_int10.

(** the boolean address predicate of the oracle is the declarative one:
    kind:pubkey:d with the kind a numeral in 0..65535, a pubkey, and ANY d *)
Theorem C11_naddr_spec_decided : forall s, naddr_specb s = true <-> naddr_spec s.
Proof. exact naddr_specb_spec. Qed.
Print Assumptions C11_naddr_spec_decided.

(** validNaddr under either way of cutting *)
Theorem C11_valid_naddr_split3 :
  g_naddr_split_n = 3 -> forall s, valid_naddr s = naddr_okb g_valid_kind s.
Proof. exact valid_naddr_split3. Qed.
Theorem C11_valid_naddr_splitall :
  g_naddr_split_n = -1 -> forall s, valid_naddr s = naddr_okb g_valid_kind s && d_colon_free s.
Proof. exact valid_naddr_splitall. Qed.
Print Assumptions C11_valid_naddr_splitall.

(** what passes the gate (parse, then validate) is a completely filled value
    with the label of the text *)
Theorem C11_gate_inv : forall t,
  gate_admits t = true ->
  exists m, parse_client_msg t = Val m /\ wf_cmsg m /\
            first_label (ct_json t) = Some (label_of_cmsg m) /\
            cmsg_okb g_valid_kind valid_naddr true m = true.
Proof. exact admit_inv. Qed.
Print Assumptions C11_gate_inv.

(** every text that is well-formed under NIP-01 (judged on its JSON value,
    members in any order; this is the predicate the correspondence oracle uses)
    is parsed, to a message that is well-formed under NIP-01 *)
Theorem C11_wf_json_parse : forall j,
  wf_json_cmsg false j = true ->
  exists m, parse_client_msg (plain_text j) = Val m /\ wf_nip01 m.
Proof. exact wf_json_parse. Qed.
Print Assumptions C11_wf_json_parse.

(** well-formed messages satisfy the constraints (the hypothesis adds since <= until) *)
Theorem C11_wf_implies_constraints : forall m, wf_nip01 m -> constraints m.
Proof. exact wf_nip01_constraints. Qed.

(* ------------------------------------------------------------------ *)
(** The hypotheses are satisfiable on non-trivial messages. *)

Definition ex_hex64 : str := repeat 97%N 64.    (* "aaa...a" *)
Definition ex_addr : str :=                     (* "30023:" ++ pk ++ ":a:b" — d contains ':' *)
  [51; 48; 48; 50; 51; 58]%N ++ ex_hex64 ++ [58; 97; 58; 98]%N.
Definition ex_event11 : gevent :=
  mkGEvent ex_hex64 ex_hex64 (-1) 65535 (Some [Some [[101]%N; [120]%N]; Some [[100]%N]]) [104]%N
    (ex_hex64 ++ ex_hex64).
Definition ex_filter11 : gfilter :=
  mkGFilter (Some [ex_hex64]) (Some []) (Some [0; 65535])
    (Some [(tn_a, Some [ex_addr]); ([116]%N, Some [[]])]) (Some 5) (Some 5) (Some 0).

Example C11_example_wf :
  wf_nip01 (CEvent (Some ex_event11)) /\ wf_nip01 (CReq [] [Some ex_filter11; Some empty_gfilter]) /\
  naddr_spec ex_addr.
Proof. split; [reflexivity|]. split; [reflexivity|]. apply naddr_specb_spec. reflexivity. Qed.

(* ------------------------------------------------------------------ *)
(** Refutations on this tree. *)

Theorem C11_kind_guard_refuted : exists k, ~ kind_spec k /\ g_valid_kind k = true.
Proof. exact kind_guard_refuted. Qed.
Print Assumptions C11_kind_guard_refuted.

Theorem C11_kind_guard_accepts_everything : forall k, g_valid_kind k = true.
Proof. exact g_valid_kind_always. Qed.

(** soundness fails: a message judged valid breaks a constraint (kind 70000) *)
Theorem C11_valid_sound_refuted : exists m, valid_client_msg m = true /\ ~ constraints m.
Proof. exact valid_sound_refuted. Qed.
Print Assumptions C11_valid_sound_refuted.

(** completeness fails: a well-formed message is judged invalid (#a value with d = "x:y") *)
Theorem C11_valid_complete_refuted : exists m, wf_nip01 m /\ valid_client_msg m = false.
Proof. exact valid_complete_refuted. Qed.
Print Assumptions C11_valid_complete_refuted.

Theorem C11_naddr_refuted : exists s, naddr_spec s /\ valid_naddr s = false.
Proof. exact naddr_refuted. Qed.

(** What holds: soundness up to kind ranges, completeness up to ':' in d. *)
Theorem C11_valid_sound_partial : forall m,
  valid_client_msg m = true ->
  cmsg_okb (fun _ => true) (naddr_okb (fun _ => true)) false m = true.
Proof. exact valid_sound_partial. Qed.
Print Assumptions C11_valid_sound_partial.

Theorem C11_valid_complete_partial : forall m,
  cmsg_okb kind_specb (fun s => naddr_specb s && d_colon_free s) true m = true ->
  valid_client_msg m = true.
Proof. exact valid_complete_partial. Qed.
Print Assumptions C11_valid_complete_partial.
