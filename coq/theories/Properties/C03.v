(* C03 — placeholder while the proofs are being written: a computed sanity
   example only.  The theorems of DESIGN.md section 4 C03 replace this file. *)
From Moc Require Import Base Match Cache CacheSpec.
Open Scope Z_scope.

Example C03_sanity :
  let e1 := mkEvent [1]%N [9]%N 3 1 [] [] [] in
  let e2 := mkEvent [2]%N [9]%N 4 1 [] [] [] in
  c_listing (c_run 1 [e1; e2]) = [e2].
Proof. vm_compute. reflexivity. Qed.
