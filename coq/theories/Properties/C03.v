(* C03 — In-memory store: each query equals the filter spec over the retained
   set; the answer does not depend on the access path.

   Statements only; each is closed by [exact] of a lemma proved in
   CacheFindFacts.v / CacheFindProofs.v and followed by Print Assumptions.

   Standing hypotheses.
   * [Inv s]: the representation invariant of CacheInv.v (every state reached
     by a history with functional ids satisfies it — proved in the invariant
     files, not here).
   * [filter_ok f]: the tag map is nil, or non-empty with single-letter names
     — what ParseReqFilter produces ("#x" keys, stored as k[1:2]).  Both
     restrictions are necessary: see [C03_empty_tag_map_panics] and
     [C03_long_tag_name_paths_differ] below.
   * No hypothesis on limits: a limit <= 0 returns nothing on both paths
     ([Z.to_nat] of a non-positive number is 0).
   * [c_find] needs no hypothesis on the events' tags: the cache calls Match
     only with filters without a tag map.  The comparison with the ordered
     scan under the *full* matcher (C03_paths_agree) needs events without
     empty tags and distinct tag-map keys ([filter_wf]), as in C02. *)
From Coq Require Import List ZArith Permutation Sorted.
From Moc Require Import Base Match MatchProofs Cache CacheSpec CacheInv CacheFindFacts CacheFindProofs.
From Moc.Gen Require Import GenCache.
Import ListNotations.
Open Scope Z_scope.

(* ------------------------------------------------------------------ *)
(** * Guards used by the query path (one characterising lemma each) *)

Theorem C03_guard_created_key_lt : forall ats aid bts bid,
  g_created_key_lt ats aid bts bid = true <->
  (bts < ats \/ (bts = ats /\ str_ltb bid aid = true)).
Proof. exact g_created_key_lt_spec. Qed.
Print Assumptions C03_guard_created_key_lt.

Theorem C03_guard_index_over_limit : forall c l, g_index_over_limit c l = true <-> l < c.
Proof. exact g_index_over_limit_spec. Qed.
Print Assumptions C03_guard_index_over_limit.

Theorem C03_guard_full_scan : forall i a k t,
  g_full_scan i a k t = true <-> i = false /\ a = false /\ k = false /\ t = false.
Proof. exact g_full_scan_spec. Qed.
Print Assumptions C03_guard_full_scan.

(** the tree comparison is a strict total order on (created_at, id) that
    refines non-increasing created_at *)
Theorem C03_tree_order : forall a b c,
  tkey_lt a a = false /\
  (tkey_lt a b = true -> tkey_lt b c = true -> tkey_lt a c = true) /\
  (tkey_lt a b = false -> tkey_lt b a = false -> ev_ts a = ev_ts b /\ ev_id a = ev_id b) /\
  (tkey_lt a b = true -> ev_ts b <= ev_ts a).
Proof. exact tkey_order. Qed.
Print Assumptions C03_tree_order.

(* ------------------------------------------------------------------ *)
(** * 1. [tree_set] is an order-preserving set insertion; the insertion order
        is irrelevant.  [keys_functional l]: the events of [l] have pairwise
        distinct (created_at, id) keys (two with the same key are equal);
        implied by functional ids, hence by [Inv] for the retained events. *)

Theorem C03_keys_functional_from_ids : forall l, ids_functional l -> keys_functional l.
Proof. exact idsf_keyf. Qed.
Print Assumptions C03_keys_functional_from_ids.

Theorem C03_retained_keys_functional : forall s, Inv s -> keys_functional (c_tree s).
Proof. exact inv_tree_keyf. Qed.
Print Assumptions C03_retained_keys_functional.

Theorem C03_tree_set_sorted : forall e t,
  StronglySorted (fun a b => tkey_lt a b = true) t ->
  StronglySorted (fun a b => tkey_lt a b = true) (tree_set e t).
Proof. exact tree_set_sorted. Qed.
Print Assumptions C03_tree_set_sorted.

Theorem C03_tree_set_is_set_insertion : forall e t y,
  keys_functional (e :: t) -> (In y (tree_set e t) <-> y = e \/ In y t).
Proof. exact tree_set_set_insert. Qed.
Print Assumptions C03_tree_set_is_set_insertion.

Theorem C03_tree_set_commutes : forall a b t,
  keys_functional (a :: b :: t) ->
  StronglySorted (fun x y => tkey_lt x y = true) t ->
  tree_set a (tree_set b t) = tree_set b (tree_set a t).
Proof. exact tree_set_comm. Qed.
Print Assumptions C03_tree_set_commutes.

(** inserting a list in any order into a sorted tree gives the same sorted
    tree, whose elements are the union *)
Theorem C03_insertion_order_irrelevant : forall l l' acc,
  keys_functional (l ++ acc) ->
  StronglySorted (fun x y => tkey_lt x y = true) acc ->
  Permutation l l' ->
  fold_left (fun a x => tree_set x a) l acc = fold_left (fun a x => tree_set x a) l' acc /\
  StronglySorted (fun x y => tkey_lt x y = true) (fold_left (fun a x => tree_set x a) l acc) /\
  (forall y, In y (fold_left (fun a x => tree_set x a) l acc) <-> In y l \/ In y acc).
Proof. exact insertion_order_irrelevant. Qed.
Print Assumptions C03_insertion_order_irrelevant.

(** sorted lists are canonical: same elements, same list *)
Theorem C03_sorted_lists_canonical : forall l1 l2,
  StronglySorted (fun x y => tkey_lt x y = true) l1 ->
  StronglySorted (fun x y => tkey_lt x y = true) l2 ->
  (forall x, In x l1 <-> In x l2) -> l1 = l2.
Proof. exact tsorted_ext. Qed.
Print Assumptions C03_sorted_lists_canonical.

(* ------------------------------------------------------------------ *)
(** * 2. The scan path: a top-n set *)

(** a full-scan filter yields the first [limit] elements of the tree that
    satisfy since/until (all of them without a limit) *)
Theorem C03_scan_topn : forall s f,
  Inv s ->
  g_full_scan (isSome (f_ids f)) (isSome (f_authors f)) (isSome (f_kinds f)) (isSome (f_tags f)) = true ->
  scan_loop (c_tree s) (lm_new f) [] =
  Ok (take_limit (f_limit f) (filter (fun x => match_specb x (time_only f)) (c_tree s))).
Proof. exact scan_full_topn'. Qed.
Print Assumptions C03_scan_topn.

(** ... and, run against an accumulated tree, it adds exactly those *)
Theorem C03_scan_adds_topn : forall s f acc,
  Inv s ->
  g_full_scan (isSome (f_ids f)) (isSome (f_authors f)) (isSome (f_kinds f)) (isSome (f_tags f)) = true ->
  scan_loop (c_tree s) (lm_new f) acc =
  Ok (fold_left (fun a x => tree_set x a)
                (take_limit (f_limit f) (filter (fun x => match_specb x f) (c_tree s))) acc).
Proof. exact scan_full_acc. Qed.
Print Assumptions C03_scan_adds_topn.

(* ------------------------------------------------------------------ *)
(** * 3. The index path *)

(** the union of the index entries of one condition: the retained events
    having one of its keys *)
Theorem C03_idx_union_is_key_set : forall s, Inv s -> forall keys e,
  In e (idx_union (c_idx s) keys) <->
  In e (retained s) /\ exists k, In k keys /\ has_ikey k e = true.
Proof. exact idx_union_spec. Qed.
Print Assumptions C03_idx_union_is_key_set.

Theorem C03_sort_by_len_permutes : forall l, Permutation (sort_by_len l) l.
Proof. exact sort_by_len_perm. Qed.
Print Assumptions C03_sort_by_len_permutes.

(** the successive intersection of the condition sets taken in ANY order is
    the set of retained events satisfying ids, authors, kinds and every tag
    condition (the filter without since/until/limit) *)
Theorem C03_intersection_any_order : forall s, Inv s -> forall f sets c,
  filter_ok f ->
  g_full_scan (isSome (f_ids f)) (isSome (f_authors f)) (isSome (f_kinds f)) (isSome (f_tags f)) = false ->
  Permutation sets (map (idx_union (c_idx s)) (ikeys_of_filter f)) ->
  inter_all sets = Some c ->
  NoDup c /\ forall e, In e c <-> In e (retained s) /\ match_specb e (strip_time f) = true.
Proof. exact index_cands_any_order. Qed.
Print Assumptions C03_intersection_any_order.

(** bounded insertion of a duplicate-free candidate list: the top-[limit]
    (in tree order) of the candidates passing since/until ... *)
Theorem C03_bounded_insert_topn : forall s, Inv s -> forall f limit cands,
  NoDup cands -> incl cands (c_tree s) ->
  bounded_insert cands (time_only f) limit [] 0 =
  Ok (firstn (Z.to_nat limit)
             (filter (fun y => eset_mem y cands && match_specb y (time_only f)) (c_tree s))).
Proof. exact bounded_insert_topn. Qed.
Print Assumptions C03_bounded_insert_topn.

(** ... hence the same for EVERY enumeration order of the candidates: Go's
    random map iteration is unobservable *)
Theorem C03_bounded_insert_order_irrelevant : forall s, Inv s -> forall f limit cands cands',
  NoDup cands -> incl cands (c_tree s) -> Permutation cands cands' ->
  bounded_insert cands' (time_only f) limit [] 0 = bounded_insert cands (time_only f) limit [] 0.
Proof. exact bounded_insert_order_irrelevant. Qed.
Print Assumptions C03_bounded_insert_order_irrelevant.

(** the index path as a whole *)
Theorem C03_index_path_result : forall s f,
  Inv s -> filter_ok f ->
  g_full_scan (isSome (f_ids f)) (isSome (f_authors f)) (isSome (f_kinds f)) (isSome (f_tags f)) = false ->
  idx_find (c_idx s) f =
  Some (Ok (take_limit (f_limit f) (filter (fun x => match_specb x f) (c_tree s)))).
Proof. exact index_path_result. Qed.
Print Assumptions C03_index_path_result.

(** ... with the condition sets intersected in any order and the candidates
    enumerated in any order *)
Theorem C03_index_path_any_enumeration : forall s f sets c c' limit,
  Inv s -> filter_ok f ->
  g_full_scan (isSome (f_ids f)) (isSome (f_authors f)) (isSome (f_kinds f)) (isSome (f_tags f)) = false ->
  Permutation sets (map (idx_union (c_idx s)) (ikeys_of_filter f)) ->
  inter_all sets = Some c -> Permutation c c' ->
  limit = match f_limit f with
          | Some l => Z.min (Z.of_nat (length c')) l
          | None => Z.of_nat (length c')
          end ->
  Some (bounded_insert c' (time_only f) limit [] 0) = idx_find (c_idx s) f.
Proof. exact index_path_any_enumeration. Qed.
Print Assumptions C03_index_path_any_enumeration.

(** what either path returns for one filter is a top-[limit] set of the
    matching retained events: duplicate-free, inside the matches, of size
    min(limit, #matches), every chosen one at least as new as every unchosen
    match *)
Theorem C03_filter_share_is_topn : forall s f, Inv s ->
  topn (c_tree s) f (take_limit (f_limit f) (filter (fun x => match_specb x f) (c_tree s))).
Proof. exact filter_share_topn. Qed.
Print Assumptions C03_filter_share_is_topn.

(* ------------------------------------------------------------------ *)
(** * 4. The two access paths agree *)

Theorem C03_paths_agree : forall s, Inv s -> forall f r,
  filter_ok f -> filter_wf f -> (forall x, In x (retained s) -> tags_nonempty x) ->
  idx_find (c_idx s) f = Some (Ok r) ->
  scan_loop (c_tree s) (lm_new f) [] = Ok r.
Proof. exact paths_agree. Qed.
Print Assumptions C03_paths_agree.

(** also inside [find_loop]: serving the filter by the scan instead of the
    index leaves the same accumulated tree *)
Theorem C03_paths_agree_acc : forall s, Inv s -> forall f r acc,
  filter_ok f -> filter_wf f -> (forall x, In x (retained s) -> tags_nonempty x) ->
  idx_find (c_idx s) f = Some (Ok r) ->
  scan_loop (c_tree s) (lm_new f) acc = Ok (fold_left (fun a x => tree_set x a) r acc).
Proof. exact paths_agree_acc. Qed.
Print Assumptions C03_paths_agree_acc.

(* ------------------------------------------------------------------ *)
(** * 5. Find *)

Theorem C03_listing_is_retained : forall s, Inv s -> c_listing s = c_tree s.
Proof. exact listing_is_retained. Qed.
Print Assumptions C03_listing_is_retained.

(** closed form: the elements of the tree that belong to some filter's
    first-[limit] matches, in tree order *)
Theorem C03_find_closed_form : forall s, Inv s -> forall fs,
  Forall filter_ok fs ->
  c_find s fs =
  Ok (filter (fun x => existsb (fun f =>
                eset_mem x (take_limit (f_limit f) (filter (fun y => match_specb y f) (c_tree s)))) fs)
             (c_tree s)).
Proof. exact c_find_closed_form. Qed.
Print Assumptions C03_find_closed_form.

Theorem C03_find_total : forall s, Inv s -> forall fs,
  Forall filter_ok fs -> c_find s fs <> Panic.
Proof. exact find_total. Qed.
Print Assumptions C03_find_total.

(** the answer passes the oracle of the correspondence check, judged against
    the match-everything listing *)
Theorem C03_find_correct : forall s, Inv s -> forall fs out,
  Forall filter_ok fs -> c_find s fs = Ok out ->
  find_spec_ok (c_listing s) fs out = true.
Proof. exact find_correct. Qed.
Print Assumptions C03_find_correct.

(** the property text, declaratively: no duplicates, non-increasing
    created_at, and the union over the filters of a top-limit subset of the
    matching retained events ([topn]: duplicate-free, inside the matches, of
    size min(limit, #matches), every chosen one at least as new as every
    unchosen match) *)
Theorem C03_find_correct_declarative : forall s, Inv s -> forall fs out,
  Forall filter_ok fs -> c_find s fs = Ok out ->
  NoDup (map ev_id out) /\
  StronglySorted (fun a b => ev_ts b <= ev_ts a) out /\
  exists rs,
    Forall2 (fun f r =>
      NoDup r /\
      (forall x, In x r -> In x (c_listing s) /\ match_spec x f) /\
      length r = (let m := length (filter (fun x => match_specb x f) (c_listing s)) in
                  match f_limit f with Some l => Nat.min (Z.to_nat l) m | None => m end) /\
      (forall x y, In x r -> In y (c_listing s) -> match_spec y f -> ~ In y r -> ev_ts y <= ev_ts x))
      fs rs /\
    forall x, In x out <-> exists r, In r rs /\ In x r.
Proof. exact find_correct_decl. Qed.
Print Assumptions C03_find_correct_declarative.

(** the oracle itself is sound for the declarative reading, for ANY listing
    without duplicate ids (sorted or not): this is what its verdict on the
    implementation's own answers means in the correspondence check *)
Theorem C03_oracle_sound : forall R fs out,
  nodup_ids R = true -> find_spec_ok R fs out = true ->
  NoDup (map ev_id out) /\
  StronglySorted (fun a b => ev_ts b <= ev_ts a) out /\
  exists rs, Forall2 (topn R) fs rs /\ forall x, In x out <-> exists r, In r rs /\ In x r.
Proof. exact find_spec_ok_sound. Qed.
Print Assumptions C03_oracle_sound.

(* ------------------------------------------------------------------ *)
(** * The hypotheses on filters are necessary *)

(** an empty non-nil tag map (which the decoder cannot produce) panics *)
Theorem C03_empty_tag_map_panics :
  exists s f, f_tags f = Some [] /\ c_find s [f] = Panic.
Proof.
  exists Ex.s0, (mkFilter None None None (Some []) None None None).
  split; [reflexivity | vm_compute; reflexivity].
Qed.
Print Assumptions C03_empty_tag_map_panics.

(** a tag name that is not a single letter (which the decoder cannot produce)
    is served differently by the two paths: the index stores single-letter
    names only *)
Theorem C03_long_tag_name_paths_differ :
  exists s f r r',
    filter_wf f /\ (forall x, In x (retained s) -> tags_nonempty x) /\
    idx_find (c_idx s) f = Some (Ok r) /\
    scan_loop (c_tree s) (lm_new f) [] = Ok r' /\ r <> r'.
Proof.
  pose (tt := [116; 116]%N : str).
  pose (e := mkEvent [1]%N [2]%N 3 1 [[tt; [120]%N]] [] []).
  exists (c_run 10 [e]), (mkFilter None None None (Some [(tt, [[120]%N])]) None None None), [], [e].
  split; [repeat constructor; intros []|].
  split.
  - intros x [<-|[]]. repeat constructor. discriminate.
  - split; [vm_compute; reflexivity|]. split; [vm_compute; reflexivity | discriminate].
Qed.
Print Assumptions C03_long_tag_name_paths_differ.

(* ------------------------------------------------------------------ *)
(** * Non-vacuity: a concrete state (7 insertions: one replacement, one
      deletion request; 5 retained), a selective filter served by the index
      ({"#t":["x"], since 2, limit 1}), a non-selective one served by the scan
      ({since 2, until 5, limit 3}) and an authors+kinds filter *)

Definition ex_ids (l : list event) : list str := map ev_id l.

Example C03_ex_listing :
  ex_ids (c_listing Ex.s0) = ex_ids [Ex.c1; Ex.a3; Ex.b3; Ex.b1; Ex.a2] /\
  c_listing Ex.s0 = c_tree Ex.s0 /\
  StronglySorted (fun a b => tkey_lt a b = true) (c_tree Ex.s0).
Proof.
  split; [vm_compute; reflexivity|]. split; [vm_compute; reflexivity|].
  vm_compute. repeat constructor.
Qed.

Example C03_ex_filters_ok :
  Forall filter_ok [Ex.fsel; Ex.fnon; Ex.fauth] /\ Forall filter_wf [Ex.fsel; Ex.fnon; Ex.fauth] /\
  Forall tags_nonempty (retained Ex.s0).
Proof.
  split; [|split].
  - repeat constructor. discriminate.
  - repeat constructor. intros [].
  - vm_compute. repeat constructor; discriminate.
Qed.

(** item 1 on concrete events *)
Example C03_ex_tree_set :
  tree_set Ex.b1 (tree_set Ex.c1 [Ex.a3; Ex.a2]) = tree_set Ex.c1 (tree_set Ex.b1 [Ex.a3; Ex.a2]) /\
  tree_set Ex.b1 (tree_set Ex.c1 [Ex.a3; Ex.a2]) = [Ex.c1; Ex.a3; Ex.b1; Ex.a2].
Proof. split; vm_compute; reflexivity. Qed.

(** item 2: the scan path *)
Example C03_ex_scan :
  scan_loop (c_tree Ex.s0) (lm_new Ex.fnon) [] = Ok [Ex.c1; Ex.a3; Ex.b3] /\
  take_limit (f_limit Ex.fnon) (filter (fun x => match_specb x (time_only Ex.fnon)) (c_tree Ex.s0))
    = [Ex.c1; Ex.a3; Ex.b3].
Proof. split; vm_compute; reflexivity. Qed.

(** item 3: unions, intersection in both orders, bounded insertion in two
    enumeration orders *)
Example C03_ex_index :
  map ex_ids (map (idx_union (c_idx Ex.s0)) (ikeys_of_filter Ex.fauth)) =
    [ex_ids [Ex.a2; Ex.a3; Ex.b1; Ex.b3]; ex_ids [Ex.a2; Ex.b1; Ex.c1; Ex.b3]] /\
  (let sets := map (idx_union (c_idx Ex.s0)) (ikeys_of_filter Ex.fauth) in
   option_map ex_ids (inter_all sets) = Some (ex_ids [Ex.a2; Ex.b1; Ex.b3]) /\
   option_map ex_ids (inter_all (rev sets)) = Some (ex_ids [Ex.a2; Ex.b1; Ex.b3])) /\
  bounded_insert [Ex.a2; Ex.b1; Ex.b3; Ex.c1] (time_only Ex.fsel) 2 [] 0 = Ok [Ex.c1; Ex.b3] /\
  bounded_insert [Ex.c1; Ex.b3; Ex.b1; Ex.a2] (time_only Ex.fsel) 2 [] 0 = Ok [Ex.c1; Ex.b3] /\
  idx_find (c_idx Ex.s0) Ex.fsel = Some (Ok [Ex.c1]).
Proof. repeat split; vm_compute; reflexivity. Qed.

(** item 4: both paths on the index-served filters *)
Example C03_ex_paths_agree :
  idx_find (c_idx Ex.s0) Ex.fsel = Some (Ok [Ex.c1]) /\
  scan_loop (c_tree Ex.s0) (lm_new Ex.fsel) [] = Ok [Ex.c1] /\
  idx_find (c_idx Ex.s0) Ex.fauth = Some (Ok [Ex.b3; Ex.b1; Ex.a2]) /\
  scan_loop (c_tree Ex.s0) (lm_new Ex.fauth) [] = Ok [Ex.b3; Ex.b1; Ex.a2].
Proof. repeat split; vm_compute; reflexivity. Qed.

(** item 5: a two-filter query (overlapping answers, smaller than the
    retained set) passes the oracle; a wrong answer does not *)
Example C03_ex_find :
  c_find Ex.s0 [Ex.fsel; Ex.fnon] = Ok [Ex.c1; Ex.a3; Ex.b3] /\
  find_spec_ok (c_listing Ex.s0) [Ex.fsel; Ex.fnon] [Ex.c1; Ex.a3; Ex.b3] = true /\
  find_spec_ok (c_listing Ex.s0) [Ex.fsel; Ex.fnon] [Ex.c1; Ex.a3; Ex.b1] = false /\
  find_spec_ok (c_listing Ex.s0) [Ex.fsel; Ex.fnon] [Ex.c1; Ex.a3] = false /\
  c_find Ex.s0 [Ex.fsel; Ex.fnon; Ex.fauth] = Ok (c_tree Ex.s0).
Proof. repeat split; vm_compute; reflexivity. Qed.

(** the oracle's hypotheses hold of the concrete listing, and it separates
    right from wrong answers there *)
Example C03_ex_oracle :
  nodup_ids (c_listing Ex.s0) = true /\
  find_spec_ok (c_listing Ex.s0) [Ex.fsel; Ex.fnon] [Ex.c1; Ex.a3; Ex.b3] = true /\
  find_spec_ok (c_listing Ex.s0) [Ex.fsel; Ex.fnon] [Ex.a3; Ex.c1; Ex.b3] = true /\
  find_spec_ok (c_listing Ex.s0) [Ex.fsel; Ex.fnon] [Ex.c1; Ex.c1; Ex.a3; Ex.b3] = false.
Proof. repeat split; vm_compute; reflexivity. Qed.
