(* C11 after the repair of defect F10: insignificant white space before the
   opening bracket is irrelevant to admission.  Compiles only against the
   repaired pattern. *)
From Moc Require Import Base Json CodecMsg Codec CodecProofs Valid ValidProofs ValidWsFixed.
Open Scope Z_scope.

Theorem C11_leading_ws_irrelevant : forall esc j, gate_admits (mkCText true esc j) = gate_admits (mkCText false esc j).
Proof. exact admit_leading_ws_irrelevant. Qed.
Print Assumptions C11_leading_ws_irrelevant.

Theorem C11_parse_leading_ws_irrelevant : forall esc j,
  parse_client_msg (mkCText true esc j) = parse_client_msg (mkCText false esc j).
Proof. exact parse_leading_ws_irrelevant. Qed.
Print Assumptions C11_parse_leading_ws_irrelevant.

Theorem C11_gate_complete_any_ws :
  (forall j, wf_json_cmsg false j = true -> gate_admits (plain_text j) = true) ->
  forall lead j, wf_json_cmsg false j = true -> gate_admits (mkCText lead false j) = true.
Proof. exact gate_complete_ws. Qed.
Print Assumptions C11_gate_complete_any_ws.
