(* SqlSpec.v — C06: the specification of the SQLite store, written from the
   property text over the HISTORY of inserted events (no tables, no keys, no
   SQL), with its boolean oracle.  Definitions only.

   "Stored means every non-ephemeral event inserted (addressable ones
   identified by their d tag), keeping only the newest version per
   replaceable/addressable address; an event is deleted when a deletion
   request by the same author references it by id or address, whichever of
   the two arrived first; ephemeral events are never stored.  A query
   returns, for each filter, the limit newest stored events that match it and
   are not deleted, merged without duplicates in non-increasing created_at
   order, each identical in all seven fields." *)
From Moc Require Import Base Match Sql.
Open Scope Z_scope.

(* ------------------------------------------------------------------ *)
(** * Event classes and addresses (NIP-01), independent of the code *)

Definition sp_replaceable (k : Z) : bool := (k =? 0) || (k =? 3) || ((10000 <=? k) && (k <? 20000)).
Definition sp_ephemeral (k : Z) : bool := (20000 <=? k) && (k <? 30000).
Definition sp_addressable (k : Z) : bool := (30000 <=? k) && (k <? 40000).

Definition s_e : str := [101]%N.
Definition s_a : str := [97]%N.

(** value of the first tag named "d" *)
Definition d_value (e : event) : option str :=
  match find (fun t => match t with n :: _ => str_eqb n s_d | [] => false end) (ev_tags e) with
  | Some t => Some (tag_value t)
  | None => None
  end.

Inductive saddr := ARep (kind : Z) (pk : str) | AAddr (kind : Z) (pk d : str).

Definition saddr_eqb (a b : saddr) : bool :=
  match a, b with
  | ARep k1 p1, ARep k2 p2 => (k1 =? k2) &&& str_eqb p1 p2
  | AAddr k1 p1 d1, AAddr k2 p2 d2 => (k1 =? k2) &&& str_eqb p1 p2 &&& str_eqb d1 d2
  | _, _ => false
  end.

(** the address under which newer versions replace older ones; [None] for
    regular events (and for events that are not stored at all) *)
Definition address (e : event) : option saddr :=
  if sp_replaceable (ev_kind e) then Some (ARep (ev_kind e) (ev_pk e))
  else if sp_addressable (ev_kind e) then
    match d_value e with
    | Some d => Some (AAddr (ev_kind e) (ev_pk e) d)
    | None => None
    end
  else None.

(** what the store is asked to keep: not ephemeral; an addressable event
    needs a d tag to be identified (DESIGN.md 9: addressable events without a
    d tag are not claimed for the SQLite store) *)
Definition storable (e : event) : bool :=
  negb (sp_ephemeral (ev_kind e)) && (negb (sp_addressable (ev_kind e)) || isSome (d_value e)).

Definition has_address (a : saddr) (y : event) : bool :=
  match address y with Some b => saddr_eqb a b | None => false end.

(* ------------------------------------------------------------------ *)
(** * stored / deleted / live *)

(** [x] is stored after the insertions [es] (in this order): it was inserted,
    is storable, and - if it has an address - it is the newest version of
    that address, the first one among equally new ones *)
Definition stored (es : list event) (x : event) : Prop :=
  In x es /\ storable x = true /\
  match address x with
  | None => True
  | Some a =>
      exists pre post, es = pre ++ x :: post /\
        (forall y, In y pre -> has_address a y = true -> ev_ts y < ev_ts x) /\
        (forall y, In y post -> has_address a y = true -> ev_ts y <= ev_ts x)
  end.

Fixpoint splits {A} (pre : list A) (l : list A) : list (list A * A * list A) :=
  match l with
  | [] => []
  | x :: l' => (pre, x, l') :: splits (pre ++ [x]) l'
  end.

(** [event_eqb] with short-circuit evaluation *)
Definition ev_eqb (a b : event) : bool :=
  str_eqb (ev_id a) (ev_id b) &&& (ev_ts a =? ev_ts b) &&& (ev_kind a =? ev_kind b) &&&
  str_eqb (ev_pk a) (ev_pk b) &&& str_eqb (ev_content a) (ev_content b) &&&
  list_eqb tag_eqb (ev_tags a) (ev_tags b) &&& str_eqb (ev_sig a) (ev_sig b).

Definition mem_event (x : event) (l : list event) : bool := existsb (ev_eqb x) l.

(** boolean form: scan to the first occurrence of [x] (a later occurrence
    cannot be the witness: the earlier copy of [x] itself is not older) *)
Fixpoint stored_scan (a : saddr) (x : event) (es : list event) : bool :=
  match es with
  | [] => false
  | y :: r =>
      if ev_eqb y x
      then forallb (fun y => (ev_ts y <=? ev_ts x) ||| negb (has_address a y)) r
      else ((ev_ts y <? ev_ts x) ||| negb (has_address a y)) &&& stored_scan a x r
  end.

Definition storedb (es : list event) (x : event) : bool :=
  mem_event x es &&& storable x &&&
  match address x with
  | None => true
  | Some a => stored_scan a x es
  end.

(** a tag of a deletion request references [x]: by id (["e", id, ...]) or -
    for an addressable event - by address (["a", "kind:pubkey:d", ...]);
    extra elements do not matter *)
Definition refs (t : tag) (x : event) : bool :=
  match t with
  | n :: v :: _ =>
      (str_eqb n s_e &&& str_eqb v (ev_id x)) |||
      (str_eqb n s_a &&&
       match address x with
       | Some (AAddr k pk d) => str_eqb v (showZ k ++ [colon] ++ pk ++ [colon] ++ d)
       | _ => false
       end)
  | _ => false
  end.

(** some deletion request (kind 5) of [x]'s author, anywhere in the history,
    references [x] *)
Definition deleted (es : list event) (x : event) : Prop :=
  exists d t, In d es /\ ev_kind d = 5 /\ ev_pk d = ev_pk x /\ In t (ev_tags d) /\ refs t x = true.

Definition deletedb (es : list event) (x : event) : bool :=
  existsb (fun d => (ev_kind d =? 5) &&& str_eqb (ev_pk d) (ev_pk x) &&& existsb (fun t => refs t x) (ev_tags d)) es.

Definition live (es : list event) (x : event) : Prop := stored es x /\ ~ deleted es x.
Definition liveb (es : list event) (x : event) : bool := storedb es x &&& negb (deletedb es x).

(* ------------------------------------------------------------------ *)
(** * The query specification *)

(** [res] is a choice of the [lim] newest members of [U] (all of them without
    a limit): duplicate-free, inside [U], of size min(lim, |U|), and no
    member left out is newer than a member chosen.  Which of several equally
    new events is chosen is left open. *)
Definition top_sel (U : event -> Prop) (lim : option Z) (res : list event) : Prop :=
  NoDup res /\ (forall x, In x res -> U x) /\
  match lim with
  | None => forall x, U x -> In x res
  | Some n =>
      zlen res <= n /\
      (zlen res < n -> forall x, U x -> In x res) /\
      (forall x y, In x res -> U y -> ~ In y res -> ev_ts y <= ev_ts x)
  end.

Fixpoint desc_sorted (l : list event) : Prop :=
  match l with
  | [] => True
  | x :: l' => (forall y, In y l' -> ev_ts y <= ev_ts x) /\ desc_sorted l'
  end.

(** the limit that applies to a filter: its own, capped by the store's
    maximum ([NoLimit] = no maximum).

    Reading of the handler option MaxLimit.  The property text speaks of "the
    limit newest stored events" per filter and of their merge; MaxLimit is a
    handler option (default NoLimit) that the store applies twice: as a cap
    of every filter's limit and as a LIMIT of the merged, ordered answer.
    The specification says exactly that: the limit of a filter is
    min (its limit, MaxLimit) - MaxLimit alone if it has none - and the
    answer is a choice of the MaxLimit newest members of the merge
    ([query_spec], second [top_sel]).  With MaxLimit = NoLimit both clauses
    vanish and [query_spec] is the property text verbatim.  The boolean
    oracle decides [query_spec] in every case, also when a small MaxLimit
    cuts the merged answer ([query_specb_spec], SqlMerge.v). *)
Definition spec_limit (limit : option Z) (maxLimit : Z) : option Z :=
  match limit with
  | Some l => Some (Z.min l maxLimit)
  | None => if maxLimit =? NoLimit then None else Some maxLimit
  end.

Definition query_spec (es : list event) (fs : list rfilter) (maxLimit : Z) (out : list event) : Prop :=
  exists ress,
    Forall2 (fun f res => top_sel (fun x => live es x /\ match_spec x f) (spec_limit (f_limit f) maxLimit) res) fs ress /\
    top_sel (fun x => exists res, In res ress /\ In x res) (spec_limit None maxLimit) out /\
    desc_sorted out.

(* ------------------------------------------------------------------ *)
(** * Boolean oracle *)

Definition count_b {A} (p : A -> bool) (l : list A) : Z := zlen (filter p l).

(** classification of a candidate [x] of a filter with candidate set [C] and
    limit [l]: sure (its whole created_at level fits), excluded, or on the
    level the limit cuts through *)
Definition n_above (C : list event) (x : event) : Z := count_b (fun y => ev_ts x <? ev_ts y) C.
Definition n_geq (C : list event) (x : event) : Z := count_b (fun y => ev_ts x <=? ev_ts y) C.

Definition is_sure (C : list event) (lim : option Z) (x : event) : bool :=
  match lim with None => true | Some l => n_geq C x <=? l end.
Definition is_tie (C : list event) (lim : option Z) (x : event) : bool :=
  match lim with None => false | Some l => (n_above C x <? l) && (l <? n_geq C x) end.

Definition sure_of (cl : list event * option Z) : list event := filter (is_sure (fst cl) (snd cl)) (fst cl).
Definition ties_of (cl : list event * option Z) : list event := filter (is_tie (fst cl) (snd cl)) (fst cl).
(** how many members of the cut level the limit admits *)
Definition tie_room (cl : list event * option Z) : Z :=
  match ties_of cl, snd cl with
  | x :: _, Some l => l - n_above (fst cl) x
  | _, _ => 0
  end.

Fixpoint dec_nth (caps : list (list event * Z)) (j : nat) : list (list event * Z) :=
  match caps, j with
  | [], _ => []
  | (T, c) :: r, O => (T, c - 1) :: r
  | tc :: r, S j' => tc :: dec_nth r j'
  end.

(** every extra event can be charged to a filter on whose cut level it lies,
    no filter being charged more than its room (back-tracking search) *)
Fixpoint assign (extras : list event) (caps : list (list event * Z)) : bool :=
  match extras with
  | [] => true
  | x :: rest =>
      existsb (fun j => match nth_error caps j with
                        | Some (T, c) => (0 <? c) &&& mem_event x T &&& assign rest (dec_nth caps j)
                        | None => false
                        end)
              (seq 0 (length caps))
  end.

Fixpoint nodupb (l : list event) : bool :=
  match l with
  | [] => true
  | x :: l' => negb (mem_event x l') &&& nodupb l'
  end.

Fixpoint desc_sortedb (l : list event) : bool :=
  match l with
  | [] => true
  | x :: l' => forallb (fun y => ev_ts y <=? ev_ts x) l' &&& desc_sortedb l'
  end.

Definition dedup_events (l : list event) : list event := dedup ev_eqb l [].

(** the merge of one top-[lim] choice per candidate set, cut to the [outer]
    newest: the statement of [query_spec] over explicit candidate lists *)
Definition sel_spec (cl : list event * option Z) (res : list event) : Prop :=
  top_sel (fun x => In x (fst cl)) (snd cl) res.

Definition union_spec (cands : list (list event * option Z)) (outer : option Z) (out : list event) : Prop :=
  exists ress,
    Forall2 sel_spec cands ress /\
    top_sel (fun x => exists res, In res ress /\ In x res) outer out /\
    desc_sorted out.

(** [out] is a merge of one top-[lim] choice per candidate set, cut to the
    [outer] newest.  [cands]: per filter the duplicate-free candidate set and
    its limit.  Exact in every case ([union_topn_ok_spec], SqlMerge.v).

    A member of the merge MUST appear in [out] when the outer limit is not
    exhausted, or when it is newer than some member of [out].  Every sure
    candidate that must appear does; a filter whose cut level must appear has
    as many members of that level in [out] as its limit leaves room for; and
    every member of [out] that is not a sure candidate of some filter can be
    charged to a filter on whose cut level it lies, no filter being charged
    more than its room. *)
Definition union_topn_ok (cands : list (list event * option Z)) (outer : option Z) (out : list event) : bool :=
  let sures := flat_map sure_of cands in
  let full := match outer with Some m => zlen out <? m | None => true end in
  let must := fun y => full ||| existsb (fun x => ev_ts x <? ev_ts y) out in
  nodupb out &&& desc_sortedb out &&&
  match outer with
  | Some m => zlen out <=? m
  | None => true
  end &&&
  forallb (fun x => negb (must x) ||| mem_event x out) sures &&&
  forallb (fun cl => match ties_of cl with
                     | [] => true
                     | y :: _ => negb (must y) ||| (tie_room cl <=? count_b (fun x => mem_event x out) (ties_of cl))
                     end) cands &&&
  assign (filter (fun x => negb (mem_event x sures)) out)
         (List.map (fun cl => (ties_of cl, tie_room cl)) cands).

Definition live_list (es : list event) : list event := dedup_events (filter (liveb es) es).

Definition query_specb_L (L : list event) (fs : list rfilter) (maxLimit : Z) (out : list event) : bool :=
  union_topn_ok (List.map (fun f => (filter (fun x => match_specb x f) L, spec_limit (f_limit f) maxLimit)) fs)
                (spec_limit None maxLimit) out.

Definition query_specb (es : list event) (fs : list rfilter) (maxLimit : Z) (out : list event) : bool :=
  query_specb_L (live_list es) fs maxLimit out.

(* ------------------------------------------------------------------ *)
(** * Hypotheses of the theorems (what the admission gate guarantees) *)

Definition lower_hex_char (c : N) : bool := ((48 <=? c) && (c <=? 57) || (97 <=? c) && (c <=? 102))%N.
Definition lower_hex (n : nat) (s : str) : bool := Nat.eqb (length s) n &&& forallb lower_hex_char s.

(** Event.Valid: 64/64/128 lower-case hex digits, every tag has a non-empty
    first element *)
Definition gate_valid_event (e : event) : bool :=
  lower_hex 64 (ev_id e) &&& lower_hex 64 (ev_pk e) &&& lower_hex 128 (ev_sig e) &&&
  forallb (fun t => match t with [] => false | n :: _ => negb (str_eqb n []) end) (ev_tags e).

Definition ascii_letter (c : N) : bool := ((97 <=? c) && (c <=? 122) || (65 <=? c) && (c <=? 90))%N.

Fixpoint nodup_strs (l : list str) : bool :=
  match l with
  | [] => true
  | x :: l' => negb (mem_str x l') &&& nodup_strs l'
  end.

(** ReqFilter.Valid, as far as the store depends on it: hex ids/authors,
    single-letter tag names (pairwise distinct: a Go map), 0 <= limit (an int64) *)
Definition gate_valid_filter (f : rfilter) : bool :=
  opt_holdsb (f_ids f) (forallb (lower_hex 64)) &&
  opt_holdsb (f_authors f) (forallb (lower_hex 64)) &&
  opt_holdsb (f_tags f) (fun m => forallb (fun nv => match fst nv with [c] => ascii_letter c | _ => false end) m &&
                                   nodup_strs (List.map fst m)) &&
  opt_holdsb (f_limit f) (fun l => (0 <=? l) && (l <? two63)).

(** ids determine events (the id is the SHA-256 of the other signed fields) *)
Definition ids_functional (es : list event) : Prop :=
  forall x y, In x es -> In y es -> ev_id x = ev_id y -> x = y.
Definition ids_functionalb (es : list event) : bool :=
  forallb (fun x => forallb (fun y => negb (str_eqb (ev_id x) (ev_id y)) ||| ev_eqb x y) es) es.

(** ["e", v] references of deletion requests that decode as hex are written
    in lower case (the store compares decoded bytes, the specification
    compares strings) *)
Definition e_refs_canonical (es : list event) : bool :=
  forallb (fun d => negb (ev_kind d =? 5) |||
                    forallb (fun t => match t with
                                      | n :: v :: _ => negb (str_eqb n s_e) ||| negb (hex_ok v) ||| str_eqb (hexl v) v
                                      | _ => true
                                      end) (ev_tags d)) es.

(** DESIGN.md 9: `a` references to REPLACEABLE events ("kind:pubkey") are not
    claimed either way; histories in which a deletion request of the same
    author carries such a reference are outside the statement *)
Definition a_refs_scoped (es : list event) : bool :=
  forallb (fun d => negb (ev_kind d =? 5) |||
     forallb (fun t => match t with
                       | n :: v :: _ =>
                           negb (str_eqb n s_a) |||
                           forallb (fun x => negb (sp_replaceable (ev_kind x) &&& str_eqb (ev_pk x) (ev_pk d) &&&
                                                   str_eqb v (showZ (ev_kind x) ++ [colon] ++ ev_pk x))) es
                       | _ => true
                       end) (ev_tags d)) es.

(** the hash functions are injective on what the history and the query
    mention.  The model keys rows by the hash pre-images, so this is exactly
    the condition under which it is faithful to the implementation: under it
    the store keyed by the hash values (SqlHashed.v) holds the image of the
    model's tables and answers every query as the model does
    ([hashed_store_refines], SqlHashedProofs.v).  That xxHash32 and MD5
    satisfy it on a given history is in the trusted base (a collision would
    show up as a correspondence difference). *)
Section Hashes.
  Variable xx : Z -> str -> Z.          (* xxHash32 with a seed *)
  Variable md5 : str -> str.

  Definition key64 (k : ekey) : Z :=
    match k with
    | KReg sd ts id => ts * two32 + xx sd id
    | KAddr sd p a => xx sd p * two32 + xx sd a
    end.

  Definition history_keys (seed : Z) (es : list event) : list ekey :=
    flat_map (fun e => match get_event_key seed e with Some k => [k] | None => [] end ++
                       List.map fst (k5_dkeys seed e)) es.

  Definition history_tag_strings (es : list event) (fs : list rfilter) : list str :=
    flat_map (fun e => flat_map (fun t => List.map t_hash (tag_row (KReg 0 0 []) 0 t)) (ev_tags e)) es ++
    flat_map (fun f => match f_tags f with
                       | Some m => flat_map (fun nv => List.map (fun v => fst nv ++ v) (snd nv)) m
                       | None => []
                       end) fs.

  Definition no_collision (seed : Z) (es : list event) (fs : list rfilter) : Prop :=
    (forall a b, In a (history_keys seed es) -> In b (history_keys seed es) -> key64 a = key64 b -> a = b) /\
    (forall a b, In a (history_tag_strings es fs) -> In b (history_tag_strings es fs) -> md5 a = md5 b -> a = b).
End Hashes.
