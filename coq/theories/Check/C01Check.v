(* Correspondence cases for C01: one event that the harness handed to the real
   Serialize(), Verify() and Valid(), with what they answered; or a sequence of
   such events handed to the real code one after the other in one process (the
   verdict on an event must not depend on what was verified before it: the
   model and the specification are functions of the event alone, so every
   element of a sequence is judged exactly as a single event is).

   SHA-256 and BIP-340 are oracles of the model (Section variables H, PK, SG,
   V of Ser.v).  Here they are instantiated by finite tables that the harness
   computed itself with crypto/sha256 and btcec, independently of the code
   under test: the digest of the bytes Serialize() returned, the digest of
   the harness's own canonical bytes, and the outcome of parsing/verifying
   the decoded pubkey, id and signature. *)
From Moc Require Import Base Ser.
Open Scope Z_scope.

Record obs := mkObs {
  o_ev : event;
  o_ser : option str;        (* Serialize(): bytes, or None for an error/panic *)
  o_hser : str;              (* SHA-256 of those bytes *)
  o_canon : str;             (* the harness's canonical bytes when they differ from o_ser, else [] *)
  o_hcanon : str;            (* their SHA-256 *)
  o_idb : option str;        (* the harness's hex decodings; None: not hexadecimal text *)
  o_pkb : option str;
  o_sgb : option str;
  o_pkok : bool;             (* schnorr.ParsePubKey succeeds on o_pkb *)
  o_sgok : bool;             (* schnorr.ParseSignature succeeds on o_sgb *)
  o_v : bool;                (* sig.Verify(o_idb, pubkey) *)
  o_res : Z;                 (* Verify(): 1 true, 0 false, 2 error, 3 panic *)
  o_valid : bool;            (* Valid() *)
  o_expect : Z               (* by construction of the harness: 1 authentic, 0 not authentic,
                                2 an authentic event whose id/sig text was put in another hex case *)
}.

Inductive case :=
| One (o : obs)
| Seq (l : list obs).

Definition opt_is (o : option str) (s : str) : bool :=
  match o with Some t => str_eqb s t | None => false end.

Section Tables.
  Variable c : obs.
  Definition tH (s : str) : str :=
    if opt_is (o_ser c) s then o_hser c
    else if match o_canon c with [] => false | _ => str_eqb s (o_canon c) end then o_hcanon c
    else [].
  Definition tPK (p : str) : bool := opt_is (o_pkb c) p && o_pkok c.
  Definition tSG (s : str) : bool := opt_is (o_sgb c) s && o_sgok c.
  Definition tV (p m s : str) : bool := opt_is (o_pkb c) p && opt_is (o_idb c) m && opt_is (o_sgb c) s && o_v c.
End Tables.

Definition res_of (z : Z) : option vres :=
  if z =? 1 then Some (VOk true) else if z =? 0 then Some (VOk false) else if z =? 2 then Some VErr else None.

(** well-formed UTF-8 (the domain of the property: Unicode scalar values) *)
Fixpoint utf8_ok_go (skip : nat) (s : str) : bool :=
  match s with
  | [] => Nat.eqb skip 0
  | b :: r =>
      match skip with
      | S k => utf8_ok_go k r
      | O =>
          if (b <? 128)%N then utf8_ok_go 0 r
          else match utf8_len b r with
               | 1%nat => false
               | n => utf8_ok_go (Nat.pred n) r
               end
      end
  end.
Definition utf8_okb (s : str) : bool := bytes_okb s && utf8_ok_go 0 s.
Definition event_utf8_okb (e : event) : bool :=
  utf8_okb (ev_pk e) && forallb (forallb utf8_okb) (ev_tags e) && utf8_okb (ev_content e).

(** the model of the tree under test agrees with what the implementation did *)
Definition model_ok (c : obs) : bool :=
  let e := o_ev c in
  opt_is (o_ser c) (serialize e)
  && match res_of (o_res c) with
     | Some r => vres_eqb (verify_tree (tH c) (tPK c) (tSG c) (tV c) e) r
     | None => false
     end.

(** the specification accepts what the implementation did *)
Definition spec_ok (c : obs) : bool :=
  let e := o_ev c in
  let canon := canonical e in
  let authentic :=
    match o_pkb c, o_sgb c with
    | Some p, Some s => authentic_specb (tH c) (tPK c) (tSG c) (tV c) e p s
    | _, _ => false
    end in
  (* the harness's own canonical encoder and the specification's agree, so that
     the digest table covers the canonical bytes *)
  (match o_canon c with [] => opt_is (o_ser c) canon | k => str_eqb k canon end)
  (* (a) on Unicode text the serialized form is the canonical form *)
  && (negb (event_utf8_okb e) || opt_is (o_ser c) canon)
  (* (b) reported authentic exactly when authentic *)
  && Bool.eqb authentic (o_res c =? 1)
  (* (c) what the harness constructed: a correctly signed event is reported authentic; an
     altered one is not; another hex case of id/sig denotes the same bytes (still authentic)
     and is refused by Valid *)
  && (if o_expect c =? 1 then o_res c =? 1
      else if o_expect c =? 0 then negb (o_res c =? 1) && negb (o_res c =? 3)
      else (o_res c =? 1) && negb (o_valid c)).

Definition run_case (c : case) : bool * bool :=
  match c with
  | One o => (model_ok o, spec_ok o)
  | Seq l => (forallb model_ok l, forallb spec_ok l)
  end.
