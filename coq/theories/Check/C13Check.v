(* Correspondence cases for C13: evaluated by vm_compute on cases written by the harness from the
   implementation's observed behaviour.

   Session cases: the model's prediction is the same for every case - the theorems of
   Properties/C13.v say that every well-formed composition terminates and releases everything for
   every history, cut, ending and peer - so "model agrees" coincides with "the oracle accepts" as
   long as the composition the harness ran is one the model covers (a well-formed [comp]).
   Busy store ([store] = 1: another writer holds the SQLite database during the session, the bulk
   inserter is stalled and the hand-over queue fills up): the model expresses this - [ch_sql_events]
   has no receiving process in Session.v, i.e. the hand-over [ASend ch_sql_events] of [simple_code]
   pc 4 is never guaranteed to go through and the theorems hold all the same because the select has
   the [ADone] alternative - so the prediction is again "terminates and releases everything"; such
   a case is covered when the composition contains the SQLite handler.  What a busy store excuses
   is only that further input is not accepted (back-pressure): [fed] is not demanded.
   WebSocket cases: the model's prediction is the guard generated from relay.go: the write deadline
   exists iff g_write_deadline_guard holds; the oracle demands the drop whenever a send timeout is
   configured. *)
From Moc Require Import Base Proc Session.
From Moc.Gen Require Import GenSession.
Import ListNotations.
Open Scope Z_scope.

Inductive case :=
| CSess (cid mid hlen : nat) (ending peer : nat) (settle : bool) (store : nat)
        (fed returned : bool) (leak reg : nat) (gconn greq : Z) (panicked : bool)
| CWs (st_ms ping_ms : Z) (cancelled closed : bool) (panicked : bool).

Fixpoint wf_compb (c : comp) : bool :=
  match c with
  | CSimple _ | CRouter _ => true
  | CMw c' => wf_compb c'
  | CMerge cs => (2 <=? clen cs)%nat && wf_compsb cs
  end
with wf_compsb (cs : comps) : bool :=
  match cs with CNil => true | CCons c r => wf_compb c && wf_compsb r end.

Fixpoint has_sqlite (c : comp) : bool :=
  match c with
  | CSimple SSqlite => true
  | CSimple _ | CRouter _ => false
  | CMw c' => has_sqlite c'
  | CMerge cs => has_sqlites cs
  end
with has_sqlites (cs : comps) : bool :=
  match cs with CNil => false | CCons c r => has_sqlite c || has_sqlites r end.

Fixpoint cl (l : list comp) : comps := match l with [] => CNil | c :: r => CCons c (cl r) end.
Fixpoint wrap (n : nat) (c : comp) : comp := match n with O => c | S n' => CMw (wrap n' c) end.

(* the compositions of harness/cmd/term/c13.go *)
Definition base_of (id : nat) : option comp :=
  match id with
  | 0 => Some (CSimple SDefault)
  | 1 => Some (CSimple SCache)
  | 2 => Some (CRouter 4)
  | 3 => Some (CSimple SSqlite)
  | 4 => Some (CMerge (cl [CSimple SCache; CRouter 4]))
  | 5 => Some (CMerge (cl [CSimple SCache; CRouter 4; CSimple SSqlite]))
  | 6 => Some (CMerge (cl [CSimple SDefault; CSimple SCache; CRouter 4; CRouter 4]))
  | 7 => Some (CMerge (cl [CMerge (cl [CSimple SCache; CRouter 4]); CRouter 4]))
  | 8 => Some (CMerge (cl [CMw (CSimple SCache); CRouter 4]))
  | _ => None
  end%nat.
Definition stack_of (id : nat) : option nat :=
  match id with 0 => Some 0 | 1 => Some 1 | 2 => Some 2 | 3 => Some 4 | 4 => Some 8 | _ => None end%nat.

Definition comp_of (cid mid : nat) : option comp :=
  match base_of cid, stack_of mid with
  | Some c, Some n => Some (wrap n c)
  | _, _ => None
  end.

(* the property, over the observation: serving returned, every goroutine is gone, no subscription
   is left in the router, both gauges are back at their previous value (0), nothing panicked; and
   with a peer that reads (and a store that is not held busy by somebody else), every message of
   the history was accepted *)
Definition sess_ok (peer store : nat) (fed returned : bool) (leak reg : nat) (gconn greq : Z) (panicked : bool) : bool :=
  returned && (leak =? 0)%nat && (reg =? 0)%nat && (gconn =? 0) && (greq =? 0) && negb panicked
  && (fed || (peer =? 1)%nat || (store =? 1)%nat).

Definition run_case (c : case) : bool * bool :=
  match c with
  | CSess cid mid hlen ending peer settle store fed returned leak reg gconn greq panicked =>
      let ok := sess_ok peer store fed returned leak reg gconn greq panicked in
      let covered := match comp_of cid mid with
                     | Some c => wf_compb c && ((store =? 0)%nat || ((store =? 1)%nat && has_sqlite c))
                     | None => false
                     end in
      (* the model predicts "terminates and releases" for every covered case *)
      (covered && Bool.eqb ok true, ok)
  | CWs st ping cancelled closed panicked =>
      let predicted := g_write_deadline_guard ping st in
      (* the model of Relay.ServeHTTP (relay_conn) is guarded: once the peer is gone it finishes *)
      (Bool.eqb predicted cancelled && closed && negb panicked,
       (* dropped once a write has been blocked for the send timeout, whatever the other options;
          and nothing of the connection remains once the peer is gone *)
       (if st >? 0 then cancelled else true) && closed && negb panicked)
  end.
