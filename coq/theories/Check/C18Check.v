(* Correspondence cases for C18: several sessions sharing one middleware value. *)
From Moc Require Import Base Msg Mw MwCheck.
Open Scope Z_scope.

Inductive case :=
| CSys (now : Z) (mws : list mwdesc) (nsess : nat) (h : list (nat * op)) (obs : list obs)
| CBroken.

Definition model_agrees (now : Z) (ks : list mwk) (nsess : nat) (h : list (nat * op)) (obs : list obs) : bool :=
  obs_list_eqb (List.map snd h) (snd (sys_run now (sys_init ks nsess) h)) obs.

(** the oracle judges every session on its own projected history: whatever
    the other sessions did must not show *)
Definition sessions_ok (now : Z) (ks : list mwk) (nsess : nat) (h : list (nat * op)) (obs : list obs) : bool :=
  Nat.eqb (length h) (length obs) &&
  forallb (fun j => session_ok now ks (proj j h) (proj j (combine (List.map fst h) obs))) (seq 0 nsess) &&
  forallb (fun io => Nat.ltb (fst io) nsess) h.

Definition run_case (c : case) : bool * bool :=
  match c with
  | CSys now mws nsess h obs =>
      (model_agrees now (List.map desc_model mws) nsess h obs,
       sessions_ok now (List.map desc_spec mws) nsess h obs)
  | CBroken => (false, false)
  end.
