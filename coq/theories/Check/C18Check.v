(* Correspondence cases for C18: several connections sharing one middleware
   value — overlapping in time, or one beginning after another has ended. *)
From Moc Require Import Base Msg Mw MwCheck.
Open Scope Z_scope.

Inductive case :=
| CSys (now : Z) (mws : list mwdesc) (nslots : nat) (h : list (nat * lop)) (obs : list obs)
| CBroken.

(** model: [lsys_run] (a fresh state per connection); oracle: every slot is
    judged on its own projected history, every connection from the initial
    state of the text *)
Definition run_case (c : case) : bool * bool :=
  match c with
  | CSys now mws nslots h obs =>
      (life_model_agrees now (List.map desc_model mws) nslots h obs,
       life_ok now (List.map desc_spec mws) nslots h obs)
  | CBroken => (false, false)
  end.
