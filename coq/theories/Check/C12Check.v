(* Correspondence cases for C12: one case is one real WebSocket connection to
   mocrelay.NewRelay(recording handler).  Evaluated by vm_compute.

   Per frame the harness gives TWO classifications:
     cf_obs  the outcomes of the individual checks as the real functions report
             them when called directly on the payload (utf8.Valid, json.Valid,
             ParseClientMsg, ValidClientMsg, Event.Verify) — the input of the
             model: "does serveRead compose these checks the way Gate.v says";
     cf_exp  what the harness expects from how it built the frame (its own
             NIP-01 serialisation and signature, its own notion of a valid
             field) — the input of the oracle.
   The observation is what the recording handler received, what it emitted, and
   what the client read (decoded with the real UnmarshalJSON of the server
   message types by the harness; IScripted k = a TEXT frame decoding to a
   message equal to scripted output number k).

   A client message may be sent as several WebSocket fragments (data frame with
   fin=0, CONTINUATION frames): RFC 6455 makes this transparent, the message is
   the concatenation.  A [cframe] is therefore one MESSAGE whatever the number
   of frames that carried it; neither the model (conn.Read returns whole
   messages) nor the property distinguishes the two, so a fragmented message
   is judged by both exactly as the same message in one frame.  How it was cut
   is in the harness's JSON only ("frag"). *)
From Moc Require Import Base Gate.
Open Scope Z_scope.

Inductive sobs :=
| ONotice (t : str)
| OOk (id : str) (accepted : bool)
| OClosed (sub : str)
| OOtherMsg          (* decodes to a server message that is neither scripted nor a rejection *)
| OBinary            (* a binary frame *)
| OUndecodable.      (* a text frame that no server message type decodes *)

Inductive citem := IScripted (k : Z) | IOther (o : sobs).

Record cframe := mkCF {
  cf_obs : frame;
  cf_exp : frame;
  cf_sub : option str;     (* the subscription id the frame names, if the harness put one in *)
  cf_out : list Z          (* serial numbers of the server messages the handler emits on receiving this message *)
}.

Inductive case :=
| CSess (lockstep : bool) (fs : list cframe)
        (recv : list (Z * bool))     (* handler: (index of the frame whose message this is, or -1; equal to what was sent) *)
        (emitted : list Z)           (* handler: serial numbers in emission order *)
        (client : list citem).       (* client: every frame read until the connection closed *)

Fixpoint scripted_of (l : list citem) : list Z :=
  match l with
  | [] => []
  | IScripted k :: t => k :: scripted_of t
  | IOther _ :: t => scripted_of t
  end.

Fixpoint others_of (l : list citem) : list sobs :=
  match l with
  | [] => []
  | IScripted _ :: t => others_of t
  | IOther o :: t => o :: others_of t
  end.

Definition zlist_eqb : list Z -> list Z -> bool := list_eqb Z.eqb.

(* ---- model side ---------------------------------------------------- *)

Definition reply_of (fs : list cframe) (m : Z) : list Z :=
  if m <? 0 then [] else
  match nth_error fs (Z.to_nat m) with Some cf => cf_out cf | None => [] end.

Definition notice_is (r : rejection) (o : sobs) : bool :=
  match o with ONotice t => str_eqb t (rj_text r) | _ => false end.

Definition item_eqb (c : citem) (m : out_item) : bool :=
  match c, m with
  | IScripted k, HandlerOut k' => k =? k'
  | IOther o, GateNotice r => notice_is r o
  | _, _ => false
  end.

Fixpoint all2 {A B} (p : A -> B -> bool) (a : list A) (b : list B) : bool :=
  match a, b with
  | [], [] => true
  | x :: a', y :: b' => p x y && all2 p a' b'
  | _, _ => false
  end.

Definition model_ok (c : case) : bool :=
  match c with
  | CSess lockstep fs recv emitted client =>
      let mfs := List.map cf_obs fs in
      let s := session mfs in
      let reply := reply_of fs in
      zlist_eqb (handler_input s) (List.map fst recv)
      && forallb snd recv
      && zlist_eqb emitted (flat_map reply (handler_input s))
      && (if lockstep
          then all2 item_eqb client (lockstep_stream reply mfs)
          else zlist_eqb (scripted_of client) (flat_map reply (handler_input s))
               && all2 (fun o r => notice_is r o) (others_of client) (rejections s))
  end.

(* ---- oracle: the property text over the observation ------------------ *)

Definition expected_forwardable (cf : cframe) : bool := forwardable_spec (cf_exp cf).

Definition nonempty (s : str) : bool := match s with [] => false | _ => true end.

(** "a NOTICE, or a rejecting OK/CLOSED naming the event or subscription" *)
Definition rejection_for (cf : cframe) (o : sobs) : bool :=
  match o with
  | ONotice _ => true
  | OOk id accepted => negb accepted && nonempty id && str_eqb id (fr_evid (cf_exp cf))
  | OClosed sub => match cf_sub cf with Some s => str_eqb sub s | None => false end
  | _ => false
  end.

Definition last_received_is_last_frame (fs : list cframe) (recv : list (Z * bool)) : bool :=
  match rev fs, rev recv with
  | cf :: _, (i, same) :: _ => negb (expected_forwardable cf) || ((i =? fr_msg (cf_exp cf)) && same)
  | cf :: _, [] => negb (expected_forwardable cf)
  | [], _ => true
  end.

Definition spec_ok (c : case) : bool :=
  match c with
  | CSess _ fs recv emitted client =>
      (* the handler receives exactly the forwardable frames, once each, in the order sent, unchanged *)
      zlist_eqb (List.map fst recv) (filter_map (fun cf => forwardable (cf_exp cf)) fs)
      && forallb snd recv
      (* every other frame is answered with exactly one rejection (in order); nothing else is sent by the relay *)
      && all2 rejection_for (filter (fun cf => negb (expected_forwardable cf)) fs) (others_of client)
      (* every message the handler emits reaches the client as one text frame decoding to it, in emission order *)
      && zlist_eqb (scripted_of client) emitted
      (* the connection stays usable: the last frame (a valid one) still reaches the handler *)
      && last_received_is_last_frame fs recv
  end.

Definition run_case (c : case) : bool * bool := (model_ok c, spec_ok c).
