(* Correspondence cases for C20: httptest requests against the real ServeMux,
   direct calls of NIP11.ServeHTTP, json.Marshal / Unmarshal of NIP11 documents
   and of Nip11Kind values. *)
From Moc Require Import Base Http.
Open Scope Z_scope.
Import Coq.Strings.String.StringSyntax.

(** what was observed of one HTTP exchange: whether the relay / the default
    handler was entered, status, the values of the two headers, the body and,
    when the body is valid JSON, its value *)
Record hobs := mkObs {
  ob_relay : bool; ob_default : bool; ob_status : Z;
  ob_ct : list str; ob_acao : list str; ob_body : str; ob_json : option jv
}.

Inductive case :=
| CRoute (upgrade accept : list str) (cfg : muxcfg) (o : hobs)
| CDirect (accept : list str) (d : nip11) (o : hobs)
| CDoc (d : nip11) (marshal : option jv) (rt : option nip11)
| CKind (k : kind) (enc : option jv) (rt : option kind)
| CKindDec (v : jv) (res : option kind).

Definition ct_name : str := hs "Content-Type".
Definition acao_name : str := hs "Access-Control-Allow-Origin".

Definition hdr_vals (k : str) (hs : list (str * str)) : list str :=
  List.map snd (filter (fun kv => str_eqb (fst kv) k) hs).

(* ---- model side ------------------------------------------------------ *)

(** Content-Type is compared only when the handler sets one (otherwise net/http sniffs it);
    the text of an error answer is not compared *)
Definition resp_agrees (r : response) (o : hobs) : bool :=
  (rs_status r =? ob_status o) &&
  list_eqb str_eqb (hdr_vals acao_name (rs_headers r)) (ob_acao o) &&
  (match hdr_vals ct_name (rs_headers r) with [] => true | l => list_eqb str_eqb l (ob_ct o) end) &&
  (match rs_body r with
   | BText t => if rs_status r =? 200 then str_eqb t (ob_body o) else true
   | BJson v => oeqb jv_eqb (Some v) (ob_json o)
   end).

Definition model_route (upgrade accept : list str) (cfg : muxcfg) (o : hobs) : bool :=
  match mux_serve upgrade accept cfg with
  | ORelay => ob_relay o && negb (ob_default o)
  | ODefault => ob_default o && negb (ob_relay o)
  | OResp r => negb (ob_relay o) && negb (ob_default o) && resp_agrees r o
  | OPanic => false
  end.

(* ---- specification side (from the property text) --------------------- *)

Definition first_value (vals : list str) : str := match vals with v :: _ => v | [] => [] end.

Definition is_nostr_json (s : str) : bool := str_eqb s (hs "application/nostr+json").

(** the answer is the configured document: 200, the two headers, a JSON body
    that reads back as the configuration (up to nil versus empty lists) *)
Definition doc_answer (d : nip11) (o : hobs) : bool :=
  (ob_status o =? 200) &&
  list_eqb str_eqb (ob_ct o) [hs "application/nostr+json"] &&
  list_eqb str_eqb (ob_acao o) [hs "*"] &&
  match ob_json o with
  | Some j => oeqb nip11_eqb (dec_nip11 j) (Some (norm d))
  | None => false
  end.

Definition spec_route (upgrade accept : list str) (cfg : muxcfg) (o : hobs) : bool :=
  let u := first_value upgrade in
  let a := first_value accept in
  if negb (str_eqb u []) then
    (* handed to the relay, and to nobody else *)
    ob_relay o && negb (ob_default o) && negb (list_eqb str_eqb (ob_ct o) [hs "application/nostr+json"])
  else if is_nostr_json a then
    negb (ob_relay o) && negb (ob_default o) &&
    match mc_nip11 cfg with
    | Some d => doc_answer d o
    | None => match ob_json o with Some _ => true | None => false end   (* `{}`: valid JSON *)
    end
  else
    negb (ob_relay o) &&
    (if mc_has_default cfg then ob_default o else negb (ob_default o) && (ob_status o =? 200)) &&
    negb (list_eqb str_eqb (ob_ct o) [hs "application/nostr+json"]).

Definition kind_reading (v : jv) : option kind :=
  match v with
  | JInt n => Some (mkKind n n)
  | JArr [JInt a; JInt b] => Some (mkKind a b)
  | _ => None
  end.

Definition run_case (c : case) : bool * bool :=
  match c with
  | CRoute upgrade accept cfg o =>
      (model_route upgrade accept cfg o, spec_route upgrade accept cfg o)
  | CDirect accept d o =>
      (negb (ob_relay o) && negb (ob_default o) && resp_agrees (serve_nip11 (hdr_get accept) d) o,
       if is_nostr_json (first_value accept) then doc_answer d o else true)
  | CDoc d marshal rt =>
      (oeqb jv_eqb (Some (enc_nip11 d)) marshal && oeqb nip11_eqb (dec_nip11 (enc_nip11 d)) rt,
       oeqb nip11_eqb rt (Some (norm d)) &&
       match marshal with Some j => oeqb nip11_eqb (dec_nip11 j) (Some (norm d)) | None => false end)
  | CKind k enc rt =>
      (oeqb jv_eqb (Some (enc_kind k)) enc && oeqb kind_eqb (dec_kind (enc_kind k)) rt,
       oeqb kind_eqb rt (Some k) &&
       match enc with Some j => oeqb kind_eqb (kind_reading j) (Some k) | None => false end)
  | CKindDec v res =>
      (oeqb kind_eqb (dec_kind v) res,
       match kind_reading v with Some k => oeqb kind_eqb res (Some k) | None => true end)
  end.
