(* Correspondence cases for C19.  A case is a history, given as groups of
   steps (the steps of a group were injected concurrently, on pairwise distinct
   sessions, and the registry was read once the group had been processed; most
   groups are singletons), the values read from prometheus' Registry.Gather()
   after each group, and what the inner handler / the client side saw.

   The harness has two transports: the Handler API called directly, and
   WebSocket sessions served by the real Relay.ServeHTTP (whose upgrade
   requests carry client-chosen X-Request-Id headers).  Neither the model nor
   the specification mentions the transport or the headers — the middleware
   draws a fresh key per session — so a case of either transport is judged by
   the same model and the same oracle; a run that did not end cleanly (a lost
   message, a panic of a goroutine of the middleware: [clean = false]) is
   rejected by both. *)
From Moc Require Import Base Prom.
Open Scope Z_scope.

Record snap := mkSnap {
  sn_conn : Z; sn_req : Z;
  sn_recv : list (str * Z); sn_kind : list (str * Z); sn_send : list (str * Z)
}.

Inductive case :=
| Case (groups : list (list pstep)) (obs : list snap)
       (inner : list (Z * list pcmsg)) (outer : list (Z * list psmsg)) (clean : bool).

Definition cwhat_eqb (a b : cwhat) : bool :=
  match a, b with
  | CEvent k, CEvent k' => k =? k'
  | CReq s, CReq s' | CClose s, CClose s' | CCount s, CCount s' => str_eqb s s'
  | CAuth, CAuth | COther, COther => true
  | _, _ => false
  end.
Definition swhat_eqb (a b : swhat) : bool :=
  match a, b with
  | SEose s, SEose s' | SEvent s, SEvent s' | SCount s, SCount s' | SClosed s, SClosed s' => str_eqb s s'
  | SNotice, SNotice | SOk, SOk | SAuth, SAuth | SOther, SOther => true
  | _, _ => false
  end.
Definition cm_eqb (a b : pcmsg) : bool := cwhat_eqb (cm_what a) (cm_what b) && (cm_uid a =? cm_uid b).
Definition sm_eqb (a b : psmsg) : bool := swhat_eqb (sm_what a) (sm_what b) && (sm_uid a =? sm_uid b).

(** two label -> value tables denote the same function and list the same children *)
Definition cv_sub (a b : list (str * Z)) : bool :=
  forallb (fun kv => existsb (fun kv' => str_eqb (fst kv) (fst kv') && (snd kv =? snd kv')) b) a.
Definition cv_same (a b : list (str * Z)) : bool := cv_sub a b && cv_sub b a.

Definition get_or_nil {A} (s : Z) (m : list (Z * list A)) : list A :=
  match zget s m with Some l => l | None => [] end.

(* ---- model side ---------------------------------------------------- *)

Definition snap_agrees (st : pstate) (o : snap) : bool :=
  (p_conn st =? sn_conn o) && (p_req st =? sn_req o) &&
  cv_same (p_recv st) (sn_recv o) && cv_same (p_kind st) (sn_kind o) && cv_same (p_send st) (sn_send o).

Fixpoint model_loop (st : pstate) (groups : list (list pstep)) (obs : list snap) : bool :=
  match groups, obs with
  | [], [] => true
  | g :: gs, o :: os =>
      match run_from st g with
      | POk st' => snap_agrees st' o && model_loop st' gs os
      | PPanic => false
      end
  | _, _ => false
  end.

Definition model_views (h : list pstep) (inner : list (Z * list pcmsg)) (outer : list (Z * list psmsg)) : bool :=
  let t := trace h in
  forallb (fun s => list_eqb cm_eqb (handler_view s t) (get_or_nil s inner) &&
                    list_eqb sm_eqb (client_view s t) (get_or_nil s outer)) (sessions_of h) &&
  forallb (fun kv => mem_Z (fst kv) (sessions_of h)) inner &&
  forallb (fun kv => mem_Z (fst kv) (sessions_of h)) outer.

(* ---- specification side (written from the property text) ------------ *)

Definition nodup_keys (cv : list (str * Z)) : bool :=
  Nat.eqb (length (nodup_str (List.map fst cv))) (length cv).

(** every exported child carries the number of matching messages, and every
    label that occurred is exported *)
Definition counter_ok (cv : list (str * Z)) (count : str -> nat) (occurring : list str) : bool :=
  nodup_keys cv &&
  forallb (fun kv => snd kv =? Z.of_nat (count (fst kv))) cv &&
  forallb (fun l => existsb (fun kv => str_eqb (fst kv) l) cv) occurring.

Definition recv_labels (h : list pstep) : list str :=
  flat_map (fun x => match x with Client _ m => [clabel (cm_what m)] | _ => [] end) h.
Definition kind_labels (h : list pstep) : list str :=
  flat_map (fun x => match x with Client _ m => match cm_what m with CEvent k => [showZ k] | _ => [] end | _ => [] end) h.
Definition send_labels (h : list pstep) : list str :=
  flat_map (fun x => match x with Server _ m => [slabel (sm_what m)] | _ => [] end) h.

Definition spec_snap (h : list pstep) (o : snap) : bool :=
  (sn_conn o =? Z.of_nat (length (live_list h))) &&
  (sn_req o =? Z.of_nat (length (open_list h))) &&
  counter_ok (sn_recv o) (n_recv h) (recv_labels h) &&
  counter_ok (sn_kind o) (n_kind h) (kind_labels h) &&
  counter_ok (sn_send o) (n_send h) (send_labels h).

Fixpoint spec_loop (h : list pstep) (groups : list (list pstep)) (obs : list snap) : bool :=
  match groups, obs with
  | [], [] => true
  | g :: gs, o :: os => let h' := h ++ g in spec_snap h' o && spec_loop h' gs os
  | _, _ => false
  end.

Definition spec_views (h : list pstep) (inner : list (Z * list pcmsg)) (outer : list (Z * list psmsg)) : bool :=
  forallb (fun s => list_eqb cm_eqb (get_or_nil s inner) (client_sent s h) &&
                    list_eqb sm_eqb (get_or_nil s outer) (server_sent s h)) (sessions_of h) &&
  forallb (fun kv => mem_Z (fst kv) (sessions_of h)) inner &&
  forallb (fun kv => mem_Z (fst kv) (sessions_of h)) outer.

Definition run_case (c : case) : bool * bool :=
  match c with
  | Case groups obs inner outer clean =>
      let h := concat groups in
      (clean && wfb h && model_loop p_init groups obs && model_views h inner outer,
       clean && spec_loop [] groups obs && spec_views h inner outer)
  end.
