From Moc Require Import Base Match Cache CacheSpec.
From Moc.Check Require Export CacheCheck.
Open Scope Z_scope.

Definition run_case (c : case) : bool * bool :=
  (model_ok c, match c with CHist cap steps => spec_steps step_ok_c04 cap [] steps end).
