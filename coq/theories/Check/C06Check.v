(* Correspondence cases for C06: a batch history run against the real
   insertEvents / queryEvent; after every batch some filter lists are queried
   and the answers recorded.  run_case = (the relational model accepts every
   recorded answer, the specification oracle accepts every recorded answer). *)
From Moc Require Import Base Match Sql SqlSpec SqlCheckBase.
Open Scope Z_scope.

Definition step := (list event * list (list rfilter * qres))%type.

Inductive case :=
| CHist (maxLimit : Z) (steps : list step)
| CBroken.   (* the harness could not run the case: an insert failed or the code panicked *)

(** what the theorems assume of a history and a filter list (admission gate,
    functional ids, the scoping decisions of DESIGN.md 9) *)
Definition hist_pre (es : list event) : bool :=
  forallb gate_valid_event es &&& ids_functionalb es &&& e_refs_canonical es &&& a_refs_scoped es.

Definition query_pre (fs : list rfilter) (maxLimit : Z) : bool :=
  match fs with [] => false | _ => true end &&& forallb gate_valid_filter fs &&& (0 <? maxLimit).

(** [hp] = hist_pre es, [L] = live_list es, computed once per step *)
Definition spec_accepts (hp : bool) (L : list event) (fs : list rfilter) (maxLimit : Z) (obs : qres) : bool :=
  if hp &&& query_pre fs maxLimit then
    match obs with
    | QOk out => query_specb_L L fs maxLimit out
    | QErr => false
    end
  else true.

Fixpoint run_steps (maxLimit : Z) (s : db) (es : list event) (steps : list step) : bool * bool :=
  match steps with
  | [] => (true, true)
  | (b, qs) :: rest =>
      let s' := insert_batch 0 s b in
      let es' := es ++ b in
      let hp := hist_pre es' in
      let L := if hp then live_list es' else [] in
      let m := forallb (fun q => model_accepts s' (fst q) maxLimit (snd q)) qs in
      let o := forallb (fun q => spec_accepts hp L (fst q) maxLimit (snd q)) qs in
      let '(m', o') := run_steps maxLimit s' es' rest in
      (m && m', o && o')
  end.

Definition run_case (c : case) : bool * bool :=
  match c with
  | CHist ml steps => run_steps ml empty_db [] steps
  | CBroken => (false, false)
  end.
