(* Correspondence cases for C11 (admission): evaluated by vm_compute on cases
   written by the harness from the implementation's observed behaviour.
   Imports definition files only. *)
From Moc Require Import Base Json CodecMsg Codec Valid.
From Moc.Gen Require Import GenMsg.
Open Scope Z_scope.

Inductive case :=
(* ParseClientMsg + ValidClientMsg on the text printed from [j] (with the two
   token-level facts): parsed?, judged valid?, panicked?, the decoded value *)
| CAdmit (lead esc : bool) (j : jv) (parsed valid panicked : bool) (v : option cmsg)
(* a text that is not (shallow) valid JSON *)
| CAdmitRaw (parsed panicked : bool)
(* ValidClientMsg on a value built directly *)
| CValid (m : cmsg) (valid panicked : bool)
(* validNaddr / validKind through the verif hooks *)
| CNaddr (s : str) (valid panicked : bool)
| CKind (k : Z) (valid : bool).

Definition run_case (c : case) : bool * bool :=
  match c with
  | CAdmit lead esc j parsed valid panicked v =>
      (regexp_known && negb panicked &&
       match parse_client_msg (mkCText lead esc j) with
       | Val m =>
           parsed && match v with Some m' => cmsg_eqb m m' | None => false end &&
           Bool.eqb valid (valid_client_msg m)
       | Err => negb parsed && negb valid
       | Panic => false
       end,
       (* from the property text: a well-formed message is parsed and judged
          valid; a message judged valid breaks none of the constraints: its
          text has the label, arity, member names and JSON types of NIP-01
          and its decoded events and filters satisfy the value constraints *)
       negb panicked &&
       (if wf_json_cmsg esc j then parsed && valid else true) &&
       (if parsed && valid
        then struct_cmsg j && match v with Some m => constraintsb m | None => false end
        else true))
  | CAdmitRaw parsed panicked =>
      (negb parsed && negb panicked, negb panicked)
  | CValid m valid panicked =>
      (negb panicked && Bool.eqb (valid_client_msg m) valid,
       negb panicked && (if wf_nip01b m then valid else true) && (if valid then constraintsb m else true))
  | CNaddr s valid panicked =>
      (negb panicked && Bool.eqb (valid_naddr s) valid,
       negb panicked && Bool.eqb (naddr_specb s) valid)
  | CKind k valid =>
      (Bool.eqb (g_valid_kind k) valid, Bool.eqb (kind_specb k) valid)
  end.
