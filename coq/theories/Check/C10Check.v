(* Correspondence cases for C10 (wire codec): evaluated by vm_compute on
   cases written by the harness from the implementation's observed behaviour.
   Imports definition files only. *)
From Moc Require Import Base Json CodecMsg Codec.
Open Scope Z_scope.

Inductive case :=
(* json.Unmarshal of the text printed from [j] into the Go type [ty]: outcome
   [o1]; if a value, json.Marshal of it read back as [enc] and decoded again: [o2] *)
| CDec (ty : wty) (j : jv) (o1 : res wval) (enc : option jv) (o2 : option (res wval))
(* ParseClientMsg on the text printed from [j] with the two token-level facts *)
| CParse (lead esc : bool) (j : jv) (o1 : res wval) (enc : option jv) (o2 : option (res wval))
(* json.Marshal of a Go value built directly, read back as [enc], decoded: [o] *)
| CEnc (v : wval) (enc : option jv) (o : res wval)
(* a text that is not (shallow) valid JSON: only accepted? / panicked? *)
| CRaw (accepted panicked : bool)
(* a history: the steps were run one after the other in one process.  The codec
   is a function of its input alone (the model has no state), so every step is
   judged by itself, by the model and by the oracle; an observation that
   depends on an earlier step is a failing step. *)
| CSeq (steps : list case).

Definition wty_eqb (a b : wty) : bool :=
  match a, b with
  | TEvent, TEvent | TFilter, TFilter | TCEvent, TCEvent | TCReq, TCReq | TCClose, TCClose
  | TCAuth, TCAuth | TCCount, TCCount | TSEose, TSEose | TSEvent, TSEvent | TSNotice, TSNotice
  | TSOk, TSOk | TSAuth, TSAuth | TSCount, TSCount | TSClosed, TSClosed => true
  | _, _ => false
  end.

Definition obs_eqb := res_eqb wval_eqb.

Definition is_jnull (j : jv) : bool := match j with JNull => true | _ => false end.

(** the label a value's type names, if its type has one *)
Definition label_of_wval (v : wval) : option str :=
  match v with
  | WC m => Some (label_of_cmsg m)
  | WS m => Some (label_of_smsg m)
  | _ => None
  end.

(** specification oracle for one decoded text, from the property statement:
    no panic; a result is a completely filled value of the type the label
    names; decode-encode-decode gives the same value as decode.  The bare
    text null (a no-op by Go's Unmarshaler convention) is not claimed. *)
Definition dec_oracle (ty : option wty) (j : jv) (o1 : res wval) (o2 : option (res wval)) : bool :=
  negb (is_panic o1) &&
  match o2 with Some o => negb (is_panic o) | None => true end &&
  match o1 with
  | Val v =>
      is_jnull j ||
      (wf_wvalb v &&
       match ty with Some t => wty_eqb (ty_of v) t | None => match v with WC _ => true | _ => false end end &&
       match label_of_wval v with
       | Some l => match first_label j with Some l' => str_eqb l l' | None => false end
       | None => true
       end &&
       match o2 with Some (Val v2) => wval_eqb v v2 | _ => false end)
  | _ => true
  end.

Definition reenc_model (dec : jv -> res wval) (o1 : res wval) (enc : option jv) (o2 : option (res wval)) : bool :=
  match o1 with
  | Val v =>
      match enc, o2 with
      | Some e, Some o => jv_eqv (enc_wval v) e && jv_eqv e (enc_wval v) && obs_eqb (dec e) o
      | _, _ => false
      end
  | _ => match enc, o2 with None, None => true | _, _ => false end
  end.

Fixpoint run_case (c : case) : bool * bool :=
  match c with
  | CDec ty j o1 enc o2 =>
      (obs_eqb (dec_as ty j) o1 && reenc_model (dec_as ty) o1 enc o2,
       dec_oracle (Some ty) j o1 o2)
  | CParse lead esc j o1 enc o2 =>
      let parse t := rmap WC (parse_client_msg t) in
      (regexp_known && obs_eqb (parse (mkCText lead esc j)) o1 &&
       reenc_model (fun e => parse (plain_text e)) o1 enc o2,
       dec_oracle None j o1 o2)
  | CEnc v enc o =>
      (match enc with
       | Some e => jv_eqv (enc_wval v) e && jv_eqv e (enc_wval v) && obs_eqb (dec_as (ty_of v) e) o
       | None => false
       end,
       negb (is_panic o) && (if wf_wvalb v then obs_eqb o (Val v) else true))
  | CRaw accepted panicked =>
      (negb accepted && negb panicked, negb panicked)
  | CSeq steps =>
      (fix all (l : list case) : bool * bool :=
         match l with
         | [] => (true, true)
         | s :: l' =>
             let (m, o) := run_case s in
             let (m', o') := all l' in
             (m && m', o && o')
         end) steps
  end.
