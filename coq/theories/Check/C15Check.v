(* Correspondence / oracle evaluator for C15.

   A case is one recorded concurrent history against ONE real EventCache: per
   operation the thread, the stamps of a global atomic clock taken just before
   the call and just after it returned, and what was observed (verdict of Add,
   ids returned by Find in order, value of Len); all operations are completed.

   run_case = (there is a linearization of the history under the sequential
               model Cache.v  — a Wing-Gong search,
               the specification oracle: no data race was reported, no operation
               panicked, and every response satisfies the claims the property makes
               about single responses, judged without the model).

   Imports definition files only. *)
From Moc Require Import Base Match Cache CacheSpec.
Open Scope Z_scope.

Inductive obs :=
| XAdd (e : event) (added : bool)
| XFind (fs : list rfilter) (out : list event)
| XLen (n : Z).

Record top := mkTop {
  t_thread : Z;
  t_inv : Z;          (* clock value taken before the call *)
  t_resp : Z;         (* clock value taken after the return *)
  t_obs : obs;
  t_panic : bool      (* the call panicked (recovered by the harness) *)
}.

(** [race]: the race detector (or the Go runtime: concurrent map access, deadlock
    watchdog) stopped the run during this history *)
Inductive case := CLin (cap : Z) (ops : list top) (race : bool).

(* ------------------------------------------------------------------ *)
(** * Linearizability checker (model side) *)

(** the model's state after the operation if the observed result is the model's result *)
Definition apply_obs (s : cstate) (x : obs) : option cstate :=
  match x with
  | XAdd e added => let '(s', b) := c_add s e in if Bool.eqb b added then Some s' else None
  | XFind fs out =>
      match c_find s fs with
      | Ok l => if list_eqb event_eqb l out then Some s else None
      | Panic => None
      end
  | XLen n => if c_len s =? n then Some s else None
  end.

Definition is_read (x : obs) : bool := match x with XAdd _ _ => false | _ => true end.

(** every element with the others *)
Fixpoint picks {A} (pre l : list A) : list (A * list A) :=
  match l with
  | [] => []
  | x :: r => (x, rev_append pre r) :: picks (x :: pre) r
  end.

(** [x] may be linearized first: no remaining operation responded before [x] was invoked *)
Definition minimal (x : top) (rem : list top) : bool :=
  forallb (fun y => negb (t_resp y <? t_inv x)) rem.

(** Wing-Gong search.  A minimal query (Find, Len) whose answer is the model's
    answer in the current state is linearized at once: it does not change the
    state, so if any linearization of the remaining operations exists, one that
    starts with this query exists too.  Insertions are tried in every order. *)
Fixpoint lin_search (fuel : nat) (s : cstate) (rem : list top) : bool :=
  match rem with
  | [] => true
  | _ :: _ =>
      match fuel with
      | O => false
      | S f =>
          let cands := List.filter (fun p => minimal (fst p) rem) (picks [] rem) in
          match List.find (fun p => is_read (t_obs (fst p)) && isSome (apply_obs s (t_obs (fst p)))) cands with
          | Some p => lin_search f s (snd p)
          | None =>
              existsb (fun p => negb (is_read (t_obs (fst p))) &&
                                match apply_obs s (t_obs (fst p)) with
                                | Some s' => lin_search f s' (snd p)
                                | None => false
                                end) cands
          end
      end
  end.

Definition lin_check (cap : Z) (ops : list top) : bool :=
  lin_search (length ops) (c_empty cap) ops.

(* ------------------------------------------------------------------ *)
(** * Oracle (from the property text; does not call the model) *)

(** no query shows more than capacity events, two versions of one address, or an
    event together with a retained deletion request of its author that references it *)
Definition answer_ok (cap : Z) (out : list event) : bool :=
  (Z.of_nat (length out) <=? cap) &&
  one_per_address out &&
  nodup_ids out &&
  forallb (fun x => forallb (fun d => negb (is_k5 d && str_eqb (ev_pk d) (ev_pk x) && refs d x)) out) out.

(** nothing out of thin air: a returned event was offered by an Add invoked before the query returned *)
Definition offered_before (ops : list top) (q : top) (x : event) : bool :=
  existsb (fun y => match t_obs y with
                    | XAdd e _ => event_eqb e x && (t_inv y <? t_resp q)
                    | _ => false
                    end) ops.

Definition response_ok (cap : Z) (ops : list top) (q : top) : bool :=
  negb (t_panic q) && (t_inv q <? t_resp q) &&
  match t_obs q with
  | XAdd _ _ => true
  | XFind _ out => answer_ok cap out && forallb (offered_before ops q) out
  | XLen n => (0 <=? n) && (n <=? cap)
  end.

Definition run_case (c : case) : bool * bool :=
  match c with
  | CLin cap ops race =>
      (negb race && forallb (fun q => negb (t_panic q)) ops && lin_check cap ops,
       negb race && forallb (response_ok cap ops) ops)
  end.
