(* Correspondence cases for C16.
   CCache : a message sequence over all five client types fed through the real
            CacheHandler.ServeNostr; the exact reply sequence, and the
            match-everything listing after every EVENT.
   CDump  : a history, the listing, the events read back from Dump's JSON, the
            listing of a fresh cache after Restore, and filter lists asked of
            both caches.
   CSqlite: a message sequence through the real SQLiteHandler
            (EventBulkInsertNum = 1; every accepted event is in the database
            before the next request is sent).
   run_case = (model agrees with the observation, oracle accepts the observation). *)
From Moc Require Import Base Match Msg Cache CacheSpec Handlers.
From Moc Require Sql SqlSpec SqlCheckBase.
Open Scope Z_scope.

Inductive case :=
| CCache (cap : Z) (msgs : list cmsg) (replies : list smsg) (listings : list (list event))
| CDump (cap : Z) (hist listing dumped restored : list event)
        (qs : list (list rfilter * list event * list event))
| CSqlite (maxLimit : Z) (msgs : list cmsg) (replies : list smsg)
| CBigDump (listing restored : list str) (qs : list (list str * list str))
    (* a store of a thousand or more events: ids only; judged by the oracle alone
       (the restored cache must list and answer exactly like the original) *)
| CBroken.   (* the harness could not run the case: a reply never came, Dump/Restore failed, a panic *)

Definition events_eqb : list event -> list event -> bool := list_eqb event_eqb.
Definition smsgs_eqb : list smsg -> list smsg -> bool := list_eqb smsg_eqb.

(* ------------------------------------------------------------------ *)
(** * cache handler *)

Fixpoint model_listings (s : cstate) (msgs : list cmsg) : list (list event) :=
  match msgs with
  | [] => []
  | CEvent e :: rest => let s' := fst (c_add s e) in c_listing s' :: model_listings s' rest
  | _ :: rest => model_listings s rest
  end.

Definition cache_model_ok (cap : Z) (msgs : list cmsg) (replies : list smsg) (listings : list (list event)) : bool :=
  match cache_session (c_empty cap) msgs with
  | Ok (_, out) => smsgs_eqb out replies
  | Panic => false
  end &&
  list_eqb events_eqb (model_listings (c_empty cap) msgs) listings.

(* ------------------------------------------------------------------ *)
(** * dump / restore *)

Definition find_is (s : cstate) (fs : list rfilter) (out : list event) : bool :=
  match c_find s fs with Ok l => events_eqb l out | Panic => false end.

Definition dump_model_ok (cap : Z) (hist listing dumped restored : list event)
           (qs : list (list rfilter * list event * list event)) : bool :=
  let s := c_run cap hist in
  let s' := restore (c_empty cap) (dump s) in
  events_eqb (c_listing s) listing &&
  events_eqb (dump s) dumped &&
  events_eqb (c_listing s') restored &&
  forallb (fun q => find_is s (fst (fst q)) (snd (fst q)) && find_is s' (fst (fst q)) (snd q)) qs.

(* ------------------------------------------------------------------ *)
(** * SQLite handler *)

Definition sq_query (ml : Z) (d : Sql.db) (fs : list rfilter) : option (list event) := Sql.query d fs ml.
Definition sq_insert (d : Sql.db) (b : list event) : Sql.db := Sql.insert_batch 0 d b.

Definition sq_flush (s : sqstate Sql.db) : sqstate Sql.db :=
  fold_left (bg_step Sql.db sq_insert 1) (repeat BgRecv (length (sq_queue s))) s.

Fixpoint is_prefix (a b : list smsg) : bool :=
  match a, b with
  | [], _ => true
  | x :: a', y :: b' => smsg_eqb x y && is_prefix a' b'
  | _ :: _, [] => false
  end.

(** the model along the observed replies: every reply but the events of a REQ
    must be exactly the model's; the events of a REQ must be an answer the
    relational model admits (the order among equal created_at is SQLite's) *)
Fixpoint sq_walk (ml : Z) (s : sqstate Sql.db) (msgs : list cmsg) (out : list smsg) : bool :=
  match msgs with
  | [] => match out with [] => true | _ => false end
  | m :: rest =>
      let s0 := sq_flush s in
      let '(s1, ch) := sqlite_reply Sql.db (sq_query ml) s0 m in
      match m with
      | CReq sub fs =>
          let '(evs, out1) := take_events out in
          forallb (fun se => str_eqb (fst se) sub) evs &&
          match out1 with
          | SEose sub' :: out2 =>
              str_eqb sub' sub &&
              match sq_query ml (sq_db s0) fs with
              | None => match evs with [] => true | _ => false end
              | Some _ => SqlCheckBase.model_accepts (sq_db s0) fs ml (SqlCheckBase.QOk (List.map snd evs))
              end &&
              sq_walk ml s1 rest out2
          | _ => false
          end
      | _ =>
          let items := chan_items ch in
          is_prefix items out && sq_walk ml s1 rest (skipn (length items) out)
      end
  end.

Definition not_event (m : smsg) : bool := negb (smsg_is_event m).

(** the replies other than events, in order, are those of [sqlite_session]
    under the schedule "the inserter drains the channel before every request" *)
Definition sq_skeleton_ok (ml : Z) (msgs : list cmsg) (replies : list smsg) : bool :=
  let sched := List.map (fun _ => repeat BgRecv (length msgs)) msgs in
  match sqlite_session Sql.db (sq_query ml) sq_insert 1 sched (mkSq Sql.empty_db [] [] []) msgs with
  | Ok (_, out) => smsgs_eqb (List.filter not_event out) (List.filter not_event replies)
  | Panic => false
  end.

Definition sqlite_model_ok (ml : Z) (msgs : list cmsg) (replies : list smsg) : bool :=
  sq_walk ml (mkSq Sql.empty_db [] [] []) msgs replies && sq_skeleton_ok ml msgs replies.

(** oracle: the view is the list of events sent so far *)
Definition sq_next_view (h : list event) (e : event) (aux : list unit) : list event * list unit := (h ++ [e], aux).

Definition sq_ok_judge (_ _ : list event) (e : event) (r : smsg) : bool :=
  match r with
  | SOk id acc _ _ => str_eqb id (ev_id e) && acc
  | _ => false
  end.

Definition sq_hist_pre (es : list event) : bool :=
  forallb SqlSpec.gate_valid_event es && SqlSpec.ids_functionalb es &&
  SqlSpec.e_refs_canonical es && SqlSpec.a_refs_scoped es.

Definition sq_query_pre (fs : list rfilter) (ml : Z) : bool :=
  match fs with [] => false | _ => true end && forallb SqlSpec.gate_valid_filter fs && (0 <? ml).

(** the matches of a REQ: returned events were sent before, match the filter
    list, come without duplicates in non-increasing created_at order; for
    gate-valid histories and filters the answer is judged by C06's oracle *)
Definition sq_req_judge (ml : Z) (h : list event) (fs : list rfilter) (evs : list event) : bool :=
  forallb (fun x => SqlSpec.mem_event x h) evs &&
  SqlSpec.nodupb evs && SqlSpec.desc_sortedb evs &&
  forallb (fun x => matches_specb x fs) evs &&
  (if sq_hist_pre h && sq_query_pre fs ml
   then SqlSpec.query_specb_L (SqlSpec.live_list h) fs ml evs
   else true).

Definition sqlite_session_ok (ml : Z) (msgs : list cmsg) (replies : list smsg) : bool :=
  session_shape_ok sq_next_view sq_ok_judge (sq_req_judge ml) [] [] msgs replies.

(* ------------------------------------------------------------------ *)

Definition run_case (c : case) : bool * bool :=
  match c with
  | CCache cap msgs replies listings =>
      (cache_model_ok cap msgs replies listings, cache_session_ok msgs replies listings)
  | CDump cap hist listing dumped restored qs =>
      (dump_model_ok cap hist listing dumped restored qs, dump_restore_ok listing dumped restored qs)
  | CSqlite ml msgs replies =>
      (sqlite_model_ok ml msgs replies, sqlite_session_ok ml msgs replies)
  | CBigDump listing restored qs =>
      (true,
       list_eqb str_eqb listing restored &&
       forallb (fun q => list_eqb str_eqb (fst q) (snd q)) qs)
  | CBroken => (false, false)
  end.
