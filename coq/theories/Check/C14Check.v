(* Correspondence cases for C14.
   CFault: a batch is run through the real insertEvents over a fault-injecting
   database/sql driver that fails the k-th driver call, for every k; the
   answers to a fixed query set are recorded before the batch, after each
   failure, after the retry that follows it, after one clean insertion, and
   after inserting the batch twice.
   CFaultAt: the same for a batch of more than 100 events, with the fault
   injected at a sample of the driver-call indices (begin, a prepare, the
   first exec, positions spread over the batch, the last execs, commit).
   CReopen: a batch history on a file-backed database that is closed and
   reopened at some positions, next to the same history without restarts.
   run_case = (the relational model accepts every recorded answer and predicts
   the number of driver calls and the seeds,
   the property read on the observations alone: failure = no change, retry =
   clean, twice = once, restarts invisible and the seed never changes - plus
   the C06 oracle on the answers of the restarted run). *)
From Moc Require Import Base Match Sql SqlSpec SqlCheckBase.
Open Scope Z_scope.

Definition rstep := (bool * list event * list qres * list qres)%type.

Inductive case :=
| CFault (pre : list (list event)) (b : list event) (ncalls : Z) (qs : list (list rfilter))
         (before : list qres) (after_fault after_retry : list (list qres)) (clean twice : list qres)
| CFaultAt (pre : list (list event)) (b : list event) (ncalls : Z) (qs : list (list rfilter))
           (before : list qres) (ks : list Z) (after_fault after_retry : list (list qres)) (clean twice : list qres)
| CReopen (qs : list (list rfilter)) (seeds : list Z) (steps : list rstep)
| CBroken.

Fixpoint all2 {A B} (p : A -> B -> bool) (a : list A) (b : list B) : bool :=
  match a, b with
  | [], [] => true
  | x :: a', y :: b' => p x y &&& all2 p a' b'
  | _, _ => false
  end.

Definition accepts_all (s : db) (qs : list (list rfilter)) (obs : list qres) : bool :=
  all2 (fun fs o => model_accepts s fs NoLimit o) qs obs.

Definition same_answers (a b : list qres) : bool := all2 qres_eq a b.

Definition hist_pre (es : list event) : bool :=
  forallb gate_valid_event es &&& ids_functionalb es &&& e_refs_canonical es &&& a_refs_scoped es.

Definition query_pre (fs : list rfilter) : bool :=
  match fs with [] => false | _ => true end &&& forallb gate_valid_filter fs.

Definition spec_all (es : list event) (qs : list (list rfilter)) (obs : list qres) : bool :=
  if hist_pre es then
    let L := live_list es in
    all2 (fun fs o => if query_pre fs then match o with QOk out => query_specb_L L fs NoLimit out | QErr => false end
                      else true) qs obs
  else true.

Fixpoint run_reopen (qs : list (list rfilter)) (seed0 : Z) (h : handle) (es : list event) (steps : list rstep)
  : bool * bool :=
  match steps with
  | [] => (true, true)
  | (re, b, got, ref) :: rest =>
      let h1 := if re then reopen h (seed0 + 1) else h in
      let h2 := h_insert h1 b in
      let es' := es ++ b in
      let m := (h_seed h2 =? seed0) &&& accepts_all (h_db h2) qs got in
      let o := same_answers got ref &&& spec_all es' qs got in
      let '(m', o') := run_reopen qs seed0 h2 es' rest in
      (m &&& m', o &&& o')
  end.

Definition run_case (c : case) : bool * bool :=
  match c with
  | CFault pre b ncalls qs before after_fault after_retry clean twice =>
      let s0 := run 0 empty_db pre in
      let n := batch_calls 0 s0 b in
      let s1 := insert_batch 0 s0 b in
      ((ncalls =? Z.of_nat n) &&& (Z.of_nat (length after_fault) =? ncalls) &&&
       (Z.of_nat (length after_retry) =? ncalls) &&&
       accepts_all s0 qs before &&&
       all2 (fun k obs => accepts_all (insert_batch_faulty 0 s0 b k) qs obs) (seq 0 (length after_fault)) after_fault &&&
       all2 (fun k obs => accepts_all (insert_batch 0 (insert_batch_faulty 0 s0 b k) b) qs obs)
            (seq 0 (length after_retry)) after_retry &&&
       accepts_all s1 qs clean &&& accepts_all (insert_batch 0 s1 b) qs twice,
       forallb (fun obs => same_answers obs before) after_fault &&&
       forallb (fun obs => same_answers obs clean) after_retry &&&
       same_answers twice clean &&& spec_all (concat pre ++ b) qs clean)
  | CFaultAt pre b ncalls qs before ks after_fault after_retry clean twice =>
      let s0 := run 0 empty_db pre in
      let n := batch_calls 0 s0 b in
      let s1 := insert_batch 0 s0 b in
      ((ncalls =? Z.of_nat n) &&& forallb (fun k => (0 <=? k) &&& (k <? ncalls)) ks &&&
       accepts_all s0 qs before &&&
       all2 (fun k obs => accepts_all (insert_batch_faulty 0 s0 b (Z.to_nat k)) qs obs) ks after_fault &&&
       all2 (fun k obs => accepts_all (insert_batch 0 (insert_batch_faulty 0 s0 b (Z.to_nat k)) b) qs obs)
            ks after_retry &&&
       accepts_all s1 qs clean &&& accepts_all (insert_batch 0 s1 b) qs twice,
       Nat.eqb (length after_fault) (length ks) &&& Nat.eqb (length after_retry) (length ks) &&&
       forallb (fun obs => same_answers obs before) after_fault &&&
       forallb (fun obs => same_answers obs clean) after_retry &&&
       same_answers twice clean &&& spec_all (concat pre ++ b) qs clean)
  | CReopen qs seeds steps =>
      match seeds with
      | [] => (false, false)
      | seed0 :: _ =>
          let '(m, o) := run_reopen qs seed0 (open_db empty_db seed0) [] steps in
          (m, forallb (Z.eqb seed0) seeds &&& o)
      end
  | CBroken => (false, false)
  end.
