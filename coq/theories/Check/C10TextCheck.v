(* Correspondence cases for C10T (the text <-> value layer under C10):
   evaluated by vm_compute on cases written by harness/cmd/core/c10text.go
   from what Go's encoding/json, unicode/utf8, regexp and the repository's
   ParseClientMsg / UnmarshalJSON did with a byte string.
   Imports definition files only. *)
From Moc Require Import Base Json CodecMsg Codec JsonText.
From Moc.Gen Require Import GenCodec.
Open Scope Z_scope.

(** a Decoder with UseNumber decoding the whole text into [any] *)
Inductive dres :=
| DVal (ast : option jv)   (* as Go's maps give it: de-duplicated, keys sorted; None: too deep to write out *)
       (tok : option jv)   (* as the Token stream gives it: source order, duplicates kept *)
| DErr
| DPanic.

(** ParseClientMsg's outcome class (by its three error texts) *)
Inductive pclass := PcVal | PcNoMatch | PcUnknown | PcFail | PcPanic.

Inductive case :=
| CText (b : str)
        (jvalid uvalid raw : bool)   (* json.Valid, utf8.Valid, Unmarshal into RawMessage ok *)
        (dec : dres)
        (mar : option str)           (* json.Marshal of the decoded value, if it holds no fraction/exponent number *)
        (lab : option str)           (* capture of the label pattern *)
        (pcls : pclass) (pobs : res wval)   (* ParseClientMsg *)
        (ty : wty) (dobs : res wval).       (* json.Unmarshal into the Go type ty *)

(** long texts made of one repeated opener and closer *)
Definition rep_text (n : N) (pre op mid cl suf : str) : str :=
  pre ++ concat (repeat op (N.to_nat n)) ++ mid ++ concat (repeat cl (N.to_nat n)) ++ suf.

Definition c10t_wty_eqb (a b : wty) : bool :=
  match a, b with
  | TEvent, TEvent | TFilter, TFilter | TCEvent, TCEvent | TCReq, TCReq | TCClose, TCClose
  | TCAuth, TCAuth | TCCount, TCCount | TSEose, TSEose | TSEvent, TSEvent | TSNotice, TSNotice
  | TSOk, TSOk | TSAuth, TSAuth | TSCount, TSCount | TSClosed, TSClosed => true
  | _, _ => false
  end.

Definition pclass_eqb (a b : pclass) : bool :=
  match a, b with
  | PcVal, PcVal | PcNoMatch, PcNoMatch | PcUnknown, PcUnknown | PcFail, PcFail | PcPanic, PcPanic => true
  | _, _ => false
  end.

Definition obs_eqb := res_eqb wval_eqb.
Definition opt_allb {A} (p : A -> bool) (o : option A) : bool := match o with Some x => p x | None => true end.
Definition jv_same_map (a b : jv) : bool := jv_eqv a b && jv_eqv b a.

Definition known_label (l : str) : bool :=
  str_eqb l g_MsgLabelEvent || str_eqb l g_MsgLabelReq || str_eqb l g_MsgLabelClose ||
  str_eqb l g_MsgLabelAuth || str_eqb l g_MsgLabelCount.

(** the class of ParseClientMsg's answer according to the model *)
Definition pclass_model (b : str) : pclass :=
  match label_match b with
  | None => PcNoMatch
  | Some l =>
      if known_label l then
        match parse_client_msg_bytes b with
        | Val _ => PcVal
        | Err => PcFail
        | Panic => PcPanic
        end
      else PcUnknown
  end.

Definition model_agrees (c : case) : bool :=
  match c with
  | CText b jvalid uvalid raw dec mar lab pcls pobs ty dobs =>
      Bool.eqb (json_valid b) jvalid &&
      Bool.eqb (utf8_valid b) uvalid &&
      Bool.eqb (json_valid b) raw &&
      match parse_json (fuel_of b) b, dec with
      | Some j, DVal ast tok => opt_allb (jv_same_map j) ast && opt_allb (jv_eqb j) tok
      | None, DErr => true
      | _, _ => false
      end &&
      (* the printer writes Go's value as json.Marshal writes it *)
      match dec, mar with
      | DVal (Some a) _, Some m => str_eqb (print_json a) m
      | _, _ => true
      end &&
      regexp_known &&
      opt_eqb str_eqb (label_match b) lab &&
      pclass_eqb (pclass_model b) pcls &&
      obs_eqb (rmap WC (parse_client_msg_bytes b)) pobs &&
      obs_eqb (rmap WC (parse_client_msg_ctext b)) pobs &&
      obs_eqb (decode_bytes ty b) dobs
  end.

Definition is_dval (d : dres) : bool := match d with DVal _ _ => true | _ => false end.
Definition is_jnull (j : jv) : bool := match j with JNull => true | _ => false end.

(** specification oracle, over the observations only.  From the property
    text: nothing panics; what is accepted is a filled value of the type its
    label names.  For the text layer: json.Valid, the RawMessage check and the
    decoder accept the same texts; the decoder's two readers (maps / tokens)
    describe the same value; every decoded string is valid UTF-8; and the
    decoded value, printed canonically, reads back as itself. *)
Definition oracle (c : case) : bool :=
  match c with
  | CText b jvalid uvalid raw dec mar lab pcls pobs ty dobs =>
      negb (match dec with DPanic => true | _ => false end) &&
      negb (is_panic pobs) && negb (is_panic dobs) && negb (pclass_eqb pcls PcPanic) &&
      Bool.eqb jvalid (is_dval dec) && Bool.eqb jvalid raw &&
      match dec with
      | DVal ast tok =>
          opt_allb jv_utf8 ast &&
          match tok with
          | Some t =>
              opt_allb (jv_same_map t) ast &&
              text_ok t &&
              match parse_json (fuel_of (print_json t)) (print_json t) with
              | Some t' => jv_eqb t t'
              | None => false
              end
          | None => true
          end
      | _ => true
      end &&
      Bool.eqb (pclass_eqb pcls PcVal) (is_val pobs) &&
      Bool.eqb (pclass_eqb pcls PcNoMatch) (match lab with None => true | Some _ => false end) &&
      match pobs with
      | Val (WC m) => jvalid && wf_cmsgb m && opt_eqb str_eqb lab (Some (label_of_cmsg m))
      | Val _ => false
      | _ => true
      end &&
      match dobs with
      | Val v =>
          jvalid &&
          (match dec with DVal (Some a) _ => is_jnull a | _ => false end ||
           wf_wvalb v && c10t_wty_eqb (ty_of v) ty)
      | _ => true
      end
  end.

Definition run_case (c : case) : bool * bool := (model_agrees c, oracle c).
