(* Shared correspondence evaluator for the cache properties (C03, C04, C05).
   A case is a whole history: capacity, and per insertion the observed
   verdict, Len(), the match-everything listing, the registry size (hook) and
   the answers to some filter lists. *)
From Moc Require Import Base Match Cache CacheSpec.
Open Scope Z_scope.

Record step := mkStep {
  st_e : event;
  st_added : bool;
  st_len : Z;
  st_list : list event;
  st_dlen : Z;
  st_tlen : Z;
  st_ilen : Z;           (* number of keys of the secondary index (hook) *)
  st_queries : list (list rfilter * list event);
  st_panic : bool        (* the implementation panicked during this step *)
}.

Inductive case := CHist (cap : Z) (steps : list step).

Definition events_eqb : list event -> list event -> bool := list_eqb event_eqb.

(** model agreement along the history *)
Fixpoint model_steps (s : cstate) (steps : list step) : bool :=
  match steps with
  | [] => true
  | st :: rest =>
      let '(s', added) := c_add s (st_e st) in
      negb (st_panic st) &&
      Bool.eqb added (st_added st) &&
      (c_len s' =? st_len st) &&
      events_eqb (c_listing s') (st_list st) &&
      (Z.of_nat (length (c_del s')) =? st_dlen st) &&
      (Z.of_nat (length (c_tree s')) =? st_tlen st) &&
      (Z.of_nat (length (c_idx s')) =? st_ilen st) &&
      forallb (fun q => match c_find s' (fst q) with
                        | Ok out => events_eqb out (snd q)
                        | Panic => false
                        end) (st_queries st) &&
      model_steps s' rest
  end.

(** oracles along the history; [R] is the previous listing *)
Fixpoint spec_steps (step_ok : Z -> list event -> event -> bool -> list event -> bool)
         (cap : Z) (R : list event) (steps : list step) : bool :=
  match steps with
  | [] => true
  | st :: rest =>
      negb (st_panic st) &&
      step_ok cap R (st_e st) (st_added st) (st_list st) && spec_steps step_ok cap (st_list st) rest
  end.

Fixpoint query_steps (steps : list step) : bool :=
  match steps with
  | [] => true
  | st :: rest =>
      negb (st_panic st) &&
      listing_ok (st_list st) &&
      (Z.of_nat (length (st_list st)) =? st_len st) &&
      forallb (fun q => find_spec_ok (st_list st) (fst q) (snd q)) (st_queries st) &&
      query_steps rest
  end.

Definition model_ok (c : case) : bool :=
  match c with CHist cap steps => model_steps (c_empty cap) steps end.
