(* Correspondence cases for C09: evaluated by vm_compute on cases written by
   the harness from the behaviour observed on the real merge handler under
   scripted children.  A case is a whole history: every input with what the
   client received before the session was quiescent again.

   [MCase]: one session.  [MMulti]: k sessions of ONE handler value (the same
   NewMergeHandler result serves k connections); every step carries its
   session.  The model of the handler is the product of k session models
   (MergeMulti.v), the oracle judges what each session saw on its own. *)
From Moc Require Import Base Match Merge MergeMulti.
Open Scope Z_scope.

Inductive case :=
| MCase (n : nat) (failed : bool) (t : otrace)
| MMulti (n : nat) (failed : bool) (k : nat) (t : mtrace).

(** (the model reproduces the observation step by step,
     the C09 oracle accepts the observation) *)
Definition run_case (c : case) : bool * bool :=
  match c with
  | MCase n failed t =>
      (negb failed && match new_session n with
                      | Some s => model_agrees s t
                      | None => false
                      end,
       negb failed && c09_oracle n t)
  | MMulti n failed k t =>
      (negb failed && match new_handler n k with
                      | Some ss => multi_agrees ss t
                      | None => false
                      end,
       negb failed && c09_multi_oracle n k t)
  end.
