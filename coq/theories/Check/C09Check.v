(* Correspondence cases for C09: evaluated by vm_compute on cases written by
   the harness from the behaviour observed on the real merge handler under
   scripted children.  A case is a whole history: every input with what the
   client received before the session was quiescent again.

   [MCase]: one session.  [MMulti]: k sessions of ONE handler value (the same
   NewMergeHandler result serves k connections); every step carries its
   session.  The model of the handler is the product of k session models
   (MergeMulti.v), the oracle judges what each session saw on its own. *)
From Moc Require Import Base Match Merge MergeMulti MergeJoint.
Open Scope Z_scope.

(** [MJoint]: one session in which some runs of child messages were emitted
    without the harness's sentinel in between (a sentinel is itself a message
    that reaches the client, so a history observed step by step never shows
    two merged replies next to each other).  Such a run is a group of inputs
    with ONE joint observation.  The model runs the group input by input; when
    the concatenation of its outputs is the observation, that is also how the
    observation is attributed to the steps for the oracle; when it is not, the
    whole observation is attributed to the last step of the group (the model
    difference is reported in any case). *)
Inductive case :=
| MCase (n : nat) (failed : bool) (t : otrace)
| MMulti (n : nat) (failed : bool) (k : nat) (t : mtrace)
| MJoint (n : nat) (failed : bool) (t : jtrace).

(** (the model reproduces the observation step by step,
     the C09 oracle accepts the observation) *)
Definition run_case (c : case) : bool * bool :=
  match c with
  | MCase n failed t =>
      (negb failed && match new_session n with
                      | Some s => model_agrees s t
                      | None => false
                      end,
       negb failed && c09_oracle n t)
  | MJoint n failed t =>
      match new_session n with
      | Some s => let '(a, tr) := joint_split s t in
                  (negb failed && a, negb failed && c09_oracle n tr)
      | None => (false, false)
      end
  | MMulti n failed k t =>
      (negb failed && match new_handler n k with
                      | Some ss => multi_agrees ss t
                      | None => false
                      end,
       negb failed && c09_multi_oracle n k t)
  end.
