(* Correspondence cases for C09: evaluated by vm_compute on cases written by
   the harness from the behaviour observed on the real merge handler under
   scripted children.  A case is a whole history: every input with what the
   client received before the session was quiescent again. *)
From Moc Require Import Base Match Merge.
Open Scope Z_scope.

Inductive case :=
| MCase (n : nat) (failed : bool) (t : otrace).

(** (the model reproduces the observation step by step,
     the C09 oracle accepts the observation) *)
Definition run_case (c : case) : bool * bool :=
  match c with
  | MCase n failed t =>
      (negb failed && match new_session n with
                      | Some s => model_agrees s t
                      | None => false
                      end,
       negb failed && c09_oracle n t)
  end.
