(* Correspondence cases for C02: evaluated by vm_compute on cases written by
   the harness from the implementation's observed behaviour. *)
From Moc Require Import Base Match.
Open Scope Z_scope.

Inductive case :=
| CMatch (e : event) (fs : list rfilter) (per : list bool) (any : bool)
| CSeq (fs : list rfilter) (es : list event) (done0 : bool) (steps : list (bool * bool)).

Definition outcome_eqb {A} (eqb : A -> A -> bool) (o : outcome A) (x : A) : bool :=
  match o with Ok a => eqb a x | Panic => false end.

Fixpoint seq_model (ms : list lmatcher) (es : list event) (steps : list (bool * bool)) : bool :=
  match es, steps with
  | [], [] => true
  | e :: es', (lm, dn) :: steps' =>
      match lms_limit_match ms e with
      | Panic => false
      | Ok (ms', b) => Bool.eqb b lm && Bool.eqb (lms_done ms') dn && seq_model ms' es' steps'
      end
  | _, _ => false
  end.

Fixpoint seq_spec (fs : list rfilter) (seen : list event) (es : list event) (steps : list (bool * bool)) : bool :=
  match es, steps with
  | [], [] => true
  | e :: es', (lm, dn) :: steps' =>
      let seen' := seen ++ [e] in
      Bool.eqb lm (matches_specb e fs) && Bool.eqb dn (exhaustedb fs seen') && seq_spec fs seen' es' steps'
  | _, _ => false
  end.

Definition run_case (c : case) : bool * bool :=
  match c with
  | CMatch e fs per any =>
      (list_eqb Bool.eqb (List.map (fun f => match match_impl e f with Ok b => b | Panic => false end) fs) per
         && forallb (fun f => match match_impl e f with Ok _ => true | Panic => false end) fs
         && outcome_eqb Bool.eqb (lms_match (lms_new fs) e) any,
       list_eqb Bool.eqb (List.map (match_specb e) fs) per && Bool.eqb any (matches_specb e fs))
  | CSeq fs es done0 steps =>
      (Bool.eqb (lms_done (lms_new fs)) done0 && seq_model (lms_new fs) es steps,
       Bool.eqb done0 (exhaustedb fs []) && seq_spec fs [] es steps)
  end.
