(* Correspondence cases for C17: evaluated by vm_compute on cases written by
   the harness from the implementation's observed behaviour.  A case is a
   history of one middleware value serving [nslots] connection slots:
   connections begin ([LStart]), exchange messages ([LOp]) and end ([LEnd]),
   one after the other or overlapping. *)
From Moc Require Import Base Msg Mw MwCheck.
Open Scope Z_scope.

Inductive case :=
| CStack (now : Z) (mws : list mwdesc) (nslots : nat) (h : list (nat * lop)) (built_ok : bool) (obs : list obs)
| CNip11 (now : Z) (doc : nip11) (nslots : nat) (h : list (nat * lop)) (built_ok : bool) (obs : list obs)
| CBroken.   (* the harness lost a message or its sentinel: nothing to compare *)

Definition run_case (c : case) : bool * bool :=
  match c with
  | CStack now mws nslots h built_ok obs =>
      (built_ok && life_model_agrees now (List.map desc_model mws) nslots h obs,
       built_ok && life_ok now (List.map desc_spec mws) nslots h obs)
  | CNip11 now doc nslots h built_ok obs =>
      (match build_nip11 doc with
       | BStack ks => built_ok && life_model_agrees now ks nslots h obs
       | BPanic => negb built_ok
       | BUnknown => false
       end,
       (* the property: no document / no limitation block => the identity;
          otherwise exactly the non-zero limits, as the individual middlewares
          enforce them (limits out of range, i.e. negative counts: not claimed) *)
       match doc with
       | DocNil | DocNoLim => built_ok && life_ok now [] nslots h obs
       | DocLim l => if lim_nonnegb l then built_ok && life_ok now (nip11_limits l) nslots h obs else true
       end)
  | CBroken => (false, false)
  end.
