(* Correspondence cases for C17: evaluated by vm_compute on cases written by
   the harness from the implementation's observed behaviour. *)
From Moc Require Import Base Msg Mw MwCheck.
Open Scope Z_scope.

Inductive case :=
| CStack (now : Z) (mws : list mwdesc) (ops : list op) (built_ok : bool) (obs : list obs)
| CNip11 (now : Z) (doc : nip11) (ops : list op) (built_ok : bool) (obs : list obs)
| CBroken.   (* the harness lost a message or its sentinel: nothing to compare *)

Definition model_agrees (now : Z) (ks : list mwk) (ops : list op) (obs : list obs) : bool :=
  obs_list_eqb ops (snd (sess_run now (stack_init ks) ops)) obs.

Definition run_case (c : case) : bool * bool :=
  match c with
  | CStack now mws ops built_ok obs =>
      (built_ok && model_agrees now (List.map desc_model mws) ops obs,
       built_ok && session_ok now (List.map desc_spec mws) ops obs)
  | CNip11 now doc ops built_ok obs =>
      (match build_nip11 doc with
       | BStack ks => built_ok && model_agrees now ks ops obs
       | BPanic => negb built_ok
       | BUnknown => false
       end,
       (* the property: no document / no limitation block => the identity;
          otherwise exactly the non-zero limits, as the individual middlewares
          enforce them (limits out of range, i.e. negative counts: not claimed) *)
       match doc with
       | DocNil | DocNoLim => built_ok && session_ok now [] ops obs
       | DocLim l => if lim_nonnegb l then built_ok && session_ok now (nip11_limits l) ops obs else true
       end)
  | CBroken => (false, false)
  end.
