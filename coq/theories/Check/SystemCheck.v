(* Correspondence cases for SYS (the composed relay of cmd/mocrelay).
   CSys   : one connection through the REAL composition
              prometheus( merge( cache(cap), router(100), sqlite ) )
            fed one client message at a time; per message a window (see
            SystemJudge.v) and, at the end, the messages that arrived after the
            last window.
   run_case = (there is a schedule under which the composed model produces the
               observed client-side sequence,
               the SYS_ statements hold of the observed sequence). *)
From Moc Require Import Base Match Msg Cache Handlers System SystemJudge.
Open Scope Z_scope.

Inductive case :=
| CSys (cap : Z) (ml : Z) (ws : list win) (tail : list smsg)
| CBroken.   (* the harness could not run the case: a reply never came, a panic *)

Definition run_case (c : case) : bool * bool :=
  match c with
  | CSys cap ml ws tail => (model_agrees cap ml ws tail, oracle ws tail)
  | CBroken => (false, false)
  end.
