(* Correspondence cases for C07.  A case is a timed history recorded by the
   harness against one real RouterHandler: the client operations with their
   begin/end stamps, and every message each connection received with its
   stamp.  Connections may connect late ([DOpen]) and clients that have
   stopped reading may leave with deliveries pending (a [DPause] that is
   followed by the connection's ODisc without a [DResume]).  A client that has
   stopped reading can still send ([DPend]): the session takes the message,
   does its work on the registry, and blocks handing over the reply until the
   client reads again (or goes away).

   model agrees  (deterministic layer only): there is a schedule of the model
     (Router.v) that is consistent with the real-time facts of the history
     and produces exactly the observed output of every connection.  The
     script is sequential, so the only freedom is the forwarder's timing and
     Go's map iteration order; both are resolved from the observation
     (iteration order = order of the observed copies; the forwarder is run as
     late as the observation allows, which decides every full-queue drop).
     For a [DPend] one more thing is free: the client only knows that the
     session has taken the message, not when the session's goroutine did the
     registry work that follows (REQ: the subscription becomes visible to
     publishers; EVENT: the copies are enqueued).  The schedules tried are:
     at once, for every such operation (what happens unless the goroutine is
     held up by the scheduler), and, for one of them at a time, just before
     the k-th later operation of the script, k = 1 .. up to the point where
     the connection reads again or goes away.
   oracle accepts: RouterSpec's clauses on the history alone. *)
From Moc Require Import Base Match Router RouterSpec.
Open Scope Z_scope.

Inductive dop :=
| DO (c : nat) (o : op) (b : Z) (d : option Z)
| DPause (c : nat) (b : Z)        (* the client stops reading *)
| DResume (c : nat) (b : Z)       (* the client reads again *)
| DCut (c : nat) (o : op) (b : Z) (d : option Z)
    (* the client sent o and disconnected without waiting for the reply (the disconnect itself
       follows as a DO .. ODisc); d: the reply arrived all the same *)
| DPend (c : nat) (o : op) (b : Z) (d : option Z)
    (* the client, which is not reading (a DPause precedes), handed o over without waiting for the
       reply; nothing more is sent on c until it reads again.  d: the reply was read at d, after the
       client had resumed ([None]: the client went away without reading) *)
| DOpen (c : nat) (b : Z).
    (* connection c connects only now (its ServeNostr is started on the shared router): before
       this point it does not exist.  In the model a connection is an index with its own fresh
       state ([c_init]: own empty queue, no registry entry) until its first operation, so
       connecting is no step of the model; in the specification nothing is owed to or justified
       for a connection before its own first REQ, so the oracle needs no clause for it either.
       What the late connection RECEIVES is judged by both like everybody else's output. *)

Inductive case :=
| CHist (det : bool) (buf : Z) (ops : list dop) (outs : list (list (xmsg * Z))) (drained : list bool)
        (reg_end subs_end : Z)
| CCrash (race : bool).           (* the harness process died: data race reported / panic *)

Definition hops (ops : list dop) : list hop :=
  flat_map (fun o => match o with DO c o b d | DCut c o b d | DPend c o b d => [mkHop c o b d] | _ => [] end) ops.

Definition hist_of (buf : Z) (ops : list dop) (outs : list (list (xmsg * Z))) (drained : list bool) : history :=
  mkHist buf (hops ops) outs drained.

(* ------------------------------------------------------------------ *)
(** * The observation as a schedule witness *)

Section Sim.
Variable outs : list (list (xmsg * Z)).
Variable discs : list nat.     (* connections that are disconnected at some point of the script *)

Definition out_x (x : nat) : list (xmsg * Z) := nth x outs [].

(** subscription ids of the copies of event [id] received by x, in order *)
Definition obs_order (x : nat) (id : str) : list str :=
  flat_map (fun ms : xmsg * Z =>
    match fst ms with
    | XEvent s e' => if str_eqb (ev_id e') id then [s] else []
    | _ => []
    end) (out_x x).

Definition obs_total (x : nat) : nat := count_occ_b (fun ms : xmsg * Z => is_xevent (fst ms)) (out_x x).

(** events x had received before stamp b *)
Definition obs_before (x : nat) (b : Z) : nat :=
  count_occ_b (fun ms : xmsg * Z => is_xevent (fst ms) && (snd ms <? b)) (out_x x).

(** events x received before its j-th reply (all of them if there is none) *)
Fixpoint events_before_reply (l : list (xmsg * Z)) (j : nat) (acc : nat) : nat :=
  match l with
  | [] => acc
  | ms :: l' =>
      if is_xevent (fst ms) then events_before_reply l' j (S acc)
      else match j with
           | O => acc
           | S j' => events_before_reply l' j' acc
           end
  end.

Definition ev_count (l : list smsg) : nat := count_occ_b is_event_msg l.
Definition reply_count (l : list smsg) : nat := count_occ_b (fun m => negb (is_event_msg m)) l.

(** run the forwarder of x until the client has k events *)
Fixpoint force (fuel : nat) (s : rstate) (x : nat) (k : nat) : option rstate :=
  if Nat.leb k (ev_count (c_out (r_cs s x))) then Some s else
  match fuel with
  | O => None
  | S f =>
      match c_hand (r_cs s x) with
      | Some _ => force f (step s (LDeliver x)) x k
      | None =>
          match c_q (r_cs s x) with
          | [] => None
          | _ :: _ => force f (step s (LTake x)) x k
          end
      end
  end.

Definition force_fuel (s : rstate) (x : nat) : nat := (2 * length (c_q (r_cs s x)) + 4)%nat.

Fixpoint force_all (s : rstate) (xs : list nat) (b : Z) : option rstate :=
  match xs with
  | [] => Some s
  | x :: xs' =>
      if c_dead (r_cs s x) then force_all s xs' b else
      match force (force_fuel s x) s x (obs_before x b) with
      | Some s1 => force_all s1 xs' b
      | None => None
      end
  end.

(** make room for one more message in x's queue, if the observation's
    constraints allow it *)
Definition make_room (paused : list nat) (s : rstate) (x : nat) : option rstate :=
  if Nat.ltb (length (c_q (r_cs s x))) (r_buf s) then Some s else
  if c_dead (r_cs s x) then None else
  match c_hand (r_cs s x) with
  | None => Some (step s (LTake x))
  | Some _ => if mem_conn x paused then None else Some (step (step s (LDeliver x)) (LTake x))
  end.

(** run connection c's goroutine until its operation is over; if the session's
    context was cancelled in flight: [giveup] says whether the reply was seen,
    and the run goes on until the deferred UnsubscribeAll is done (the
    forwarder may hand over what the client received until the loop returns).
    [hold]: stop in front of the instruction that hands over the reply (the
    client is not reading, the goroutine blocks there) *)
Fixpoint drive (fuel : nat) (paused : list nat) (s : rstate) (c : nat) (giveup hold : bool) : option rstate :=
  match fuel with
  | O => None
  | S f =>
      match c_pc (r_cs s c) with
      | [] =>
          if mem_conn c (r_cancel s) then
            match force (force_fuel s c) s c (obs_total c) with
            | Some s1 => drive f paused (step s1 (LRun c)) c giveup hold
            | None => None
            end
          else Some s
      | IPub e t (c' :: rem) :: _ =>
          (* Go's map iteration order is free: the copies that arrived were handed over in
             the order they arrived; a copy that did not arrive was dropped on a full queue,
             which is most likely right after the queue has filled up *)
          let m := match reg_get c' (r_reg s) with Some m => m | None => [] end in
          let obs := obs_order c' (ev_id e) in
          let dropped := List.map fst (filter (fun kv => sub_matches e (snd kv) && negb (mem_str (fst kv) obs)) m) in
          let room := (r_buf s - length (c_q (r_cs s c')))%nat in
          drive f paused (step s (LVisit c c' (firstn room obs ++ dropped ++ skipn room obs))) c giveup hold
      | IVisit e t c' ((sub, fs) :: _) :: _ =>
          if sub_matches e fs then
            if mem_str sub (obs_order c' (ev_id e)) then
              match make_room paused s c' with
              | Some s1 => drive f paused (step s1 (LRun c)) c giveup hold
              | None => None
              end
            else if (mem_conn c' discs || is_sentinel e) && Nat.leb (obs_total c') (ev_count (flow (r_cs s c'))) then
              (* everything c' ever received is already on its way, and c' is disconnected
                 later (or this is a flush event published while the harness was finishing):
                 the copy is lost either here (full queue) or when the session ends *)
              drive f paused (step s (LRun c)) c giveup hold
            else
              (* not received: must have been dropped, so the queue must be full even
                 though the forwarder ran as late as possible *)
              if Nat.ltb (length (c_q (r_cs s c'))) (r_buf s) then None else drive f paused (step s (LRun c)) c giveup hold
          else drive f paused (step s (LRun c)) c giveup hold
      | IEose _ :: _ | IOk _ :: _ | ICount _ :: _ =>
          if hold then Some s else
          if giveup && mem_conn c (r_cancel s) then drive f paused (step s (LSkip c)) c giveup hold else
          let k := events_before_reply (out_x c) (reply_count (c_out (r_cs s c))) 0 in
          match force (force_fuel s c) s c k with
          | Some s1 => drive f paused (step s1 (LRun c)) c giveup hold
          | None => None
          end
      | _ => drive f paused (step s (LRun c)) c giveup hold
      end
  end.

Definition wants_reply_op (o : op) : bool := wants_reply o.

(** an operation in flight of a client that is not reading: the connection, how
    many more operations of the script begin before the session's goroutine
    does the work that precedes the reply (0: done, it is blocked in front of
    the reply), and whether the reply was read in the end *)
Definition pent := (nat * nat * bool)%type.

Definition pend_get (c : nat) (pend : list pent) : option (nat * bool) :=
  match filter (fun p : pent => Nat.eqb (fst (fst p)) c) pend with
  | (_, j, a) :: _ => Some (j, a)
  | [] => None
  end.

Definition pend_del (c : nat) (pend : list pent) : list pent :=
  filter (fun p : pent => negb (Nat.eqb (fst (fst p)) c)) pend.

(** the goroutine of [c] runs up to the reply, which it cannot hand over *)
Definition run_held (paused : list nat) (s : rstate) (c : nat) : option rstate := drive 3000 paused s c false true.

(** one more operation of the script begins: a goroutine that was held up and
    whose time has come does its work now *)
Fixpoint tick_pend (paused : list nat) (pend : list pent) (s : rstate) : option (list pent * rstate) :=
  match pend with
  | [] => Some ([], s)
  | (c, j, a) :: pend' =>
      let s1 := match j with 1%nat => run_held paused s c | _ => Some s end in
      match s1 with
      | None => None
      | Some s1 =>
          match tick_pend paused pend' s1 with
          | Some (p, s2) => Some ((c, Nat.pred j, a) :: p, s2)
          | None => None
          end
      end
  end.

(** [delays]: for the DPend operations of the script, in order, the number of
    later operations that begin before the session's goroutine gets to its
    work (missing entries: 0) *)
Fixpoint sim (conns : list nat) (ops : list dop) (delays : list nat) (paused : list nat) (pend : list pent)
         (s : rstate) : option rstate :=
  match ops with
  | [] => match pend with [] => Some s | _ :: _ => None end   (* the model always answers *)
  | DPause c _ :: ops' => sim conns ops' delays (c :: paused) pend s
  | DResume c _ :: ops' =>
      let paused' := remove_conn c paused in
      match pend_get c pend with
      | None => sim conns ops' delays paused' pend s
      | Some (j, answered) =>
          (* the client reads again: the reply in flight is handed over, before or after or between
             the events that were waiting -- as observed *)
          if answered then
            match (match j with O => Some s | S _ => run_held paused s c end) with
            | None => None
            | Some s1 =>
                match drive 3000 paused' s1 c false false with
                | Some s2 => sim conns ops' delays paused' (pend_del c pend) s2
                | None => None
                end
            end
          else None                (* the model always answers *)
      end
  | DOpen c _ :: ops' => sim conns ops' delays paused pend s
  | DPend c o b d :: ops' =>
      match pend_get c pend, c_pc (r_cs s c), wants_reply_op o with
      | None, [], true =>
          match force_all s conns b with
          | None => None
          | Some s1 =>
              match tick_pend paused pend s1 with
              | None => None
              | Some (pend1, s2) =>
                  let j := hd O delays in
                  let s3 := step s2 (LOp c o) in
                  match (match j with O => run_held paused s3 c | S _ => Some s3 end) with
                  | Some s4 => sim conns ops' (tl delays) paused ((c, j, is_some d) :: pend1) s4
                  | None => None
                  end
              end
          end
      | _, _, _ => None
      end
  | DO c o b d :: ops' =>
      match d, wants_reply_op o with
      | None, true => None      (* the model always answers *)
      | _, _ =>
          match force_all s conns b with
          | None => None
          | Some s1 =>
              match tick_pend paused pend s1 with
              | None => None
              | Some (pend1, s1) =>
                  let s2 := match o with
                            | ODisc => force (force_fuel s1 c) s1 c (obs_total c)
                            | _ => Some s1
                            end in
                  match s2 with
                  | None => None
                  | Some s2 =>
                      match pend_get c pend1, o with
                      | None, _ =>
                          match drive 3000 paused (step s2 (LOp c o)) c false false with
                          | Some s3 => sim conns ops' delays paused pend1 s3
                          | None => None
                          end
                      | Some (j, answered), ODisc =>
                          (* the client goes away with an operation in flight: the work on the registry is
                             completed, the reply is given up (it was never read) *)
                          match (match j with O => Some s2 | S _ => run_held paused s2 c end) with
                          | None => None
                          | Some s2' =>
                              match drive 3000 paused (step s2' (LOp c ODisc)) c (negb answered) false with
                              | Some s3 => sim conns ops' delays paused (pend_del c pend1) s3
                              | None => None
                              end
                          end
                      | Some _, _ => None   (* the session takes nothing while its reply is in flight *)
                      end
                  end
              end
          end
      end
  | DCut c o b d :: ops' =>
      match pend_get c pend, force_all s conns b with
      | None, Some s1 =>
          match tick_pend paused pend s1 with
          | None => None
          | Some (pend1, s1) =>
              let giveup := match d with None => true | Some _ => false end in
              match drive 3000 paused (step (step s1 (LOp c o)) (LOp c ODisc)) c giveup false with
              | Some s3 => sim conns ops' delays paused pend1 s3
              | None => None
              end
          end
      | _, _ => None
      end
  end.

(** how many operations begin between a [DPend] of c and the moment c reads again or goes away *)
Fixpoint pend_span (c : nat) (ops : list dop) : nat :=
  match ops with
  | [] => O
  | DResume c' _ :: ops' => if Nat.eqb c c' then O else pend_span c ops'
  | DO c' ODisc _ _ :: ops' => if Nat.eqb c c' then O else S (pend_span c ops')
  | DO _ _ _ _ :: ops' | DCut _ _ _ _ :: ops' | DPend _ _ _ _ :: ops' => S (pend_span c ops')
  | _ :: ops' => pend_span c ops'
  end.

(** the schedules tried beside "every goroutine does its work at once" ([[]]): one goroutine is held up *)
Fixpoint delay_cands (ops : list dop) (before : nat) : list (list nat) :=
  match ops with
  | [] => []
  | DPend c _ _ _ :: ops' =>
      List.map (fun k => repeat O before ++ [k]) (seq 1 (pend_span c ops')) ++ delay_cands ops' (S before)
  | _ :: ops' => delay_cands ops' before
  end.

Fixpoint lazy_existsb {A} (f : A -> bool) (l : list A) : bool :=
  match l with
  | [] => false
  | a :: l' => if f a then true else lazy_existsb f l'
  end.

Fixpoint finish (s : rstate) (xs : list nat) : option rstate :=
  match xs with
  | [] => Some s
  | x :: xs' =>
      if c_dead (r_cs s x) then finish s xs' else
      match force (force_fuel s x) s x (obs_total x) with
      | Some s1 => finish s1 xs'
      | None => None
      end
  end.

Definition msg_agrees (m : smsg) (x : xmsg) : bool :=
  match m, x with
  | MEose s, XEose s' => str_eqb s s'
  | MOk i, XOk i' acc empty => str_eqb i i' && acc && empty
  | MCount s, XCount s' n => str_eqb s s' && (n =? 0)
  | MEvent s e _, XEvent s' e' => str_eqb s s' && event_eqb e e'
  | _, _ => false
  end.

Fixpoint outs_agree (ms : list smsg) (xs : list xmsg) : bool :=
  match ms, xs with
  | [], [] => true
  | m :: ms', x :: xs' => msg_agrees m x && outs_agree ms' xs'
  | _, _ => false
  end.

Definition out_agrees (s : rstate) (x : nat) : bool :=
  outs_agree (c_out (r_cs s x)) (List.map fst (out_x x)).

End Sim.

Definition model_agrees (buf : Z) (ops : list dop) (outs : list (list (xmsg * Z))) (reg_end subs_end : Z) : bool :=
  model_applicable &&
  match new_router buf with
  | None => false
  | Some s0 =>
      let conns := seq 0 (length outs) in
      let discs := flat_map (fun o => match o with DO c ODisc _ _ | DCut c _ _ _ => [c] | _ => [] end) ops in
      let try := fun delays : list nat =>
        match sim outs discs conns ops delays [] [] s0 with
        | None => false
        | Some s1 =>
            match finish outs s1 conns with
            | None => false
            | Some s2 =>
                forallb (out_agrees outs s2) conns &&
                (Z.of_nat (length (r_reg s2)) =? reg_end) &&
                (Z.of_nat (fold_right (fun cm acc => (length (snd cm) + acc)%nat) O (r_reg s2)) =? subs_end)
            end
        end in
      if try [] then true else lazy_existsb try (delay_cands ops 0)
  end.

(* ------------------------------------------------------------------ *)
(** * Released at the end (hook observation): a finished connection has no
      registry entry; an open one has exactly the subscriptions its own
      operations leave open *)

Definition released_ok (h : history) (reg_end subs_end : Z) : bool :=
  let xs := seq 0 (length (hi_outs h)) in
  let live := filter (fun x => negb (has_disc h x) &&
                               existsb (fun o => match h_o o with OReq _ _ => true | _ => false end) (ops_of h x)) xs in
  (Z.of_nat (length live) =? reg_end) &&
  (Z.of_nat (fold_right (fun x acc => (length (open_subs x (hi_ops h) []) + acc)%nat) O live) =? subs_end).

Definition run_case (c : case) : bool * bool :=
  match c with
  | CHist det buf ops outs drained reg_end subs_end =>
      let h := hist_of buf ops outs drained in
      (if det then model_agrees buf ops outs reg_end subs_end else model_applicable,
       (if det then det_oracle h else timed_oracle h) && released_ok h reg_end subs_end)
  | CCrash race => (true, false)
  end.
