(* Correspondence cases for C07.  A case is a timed history recorded by the
   harness against one real RouterHandler: the client operations with their
   begin/end stamps, and every message each connection received with its
   stamp.  Connections may connect late ([DOpen]) and clients that have
   stopped reading may leave with deliveries pending (a [DPause] that is
   followed by the connection's ODisc without a [DResume]).

   model agrees  (deterministic layer only): there is a schedule of the model
     (Router.v) that is consistent with the real-time facts of the history
     and produces exactly the observed output of every connection.  The
     script is sequential, so the only freedom is the forwarder's timing and
     Go's map iteration order; both are resolved from the observation
     (iteration order = order of the observed copies; the forwarder is run as
     late as the observation allows, which decides every full-queue drop).
   oracle accepts: RouterSpec's clauses on the history alone. *)
From Moc Require Import Base Match Router RouterSpec.
Open Scope Z_scope.

Inductive dop :=
| DO (c : nat) (o : op) (b : Z) (d : option Z)
| DPause (c : nat) (b : Z)        (* the client stops reading *)
| DResume (c : nat) (b : Z)       (* the client reads again *)
| DCut (c : nat) (o : op) (b : Z) (d : option Z)
    (* the client sent o and disconnected without waiting for the reply (the disconnect itself
       follows as a DO .. ODisc); d: the reply arrived all the same *)
| DOpen (c : nat) (b : Z).
    (* connection c connects only now (its ServeNostr is started on the shared router): before
       this point it does not exist.  In the model a connection is an index with its own fresh
       state ([c_init]: own empty queue, no registry entry) until its first operation, so
       connecting is no step of the model; in the specification nothing is owed to or justified
       for a connection before its own first REQ, so the oracle needs no clause for it either.
       What the late connection RECEIVES is judged by both like everybody else's output. *)

Inductive case :=
| CHist (det : bool) (buf : Z) (ops : list dop) (outs : list (list (xmsg * Z))) (drained : list bool)
        (reg_end subs_end : Z)
| CCrash (race : bool).           (* the harness process died: data race reported / panic *)

Definition hops (ops : list dop) : list hop :=
  flat_map (fun o => match o with DO c o b d | DCut c o b d => [mkHop c o b d] | _ => [] end) ops.

Definition hist_of (buf : Z) (ops : list dop) (outs : list (list (xmsg * Z))) (drained : list bool) : history :=
  mkHist buf (hops ops) outs drained.

(* ------------------------------------------------------------------ *)
(** * The observation as a schedule witness *)

Section Sim.
Variable outs : list (list (xmsg * Z)).
Variable discs : list nat.     (* connections that are disconnected at some point of the script *)

Definition out_x (x : nat) : list (xmsg * Z) := nth x outs [].

(** subscription ids of the copies of event [id] received by x, in order *)
Definition obs_order (x : nat) (id : str) : list str :=
  flat_map (fun ms : xmsg * Z =>
    match fst ms with
    | XEvent s e' => if str_eqb (ev_id e') id then [s] else []
    | _ => []
    end) (out_x x).

Definition obs_total (x : nat) : nat := count_occ_b (fun ms : xmsg * Z => is_xevent (fst ms)) (out_x x).

(** events x had received before stamp b *)
Definition obs_before (x : nat) (b : Z) : nat :=
  count_occ_b (fun ms : xmsg * Z => is_xevent (fst ms) && (snd ms <? b)) (out_x x).

(** events x received before its j-th reply (all of them if there is none) *)
Fixpoint events_before_reply (l : list (xmsg * Z)) (j : nat) (acc : nat) : nat :=
  match l with
  | [] => acc
  | ms :: l' =>
      if is_xevent (fst ms) then events_before_reply l' j (S acc)
      else match j with
           | O => acc
           | S j' => events_before_reply l' j' acc
           end
  end.

Definition ev_count (l : list smsg) : nat := count_occ_b is_event_msg l.
Definition reply_count (l : list smsg) : nat := count_occ_b (fun m => negb (is_event_msg m)) l.

(** run the forwarder of x until the client has k events *)
Fixpoint force (fuel : nat) (s : rstate) (x : nat) (k : nat) : option rstate :=
  if Nat.leb k (ev_count (c_out (r_cs s x))) then Some s else
  match fuel with
  | O => None
  | S f =>
      match c_hand (r_cs s x) with
      | Some _ => force f (step s (LDeliver x)) x k
      | None =>
          match c_q (r_cs s x) with
          | [] => None
          | _ :: _ => force f (step s (LTake x)) x k
          end
      end
  end.

Definition force_fuel (s : rstate) (x : nat) : nat := (2 * length (c_q (r_cs s x)) + 4)%nat.

Fixpoint force_all (s : rstate) (xs : list nat) (b : Z) : option rstate :=
  match xs with
  | [] => Some s
  | x :: xs' =>
      if c_dead (r_cs s x) then force_all s xs' b else
      match force (force_fuel s x) s x (obs_before x b) with
      | Some s1 => force_all s1 xs' b
      | None => None
      end
  end.

(** make room for one more message in x's queue, if the observation's
    constraints allow it *)
Definition make_room (paused : list nat) (s : rstate) (x : nat) : option rstate :=
  if Nat.ltb (length (c_q (r_cs s x))) (r_buf s) then Some s else
  if c_dead (r_cs s x) then None else
  match c_hand (r_cs s x) with
  | None => Some (step s (LTake x))
  | Some _ => if mem_conn x paused then None else Some (step (step s (LDeliver x)) (LTake x))
  end.

(** run connection c's goroutine until its operation is over; if the session's
    context was cancelled in flight: [giveup] says whether the reply was seen,
    and the run goes on until the deferred UnsubscribeAll is done (the
    forwarder may hand over what the client received until the loop returns) *)
Fixpoint drive (fuel : nat) (paused : list nat) (s : rstate) (c : nat) (giveup : bool) : option rstate :=
  match fuel with
  | O => None
  | S f =>
      match c_pc (r_cs s c) with
      | [] =>
          if mem_conn c (r_cancel s) then
            match force (force_fuel s c) s c (obs_total c) with
            | Some s1 => drive f paused (step s1 (LRun c)) c giveup
            | None => None
            end
          else Some s
      | IPub e t (c' :: rem) :: _ =>
          (* Go's map iteration order is free: the copies that arrived were handed over in
             the order they arrived; a copy that did not arrive was dropped on a full queue,
             which is most likely right after the queue has filled up *)
          let m := match reg_get c' (r_reg s) with Some m => m | None => [] end in
          let obs := obs_order c' (ev_id e) in
          let dropped := List.map fst (filter (fun kv => sub_matches e (snd kv) && negb (mem_str (fst kv) obs)) m) in
          let room := (r_buf s - length (c_q (r_cs s c')))%nat in
          drive f paused (step s (LVisit c c' (firstn room obs ++ dropped ++ skipn room obs))) c giveup
      | IVisit e t c' ((sub, fs) :: _) :: _ =>
          if sub_matches e fs then
            if mem_str sub (obs_order c' (ev_id e)) then
              match make_room paused s c' with
              | Some s1 => drive f paused (step s1 (LRun c)) c giveup
              | None => None
              end
            else if (mem_conn c' discs || is_sentinel e) && Nat.leb (obs_total c') (ev_count (flow (r_cs s c'))) then
              (* everything c' ever received is already on its way, and c' is disconnected
                 later (or this is a flush event published while the harness was finishing):
                 the copy is lost either here (full queue) or when the session ends *)
              drive f paused (step s (LRun c)) c giveup
            else
              (* not received: must have been dropped, so the queue must be full even
                 though the forwarder ran as late as possible *)
              if Nat.ltb (length (c_q (r_cs s c'))) (r_buf s) then None else drive f paused (step s (LRun c)) c giveup
          else drive f paused (step s (LRun c)) c giveup
      | IEose _ :: _ | IOk _ :: _ | ICount _ :: _ =>
          if giveup && mem_conn c (r_cancel s) then drive f paused (step s (LSkip c)) c giveup else
          let k := events_before_reply (out_x c) (reply_count (c_out (r_cs s c))) 0 in
          match force (force_fuel s c) s c k with
          | Some s1 => drive f paused (step s1 (LRun c)) c giveup
          | None => None
          end
      | _ => drive f paused (step s (LRun c)) c giveup
      end
  end.

Definition wants_reply_op (o : op) : bool := wants_reply o.

Fixpoint sim (conns : list nat) (ops : list dop) (paused : list nat) (s : rstate) : option rstate :=
  match ops with
  | [] => Some s
  | DPause c _ :: ops' => sim conns ops' (c :: paused) s
  | DResume c _ :: ops' => sim conns ops' (remove_conn c paused) s
  | DOpen c _ :: ops' => sim conns ops' paused s
  | DO c o b d :: ops' =>
      match d, wants_reply_op o with
      | None, true => None      (* the model always answers *)
      | _, _ =>
          match force_all s conns b with
          | None => None
          | Some s1 =>
              let s2 := match o with
                        | ODisc => force (force_fuel s1 c) s1 c (obs_total c)
                        | _ => Some s1
                        end in
              match s2 with
              | None => None
              | Some s2 =>
                  match drive 3000 paused (step s2 (LOp c o)) c false with
                  | Some s3 => sim conns ops' paused s3
                  | None => None
                  end
              end
          end
      end
  | DCut c o b d :: ops' =>
      match force_all s conns b with
      | None => None
      | Some s1 =>
          let giveup := match d with None => true | Some _ => false end in
          match drive 3000 paused (step (step s1 (LOp c o)) (LOp c ODisc)) c giveup with
          | Some s3 => sim conns ops' paused s3
          | None => None
          end
      end
  end.

Fixpoint finish (s : rstate) (xs : list nat) : option rstate :=
  match xs with
  | [] => Some s
  | x :: xs' =>
      if c_dead (r_cs s x) then finish s xs' else
      match force (force_fuel s x) s x (obs_total x) with
      | Some s1 => finish s1 xs'
      | None => None
      end
  end.

Definition msg_agrees (m : smsg) (x : xmsg) : bool :=
  match m, x with
  | MEose s, XEose s' => str_eqb s s'
  | MOk i, XOk i' acc empty => str_eqb i i' && acc && empty
  | MCount s, XCount s' n => str_eqb s s' && (n =? 0)
  | MEvent s e _, XEvent s' e' => str_eqb s s' && event_eqb e e'
  | _, _ => false
  end.

Fixpoint outs_agree (ms : list smsg) (xs : list xmsg) : bool :=
  match ms, xs with
  | [], [] => true
  | m :: ms', x :: xs' => msg_agrees m x && outs_agree ms' xs'
  | _, _ => false
  end.

Definition out_agrees (s : rstate) (x : nat) : bool :=
  outs_agree (c_out (r_cs s x)) (List.map fst (out_x x)).

End Sim.

Definition model_agrees (buf : Z) (ops : list dop) (outs : list (list (xmsg * Z))) (reg_end subs_end : Z) : bool :=
  model_applicable &&
  match new_router buf with
  | None => false
  | Some s0 =>
      let conns := seq 0 (length outs) in
      let discs := flat_map (fun o => match o with DO c ODisc _ _ | DCut c _ _ _ => [c] | _ => [] end) ops in
      match sim outs discs conns ops [] s0 with
      | None => false
      | Some s1 =>
          match finish outs s1 conns with
          | None => false
          | Some s2 =>
              forallb (out_agrees outs s2) conns &&
              (Z.of_nat (length (r_reg s2)) =? reg_end) &&
              (Z.of_nat (fold_right (fun cm acc => (length (snd cm) + acc)%nat) O (r_reg s2)) =? subs_end)
          end
      end
  end.

(* ------------------------------------------------------------------ *)
(** * Released at the end (hook observation): a finished connection has no
      registry entry; an open one has exactly the subscriptions its own
      operations leave open *)

Definition released_ok (h : history) (reg_end subs_end : Z) : bool :=
  let xs := seq 0 (length (hi_outs h)) in
  let live := filter (fun x => negb (has_disc h x) &&
                               existsb (fun o => match h_o o with OReq _ _ => true | _ => false end) (ops_of h x)) xs in
  (Z.of_nat (length live) =? reg_end) &&
  (Z.of_nat (fold_right (fun x acc => (length (open_subs x (hi_ops h) []) + acc)%nat) O live) =? subs_end).

Definition run_case (c : case) : bool * bool :=
  match c with
  | CHist det buf ops outs drained reg_end subs_end =>
      let h := hist_of buf ops outs drained in
      (if det then model_agrees buf ops outs reg_end subs_end else model_applicable,
       (if det then det_oracle h else timed_oracle h) && released_ok h reg_end subs_end)
  | CCrash race => (true, false)
  end.
