(* HandlersExamples.v — C16: the hypotheses of the theorems are satisfiable on
   non-trivial states, and the statements say something on them. *)
From Coq Require Import Permutation Sorted.
From Moc Require Import Base Match Msg Cache CacheSpec CacheInv Handlers HandlersProofs.
Open Scope Z_scope.

(** authors A, B; ids r1 p1 p2 q1 k1 r2 *)
Definition xA : str := [65]%N.
Definition xB : str := [66]%N.
Definition t_e : str := [101]%N.
Definition t_d : str := [100]%N.
Definition t_t : str := [116]%N.
Definition v_a : str := [97]%N.
Definition v_x : str := [120]%N.
Definition i_r1 : str := [114; 49]%N.
Definition i_p1 : str := [112; 49]%N.
Definition i_p2 : str := [112; 50]%N.
Definition i_q1 : str := [113; 49]%N.
Definition i_k1 : str := [107; 49]%N.
Definition i_r2 : str := [114; 50]%N.

Definition x1 := mkEvent i_r1 xA 1 1 [[t_t; v_x]] [104; 105]%N [].          (* regular *)
Definition x2 := mkEvent i_p1 xA 2 0 [] [] [].                              (* replaceable, older *)
Definition x3 := mkEvent i_p2 xA 3 0 [] [226; 128; 168]%N [].               (* replaceable, newer; U+2028 *)
Definition x4 := mkEvent i_q1 xB 2 30000 [[t_d; v_a]; [t_t; v_x]] [] [].    (* addressable *)
Definition x5 := mkEvent i_k1 xA 4 5 [[t_e; i_r1]] [] [].                   (* A deletes r1 *)
Definition x6 := mkEvent i_r2 xB 5 1 [[t_t; v_x]] [] [].                    (* regular; evicts the oldest *)

(** a history with a replacement (x2 by x3), a deletion (x1 by x5), an
    eviction (x4, the oldest of four at capacity 3) and a suppressed re-offer (x1) *)
Definition ex_hist : list event := [x1; x2; x3; x4; x5; x6; x1].
Definition ex_state : cstate := c_run 3 ex_hist.

Example ex_dump : dump ex_state = [x6; x5; x3].
Proof. vm_compute. reflexivity. Qed.

Example ex_registry : c_is_deleted ex_state i_r1 xA = true.
Proof. vm_compute. reflexivity. Qed.

Example ex_dump_pre : dump_pre ex_state.
Proof. apply dump_pre_b_ok. vm_compute. reflexivity. Qed.

(** an index-path filter (kind and tag) with a limit, and a full-scan filter *)
Definition ex_f1 : rfilter := mkFilter None None (Some [1; 5]) None None None (Some 1).
Definition ex_f2 : rfilter := mkFilter None (Some [xA]) None None (Some 3) None None.
Definition ex_f3 : rfilter := mkFilter None None None None None (Some 4) (Some 2).

Example ex_restore_answers :
  c_find (restore (c_empty 3) (dump ex_state)) [ex_f1; ex_f2] = Ok [x6; x5; x3] /\
  c_find ex_state [ex_f1; ex_f2] = Ok [x6; x5; x3] /\
  c_find ex_state [ex_f3] = Ok [x5; x3].
Proof. vm_compute. repeat split. Qed.

(** the restored tables are NOT the original tables (the key order of the
    primary table and of the index differs): the theorem is about answers *)
Example ex_tables_differ : c_evs (restore (c_empty 3) (dump ex_state)) <> c_evs ex_state.
Proof. vm_compute. intro H. discriminate H. Qed.

(** restoring into a SMALLER cache (outside the theorem) keeps the newest
    events, whichever the order of the dump: eviction always takes the oldest *)
Example ex_smaller_capacity :
  c_listing (restore (c_empty 2) [x6; x5; x3]) = [x6; x5] /\
  c_listing (restore (c_empty 2) [x3; x5; x6]) = [x6; x5].
Proof. vm_compute. split; reflexivity. Qed.

(* ------------------------------------------------------------------ *)
(** a cache session over all five message types *)
Definition s_1 : str := [115; 49]%N.
Definition ex_msgs : list cmsg :=
  [CEvent x1; CEvent x1; CReq s_1 [empty_filter]; CCount s_1 [empty_filter]; CClose s_1; CAuth x2;
   CEvent x5; CEvent x1; CReq s_1 [empty_filter]].

Example ex_cache_session :
  exists s', cache_session (c_empty 3) ex_msgs =
    Ok (s', [SOk i_r1 true [] []; SOk i_r1 false dup_prefix already_have;
             SEvent s_1 x1; SEose s_1; SCount s_1 0 None;
             SOk i_k1 true [] []; SOk i_r1 false dup_prefix already_have;
             SEvent s_1 x5; SEose s_1]).
Proof. eexists. vm_compute. reflexivity. Qed.

(** a toy store for the SQLite handler model: the database is the list of
    inserted events, a query lists the matches in insertion order *)
Definition toy_query (d : list event) (fs : list rfilter) : option (list event) :=
  Some (List.filter (fun e => matches_specb e fs) d).
Definition toy_insert (d b : list event) : list event := d ++ b.

(** with the inserter running one step before every request the second REQ
    sees x1; with an idle inserter it sees nothing: both are admitted shapes *)
Example ex_sqlite_session :
  let msgs := [CEvent x1; CReq s_1 [empty_filter]; CCount s_1 []; CClose s_1; CAuth x2] in
  (exists st, sqlite_session (list event) toy_query toy_insert 1 [[]; [BgRecv]; []; []; []] (mkSq [] [] [] []) msgs =
     Ok (st, [SOk i_r1 true [] []; SEvent s_1 x1; SEose s_1; SCount s_1 0 None])) /\
  (exists st, sqlite_session (list event) toy_query toy_insert 1 [] (mkSq [] [] [] []) msgs =
     Ok (st, [SOk i_r1 true [] []; SEose s_1; SCount s_1 0 None])).
Proof. split; eexists; vm_compute; reflexivity. Qed.

(** the oracle accepts the model's own session and rejects mutilated ones *)
Example ex_oracle :
  let replies := [SOk i_r1 true [] []; SOk i_r1 false dup_prefix already_have;
                  SEvent s_1 x1; SEose s_1; SCount s_1 0 None] in
  let msgs := [CEvent x1; CEvent x1; CReq s_1 [empty_filter]; CCount s_1 [empty_filter]; CClose s_1] in
  cache_session_ok msgs replies [[x1]; [x1]] = true /\
  (* EOSE before the events *)
  cache_session_ok msgs [SOk i_r1 true [] []; SOk i_r1 false dup_prefix already_have;
                         SEose s_1; SEvent s_1 x1; SCount s_1 0 None] [[x1]; [x1]] = false /\
  (* OK with another id *)
  cache_session_ok msgs [SOk i_r2 true [] []; SOk i_r1 false dup_prefix already_have;
                         SEvent s_1 x1; SEose s_1; SCount s_1 0 None] [[x1]; [x1]] = false /\
  (* a reply to CLOSE *)
  cache_session_ok msgs (replies ++ [SClosed s_1 [] []]) [[x1]; [x1]] = false /\
  (* a duplicate accepted *)
  cache_session_ok msgs [SOk i_r1 true [] []; SOk i_r1 true [] [];
                         SEvent s_1 x1; SEose s_1; SCount s_1 0 None] [[x1]; [x1]] = false /\
  (* a stored match withheld *)
  cache_session_ok msgs [SOk i_r1 true [] []; SOk i_r1 false dup_prefix already_have;
                         SEose s_1; SCount s_1 0 None] [[x1]; [x1]] = false.
Proof. vm_compute. repeat split. Qed.

(** the example history is admissible: functional ids, colon-free ids and pubkeys *)
Example ex_hist_ok : hist_ok ex_hist.
Proof.
  split.
  - intros a b Ha Hb E. cbn in Ha, Hb.
    repeat (destruct Ha as [<-|Ha]; [|]); try contradiction;
      repeat (destruct Hb as [<-|Hb]; [|]); try contradiction;
      try reflexivity; vm_compute in E; discriminate E.
  - repeat constructor; cbv; intuition discriminate.
Qed.
