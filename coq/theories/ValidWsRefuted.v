(* ValidWsRefuted.v — C11, defect F10 on the tree as it stands: the label
   pattern is anchored at the opening bracket, so a text with insignificant
   white space before it is rejected although it is well-formed JSON.

   THIS FILE COMPILES ONLY WHILE clientMsgRegexp IS ANCHORED AT THE BRACKET.
   After the repair it is replaced by ValidWsFixed.v (Properties/C11WsFixed.v). *)
From Moc Require Import Base Json CodecMsg Codec CodecProofs Valid ValidProofs.
From Moc.Gen Require Import GenCodec.
Open Scope Z_scope.

Lemma lead_ws_not_allowed : lead_ws_allowed = false.
Proof. reflexivity. Qed.

Theorem admit_leading_ws_rejected esc j : gate_admits (mkCText true esc j) = false.
Proof. rewrite admit_leading_ws. now rewrite lead_ws_not_allowed. Qed.

(** the minimal case: one space before ["CLOSE",""] *)
Definition close_empty : jv := JArr [JStr L_CLOSE; JStr []].

Theorem admit_leading_ws_refuted :
  exists t, ct_lead_ws t = true /\ wf_json_cmsg (ct_label_escaped t) (ct_json t) = true /\
            gate_admits (mkCText false (ct_label_escaped t) (ct_json t)) = true /\ gate_admits t = false.
Proof. exists (mkCText true false close_empty). repeat split. Qed.
