(* CacheSpec.v — specifications (C03, C04, C05) over *listings*: what the
   match-everything query shows before and after an insertion, and what a
   query returns.  Written from the property text; nothing here mentions the
   cache's tables.  Every predicate is boolean so that it can judge the
   implementation's own observations (the oracle); the declarative reading
   of each is stated beside it in CacheSpecFacts (proofs). *)
From Moc Require Import Base Match.
Open Scope Z_scope.

(* ------------------------------------------------------------------ *)
(** * Event classes and addresses (NIP-01) *)

Definition cls_replaceable (k : Z) : bool := (k =? 0) || (k =? 3) || ((10000 <=? k) && (k <=? 19999)).
Definition cls_ephemeral (k : Z) : bool := (20000 <=? k) && (k <=? 29999).
Definition cls_addressable (k : Z) : bool := (30000 <=? k) && (k <=? 39999).

Definition d_str : str := [100%N].
Definition e_str : str := [101%N].
Definition a_str : str := [97%N].

(** the d value: value of the first tag named "d"; absent = empty *)
Fixpoint d_value_of (tags : list tag) : str :=
  match tags with
  | [] => []
  | t :: rest =>
      match t with
      | n :: _ => if str_eqb n d_str then tag_value t else d_value_of rest
      | [] => d_value_of rest
      end
  end.
Definition d_value (e : event) : str := d_value_of (ev_tags e).

Definition same_address (x y : event) : bool :=
  Z.eqb (ev_kind x) (ev_kind y) && str_eqb (ev_pk x) (ev_pk y) &&
  (cls_replaceable (ev_kind x) || (cls_addressable (ev_kind x) && str_eqb (d_value x) (d_value y))).

(** kind:pubkey:d, the form a deletion request's [a] tag uses for addressable events *)
Definition address_of (x : event) : str :=
  showZ (ev_kind x) ++ [colon] ++ ev_pk x ++ [colon] ++ d_value x.

(** deletion request [d] references event [x] by id (e tag) or by address (a tag) *)
Definition refs (d x : event) : bool :=
  existsb (fun t => match t with
                    | n :: v :: _ =>
                        (str_eqb n e_str && str_eqb v (ev_id x)) ||
                        (str_eqb n a_str && cls_addressable (ev_kind x) && str_eqb v (address_of x))
                    | _ => false
                    end) (ev_tags d).

Definition is_k5 (e : event) : bool := ev_kind e =? 5.

(** [e] is suppressed by a retained deletion request of its own author *)
Definition suppressed (R : list event) (e : event) : bool :=
  existsb (fun d => is_k5 d && str_eqb (ev_pk d) (ev_pk e) && refs d e) R.

(* ------------------------------------------------------------------ *)
(** * Small set operations on listings *)

Definition id_in (x : event) (l : list event) : bool := existsb (fun y => str_eqb (ev_id x) (ev_id y)) l.
Definition ev_in (x : event) (l : list event) : bool := existsb (event_eqb x) l.
Definition subset (a b : list event) : bool := forallb (fun x => ev_in x b) a.
Definition set_eq (a b : list event) : bool := subset a b && subset b a.
Definition minus (a b : list event) : list event := List.filter (fun x => negb (ev_in x b)) a.
Definition remove1 (v : event) (l : list event) : list event := List.filter (fun x => negb (event_eqb v x)) l.

Fixpoint nodup_ids (l : list event) : bool :=
  match l with
  | [] => true
  | x :: rest => negb (id_in x rest) && nodup_ids rest
  end.

Fixpoint one_per_address (l : list event) : bool :=
  match l with
  | [] => true
  | x :: rest => negb (existsb (same_address x) rest) && one_per_address rest
  end.

Fixpoint sorted_desc (l : list event) : bool :=
  match l with
  | [] => true
  | x :: rest =>
      match rest with
      | [] => true
      | y :: _ => (ev_ts y <=? ev_ts x) && sorted_desc rest
      end
  end.

Definition min_ts (l : list event) : option Z :=
  match l with
  | [] => None
  | x :: rest => Some (fold_left (fun m y => Z.min m (ev_ts y)) rest (ev_ts x))
  end.

(* ------------------------------------------------------------------ *)
(** * C04: one insertion step, as a relation between consecutive listings *)

(** what must be gone because [e] was accepted *)
Definition replaced_by (R : list event) (e : event) : list event :=
  List.filter (fun x => same_address x e) R.

Definition deleted_by (R : list event) (e : event) : list event :=
  if is_k5 e then List.filter (fun x => str_eqb (ev_pk x) (ev_pk e) && refs e x) R else [].

(** expected verdict: new iff not a duplicate, not older-or-equal than the
    retained version of its address, not suppressed *)
Definition expected_added (R : list event) (e : event) : bool :=
  negb (id_in e R) &&
  negb (existsb (fun x => same_address x e && (ev_ts e <=? ev_ts x)) R) &&
  negb (suppressed R e).

(** the set that remains before capacity is applied *)
Definition base_after (R : list event) (e : event) : list event :=
  let withe := if cls_ephemeral (ev_kind e) then R else R ++ [e] in
  let gone := replaced_by R e ++ deleted_by withe e in
  minus withe gone.

Definition step_ok_c04 (cap : Z) (R : list event) (e : event) (added : bool) (R' : list event) : bool :=
  (Z.of_nat (length R') <=? cap) &&
  nodup_ids R' && one_per_address R' &&
  forallb (fun x => negb (cls_ephemeral (ev_kind x))) R' &&
  Bool.eqb added (expected_added R e) &&
  (if added then
     let base := base_after R e in
     if Z.of_nat (length base) <=? cap then set_eq R' base
     else match min_ts base with
          | None => false
          | Some m => existsb (fun v => (ev_ts v =? m) && set_eq R' (remove1 v base)) base
          end
   else list_eqb event_eqb R' R).

(* ------------------------------------------------------------------ *)
(** * C05: deletion requests and author isolation *)

Definition step_ok_c05 (cap : Z) (R : list event) (e : event) (added : bool) (R' : list event) : bool :=
  (* a suppressed event is never reported as new, and a rejection is explained
     by a retained event of the same author *)
  (if suppressed R e then negb added else true) &&
  (if added then true
   else existsb (fun y => str_eqb (ev_pk y) (ev_pk e) &&
                          (str_eqb (ev_id y) (ev_id e) || same_address y e || (is_k5 y && refs y e))) R) &&
  (* an accepted deletion request removes exactly what it references of its own author ... *)
  (if added && is_k5 e
   then forallb (fun x => negb (ev_in x R')) (deleted_by (R ++ [e]) e) &&
        (* ... and is itself kept (unless it references itself or was the eviction victim) *)
        (ev_in e R' || refs e e || (cap <? Z.of_nat (length (base_after R e))))
   else true) &&
  (* isolation: events of other authors stay, except one capacity victim of minimal created_at *)
  (let lost := List.filter (fun x => negb (str_eqb (ev_pk x) (ev_pk e))) (minus R R') in
   match lost with
   | [] => true
   | [v] => added && (cap <? Z.of_nat (length (base_after R e))) &&
            match min_ts (base_after R e) with Some m => ev_ts v =? m | None => false end
   | _ => false
   end) &&
  (* nothing of the same author disappears unless replaced, referenced, or evicted *)
  (let lost := List.filter (fun x => str_eqb (ev_pk x) (ev_pk e)) (minus R R') in
   forallb (fun x => added &&
                     (same_address x e || (is_k5 e && refs e x) ||
                      ((cap <? Z.of_nat (length (base_after R e))) &&
                       match min_ts (base_after R e) with Some m => ev_ts x =? m | None => false end))) lost).

(* ------------------------------------------------------------------ *)
(** * C03: a query answer against the retained set *)

(** all k-element sublists *)
Fixpoint choose {A} (k : nat) (l : list A) : list (list A) :=
  match k, l with
  | O, _ => [[]]
  | S _, [] => []
  | S k', x :: rest => List.map (cons x) (choose k' rest) ++ choose k rest
  end.

(** per filter: the matching retained events, how many must be returned, the
    ones strictly above the boundary timestamp (mandatory) and those on it
    (of which a fixed number must be chosen) *)
Definition nth_largest_ts (l : list event) (n : nat) : option Z :=
  (* l is any list; picks the n-th (1-based) largest created_at *)
  let fix ins (z : Z) (s : list Z) : list Z :=
    match s with
    | [] => [z]
    | y :: r => if y <=? z then z :: y :: r else y :: ins z r
    end in
  nth_error (fold_left (fun s x => ins (ev_ts x) s) l []) (pred n).

Record fplan := mkPlan { fp_must : list event; fp_tie : list event; fp_pick : nat }.

Definition plan_of (R : list event) (f : rfilter) : fplan :=
  let M := List.filter (fun x => match_specb x f) R in
  let n := match f_limit f with
           | Some l => Nat.min (Z.to_nat l) (length M)
           | None => length M
           end in
  match n with
  | O => mkPlan [] [] 0             (* nothing to return *)
  | S _ =>
      match nth_largest_ts M n with
      | None => mkPlan [] [] 0
      | Some t =>
          let must := List.filter (fun x => t <? ev_ts x) M in
          let tie := List.filter (fun x => ev_ts x =? t) M in
          mkPlan must tie (n - length must)
      end
  end.

(** is there, for every filter, a choice of [fp_pick] tie events inside
    [out] such that together with the mandatory ones they cover [out]? *)
Fixpoint cover_search (plans : list fplan) (out covered : list event) : bool :=
  match plans with
  | [] => subset out covered
  | p :: rest =>
      existsb (fun pick => cover_search rest out (pick ++ covered))
              (choose (fp_pick p) (List.filter (fun x => ev_in x out) (fp_tie p)))
  end.

Definition find_spec_ok (R : list event) (fs : list rfilter) (out : list event) : bool :=
  let plans := List.map (plan_of R) fs in
  nodup_ids out && sorted_desc out && subset out R &&
  forallb (fun p => subset (fp_must p) out) plans &&
  cover_search plans out (flat_map fp_must plans).

(** the listing itself must be a well-formed retained set *)
Definition listing_ok (R : list event) : bool := nodup_ids R && sorted_desc R.
