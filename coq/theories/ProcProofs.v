(* ProcProofs.v — the generic theorems about guarded process networks (C13). *)
From Moc Require Import Base Proc.
Import ListNotations.
Open Scope nat_scope.

(** * Small facts *)
Lemma upd_same {A B} dec (f : A -> B) k v : upd dec f k v k = v.
Proof. unfold upd. destruct (dec k k); congruence. Qed.

Lemma upd_other {A B} dec (f : A -> B) k v x : x <> k -> upd dec f k v x = f x.
Proof. unfold upd. destruct (dec x k); congruence. Qed.

Lemma in_prefixes_app a r : In a (prefixes (a ++ r)).
Proof.
  induction a as [|x a IH]; cbn.
  - destruct r; cbn; auto.
  - right. apply in_map. exact IH.
Qed.

Lemma isdone_prefix st root f :
  st_fl st root = true -> is_prefix root f -> isdone st f = true.
Proof.
  intros Hs [r ->]. unfold isdone. apply existsb_exists.
  exists root. split; [apply in_prefixes_app | exact Hs].
Qed.

Lemma instr_exit_dec (i : instr) : {i = Exit} + {i <> Exit}.
Proof. destruct i; (left; reflexivity) || (right; discriminate). Defined.

Lemma sum_over_ge {A} (f : A -> nat) l x : In x l -> f x <= sum_over f l.
Proof.
  induction l as [|y l IH]; cbn; intros H; [contradiction|].
  destruct H as [->|H]; [lia | specialize (IH H); lia].
Qed.

Lemma sum_over_pos {A} (f : A -> nat) l : 1 <= sum_over f l -> exists x, In x l /\ 1 <= f x.
Proof.
  induction l as [|y l IH]; cbn; intros H; [lia|].
  destruct (f y) eqn:E.
  - destruct (IH H) as [x [Hi Hx]]. exists x; auto.
  - exists y. split; [auto | lia].
Qed.

Lemma sum_over_zero {A} (f : A -> nat) l : (forall x, In x l -> f x = 0) -> sum_over f l = 0.
Proof.
  induction l as [|y l IH]; cbn; intros H; [reflexivity|].
  rewrite (H y (or_introl eq_refl)), IH; auto.
Qed.

Lemma sum_over_ext {A} (f g : A -> nat) l : (forall x, In x l -> f x = g x) -> sum_over f l = sum_over g l.
Proof.
  induction l as [|y l IH]; cbn; intros H; [reflexivity|].
  rewrite (H y (or_introl eq_refl)), IH; auto.
Qed.

Lemma sum_over_app {A} (f : A -> nat) l1 l2 : sum_over f (l1 ++ l2) = sum_over f l1 + sum_over f l2.
Proof. induction l1; cbn; lia. Qed.

(* changing the summand of one element of a list without duplicate keys *)
Lemma sum_over_change (N : net) (g g' : proc -> nat) pr0 :
  NoDup (List.map pr_id N) -> In pr0 N ->
  (forall pr, In pr N -> pr_id pr <> pr_id pr0 -> g' pr = g pr) ->
  sum_over g' N + g pr0 = sum_over g N + g' pr0.
Proof.
  induction N as [|a N IH]; cbn; intros Hnd Hin Hext; [contradiction|].
  inversion Hnd as [|? ? Hna Hnd']; subst.
  destruct Hin as [->|Hin].
  - assert (sum_over g' N = sum_over g N).
    { apply sum_over_ext. intros x Hx. apply Hext; [auto|].
      intros E. apply Hna. rewrite <- E. apply in_map. exact Hx. }
    lia.
  - assert (g' a = g a).
    { apply Hext; [auto|]. intros E. apply Hna. rewrite E. apply in_map. exact Hin. }
    specialize (IH Hnd' Hin (fun pr Hp => Hext pr (or_intror Hp))). lia.
Qed.

Lemma nodup_same_id (N : net) a b :
  NoDup (List.map pr_id N) -> In a N -> In b N -> pr_id a = pr_id b -> a = b.
Proof.
  induction N as [|x N IH]; cbn; intros Hnd Ha Hb E; [contradiction|].
  inversion Hnd as [|? ? Hna Hnd']; subst.
  destruct Ha as [->|Ha], Hb as [->|Hb]; auto.
  - exfalso. apply Hna. rewrite E. apply in_map. exact Hb.
  - exfalso. apply Hna. rewrite <- E. apply in_map. exact Ha.
Qed.

(** * How a step changes the state *)

(* the per-channel deltas of a transition *)
Definition sdelta (o : option chan) (d : chan) : nat :=
  match o with Some c => if chan_eq_dec c d then 1 else 0 | None => 0 end.

Lemma pend_step_unfold pr k n snt rcv :
  pend_step pr k n snt rcv ->
  forall d, c_class d <> Plain ->
    pr_pend pr n d + sdelta snt d <= pr_pend pr k d + sdelta rcv d
    /\ (c_class d = Token -> pr_pend pr n d + sdelta snt d = pr_pend pr k d + sdelta rcv d).
Proof. intros H d Hd. exact (H d Hd). Qed.

(* Summary of a solo step of a well-formed process. *)
Inductive solo_summary (pr : proc) (st st' : state) : Prop :=
| mkSummary (ss_n : pc) (ss_snt ss_rcv : option chan)
    (ss_pc : st_pc st' = upd pid_eq_dec (st_pc st) (pr_id pr) ss_n)
    (ss_pend : pend_step pr (st_pc st (pr_id pr)) ss_n ss_snt ss_rcv)
    (ss_len : forall d, c_class d <> Plain ->
      ch_len (st_ch st' d) + sdelta ss_rcv d = ch_len (st_ch st d) + sdelta ss_snt d)
    (ss_closed : forall d, c_class d <> Plain ->
      ch_closed (st_ch st d) = false -> ch_closed (st_ch st' d) = false)
    (ss_fl : forall f, st_fl st f = true -> st_fl st' f = true).

Lemma set_fl_mono st f g : st_fl st g = true -> st_fl (set_fl st f) g = true.
Proof.
  intros H. cbn. unfold upd. destruct (flag_eq_dec g f); auto.
Qed.

Lemma solo_summarize root N pr st st' :
  proc_ok root pr -> solo N pr st st' -> solo_summary pr st st'.
Proof.
  intros [Hok _] Hs.
  pose proof (Hok (st_pc st (pr_id pr))) as [Hex [Hpend _]].
  destruct Hs as [alts f n Hi Hin Hd | alts ns n Hi Hin Hn | alts c ns n Hi Hin Hn Hcl Hlen
                 | alts c oks cls n k Hi Hin Hn Hlen | alts c oks cls n Hi Hin Hn Hlen Hcl
                 | j n Hi Hj | f n Hi | c n Hi | c lens cl n k Hi Hk];
    unfold at_instr in Hi; unfold pend_ok in Hpend; unfold exit_ok in Hex; rewrite Hi in Hpend, Hex.
  - (* done *)
    rewrite Forall_forall in Hpend. specialize (Hpend _ Hin). cbn in Hpend.
    eapply mkSummary with (ss_n := n) (ss_snt := None) (ss_rcv := None); [reflexivity | exact Hpend | | |]; cbn; auto.
  - (* default *)
    rewrite Forall_forall in Hpend. specialize (Hpend _ Hin). cbn in Hpend.
    rewrite Forall_forall in Hpend. specialize (Hpend _ Hn).
    eapply mkSummary with (ss_n := n) (ss_snt := None) (ss_rcv := None); [reflexivity | exact Hpend | | |]; cbn; auto.
  - (* buffered send *)
    rewrite Forall_forall in Hpend. specialize (Hpend _ Hin). cbn in Hpend.
    rewrite Forall_forall in Hpend. specialize (Hpend _ Hn).
    eapply mkSummary with (ss_n := n) (ss_snt := (Some c)) (ss_rcv := None); [reflexivity | exact Hpend | | |]; cbn; auto.
    + intros d Hd. unfold upd. destruct (chan_eq_dec d c) as [->|Hne].
      * destruct (chan_eq_dec c c); [cbn; lia | congruence].
      * destruct (chan_eq_dec c d); [congruence | lia].
    + intros d Hd Hc. unfold upd. destruct (chan_eq_dec d c); auto.
  - (* buffered receive *)
    rewrite Forall_forall in Hpend. specialize (Hpend _ Hin). cbn in Hpend.
    destruct Hpend as [Hpend _].
    rewrite Forall_forall in Hpend. specialize (Hpend _ Hn).
    eapply mkSummary with (ss_n := n) (ss_snt := None) (ss_rcv := (Some c)); [reflexivity | exact Hpend | | |]; cbn; auto.
    + intros d Hd. unfold upd. destruct (chan_eq_dec d c) as [->|Hne].
      * destruct (chan_eq_dec c c); [cbn; lia | congruence].
      * destruct (chan_eq_dec c d); [congruence | lia].
    + intros d Hd Hc. unfold upd. destruct (chan_eq_dec d c) as [->|]; auto.
  - (* receive on closed *)
    rewrite Forall_forall in Hpend. specialize (Hpend _ Hin). cbn in Hpend.
    destruct Hpend as [_ Hpend].
    rewrite Forall_forall in Hpend. specialize (Hpend _ Hn).
    eapply mkSummary with (ss_n := n) (ss_snt := None) (ss_rcv := None); [reflexivity | exact Hpend | | |]; cbn; auto.
  - (* join *)
    eapply mkSummary with (ss_n := n) (ss_snt := None) (ss_rcv := None); [reflexivity | exact Hpend | | |]; cbn; auto.
  - (* cancel *)
    eapply mkSummary with (ss_n := n) (ss_snt := None) (ss_rcv := None); [reflexivity | exact Hpend | | |]; cbn; auto.
    intros g Hg. apply (set_fl_mono st f g Hg).
  - (* close: only Plain channels *)
    destruct Hex as [Hplain _].
    eapply mkSummary with (ss_n := n) (ss_snt := None) (ss_rcv := None); [reflexivity | exact Hpend | | |]; cbn; auto.
    + intros d Hd. unfold upd. destruct (chan_eq_dec d c) as [->|]; [congruence | lia].
    + intros d Hd Hc. unfold upd. destruct (chan_eq_dec d c) as [->|]; [congruence | auto].
  - (* fresh: only Plain channels *)
    destruct Hex as [Hplain _].
    eapply mkSummary with (ss_n := n) (ss_snt := None) (ss_rcv := None); [reflexivity | exact Hpend | | |]; cbn; auto.
    + intros d Hd. unfold upd. destruct (chan_eq_dec d c) as [->|]; [congruence | lia].
    + intros d Hd Hc. unfold upd. destruct (chan_eq_dec d c) as [->|]; [congruence | auto].
Qed.

Lemma total_pend_upd N st st' pr n d :
  NoDup (List.map pr_id N) -> In pr N ->
  st_pc st' = upd pid_eq_dec (st_pc st) (pr_id pr) n ->
  total_pend N st' d + pr_pend pr (st_pc st (pr_id pr)) d = total_pend N st d + pr_pend pr n d.
Proof.
  intros Hnd Hin Hpc. unfold total_pend. rewrite Hpc.
  pose proof (sum_over_change N
    (fun q => pr_pend q (st_pc st (pr_id q)) d)
    (fun q => pr_pend q (upd pid_eq_dec (st_pc st) (pr_id pr) n (pr_id q)) d) pr Hnd Hin) as H.
  cbn beta in H. rewrite upd_same in H. apply H.
  intros q Hq Hne. rewrite upd_other; auto.
Qed.

Lemma total_meas_upd N st st' pr n :
  NoDup (List.map pr_id N) -> In pr N ->
  st_pc st' = upd pid_eq_dec (st_pc st) (pr_id pr) n ->
  total_meas N st' + pr_meas pr (st_pc st (pr_id pr)) = total_meas N st + pr_meas pr n.
Proof.
  intros Hnd Hin Hpc. unfold total_meas. rewrite Hpc.
  pose proof (sum_over_change N
    (fun q => pr_meas q (st_pc st (pr_id q)))
    (fun q => pr_meas q (upd pid_eq_dec (st_pc st) (pr_id pr) n (pr_id q))) pr Hnd Hin) as H.
  cbn beta in H. rewrite upd_same in H. apply H.
  intros q Hq Hne. rewrite upd_other; auto.
Qed.

(** * Invariants of reachable states *)
Definition phi_ok (N : net) (st : state) : Prop :=
  forall d,
    (c_class d = Bounded -> ch_len (st_ch st d) + total_pend N st d <= c_cap d)
    /\ (c_class d = Token -> ch_len (st_ch st d) + total_pend N st d = 1)
    /\ (c_class d <> Plain -> ch_closed (st_ch st d) = false).

Lemma phi_init root N : guarded root N -> phi_ok N init_state.
Proof.
  intros [Hnd Hp Hi] d. repeat split.
  - intros Hb. cbn. unfold init_len. rewrite Hb. cbn. apply Hi. exact Hb.
  - intros Ht. cbn. unfold init_len. rewrite Ht.
    unfold total_pend. cbn. rewrite sum_over_zero; [reflexivity|].
    intros pr Hin. rewrite Forall_forall in Hp. destruct (Hp pr Hin) as [_ H0]. apply H0. exact Ht.
Qed.

Lemma phi_solo root N pr st st' :
  guarded root N -> In pr N -> phi_ok N st -> solo N pr st st' -> phi_ok N st'.
Proof.
  intros [Hnd Hp Hi] Hin Hphi Hs.
  rewrite Forall_forall in Hp.
  destruct (solo_summarize root N pr st st' (Hp pr Hin) Hs) as [n snt rcv Hpc Hpend Hlen Hcl Hfl].
  intros d. destruct (Hphi d) as [HB [HT HC]].
  pose proof (total_pend_upd N st st' pr n d Hnd Hin Hpc) as Hsum.
  repeat split.
  - intros Hb. assert (Hd : c_class d <> Plain) by congruence.
    destruct (pend_step_unfold _ _ _ _ _ Hpend d Hd) as [Hle _].
    specialize (Hlen d Hd). specialize (HB Hb). lia.
  - intros Ht. assert (Hd : c_class d <> Plain) by congruence.
    destruct (pend_step_unfold _ _ _ _ _ Hpend d Hd) as [_ Heq]. specialize (Heq Ht).
    specialize (Hlen d Hd). specialize (HT Ht). lia.
  - intros Hd. apply Hcl; auto.
Qed.

Lemma alt_pend_send pr k alts c ns n :
  Forall (alt_pend_ok pr k) alts -> In (ASend c ns) alts -> In n ns -> pend_step pr k n (Some c) None.
Proof.
  intros H Hin Hn. rewrite Forall_forall in H. specialize (H _ Hin). cbn in H.
  rewrite Forall_forall in H. auto.
Qed.

Lemma alt_pend_recv pr k alts c oks cls n :
  Forall (alt_pend_ok pr k) alts -> In (ARecv c oks cls) alts -> In n oks -> pend_step pr k n None (Some c).
Proof.
  intros H Hin Hn. rewrite Forall_forall in H. specialize (H _ Hin). cbn in H.
  destruct H as [H _]. rewrite Forall_forall in H. auto.
Qed.

Lemma phi_rdv root N ps pq st st' :
  guarded root N -> In ps N -> In pq N -> phi_ok N st -> rendezvous N ps pq st st' -> phi_ok N st'.
Proof.
  intros [Hnd Hp Hi] Hins Hinq Hphi Hr.
  rewrite Forall_forall in Hp.
  destruct Hr as [altss altsq c ns n oks cls m Hne His Hsend Hn Hiq Hrecv Hm Hcap Hcl Hlen].
  unfold at_instr in *.
  destruct (Hp ps Hins) as [Hoks _]. destruct (Hoks (st_pc st (pr_id ps))) as [_ [Hps _]].
  destruct (Hp pq Hinq) as [Hokq _]. destruct (Hokq (st_pc st (pr_id pq))) as [_ [Hpq _]].
  unfold pend_ok in Hps, Hpq. rewrite His in Hps. rewrite Hiq in Hpq.
  pose proof (alt_pend_send _ _ _ _ _ _ Hps Hsend Hn) as Hss.
  pose proof (alt_pend_recv _ _ _ _ _ _ _ Hpq Hrecv Hm) as Hrr.
  set (st1 := set_pc st (pr_id ps) n).
  assert (Hpcq : st_pc st1 (pr_id pq) = st_pc st (pr_id pq)).
  { cbn. apply upd_other. auto. }
  intros d. destruct (Hphi d) as [HB [HT HC]].
  pose proof (total_pend_upd N st st1 ps n d Hnd Hins eq_refl) as Hs1.
  pose proof (total_pend_upd N st1 (set_pc st1 (pr_id pq) m) pq m d Hnd Hinq eq_refl) as Hs2.
  rewrite Hpcq in Hs2.
  change (st_ch (set_pc st1 (pr_id pq) m) d) with (st_ch st d).
  repeat split.
  - intros Hb. assert (Hd : c_class d <> Plain) by congruence.
    destruct (pend_step_unfold _ _ _ _ _ Hss d Hd) as [H1 _].
    destruct (pend_step_unfold _ _ _ _ _ Hrr d Hd) as [H2 _].
    cbn in H1, H2. specialize (HB Hb). lia.
  - intros Ht. assert (Hd : c_class d <> Plain) by congruence.
    destruct (pend_step_unfold _ _ _ _ _ Hss d Hd) as [_ H1].
    destruct (pend_step_unfold _ _ _ _ _ Hrr d Hd) as [_ H2].
    specialize (H1 Ht). specialize (H2 Ht). cbn in H1, H2. specialize (HT Ht). lia.
  - exact HC.
Qed.

Lemma phi_step root N st st' :
  guarded root N -> phi_ok N st -> step N st st' -> phi_ok N st'.
Proof.
  intros Hg Hphi [pr Hin Hs | ps pq Hs Hq Hr].
  - exact (phi_solo root N pr st st' Hg Hin Hphi Hs).
  - exact (phi_rdv root N ps pq st st' Hg Hs Hq Hphi Hr).
Qed.

Lemma phi_reachable root N st : guarded root N -> reachable N st -> phi_ok N st.
Proof.
  intros Hg Hr. induction Hr.
  - eapply phi_init; eauto.
  - eapply phi_step; eauto.
Qed.

Lemma step_fl_mono root N st st' f :
  guarded root N -> step N st st' -> st_fl st f = true -> st_fl st' f = true.
Proof.
  intros [Hnd Hp Hi] Hs Hf. rewrite Forall_forall in Hp.
  destruct Hs as [pr Hin Hs | ps pq Hs Hq Hr].
  - destruct (solo_summarize root N pr st st' (Hp pr Hin) Hs). auto.
  - destruct Hr. cbn. exact Hf.
Qed.

(** * Decreasing steps *)
Lemma solo_decreases root N pr st st' n :
  guarded root N -> In pr N -> solo N pr st st' ->
  st_pc st' = upd pid_eq_dec (st_pc st) (pr_id pr) n ->
  dec pr (st_pc st (pr_id pr)) n ->
  total_meas N st' < total_meas N st.
Proof.
  intros [Hnd _ _] Hin _ Hpc Hdec.
  pose proof (total_meas_upd N st st' pr n Hnd Hin Hpc). unfold dec in Hdec. lia.
Qed.

(* the move a process can always make at a guarded point once the root is cancelled;
   None when it has to wait for another process *)
Inductive own_move (N : net) (pr : proc) (st : state) : Prop :=
| own_mv : forall st' n,
    solo N pr st st' -> st_pc st' = upd pid_eq_dec (st_pc st) (pr_id pr) n ->
    dec pr (st_pc st (pr_id pr)) n -> own_move N pr st.

Lemma nonempty_hd {A} (l : list A) : l <> [] -> exists x, In x l.
Proof. destruct l; [congruence | intros _; eexists; left; reflexivity]. Qed.

(* a process sitting at a put can complete it *)
Lemma put_moves root N q st c :
  guarded root N -> phi_ok N st -> In q N -> c_class c = Token ->
  1 <= pr_pend q (st_pc st (pr_id q)) c ->
  is_put c (at_instr st q) /\ own_move N q st.
Proof.
  intros Hg Hphi Hin Hc Hpend.
  destruct Hg as [Hnd Hp Hi]. rewrite Forall_forall in Hp.
  destruct (Hp q Hin) as [Hok _]. destruct (Hok (st_pc st (pr_id q))) as [Hex [_ Hhold]].
  destruct (Hhold c Hc Hpend) as [Hcap Hput].
  split; [exact Hput|].
  destruct Hput as [ns Hi']. unfold exit_ok in Hex. rewrite Hi' in Hex.
  destruct Hex as [[f [n [Hin' _]]] | [[ns' [Hin' _]] | [[c' [ns' [Heq [Hcl [Hp1 [Hne Hall]]]]]] | [c' [oks [cls [Heq _]]]]]]].
  - cbn in Hin'. destruct Hin' as [Hin'|[]]; discriminate.
  - cbn in Hin'. destruct Hin' as [Hin'|[]]; discriminate.
  - inversion Heq; subst c' ns'.
    destruct (nonempty_hd _ Hne) as [n Hn].
    rewrite Forall_forall in Hall.
    destruct (Hphi c) as [_ [HT HC]].
    assert (Hlen : ch_len (st_ch st c) = 0).
    { specialize (HT Hc).
      pose proof (sum_over_ge (fun pr => pr_pend pr (st_pc st (pr_id pr)) c) N q Hin) as Hge.
      cbn beta in Hge. unfold total_pend in HT. lia. }
    assert (Hclosed : ch_closed (st_ch st c) = false) by (apply HC; congruence).
    assert (Hroom : ch_len (st_ch st c) < c_cap c) by lia.
    eapply own_mv with (n := n).
    + exact (solo_send N q st _ c ns n Hi' (or_introl eq_refl) Hn Hclosed Hroom).
    + reflexivity.
    + apply Hall. exact Hn.
  - discriminate.
Qed.

Lemma exited_dec N st j :
  exited N st j \/ exists prj, In prj N /\ pr_id prj = j /\ live st prj.
Proof.
  unfold exited. induction N as [|a N IH].
  - left. intros ? [].
  - destruct IH as [IH | [prj [Hin [Hid Hl]]]].
    + destruct (pid_eq_dec (pr_id a) j) as [E|E].
      * destruct (instr_exit_dec (at_instr st a)) as [Hx|Hx].
        -- left. intros prj [->|Hin] Hid; auto.
        -- right. exists a. repeat split; auto. left; reflexivity.
      * left. intros prj [->|Hin] Hid; [congruence | auto].
    + right. exists prj. repeat split; auto. right; exact Hin.
Qed.

(* Classification of a live process in a cancelled reachable state. *)
Inductive situation (N : net) (st : state) (pr : proc) : Prop :=
| sit_move : own_move N pr st -> situation N st pr
| sit_join : forall j n prj,
    at_instr st pr = Join j n -> In prj N -> pr_id prj = j -> live st prj ->
    p_rank j < p_rank (pr_id pr) -> situation N st pr
| sit_token : forall c oks cls q,
    at_instr st pr = Select [ARecv c oks cls] -> c_class c = Token ->
    In q N -> is_put c (at_instr st q) -> own_move N q st -> situation N st pr.

Lemma classify root N st pr :
  guarded root N -> phi_ok N st -> st_fl st root = true ->
  In pr N -> live st pr -> situation N st pr.
Proof.
  intros Hg Hphi Hroot Hin Hlive.
  pose proof Hg as [Hnd Hp Hi]. rewrite Forall_forall in Hp.
  destruct (Hp pr Hin) as [Hok _]. destruct (Hok (st_pc st (pr_id pr))) as [Hex [_ Hhold]].
  unfold live, at_instr in *. unfold exit_ok in Hex.
  destruct (pr_code pr (st_pc st (pr_id pr))) as [alts | j n | f n | c n | c lens cl n |] eqn:Hi'.
  - (* Select *)
    destruct Hex as [[f [n [Hin' [Hpre Hdec]]]] | [[ns [Hin' [Hne Hall]]] | [[c [ns [Heq [Hcl [Hp1 [Hne Hall]]]]]] | [c [oks [cls [Heq [Hcl [Hne Hall]]]]]]]]].
    + apply sit_move.
      exact (own_mv N pr st _ n (solo_done N pr st alts f n Hi' Hin' (isdone_prefix st root f Hroot Hpre)) eq_refl Hdec).
    + destruct (nonempty_hd _ Hne) as [n Hn]. rewrite Forall_forall in Hall.
      apply sit_move.
      exact (own_mv N pr st _ n (solo_default N pr st alts ns n Hi' Hin' Hn) eq_refl (Hall n Hn)).
    + (* bare send with a reservation *)
      subst alts. destruct (nonempty_hd _ Hne) as [n Hn]. rewrite Forall_forall in Hall.
      destruct (Hphi c) as [HB [HT HC]].
      pose proof (sum_over_ge (fun q => pr_pend q (st_pc st (pr_id q)) c) N pr Hin) as Hge.
      cbn beta in Hge.
      assert (Hroom : ch_len (st_ch st c) < c_cap c).
      { destruct (c_class c) eqn:Ecl; [congruence | |].
        - specialize (HB eq_refl). unfold total_pend in HB. lia.
        - specialize (HT eq_refl). unfold total_pend in HT.
          destruct (Hhold c Ecl Hp1) as [Hcap _]. lia. }
      assert (Hclosed : ch_closed (st_ch st c) = false) by (apply HC; exact Hcl).
      apply sit_move.
      exact (own_mv N pr st _ n (solo_send N pr st _ c ns n Hi' (or_introl eq_refl) Hn Hclosed Hroom) eq_refl (Hall n Hn)).
    + (* token take *)
      subst alts. destruct (nonempty_hd _ Hne) as [n Hn]. rewrite Forall_forall in Hall.
      destruct (Hall n Hn) as [Hdec _].
      destruct (ch_len (st_ch st c)) as [|k] eqn:Hlen.
      * (* the token is away: somebody holds it and is at the put *)
        destruct (Hphi c) as [_ [HT _]]. specialize (HT Hcl). rewrite Hlen in HT.
        destruct (sum_over_pos (fun q => pr_pend q (st_pc st (pr_id q)) c) N) as [q [Hq Hq1]].
        { unfold total_pend in HT. lia. }
        destruct (put_moves root N q st c Hg Hphi Hq Hcl Hq1) as [Hput Hmv].
        exact (sit_token N st pr c oks cls q Hi' Hcl Hq Hput Hmv).
      * apply sit_move.
        exact (own_mv N pr st _ n (solo_recv N pr st _ c oks cls n k Hi' (or_introl eq_refl) Hn Hlen) eq_refl Hdec).
  - (* Join *)
    destruct Hex as [Hrank Hdec].
    destruct (exited_dec N st j) as [Hx | [prj [Hinj [Hid Hl]]]].
    + apply sit_move.
      exact (own_mv N pr st _ n (solo_join N pr st j n Hi' Hx) eq_refl Hdec).
    + exact (sit_join N st pr j n prj Hi' Hinj Hid Hl Hrank).
  - apply sit_move.
    exact (own_mv N pr st _ n (solo_cancel N pr st f n Hi') eq_refl Hex).
  - destruct Hex as [_ Hdec]. apply sit_move.
    exact (own_mv N pr st _ n (solo_close N pr st c n Hi') eq_refl Hdec).
  - destruct Hex as [_ [Hne Hdec]]. destruct (nonempty_hd _ Hne) as [k Hk].
    apply sit_move.
    exact (own_mv N pr st _ n (solo_fresh N pr st c lens cl n k Hi' Hk) eq_refl Hdec).
  - congruence.
Qed.

(** ** no live process is stuck *)
Theorem no_stuck_after_cancel root N st pr :
  guarded root N -> reachable N st -> st_fl st root = true ->
  In pr N -> live st pr -> waits_ok N st pr.
Proof.
  intros Hg Hr Hroot Hin Hl.
  pose proof (phi_reachable root N st Hg Hr) as Hphi.
  destruct (classify root N st pr Hg Hphi Hroot Hin Hl) as [[st' n Hs _ _] | j n prj Hi Hj Hid Hlj Hrk | c oks cls q Hi Hc Hq Hput [st' n Hs _ _]].
  - apply w_enabled. exists st'. exact Hs.
  - eapply w_join; eauto.
  - eapply w_token; eauto. exists st'. exact Hs.
Qed.

(** ** some step always brings the network closer to termination *)
Lemma progress_rank root N st :
  guarded root N -> phi_ok N st -> st_fl st root = true ->
  forall r pr, p_rank (pr_id pr) < r -> In pr N -> live st pr ->
  exists st', step N st st' /\ total_meas N st' < total_meas N st.
Proof.
  intros Hg Hphi Hroot. induction r as [|r IH]; intros pr Hr Hin Hl; [lia|].
  destruct (classify root N st pr Hg Hphi Hroot Hin Hl) as [[st' n Hs Hpc Hdec] | j n prj Hi Hj Hid Hlj Hrk | c oks cls q Hi Hc Hq Hput [st' n Hs Hpc Hdec]].
  - exists st'. split; [eapply step_solo; eauto | eapply solo_decreases; eauto].
  - apply (IH prj); auto. rewrite Hid. lia.
  - exists st'. split; [eapply step_solo; eauto | eapply solo_decreases; eauto].
Qed.

Lemma all_exited_dec N st : all_exited N st \/ exists pr, In pr N /\ live st pr.
Proof.
  unfold all_exited. induction N as [|a N IH].
  - left. intros ? [].
  - destruct IH as [IH | [pr [Hin Hl]]].
    + destruct (instr_exit_dec (at_instr st a)) as [Hx|Hx].
      * left. intros pr [->|Hin]; auto.
      * right. exists a. split; [left; reflexivity | exact Hx].
    + right. exists pr. split; [right; exact Hin | exact Hl].
Qed.

Theorem progress_after_cancel root N st :
  guarded root N -> reachable N st -> st_fl st root = true ->
  all_exited N st \/ exists st', step N st st' /\ total_meas N st' < total_meas N st.
Proof.
  intros Hg Hr Hroot.
  destruct (all_exited_dec N st) as [Hx | [pr [Hin Hl]]]; [left; exact Hx | right].
  eapply progress_rank with (r := S (p_rank (pr_id pr))); eauto.
  eapply phi_reachable; eauto.
Qed.

(** ** the whole network can finish, within total_meas steps *)
Theorem can_finish_after_cancel root N :
  guarded root N ->
  forall m st, total_meas N st <= m -> reachable N st -> st_fl st root = true ->
  exists k st', steps N k st st' /\ k <= total_meas N st /\ all_exited N st' /\ reachable N st'.
Proof.
  intros Hg. induction m as [|m IH]; intros st Hm Hr Hroot.
  - destruct (progress_after_cancel root N st Hg Hr Hroot) as [Hx | [st' [Hs Hlt]]].
    + exists 0, st. repeat split; auto using steps_0. lia.
    + lia.
  - destruct (progress_after_cancel root N st Hg Hr Hroot) as [Hx | [st' [Hs Hlt]]].
    + exists 0, st. repeat split; auto using steps_0. lia.
    + destruct (IH st') as [k [st'' [Hk [Hle [Hx Hr']]]]].
      * lia.
      * eapply reach_step; eauto.
      * eapply step_fl_mono; eauto.
      * exists (S k), st''. repeat split; auto.
        -- eapply steps_S; eauto.
        -- lia.
Qed.

(* total_meas is linear in the number of processes *)
Lemma total_meas_linear N st M :
  (forall pr k, In pr N -> pr_meas pr k <= M) -> total_meas N st <= length N * M.
Proof.
  intros H. unfold total_meas. induction N as [|a N IH]; cbn; [lia|].
  pose proof (H a (st_pc st (pr_id a)) (or_introl eq_refl)).
  assert (sum_over (fun pr => pr_meas pr (st_pc st (pr_id pr))) N <= length N * M).
  { apply IH. intros pr k Hin. apply H. right; exact Hin. }
  lia.
Qed.

(** ** solo exit path *)
Definition lower_exited (N : net) (st : state) (pr : proc) : Prop :=
  forall q, In q N -> p_rank (pr_id q) < p_rank (pr_id pr) -> at_instr st q = Exit.

Definition no_foreign_holder (N : net) (st : state) (pr : proc) : Prop :=
  forall q, In q N -> pr_id q <> pr_id pr ->
  forall d, c_class d = Token -> pr_pend q (st_pc st (pr_id q)) d = 0.

Lemma solo_keeps_others N pr st st' q :
  solo N pr st st' -> pr_id q <> pr_id pr -> st_pc st' (pr_id q) = st_pc st (pr_id q).
Proof.
  intros Hs Hne. destruct Hs; cbn; apply upd_other; auto.
Qed.

Lemma put_has_pend root q k c :
  proc_ok root q -> is_put c (pr_code q k) -> 1 <= pr_pend q k c.
Proof.
  intros [Hok _] [ns Hput]. destruct (Hok k) as [Hex _].
  unfold exit_ok in Hex. rewrite Hput in Hex.
  destruct Hex as [[f [n' [Hin' _]]] | [[ns' [Hin' _]] | [[c' [ns' [Heq [_ [Hp1 _]]]]] | [c' [oks' [cls' [Heq _]]]]]]].
  - cbn in Hin'. destruct Hin' as [Hin'|[]]; discriminate.
  - cbn in Hin'. destruct Hin' as [Hin'|[]]; discriminate.
  - inversion Heq; subst c' ns'. exact Hp1.
  - discriminate.
Qed.

Theorem solo_exit_path root N :
  guarded root N ->
  forall m pr st, pr_meas pr (st_pc st (pr_id pr)) <= m -> In pr N ->
  reachable N st -> st_fl st root = true ->
  lower_exited N st pr -> no_foreign_holder N st pr ->
  exists k st', solo_run N pr k st st' /\ k <= pr_meas pr (st_pc st (pr_id pr)) /\ at_instr st' pr = Exit.
Proof.
  intros Hg. pose proof Hg as [Hnd Hp Hi0]. rewrite Forall_forall in Hp.
  assert (Hcls : forall pr st, In pr N -> reachable N st -> st_fl st root = true ->
            lower_exited N st pr -> no_foreign_holder N st pr -> live st pr -> own_move N pr st).
  { intros pr st Hin Hr Hroot Hlow Hnf Hl.
    pose proof (phi_reachable root N st Hg Hr) as Hphi.
    destruct (classify root N st pr Hg Hphi Hroot Hin Hl) as [Hmv | j n prj Hi Hj Hid Hlj Hrk | c oks cls q Hi Hc Hq Hput Hmv].
    - exact Hmv.
    - exfalso. apply Hlj. apply Hlow; [exact Hj | rewrite Hid; exact Hrk].
    - exfalso. destruct (pid_eq_dec (pr_id q) (pr_id pr)) as [E|E].
      + pose proof (nodup_same_id N q pr Hnd Hq Hin E) as ->.
        destruct Hput as [ns Hput]. rewrite Hput in Hi. discriminate.
      + pose proof (put_has_pend root q _ c (Hp q Hq) Hput) as H1.
        rewrite (Hnf q Hq E c Hc) in H1. lia. }
  induction m as [|m IH]; intros pr st Hm Hin Hr Hroot Hlow Hnf.
  all: destruct (instr_exit_dec (at_instr st pr)) as [Hx|Hl];
    [exists 0, st; repeat split; auto using solo_run_0; lia|].
  all: destruct (Hcls pr st Hin Hr Hroot Hlow Hnf Hl) as [st' n Hs Hpc Hdec].
  - unfold dec in Hdec. lia.
  - assert (Hpc' : st_pc st' (pr_id pr) = n) by (rewrite Hpc; apply upd_same).
    destruct (IH pr st') as [k [st'' [Hrun [Hk Hx]]]].
    + rewrite Hpc'. unfold dec in Hdec. lia.
    + exact Hin.
    + eapply reach_step; eauto. eapply step_solo; eauto.
    + destruct (solo_summarize root N pr st st' (Hp pr Hin) Hs). auto.
    + intros q Hq Hrk. unfold at_instr.
      assert (Hne : pr_id q <> pr_id pr) by (intros E; rewrite E in Hrk; lia).
      rewrite (solo_keeps_others N pr st st' q Hs Hne). apply Hlow; auto.
    + intros q Hq Hne d Hd. rewrite (solo_keeps_others N pr st st' q Hs Hne). apply Hnf; auto.
    + exists (S k), st''. repeat split; auto.
      * eapply solo_run_S; eauto.
      * rewrite Hpc' in Hk. unfold dec in Hdec. lia.
Qed.

(** * The same for a part S of the network and a context root' below which S is guarded
    (the rest of the network only has to respect the accounting discipline) *)
Lemma classify_gen root root' N st pr :
  guarded root N -> phi_ok N st -> st_fl st root' = true ->
  In pr N -> (forall k, exit_ok root' pr k) -> live st pr -> situation N st pr.
Proof.
  intros Hg Hphi Hroot Hin Hexit Hlive.
  pose proof Hg as [Hnd Hp Hi]. rewrite Forall_forall in Hp.
  destruct (Hp pr Hin) as [Hok _]. destruct (Hok (st_pc st (pr_id pr))) as [_ [_ Hhold]].
  pose proof (Hexit (st_pc st (pr_id pr))) as Hex.
  unfold live, at_instr in *. unfold exit_ok in Hex.
  destruct (pr_code pr (st_pc st (pr_id pr))) as [alts | j n | f n | c n | c lens cl n |] eqn:Hi'.
  - destruct Hex as [[f [n [Hin' [Hpre Hdec]]]] | [[ns [Hin' [Hne Hall]]] | [[c [ns [Heq [Hcl [Hp1 [Hne Hall]]]]]] | [c [oks [cls [Heq [Hcl [Hne Hall]]]]]]]]].
    + apply sit_move.
      exact (own_mv N pr st _ n (solo_done N pr st alts f n Hi' Hin' (isdone_prefix st root' f Hroot Hpre)) eq_refl Hdec).
    + destruct (nonempty_hd _ Hne) as [n Hn]. rewrite Forall_forall in Hall.
      apply sit_move.
      exact (own_mv N pr st _ n (solo_default N pr st alts ns n Hi' Hin' Hn) eq_refl (Hall n Hn)).
    + subst alts. destruct (nonempty_hd _ Hne) as [n Hn]. rewrite Forall_forall in Hall.
      destruct (Hphi c) as [HB [HT HC]].
      pose proof (sum_over_ge (fun q => pr_pend q (st_pc st (pr_id q)) c) N pr Hin) as Hge.
      cbn beta in Hge.
      assert (Hroom : ch_len (st_ch st c) < c_cap c).
      { destruct (c_class c) eqn:Ecl; [congruence | |].
        - specialize (HB eq_refl). unfold total_pend in HB. lia.
        - specialize (HT eq_refl). unfold total_pend in HT.
          destruct (Hhold c Ecl Hp1) as [Hcap _]. lia. }
      assert (Hclosed : ch_closed (st_ch st c) = false) by (apply HC; exact Hcl).
      apply sit_move.
      exact (own_mv N pr st _ n (solo_send N pr st _ c ns n Hi' (or_introl eq_refl) Hn Hclosed Hroom) eq_refl (Hall n Hn)).
    + subst alts. destruct (nonempty_hd _ Hne) as [n Hn]. rewrite Forall_forall in Hall.
      destruct (Hall n Hn) as [Hdec _].
      destruct (ch_len (st_ch st c)) as [|k] eqn:Hlen.
      * destruct (Hphi c) as [_ [HT _]]. specialize (HT Hcl). rewrite Hlen in HT.
        destruct (sum_over_pos (fun q => pr_pend q (st_pc st (pr_id q)) c) N) as [q [Hq Hq1]].
        { unfold total_pend in HT. lia. }
        destruct (put_moves root N q st c Hg Hphi Hq Hcl Hq1) as [Hput Hmv].
        exact (sit_token N st pr c oks cls q Hi' Hcl Hq Hput Hmv).
      * apply sit_move.
        exact (own_mv N pr st _ n (solo_recv N pr st _ c oks cls n k Hi' (or_introl eq_refl) Hn Hlen) eq_refl Hdec).
  - destruct Hex as [Hrank Hdec].
    destruct (exited_dec N st j) as [Hx | [prj [Hinj [Hid Hl]]]].
    + apply sit_move.
      exact (own_mv N pr st _ n (solo_join N pr st j n Hi' Hx) eq_refl Hdec).
    + exact (sit_join N st pr j n prj Hi' Hinj Hid Hl Hrank).
  - apply sit_move.
    exact (own_mv N pr st _ n (solo_cancel N pr st f n Hi') eq_refl Hex).
  - destruct Hex as [_ Hdec]. apply sit_move.
    exact (own_mv N pr st _ n (solo_close N pr st c n Hi') eq_refl Hdec).
  - destruct Hex as [_ [Hne Hdec]]. destruct (nonempty_hd _ Hne) as [k Hk].
    apply sit_move.
    exact (own_mv N pr st _ n (solo_fresh N pr st c lens cl n k Hi' Hk) eq_refl Hdec).
  - congruence.
Qed.

Definition join_closed (S N : net) : Prop :=
  forall pr, In pr S -> forall k j n, pr_code pr k = Join j n ->
  forall prj, In prj N -> pr_id prj = j -> In prj S.

Lemma progress_rank_sub root root' N S st :
  guarded root N -> incl S N -> (forall pr, In pr S -> forall k, exit_ok root' pr k) ->
  join_closed S N -> phi_ok N st -> st_fl st root' = true ->
  forall r pr, p_rank (pr_id pr) < r -> In pr S -> live st pr ->
  exists st', step N st st' /\ total_meas N st' < total_meas N st.
Proof.
  intros Hg Hincl Hexit Hjc Hphi Hroot. induction r as [|r IH]; intros pr Hr Hin Hl; [lia|].
  destruct (classify_gen root root' N st pr Hg Hphi Hroot (Hincl _ Hin) (Hexit pr Hin) Hl)
    as [[st' n Hs Hpc Hdec] | j n prj Hi Hj Hid Hlj Hrk | c oks cls q Hi Hc Hq Hput [st' n Hs Hpc Hdec]].
  - exists st'. split; [eapply step_solo; eauto | eapply solo_decreases; eauto].
  - apply (IH prj); auto; [rewrite Hid; lia|]. eapply Hjc; eauto.
  - exists st'. split; [eapply step_solo; eauto | eapply solo_decreases; eauto].
Qed.

Lemma sub_exited_dec (S : net) st : (forall pr, In pr S -> at_instr st pr = Exit) \/ exists pr, In pr S /\ live st pr.
Proof. exact (all_exited_dec S st). Qed.

Theorem can_finish_sub root root' N S :
  guarded root N -> incl S N -> (forall pr, In pr S -> forall k, exit_ok root' pr k) ->
  join_closed S N ->
  forall m st, total_meas N st <= m -> reachable N st -> st_fl st root' = true ->
  exists k st', steps N k st st' /\ k <= total_meas N st
    /\ (forall pr, In pr S -> at_instr st' pr = Exit) /\ reachable N st'.
Proof.
  intros Hg Hincl Hexit Hjc. induction m as [|m IH]; intros st Hm Hr Hroot.
  all: destruct (sub_exited_dec S st) as [Hx | [pr [Hin Hl]]];
    [exists 0, st; repeat split; auto using steps_0; lia|].
  all: destruct (progress_rank_sub root root' N S st Hg Hincl Hexit Hjc (phi_reachable root N st Hg Hr) Hroot
                  (Datatypes.S (p_rank (pr_id pr))) pr (Nat.lt_succ_diag_r _) Hin Hl) as [st' [Hs Hlt]].
  - lia.
  - destruct (IH st') as [k [st'' [Hk [Hle [Hx Hr']]]]].
    + lia.
    + eapply reach_step; eauto.
    + eapply step_fl_mono; eauto.
    + exists (Datatypes.S k), st''. repeat split; auto.
      * eapply steps_S; eauto.
      * lia.
Qed.
