(* RouterMust.v — C07: the positive half of the delivery property.  A
   subscription that is established and left alone while a publication runs
   gets its copy (or the copy is dropped on a full queue), under every
   schedule. *)
From Moc Require Import Base Match Router RouterLemmas RouterFrame RouterTrans RouterData.
From Moc.Gen Require Import GenRouter.
Open Scope Z_scope.

(** instructions that do not touch the subscription [sub] of the connection
    that executes them *)
Definition quiet_instr (sub : str) (i : instr) : bool :=
  match i with
  | IRegAdd | IUnsubAll => false
  | ISubAdd s _ | ISubDel s => negb (str_eqb sub s)
  | _ => true
  end.

Definition quiet0 (s : rstate) (c' : conn) (sub : str) : Prop :=
  Forall (fun i => quiet_instr sub i = true) (c_pc (r_cs s c')) /\ c_dead (r_cs s c') = false.

(** ... and the session's context has not been cancelled *)
Definition quiet (s : rstate) (c' : conn) (sub : str) : Prop :=
  quiet0 s c' sub /\ ~ In c' (r_cancel s).

Definition established0 (s : rstate) (c' : conn) (sub : str) (fs : list rfilter) : Prop :=
  sub_of s c' sub = Some fs /\ quiet0 s c' sub.

(** the subscription is registered and nothing pending will change it *)
Definition established (s : rstate) (c' : conn) (sub : str) (fs : list rfilter) : Prop :=
  sub_of s c' sub = Some fs /\ quiet s c' sub.

Definition tag_free (t : ptag) (i : instr) : bool :=
  match i with
  | IPub _ t' _ | IVisit _ t' _ _ => negb (ptag_eqb t t')
  | _ => true
  end.

(** publication (c, n) is over: begun, and no part of it is left in c's program *)
Definition pub_done (s : rstate) (c : conn) (n : nat) : Prop :=
  (n < c_ctr (r_cs s c))%nat /\ Forall (fun i => tag_free (c, n) i = true) (c_pc (r_cs s c)).

Lemma ptag_eqb_refl t : ptag_eqb t t = true.
Proof. unfold ptag_eqb. now rewrite !Nat.eqb_refl. Qed.

Lemma ptag_eqb_eq a b : ptag_eqb a b = true <-> a = b.
Proof.
  unfold ptag_eqb. destruct a, b; simpl. rewrite andb_true_iff, !Nat.eqb_eq.
  split; [intros [-> ->]; reflexivity | intro E; inversion E; auto].
Qed.

Lemma quiet_program s c' sub o fs :
  sub_of s c' sub = Some fs -> ends_sub c' sub (LOp c' o) = false ->
  Forall (fun i => quiet_instr sub i = true) (program s c' o).
Proof.
  intros Hsub He. unfold sub_of in Hsub.
  destruct (reg_get c' (r_reg s)) as [m|] eqn:Hg; [|discriminate].
  destruct o as [sub2 fs2|sub2|sub2|e|]; cbn [program ends_sub] in *; rewrite ?Hg.
  - rewrite Nat.eqb_refl in He. cbn in He. repeat constructor. cbn. now rewrite He.
  - rewrite Nat.eqb_refl in He. cbn in He. repeat constructor. cbn. now rewrite He.
  - repeat constructor.
  - repeat constructor.
  - rewrite Nat.eqb_refl in He. discriminate.
Qed.

Lemma sub_of_mk b reg p k cs x sub :
  sub_of (mkR b reg p k cs) x sub = match reg_get x reg with Some m => assoc sub m | None => None end.
Proof. reflexivity. Qed.

Lemma sub_of_with_cs s cs x sub : sub_of (with_cs s cs) x sub = sub_of s x sub.
Proof. reflexivity. Qed.

Lemma sub_of_start_visit s c c1 ord e t rem rest x sub :
  sub_of (start_visit s c c1 ord e t rem rest) x sub = sub_of s x sub.
Proof. reflexivity. Qed.

Lemma sub_of_reg_get s x sub fs : sub_of s x sub = Some fs -> exists m, reg_get x (r_reg s) = Some m /\ assoc sub m = Some fs.
Proof. unfold sub_of. destruct (reg_get x (r_reg s)) as [m|]; [eauto | discriminate]. Qed.

Ltac inv_quiet_head H :=
  match type of H with
  | Forall _ (_ :: _) => let h := fresh "Hq1" in let t := fresh "Hq2" in inversion H as [|? ? h t]; subst; cbn in h
  end.

(** [established] is kept by every transition that is not the client's own
    CLOSE / re-REQ of that id / end of session *)
Ltac own_or_other c x Hpc Hq :=
  destruct (Nat.eq_dec c x) as [->|?];
  [ rewrite upd_same; cbn; rewrite Hpc in Hq; inv_quiet_head Hq
  | rewrite upd_other by auto ].

Lemma established0_trans s l s' x sub fs :
  established0 s x sub fs -> ~ In x (r_cancel s) -> ends_sub x sub l = false -> trans s l s' -> established0 s' x sub fs.
Proof.
  intros [Hsub [Hq Hd]] Hnc He T. unfold established0, quiet0.
  destruct (sub_of_reg_get _ _ _ _ Hsub) as [m0 [Hg0 Ha0]].
  inversion T; subst; cbn [r_cs r_reg with_cs].
  - (* op *)
    rewrite sub_of_with_cs. split; [assumption|].
    destruct (Nat.eq_dec c x) as [->|N].
    + rewrite upd_same. cbn. split; [eapply quiet_program; eauto|].
      destruct o; try reflexivity. cbn in He. rewrite Nat.eqb_refl in He. discriminate.
    + rewrite upd_other by auto. split; assumption.
  - (* regadd *)
    destruct (Nat.eq_dec c x) as [->|N].
    + rewrite H in Hq. inv_quiet_head Hq. discriminate.
    + rewrite sub_of_mk, reg_get_set_other by auto. rewrite upd_other by auto.
      unfold sub_of in Hsub. split; [assumption | split; assumption].
  - (* subadd *)
    destruct (Nat.eq_dec c x) as [->|N].
    + rewrite H in Hq. inv_quiet_head Hq. apply negb_true_iff, str_eqb_neq in Hq1.
      rewrite sub_of_mk, reg_get_set_same, upd_same. cbn.
      rewrite H1 in Hg0. inversion Hg0; subst m0.
      rewrite assoc_sm_set_other by assumption. split; [assumption | split; assumption].
    + rewrite sub_of_mk, reg_get_set_other by auto. rewrite upd_other by auto.
      unfold sub_of in Hsub. split; [assumption | split; assumption].
  - (* subadd_none *)
    rewrite sub_of_with_cs. split; [assumption|].
    own_or_other c x H Hq; split; assumption.
  - (* subdel *)
    destruct (Nat.eq_dec c x) as [->|N].
    + rewrite H in Hq. inv_quiet_head Hq. apply negb_true_iff, str_eqb_neq in Hq1.
      rewrite sub_of_mk, reg_get_set_same, upd_same. cbn.
      rewrite H1 in Hg0. inversion Hg0; subst m0.
      rewrite assoc_sm_del_other by assumption. split; [assumption | split; assumption].
    + rewrite sub_of_mk, reg_get_set_other by auto. rewrite upd_other by auto.
      unfold sub_of in Hsub. split; [assumption | split; assumption].
  - (* subdel_none *)
    rewrite sub_of_with_cs. split; [assumption|].
    own_or_other c x H Hq; split; assumption.
  - (* reply *)
    rewrite sub_of_with_cs. split; [assumption|].
    own_or_other c x H Hq; split; assumption.
  - (* pubbegin *)
    rewrite sub_of_mk. unfold sub_of in Hsub. split; [assumption|].
    own_or_other c x H Hq; split; try assumption.
    constructor; [reflexivity | assumption].
  - (* pubend *)
    rewrite sub_of_mk. unfold sub_of in Hsub. split; [assumption|].
    own_or_other c x H Hq; split; assumption.
  - (* visit *)
    rewrite sub_of_start_visit. split; [assumption|].
    unfold start_visit. cbn [r_cs with_cs].
    rewrite (pc_upd2 _ _ _ _ (fun st => set_rd st (c :: c_rd st))) by (intro; reflexivity).
    rewrite (dead_upd2 _ _ _ _ (fun st => set_rd st (c :: c_rd st))) by (intro; reflexivity).
    own_or_other c x H Hq; split; try assumption.
    constructor; [reflexivity|]. constructor; [reflexivity | assumption].
  - (* visitend *)
    rewrite sub_of_with_cs. split; [assumption|].
    rewrite (pc_upd2 _ _ _ _ (fun st => set_rd st (remove_conn c (c_rd st)))) by (intro; reflexivity).
    rewrite (dead_upd2 _ _ _ _ (fun st => set_rd st (remove_conn c (c_rd st)))) by (intro; reflexivity).
    own_or_other c x H Hq; split; assumption.
  - (* send *)
    rewrite sub_of_with_cs. split; [assumption|].
    rewrite (pc_upd2 _ _ _ _ (send_if_match (r_buf s) e t sub0 fs0)) by (intro; apply ctl_send_if_match).
    rewrite (dead_upd2 _ _ _ _ (send_if_match (r_buf s) e t sub0 fs0)) by (intro; apply ctl_send_if_match).
    own_or_other c x H Hq; split; try assumption.
    constructor; [reflexivity | assumption].
  - (* unsuball *)
    destruct (Nat.eq_dec c x) as [->|N].
    + rewrite H in Hq. inv_quiet_head Hq. discriminate.
    + rewrite sub_of_mk, reg_get_del_other by auto. rewrite upd_other by auto.
      unfold sub_of in Hsub. split; [assumption | split; assumption].
  - (* take *)
    rewrite sub_of_with_cs. split; [assumption|].
    destruct (Nat.eq_dec c x) as [->|N].
    + rewrite upd_same. cbn. split; assumption.
    + rewrite upd_other by auto. split; assumption.
  - (* deliver *)
    rewrite sub_of_with_cs. split; [assumption|].
    destruct (Nat.eq_dec c x) as [->|N].
    + rewrite upd_same. cbn. split; assumption.
    + rewrite upd_other by auto. split; assumption.
  - (* cancel *)
    rewrite sub_of_mk. unfold sub_of in Hsub. split; [assumption | split; assumption].
  - (* skip *)
    rewrite sub_of_with_cs. split; [assumption|].
    destruct (Nat.eq_dec c x) as [->|N]; [contradiction|]. rewrite upd_other by auto. split; assumption.
  - (* defer *)
    rewrite sub_of_mk. unfold sub_of in Hsub. split; [assumption|].
    destruct (Nat.eq_dec c x) as [->|N]; [contradiction|]. rewrite upd_other by auto. split; assumption.
Qed.

(** the cancelled sessions: a session is added by its own disconnect label only *)
Lemma cancel_trans s l s' x :
  trans s l s' -> ~ In x (r_cancel s) -> l <> LOp x ODisc -> ~ In x (r_cancel s').
Proof.
  intros T Hn Hl. inversion T; subst; cbn [r_cancel with_cs start_visit]; try assumption.
  - intros [->|H2]; [now apply Hl | contradiction].
  - intro H2. apply remove_conn_In in H2 as [_ H2]. contradiction.
Qed.

Lemma established_trans s l s' x sub fs :
  established s x sub fs -> ends_sub x sub l = false -> trans s l s' -> established s' x sub fs.
Proof.
  intros [Hsub [Hq Hnc]] He T.
  destruct (established0_trans s l s' x sub fs (conj Hsub Hq) Hnc He T) as [Hsub' Hq'].
  split; [assumption|]. split; [assumption|].
  eapply cancel_trans; try eassumption. intros ->. cbn in He. now rewrite Nat.eqb_refl in He.
Qed.

(* ------------------------------------------------------------------ *)
(** * Transitions of other connections leave the control part alone *)

Lemma trans_ctl_other s l s' x : trans s l s' -> label_of_conn x l = false -> ctl (r_cs s' x) = ctl (r_cs s x).
Proof.
  intros T Hl. inversion T; subst; cbn [r_cs with_cs]; cbn [label_of_conn] in Hl;
    try (apply Nat.eqb_neq in Hl).
  - now rewrite upd_other.
  - now rewrite upd_other.
  - now rewrite upd_other.
  - now rewrite upd_other.
  - now rewrite upd_other.
  - now rewrite upd_other.
  - now rewrite upd_other.
  - now rewrite upd_other.
  - now rewrite upd_other.
  - unfold start_visit. cbn [r_cs with_cs].
    rewrite (ctl_upd2 _ _ _ _ (fun st => set_rd st (c :: c_rd st))) by (intro; reflexivity).
    assert (N : x <> c).
    { destruct H1 as [->|[-> _]]; cbn in Hl; now apply Nat.eqb_neq in Hl. }
    now rewrite upd_other.
  - rewrite (ctl_upd2 _ _ _ _ (fun st => set_rd st (remove_conn c (c_rd st)))) by (intro; reflexivity).
    now rewrite upd_other.
  - rewrite (ctl_upd2 _ _ _ _ (send_if_match (r_buf s) e t sub fs)) by (intro; apply ctl_send_if_match).
    now rewrite upd_other.
  - now rewrite upd_other.
  - destruct (upd_cases (r_cs s) c (mkC (c_pc (r_cs s c)) q' (Some m) (c_out (r_cs s c)) (c_rd (r_cs s c)) (c_ctr (r_cs s c))
              (c_dead (r_cs s c)) (c_ops (r_cs s c)) (c_drops (r_cs s c))) x) as [[-> ->]|[_ ->]]; reflexivity.
  - destruct (upd_cases (r_cs s) c (mkC (c_pc (r_cs s c)) (c_q (r_cs s c)) None (c_out (r_cs s c) ++ [m]) (c_rd (r_cs s c)) (c_ctr (r_cs s c))
              (c_dead (r_cs s c)) (c_ops (r_cs s c)) (c_drops (r_cs s c))) x) as [[-> ->]|[_ ->]]; reflexivity.
  - reflexivity.
  - now rewrite upd_other.
  - now rewrite upd_other.
Qed.

(* ------------------------------------------------------------------ *)
(** * The copy is in the connection's flow or in its drop log *)

Definition got_st (st : cst) (sub : str) (e : event) (t : ptag) : Prop :=
  In (MEvent sub e t) (flow st) \/ In (sub, e, t) (c_drops st).

Lemma got_dchange s l x st st' sub e t :
  dchange s l x st st' -> (forall rest, c_pc st <> IUnsubAll :: rest) -> got_st st sub e t -> got_st st' sub e t.
Proof.
  intros D Hnu [G|G]; unfold got_st.
  - destruct D as [E|m Hl Hm Ho Hq Hh Hdr|c e0 t0 sub0 fs0 todo rest Hl Hpc E|rest Hl Hpc|m q' Hl Hh Hq Hq' Hh' Ho Hdr|m Hl Hh Hq Hh' Ho Hdr].
    + left. now rewrite (dat_flow _ _ E).
    + left. apply In_flow in G. apply In_flow. rewrite Ho, Hq, Hh, in_app_iff. tauto.
    + left. apply In_flow in G. apply In_flow. apply dat_eq in E as (E1 & E2 & E3 & E4).
      rewrite E1, E2, E3, send_if_match_hand, send_if_match_out.
      destruct (send_if_match_q (r_buf s) e0 t0 sub0 fs0 st) as [(_ & _ & Q & _)|[(_ & _ & Q & _)|(_ & Q)]]; rewrite Q;
        rewrite ?in_app_iff; tauto.
    + exfalso. eapply Hnu; eassumption.
    + left. apply In_flow in G. apply In_flow. rewrite Ho, Hq', Hh'. rewrite Hh, Hq in G.
      destruct G as [G|[G|[G|G]]]; [auto | discriminate | subst; auto | auto].
    + left. apply In_flow in G. apply In_flow. rewrite Ho, Hq, Hh', in_app_iff. rewrite Hh in G.
      destruct G as [G|[G|G]]; [auto | inversion G; subst; left; right; now left | auto].
  - right.
    destruct D as [E|m Hl Hm Ho Hq Hh Hdr|c e0 t0 sub0 fs0 todo rest Hl Hpc E|rest Hl Hpc Hq' Hh' Ho Hdr|m q' Hl Hh Hq Hq' Hh' Ho Hdr|m Hl Hh Hq Hh' Ho Hdr].
    + apply dat_eq in E as (_ & _ & _ & E4). now rewrite E4.
    + now rewrite Hdr.
    + apply dat_eq in E as (_ & _ & _ & E4). rewrite E4.
      destruct (send_if_match_q (r_buf s) e0 t0 sub0 fs0 st) as [(_ & _ & _ & Q)|[(_ & _ & _ & Q)|(_ & Q)]]; rewrite Q;
        rewrite ?in_app_iff; tauto.
    + now rewrite Hdr.
    + now rewrite Hdr.
    + now rewrite Hdr.
Qed.

Lemma quiet_no_unsuball s x sub : quiet s x sub -> forall rest, c_pc (r_cs s x) <> IUnsubAll :: rest.
Proof.
  intros [[Hq _] _] rest E. rewrite E in Hq. inversion Hq as [|? ? H1 _]; subst. discriminate.
Qed.

(* ------------------------------------------------------------------ *)
(** * Progress of a publication towards an established subscription *)

Definition progress (s : rstate) (p x : conn) (sub : str) (fs : list rfilter) (e : event) (n : nat) : Prop :=
  ((exists rest, c_pc (r_cs s p) = IPubBegin e :: rest) /\ c_ctr (r_cs s p) = n)
  \/ (exists pre rem rest, c_pc (r_cs s p) = pre ++ IPub e (p, n) rem :: rest /\ In x rem /\
        (pre = [] \/ exists e2 t2 c2 todo2, pre = [IVisit e2 t2 c2 todo2]))
  \/ (exists todo rest, c_pc (r_cs s p) = IVisit e (p, n) x todo :: rest /\ In (sub, fs) todo)
  \/ got_st (r_cs s x) sub e (p, n).

Lemma ctl_pc_ctr st st' : ctl st' = ctl st -> c_pc st' = c_pc st /\ c_ctr st' = c_ctr st.
Proof. unfold ctl. intro E. inversion E. auto. Qed.

Ltac kill_reply :=
  match goal with
  | H1 : c_pc ?a = ?i :: _, H2 : c_pc ?a = _ :: _, H3 : is_reply_instr ?i _ |- _ =>
      rewrite H2 in H1; inversion H1; subst; cbn in H3; contradiction
  end.

Lemma progress_trans s l s' p x sub fs e n :
  established s x sub fs -> sub_matches e fs = true ->
  progress s p x sub fs e n -> trans s l s' -> progress s' p x sub fs e n.
Proof.
  intros [Hsub Hquiet] Hm P T.
  destruct (sub_of_reg_get _ _ _ _ Hsub) as [m0 [Hg0 Ha0]].
  destruct P as [[[rest0 Hpc] Hctr]|[(pre & rem0 & rest0 & Hpc & Hin & Hpre)|[(todo0 & rest0 & Hpc & Hin)|G]]].
  - (* not yet begun *)
    destruct (label_of_conn p l) eqn:Hl.
    + inversion T; subst; cbn [label_of_conn] in Hl; try discriminate;
        try (apply Nat.eqb_eq in Hl; subst c); try congruence; try kill_reply.
      * (* pubbegin *) unfold progress; cbn [r_cs]. right; left. rewrite upd_same. cbn.
        rewrite Hpc in H. inversion H; subst e0 rest.
        exists [], (List.map fst (r_reg s)), rest0. cbn. split; [reflexivity|]. split; [|now left].
        eapply reg_get_In; eassumption.
      * (* visit: the head is IPubBegin, impossible *)
        destruct H1 as [->|[-> _]]; cbn in Hl; apply Nat.eqb_eq in Hl; subst c; congruence.
      * (* cancel *) left. cbn [r_cs]. eauto.
    + left. destruct (ctl_pc_ctr _ _ (trans_ctl_other _ _ _ p T Hl)) as [E1 E2]. rewrite E1, E2. eauto.
  - (* inside the outer loop, x not yet visited *)
    destruct (label_of_conn p l) eqn:Hl.
    + destruct Hpre as [->|(e2 & t2 & c2 & todo2 & ->)]; cbn [app] in Hpc.
      * inversion T; subst; cbn [label_of_conn] in Hl; try discriminate;
          try (apply Nat.eqb_eq in Hl; subst c); try congruence; try kill_reply.
        -- (* pubend: rem = [] *) rewrite Hpc in H. inversion H; subst. contradiction.
        -- (* visit *)
           assert (c = p) by (destruct H1 as [->|[-> _]]; cbn in Hl; apply Nat.eqb_eq in Hl; auto). subst c.
           rewrite Hpc in H. inversion H; subst e0 t rem rest.
           unfold progress, start_visit. cbn [r_cs with_cs].
           destruct (Nat.eq_dec c' x) as [->|N].
           ++ right; right; left.
              rewrite (pc_upd2 _ _ _ _ (fun st => set_rd st (p :: c_rd st))) by (intro; reflexivity).
              rewrite upd_same. cbn. rewrite Hg0. eexists _, _. split; [reflexivity|].
              now apply reorder_In_assoc.
           ++ right; left.
              rewrite (pc_upd2 _ _ _ _ (fun st => set_rd st (p :: c_rd st))) by (intro; reflexivity).
              rewrite upd_same. cbn.
              exists [IVisit e (p, n) c' (reorder ord match reg_get c' (r_reg s) with Some m => m | None => [] end)],
                     (remove_conn c' rem0), rest0.
              split; [reflexivity|]. split; [apply remove_conn_In; auto | right; eauto].
        -- (* cancel *) right; left. cbn [r_cs]. exists [], rem0, rest0. auto.
      * inversion T; subst; cbn [label_of_conn] in Hl; try discriminate;
          try (apply Nat.eqb_eq in Hl; subst c); try congruence; try kill_reply.
        -- (* visit: head is IVisit, impossible *)
           assert (c = p) by (destruct H1 as [->|[-> _]]; cbn in Hl; apply Nat.eqb_eq in Hl; auto). subst c. congruence.
        -- (* visitend *)
           unfold progress; cbn [r_cs with_cs]. right; left. rewrite Hpc in H. inversion H; subst.
           rewrite (pc_upd2 _ _ _ _ (fun st => set_rd st (remove_conn p (c_rd st)))) by (intro; reflexivity).
           rewrite upd_same. cbn. exists [], rem0, rest0. cbn. auto.
        -- (* send *)
           unfold progress; cbn [r_cs with_cs]. right; left. rewrite Hpc in H. inversion H; subst.
           rewrite (pc_upd2 _ _ _ _ (send_if_match (r_buf s) e0 t sub0 fs0)) by (intro; apply ctl_send_if_match).
           rewrite upd_same. cbn. exists [IVisit e0 t c' todo], rem0, rest0. cbn. split; [reflexivity|]. split; [assumption|].
           right; eauto.
        -- (* cancel *) right; left. cbn [r_cs]. exists [IVisit e2 t2 c2 todo2], rem0, rest0. split; [assumption|]. split; [assumption|]. right; eauto.
    + right; left. destruct (ctl_pc_ctr _ _ (trans_ctl_other _ _ _ p T Hl)) as [E1 E2]. rewrite E1. eauto 8.
  - (* inside the visit of x *)
    destruct (label_of_conn p l) eqn:Hl.
    + inversion T; subst; cbn [label_of_conn] in Hl; try discriminate;
        try (apply Nat.eqb_eq in Hl; subst c); try congruence; try kill_reply.
      * assert (c = p) by (destruct H1 as [->|[-> _]]; cbn in Hl; apply Nat.eqb_eq in Hl; auto). subst c. congruence.
      * (* visitend: todo = [] *) rewrite Hpc in H. inversion H; subst. contradiction.
      * (* send *)
        rewrite Hpc in H. inversion H; subst e0 t c' todo0 rest. destruct Hin as [E|Hin].
        -- inversion E; subst sub0 fs0. unfold progress; cbn [r_cs with_cs]. right; right; right. rewrite upd_same.
           unfold got_st.
           match goal with |- context [send_if_match ?b ?e ?t ?sb ?f ?st] =>
             destruct (send_if_match_q b e t sb f st) as [(_ & _ & Q & _)|[(_ & _ & _ & Q)|(Q & _)]] end.
           ++ left. apply In_flow. right; right. rewrite Q. apply in_app_iff. right. now left.
           ++ right. rewrite Q. apply in_app_iff. right. now left.
           ++ congruence.
        -- unfold progress; cbn [r_cs with_cs]. right; right; left.
           rewrite (pc_upd2 _ _ _ _ (send_if_match (r_buf s) e (p, n) sub0 fs0)) by (intro; apply ctl_send_if_match).
           rewrite upd_same. cbn. eauto.
      * (* cancel *) right; right; left. cbn [r_cs]. eauto.
    + right; right; left. destruct (ctl_pc_ctr _ _ (trans_ctl_other _ _ _ p T Hl)) as [E1 E2]. rewrite E1. eauto.
  - right; right; right.
    eapply got_dchange; [apply dat_trans; eassumption | eapply quiet_no_unsuball; eassumption | assumption].
Qed.

(* ------------------------------------------------------------------ *)
(** * MUST deliver *)

Lemma pub_done_progress s p x sub fs e n :
  pub_done s p n -> progress s p x sub fs e n -> got_st (r_cs s x) sub e (p, n).
Proof.
  intros [Hlt Hfree] [[_ Hc]|[(pre & rem & rest & Hpc & _ & _)|[(todo & rest & Hpc & _)|G]]]; [lia | | | assumption].
  - rewrite Hpc in Hfree. apply Forall_app in Hfree as [_ Hf]. inversion Hf as [|? ? H1 _]; subst.
    cbn in H1. now rewrite ptag_eqb_refl in H1.
  - rewrite Hpc in Hfree. inversion Hfree as [|? ? H1 _]; subst.
    cbn in H1. now rewrite ptag_eqb_refl in H1.
Qed.

Theorem deliver_must s tr p x sub fs e n :
  established s x sub fs ->
  (exists rest, c_pc (r_cs s p) = IPubBegin e :: rest) -> c_ctr (r_cs s p) = n ->
  Forall (fun l => ends_sub x sub l = false) tr ->
  sub_matches e fs = true ->
  pub_done (run s tr) p n ->
  got_st (r_cs (run s tr) x) sub e (p, n).
Proof.
  intros Hest Hpc Hctr Htr Hm Hdone.
  assert (P : established (run s tr) x sub fs /\ progress (run s tr) p x sub fs e n).
  { apply (run_ind' (fun s => established s x sub fs /\ progress s p x sub fs e n)
                    (fun l => negb (ends_sub x sub l))).
    - intros s0 l s1 [E P] Hl T. apply negb_true_iff in Hl. split.
      + eapply established_trans; eassumption.
      + eapply progress_trans; eassumption.
    - split; [assumption | left; auto].
    - eapply Forall_impl; [|exact Htr]. cbn. intros l H. now rewrite H. }
  destruct P as [_ P]. eapply pub_done_progress; eassumption.
Qed.

(** the subscription itself survives, so the statement composes over
    consecutive publications *)
Theorem established_run s tr x sub fs :
  established s x sub fs -> Forall (fun l => ends_sub x sub l = false) tr -> established (run s tr) x sub fs.
Proof.
  intros Hest Htr.
  apply (run_ind' (fun s => established s x sub fs) (fun l => negb (ends_sub x sub l))); [| assumption |].
  - intros s0 l s1 E Hl T. apply negb_true_iff in Hl. eapply established_trans; eassumption.
  - eapply Forall_impl; [|exact Htr]. cbn. intros l H. now rewrite H.
Qed.

(* ------------------------------------------------------------------ *)
(** * A client that reads gets everything that is in its flow *)

Lemma step_take s x m q' :
  c_dead (r_cs s x) = false -> c_hand (r_cs s x) = None -> c_q (r_cs s x) = m :: q' ->
  let s' := step s (LTake x) in
  c_dead (r_cs s' x) = false /\ c_hand (r_cs s' x) = Some m /\ c_q (r_cs s' x) = q' /\ c_out (r_cs s' x) = c_out (r_cs s x).
Proof.
  intros Hd Hh Hq. unfold step. cbn [enabled step_enabled]. rewrite Hd, Hh, Hq. cbn [r_cs with_cs].
  rewrite upd_same. cbn. auto.
Qed.

Lemma step_deliver s x m :
  c_dead (r_cs s x) = false -> c_hand (r_cs s x) = Some m ->
  let s' := step s (LDeliver x) in
  c_dead (r_cs s' x) = false /\ c_hand (r_cs s' x) = None /\ c_q (r_cs s' x) = c_q (r_cs s x) /\
  c_out (r_cs s' x) = c_out (r_cs s x) ++ [m].
Proof.
  intros Hd Hh. unfold step. cbn [enabled step_enabled]. rewrite Hd, Hh. cbn [r_cs with_cs].
  rewrite upd_same. cbn. auto.
Qed.

Definition reader_label (x : conn) (l : label) : Prop := l = LTake x \/ l = LDeliver x.

Lemma drain_queue x : forall q s,
  c_dead (r_cs s x) = false -> c_hand (r_cs s x) = None -> c_q (r_cs s x) = q ->
  exists tr, Forall (reader_label x) tr /\ c_out (r_cs (run s tr) x) = c_out (r_cs s x) ++ q /\
             c_q (r_cs (run s tr) x) = [] /\ c_hand (r_cs (run s tr) x) = None.
Proof.
  induction q as [|m q IH]; intros s Hd Hh Hq.
  - exists []. cbn. rewrite app_nil_r. auto.
  - destruct (step_take s x m q Hd Hh Hq) as (Hd1 & Hh1 & Hq1 & Ho1).
    destruct (step_deliver _ x m Hd1 Hh1) as (Hd2 & Hh2 & Hq2 & Ho2).
    destruct (IH (step (step s (LTake x)) (LDeliver x)) Hd2 Hh2 (eq_trans Hq2 Hq1)) as (tr & Ftr & Eo & Eq & Eh).
    exists (LTake x :: LDeliver x :: tr). split; [|rewrite !run_cons; split; [|auto]].
    + constructor; [now left|]. constructor; [now right | assumption].
    + rewrite Eo, Ho2, Ho1, <- app_assoc. reflexivity.
Qed.

Theorem drain s x :
  c_dead (r_cs s x) = false ->
  exists tr, Forall (reader_label x) tr /\ c_out (r_cs (run s tr) x) = flow (r_cs s x).
Proof.
  intro Hd. unfold flow, hand_list. destruct (c_hand (r_cs s x)) as [m|] eqn:Hh.
  - destruct (step_deliver s x m Hd Hh) as (Hd2 & Hh2 & Hq2 & Ho2).
    destruct (drain_queue x _ _ Hd2 Hh2 eq_refl) as (tr & Ftr & Eo & _).
    exists (LDeliver x :: tr). split; [constructor; [now right | assumption]|].
    rewrite run_cons, Eo, Ho2, Hq2, <- app_assoc. reflexivity.
  - destruct (drain_queue x _ _ Hd Hh eq_refl) as (tr & Ftr & Eo & _).
    exists tr. split; [assumption|]. now rewrite Eo.
Qed.
