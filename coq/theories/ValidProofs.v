(* ValidProofs.v — C11: proofs about the admission model of Valid.v that hold
   on every tree (before and after the repairs of validKind and validNaddr).

   Main result: [valid_char] — ValidClientMsg decides exactly the NIP-01
   constraint list *instantiated with the code's own kind guard and address
   validator*.  What those two are on the current tree is settled in
   ValidRefuted.v (defective: refutations and partial theorems) resp.
   ValidProofsFixed.v (repaired: the full theorems).

   Layout: (1) one characterising lemma per generated guard; (2) UTF-8 range
   loop and hex strings; (3) tags, events, filters, messages; (4) numerals,
   split, addresses; (5) reflection of the declarative address predicate. *)
From Moc Require Import Base Json CodecMsg Codec CodecProofs Valid.
From Moc.Gen Require Import GenMsg GenCodec.
Open Scope Z_scope.

(* ================================================================== *)
(** * 1. Generated guards *)

Lemma g_valid_id_spec len hex : g_valid_id len hex = (len =? 64) && hex.
Proof. reflexivity. Qed.
Lemma g_valid_pubkey_spec len hex : g_valid_pubkey len hex = (len =? 64) && hex.
Proof. reflexivity. Qed.
Lemma g_valid_sig_spec len hex : g_valid_sig len hex = (len =? 128) && hex.
Proof. reflexivity. Qed.
Lemma g_valid_tag_spec len first : g_valid_tag len first = (len >=? 1) && negb (str_eqb first []).
Proof. reflexivity. Qed.
Lemma g_hex_char_bad_spec r :
  g_hex_char_bad r = negb ((48 <=? r) && (r <=? 57) || (97 <=? r) && (r <=? 102)).
Proof. reflexivity. Qed.
Lemma g_hex_empty_spec len : g_hex_empty len = (len =? 0).
Proof. reflexivity. Qed.
Lemma g_event_valid_spec a b c d e f g :
  g_event_valid a b c d e f g = a && b && c && d && e && f && g.
Proof. reflexivity. Qed.
Lemma g_cevent_valid_spec a b : g_cevent_valid a b = a && b.
Proof. reflexivity. Qed.
Lemma g_cauth_valid_spec a b : g_cauth_valid a b = a && b.
Proof. reflexivity. Qed.
Lemma g_cclose_valid_spec a : g_cclose_valid a = a.
Proof. reflexivity. Qed.
Lemma g_creq_nofilters_spec n : g_creq_nofilters n = (n =? 0).
Proof. reflexivity. Qed.
Lemma g_ccount_nofilters_spec n : g_ccount_nofilters n = (n =? 0).
Proof. reflexivity. Qed.
Lemma g_filter_tagname_bad_spec len t0 :
  g_filter_tagname_bad len t0 =
  negb (len =? 1) || negb ((65 <=? t0) && (t0 <=? 90) || (97 <=? t0) && (t0 <=? 122)).
Proof. reflexivity. Qed.
Lemma g_filter_since_neg_spec s : g_filter_since_neg s = (s <? 0).
Proof. reflexivity. Qed.
Lemma g_filter_until_neg_spec s : g_filter_until_neg s = (s <? 0).
Proof. reflexivity. Qed.
Lemma g_filter_limit_neg_spec s : g_filter_limit_neg s = (s <? 0).
Proof. reflexivity. Qed.
Lemma g_filter_window_checked_spec a b : g_filter_window_checked a b = a && b.
Proof. reflexivity. Qed.
Lemma g_filter_window_bad_spec s u : g_filter_window_bad s u = (s >? u).
Proof. reflexivity. Qed.
Lemma g_naddr_arity_bad_spec n : g_naddr_arity_bad n = negb (n =? 3).
Proof. reflexivity. Qed.
Lemma g_naddr_sep_spec : g_naddr_sep = colon.
Proof. reflexivity. Qed.

Lemma bool_ext (a b : bool) : (a = true <-> b = true) -> a = b.
Proof. destruct a, b; intros [H1 H2]; auto; symmetry; auto. Qed.

Lemma zlen_eqb_nat {A} (l : list A) (n : nat) : (zlen l =? Z.of_nat n) = Nat.eqb (length l) n.
Proof.
  unfold zlen. apply bool_ext. rewrite Z.eqb_eq, Nat.eqb_eq. lia.
Qed.

(* ================================================================== *)
(** * 2. [for _, r := range s] and lowercase hex *)

Lemma cont_byte_spec b : cont_byte b = true -> 128 <= Z.of_N b <= 191.
Proof. unfold cont_byte. rewrite andb_true_iff, !N.leb_le. lia. Qed.

(** an ASCII byte is its own rune; any other lead byte yields a rune >= 128 *)
Lemma decode1_ascii b0 rest : (b0 < 128)%N -> decode1 b0 rest = (Z.of_N b0, 1%nat).
Proof. intro H. unfold decode1. apply N.ltb_lt in H. now rewrite H. Qed.

Lemma decode1_high b0 rest : (128 <= b0)%N -> 128 <= fst (decode1 b0 rest).
Proof.
  intro H. unfold decode1, rune_error.
  destruct (b0 <? 128)%N eqn:E0; [apply N.ltb_lt in E0; lia|].
  destruct ((194 <=? b0) && (b0 <=? 223))%N eqn:E1.
  { apply andb_true_iff in E1 as [E1 E1']. apply N.leb_le in E1, E1'.
    destruct rest as [|b1 rest]; simpl; [lia|].
    destruct (cont_byte b1) eqn:C1; simpl; [|lia]. apply cont_byte_spec in C1. lia. }
  destruct ((224 <=? b0) && (b0 <=? 239))%N eqn:E2.
  { apply andb_true_iff in E2 as [E2 E2']. apply N.leb_le in E2, E2'.
    destruct rest as [|b1 [|b2 rest]]; simpl; try lia.
    match goal with |- 128 <= fst (if ?c then _ else _) => destruct c eqn:C end; simpl; [|lia].
    apply andb_true_iff in C as [C C2]. apply andb_true_iff in C as [Clo Chi].
    apply cont_byte_spec in C2. apply N.leb_le in Clo, Chi.
    destruct (b0 =? 224)%N eqn:E224.
    - apply N.eqb_eq in E224. subst. lia.
    - apply N.eqb_neq in E224. lia. }
  destruct ((240 <=? b0) && (b0 <=? 244))%N eqn:E3.
  { apply andb_true_iff in E3 as [E3 E3']. apply N.leb_le in E3, E3'.
    destruct rest as [|b1 [|b2 [|b3 rest]]]; simpl; try lia.
    match goal with |- 128 <= fst (if ?c then _ else _) => destruct c eqn:C end; simpl; [|lia].
    apply andb_true_iff in C as [C C3]. apply andb_true_iff in C as [C C2].
    apply andb_true_iff in C as [Clo Chi].
    apply cont_byte_spec in C2. apply cont_byte_spec in C3. apply N.leb_le in Clo, Chi.
    destruct (b0 =? 240)%N eqn:E240.
    - apply N.eqb_eq in E240. subst. lia.
    - apply N.eqb_neq in E240. lia. }
  simpl. lia.
Qed.

Definition asciib (s : str) : bool := forallb (fun b => (b <? 128)%N) s.

Lemma runes_ascii s : asciib s = true -> runes s = List.map Z.of_N s.
Proof.
  unfold runes. induction s as [|b s IH]; simpl; [reflexivity|].
  intro H. apply andb_true_iff in H as [Hb Hs]. apply N.ltb_lt in Hb.
  rewrite (decode1_ascii b s Hb). simpl. now rewrite IH.
Qed.

Lemma runes_high s : asciib s = false -> exists r, In r (runes s) /\ 128 <= r.
Proof.
  unfold runes. induction s as [|b s IH]; simpl; [discriminate|].
  destruct (b <? 128)%N eqn:Hb; simpl.
  - intro Hs. apply N.ltb_lt in Hb. rewrite (decode1_ascii b s Hb). simpl.
    destruct (IH Hs) as [r [Hin Hr]]. exists r. split; [now right | assumption].
  - intros _. apply N.ltb_ge in Hb. exists (fst (decode1 b s)). split; [now left|].
    now apply decode1_high.
Qed.

Lemma lower_hex_char_Z c : lower_hex_char c = negb (g_hex_char_bad (Z.of_N c)).
Proof.
  rewrite g_hex_char_bad_spec, negb_involutive. unfold lower_hex_char. now rewrite !N_leb_Z.
Qed.

Lemma lower_hex_ascii s : forallb lower_hex_char s = true -> asciib s = true.
Proof.
  unfold asciib. induction s as [|c s IH]; simpl; [reflexivity|].
  intro H. apply andb_true_iff in H as [Hc Hs]. rewrite IH by assumption. rewrite andb_true_r.
  unfold lower_hex_char in Hc. apply N.ltb_lt.
  apply orb_true_iff in Hc as [Hc|Hc]; apply andb_true_iff in Hc as [H1 H2]; apply N.leb_le in H1, H2; lia.
Qed.

(** validHexString: non-empty and every byte a lowercase hex digit *)
Theorem valid_hex_spec s :
  valid_hex s = negb (Nat.eqb (length s) 0) && forallb lower_hex_char s.
Proof.
  unfold valid_hex. rewrite g_hex_empty_spec.
  change 0 with (Z.of_nat 0). rewrite zlen_eqb_nat.
  destruct (Nat.eqb (length s) 0); [reflexivity|]. simpl.
  destruct (asciib s) eqn:Ha.
  - rewrite (runes_ascii s Ha). clear Ha. induction s as [|c s IH]; simpl; [reflexivity|].
    rewrite lower_hex_char_Z. destruct (g_hex_char_bad (Z.of_N c)); simpl; [reflexivity|]. exact IH.
  - destruct (runes_high s Ha) as [r [Hin Hr]].
    assert (Hb : existsb g_hex_char_bad (runes s) = true).
    { apply existsb_exists. exists r. split; [assumption|].
      rewrite g_hex_char_bad_spec. apply negb_true_iff. apply orb_false_iff.
      split; apply andb_false_iff; right; apply Z.leb_gt; lia. }
    rewrite Hb. simpl. symmetry.
    destruct (forallb lower_hex_char s) eqn:Hh; [|reflexivity].
    apply lower_hex_ascii in Hh. congruence.
Qed.

Lemma hex_len_nonempty (n : nat) (s : str) : (0 < n)%nat -> Nat.eqb (length s) n = true -> Nat.eqb (length s) 0 = false.
Proof. intros Hn H. apply Nat.eqb_eq in H. apply Nat.eqb_neq. lia. Qed.

Lemma len_hex_is_hexb (n : nat) (s : str) :
  (0 < n)%nat -> (zlen s =? Z.of_nat n) && valid_hex s = hexb n s.
Proof.
  intro Hn. rewrite zlen_eqb_nat, valid_hex_spec. unfold hexb.
  destruct (Nat.eqb (length s) n) eqn:E; [|reflexivity]. simpl.
  now rewrite (hex_len_nonempty n s Hn E).
Qed.

Theorem valid_id_spec s : valid_id s = hexb 64 s.
Proof. unfold valid_id. rewrite g_valid_id_spec. apply (len_hex_is_hexb 64). lia. Qed.
Theorem valid_pubkey_spec s : valid_pubkey s = hexb 64 s.
Proof. unfold valid_pubkey. rewrite g_valid_pubkey_spec. apply (len_hex_is_hexb 64). lia. Qed.
Theorem valid_sig_spec s : valid_sig s = hexb 128 s.
Proof. unfold valid_sig. rewrite g_valid_sig_spec. apply (len_hex_is_hexb 128). lia. Qed.

Lemma hexb_lower_hex n s : hexb n s = true <-> lower_hex n s.
Proof.
  unfold hexb, lower_hex. rewrite andb_true_iff, Nat.eqb_eq, forallb_forall, Forall_forall. reflexivity.
Qed.

(* ================================================================== *)
(** * 3. Tags, events, filters, messages *)

Theorem valid_tag_spec t : valid_tag t = tag_okb t.
Proof.
  unfold valid_tag, tag_okb. rewrite g_valid_tag_spec.
  destruct t as [[|n l]|]; try reflexivity.
  unfold zlen. simpl length. simpl hd.
  replace (Z.of_nat (S (length l)) >=? 1) with true by (symmetry; apply Z.geb_le; lia).
  simpl. destruct n; reflexivity.
Qed.

Lemma forallb_ext_eq {A} (f g : A -> bool) l : (forall x, f x = g x) -> forallb f l = forallb g l.
Proof. intro H. induction l as [|x l IH]; simpl; [reflexivity|]. now rewrite H, IH. Qed.

Theorem valid_event_spec e : valid_event_ptr e = event_okb g_valid_kind e.
Proof.
  unfold valid_event_ptr, event_okb. destruct e as [e|]; [|reflexivity].
  rewrite g_event_valid_spec, valid_id_spec, valid_pubkey_spec, valid_sig_spec. unfold valid_kind.
  destruct (ge_tags e) as [l|]; simpl.
  - rewrite (forallb_ext_eq valid_tag tag_okb l valid_tag_spec).
    destruct (hexb 64 (ge_id e)), (hexb 64 (ge_pk e)), (g_valid_kind (ge_kind e)); reflexivity.
  - destruct (hexb 64 (ge_id e)), (hexb 64 (ge_pk e)), (g_valid_kind (ge_kind e)); reflexivity.
Qed.

Lemma tagname_ok tag :
  negb (g_filter_tagname_bad (zlen tag) (byte_at 0 tag)) = match tag with [c] => is_letter c | _ => false end.
Proof.
  rewrite g_filter_tagname_bad_spec. unfold zlen, byte_at.
  destruct tag as [|c [|c' tag]].
  - reflexivity.
  - simpl. now rewrite is_letter_Z, negb_involutive.
  - replace (Z.of_nat (length (c :: c' :: tag)) =? 1) with false; [reflexivity|].
    symmetry. apply Z.eqb_neq. simpl length. lia.
Qed.

Theorem valid_tagcond_spec kv : valid_tagcond kv = tagcond_okb valid_naddr kv.
Proof.
  destruct kv as [tag vals]. unfold valid_tagcond, tagcond_okb. simpl fst. simpl snd.
  rewrite <- tagname_ok.
  destruct (g_filter_tagname_bad (zlen tag) (byte_at 0 tag)); [reflexivity|]. simpl.
  destruct vals as [vs|]; [|reflexivity].
  rewrite (forallb_ext_eq valid_id (hexb 64) vs valid_id_spec).
  rewrite (forallb_ext_eq valid_pubkey (hexb 64) vs valid_pubkey_spec). reflexivity.
Qed.

Lemma opt_all_ext {A} (p q : A -> bool) o : (forall x, p x = q x) -> opt_all p o = opt_all q o.
Proof. intro H. destruct o; simpl; auto. Qed.

Theorem valid_filter_spec f : valid_filter_ptr f = filter_okb g_valid_kind valid_naddr true f.
Proof.
  unfold valid_filter_ptr, filter_okb. destruct f as [f|]; [|reflexivity].
  rewrite (opt_all_ext _ (forallb (hexb 64)) (gf_ids f)
             (fun l => forallb_ext_eq valid_id (hexb 64) l valid_id_spec)).
  rewrite (opt_all_ext _ (forallb (hexb 64)) (gf_authors f)
             (fun l => forallb_ext_eq valid_pubkey (hexb 64) l valid_pubkey_spec)).
  rewrite (opt_all_ext _ (forallb (tagcond_okb valid_naddr)) (gf_tags f)
             (fun l => forallb_ext_eq valid_tagcond _ l valid_tagcond_spec)).
  assert (Hneg : forall z, negb (z <? 0) = nonnegb z).
  { intro z. unfold nonnegb. apply bool_ext. rewrite negb_true_iff, Z.ltb_ge, Z.leb_le. reflexivity. }
  rewrite (opt_all_ext (fun s => negb (g_filter_since_neg s)) nonnegb (gf_since f) Hneg).
  rewrite (opt_all_ext (fun s => negb (g_filter_until_neg s)) nonnegb (gf_until f) Hneg).
  rewrite (opt_all_ext (fun s => negb (g_filter_limit_neg s)) nonnegb (gf_limit f) Hneg).
  unfold g_filter_window_checked, valid_kind.
  assert (Hw : (if is_some (gf_since f) && is_some (gf_until f)
                then match gf_since f, gf_until f with
                     | Some s, Some u => negb (g_filter_window_bad s u)
                     | _, _ => true
                     end
                else true) =
               match gf_since f, gf_until f with Some s, Some u => s <=? u | _, _ => true end).
  { destruct (gf_since f) as [s|], (gf_until f) as [u|]; simpl; try reflexivity.
    rewrite g_filter_window_bad_spec. apply bool_ext.
    rewrite negb_true_iff, Z.leb_le, Z.gtb_ltb, Z.ltb_ge. reflexivity. }
  rewrite Hw. reflexivity.
Qed.

Lemma zlen_eqb_0 {A} (l : list A) : (zlen l =? 0) = Nat.eqb (length l) 0.
Proof. exact (zlen_eqb_nat l 0). Qed.

(** ** ValidClientMsg is the constraint list over the code's own kind guard
       and address validator *)
Theorem valid_char m : valid_client_msg m = cmsg_okb g_valid_kind valid_naddr true m.
Proof.
  destruct m as [e|sub fs|sub|e|sub fs]; unfold valid_client_msg, cmsg_okb.
  - rewrite g_cevent_valid_spec. simpl. apply valid_event_spec.
  - rewrite g_creq_nofilters_spec, zlen_eqb_0.
    rewrite (forallb_ext_eq valid_filter_ptr _ fs valid_filter_spec).
    destruct (Nat.eqb (length fs) 0); [reflexivity|]. simpl.
    now destruct (forallb _ fs).
  - now rewrite g_cclose_valid_spec.
  - rewrite g_cauth_valid_spec. simpl. apply valid_event_spec.
  - rewrite g_ccount_nofilters_spec, zlen_eqb_0.
    rewrite (forallb_ext_eq valid_filter_ptr _ fs valid_filter_spec).
    destruct (Nat.eqb (length fs) 0); [reflexivity|]. simpl.
    now destruct (forallb _ fs).
Qed.

(** ** the constraint list is monotone in its two parameters *)

Lemma forallb_impl {A} (p q : A -> bool) l :
  (forall x, p x = true -> q x = true) -> forallb p l = true -> forallb q l = true.
Proof.
  intro H. induction l as [|x l IH]; simpl; [reflexivity|].
  intro E. apply andb_true_iff in E as [E1 E2]. now rewrite (H x E1), IH.
Qed.

Lemma opt_all_impl {A} (p q : A -> bool) o :
  (forall x, p x = true -> q x = true) -> opt_all p o = true -> opt_all q o = true.
Proof. intro H. destruct o; simpl; auto. Qed.

Section Mono.
  Variables (kp kp' : Z -> bool) (ap ap' : str -> bool) (w w' : bool).
  Hypothesis Hk : forall k, kp k = true -> kp' k = true.
  Hypothesis Ha : forall s, ap s = true -> ap' s = true.
  Hypothesis Hw : w' = true -> w = true.

  Lemma event_okb_mono e : event_okb kp e = true -> event_okb kp' e = true.
  Proof.
    unfold event_okb. destruct e as [e|]; [|discriminate]. intro H.
    apply andb_true_iff in H as [H H5]. apply andb_true_iff in H as [H H4].
    apply andb_true_iff in H as [H H3]. apply andb_true_iff in H as [H1 H2].
    now rewrite H1, H2, (Hk _ H3), H4, H5.
  Qed.

  Lemma tagcond_okb_mono kv : tagcond_okb ap kv = true -> tagcond_okb ap' kv = true.
  Proof.
    unfold tagcond_okb. intro H. apply andb_true_iff in H as [H1 H2]. rewrite H1. simpl.
    destruct (snd kv) as [vs|]; [|discriminate].
    destruct (str_eqb (fst kv) tn_e); [assumption|].
    destruct (str_eqb (fst kv) tn_p); [assumption|].
    destruct (str_eqb (fst kv) tn_a); [|reflexivity].
    revert H2. apply forallb_impl. exact Ha.
  Qed.

  Lemma filter_okb_mono f : filter_okb kp ap w f = true -> filter_okb kp' ap' w' f = true.
  Proof.
    unfold filter_okb. destruct f as [f|]; [|discriminate]. intro H.
    apply andb_true_iff in H as [H H8]. apply andb_true_iff in H as [H H7].
    apply andb_true_iff in H as [H H6]. apply andb_true_iff in H as [H H5].
    apply andb_true_iff in H as [H H4]. apply andb_true_iff in H as [H H3].
    apply andb_true_iff in H as [H1 H2].
    rewrite H1, H2, H5, H6, H8.
    rewrite (opt_all_impl _ (forallb kp') _ (fun l => forallb_impl kp kp' l Hk) H3).
    rewrite (opt_all_impl _ (forallb (tagcond_okb ap')) _
               (fun l => forallb_impl _ _ l tagcond_okb_mono) H4).
    simpl. rewrite andb_true_r.
    destruct w'; [|reflexivity]. now rewrite (Hw eq_refl) in H7.
  Qed.

  Lemma cmsg_okb_mono m : cmsg_okb kp ap w m = true -> cmsg_okb kp' ap' w' m = true.
  Proof.
    destruct m as [e|sub fs|sub|e|sub fs]; unfold cmsg_okb; try apply event_okb_mono; auto.
    - intro H. apply andb_true_iff in H as [H1 H2]. rewrite H1. simpl.
      revert H2. apply forallb_impl. exact filter_okb_mono.
    - intro H. apply andb_true_iff in H as [H1 H2]. rewrite H1. simpl.
      revert H2. apply forallb_impl. exact filter_okb_mono.
  Qed.
End Mono.

(** well-formed implies the constraints (the window condition is extra) *)
Lemma wf_nip01_constraints m : wf_nip01 m -> constraints m.
Proof. unfold wf_nip01, constraints, wf_nip01b, constraintsb. apply cmsg_okb_mono; auto. Qed.

(* ================================================================== *)
(** * 4. Numerals, Split, addresses *)

Definition dstep (acc : Z) (c : N) : Z := acc * 10 + (Z.of_N c - 48).

Lemma digit_val_spec c : digit_val c = if is_digit c then Some (Z.of_N c - 48) else None.
Proof. reflexivity. Qed.

Lemma digits_val_spec s : forall acc,
  digits_val acc s = if forallb is_digit s then Some (fold_left dstep s acc) else None.
Proof.
  induction s as [|c s IH]; intro acc; simpl; [reflexivity|].
  rewrite digit_val_spec. destruct (is_digit c); simpl; [apply IH | reflexivity].
Qed.

Lemma digits_value_fold s : digits_value s = fold_left dstep s 0.
Proof. reflexivity. Qed.

Lemma is_digit_range c : is_digit c = true -> 0 <= Z.of_N c - 48 <= 9.
Proof. unfold is_digit. rewrite andb_true_iff, !N.leb_le. lia. Qed.

Lemma fold_dstep_nonneg s : forall acc, forallb is_digit s = true -> 0 <= acc -> 0 <= fold_left dstep s acc.
Proof.
  induction s as [|c s IH]; intros acc H Ha; simpl; [assumption|].
  simpl in H. apply andb_true_iff in H as [Hc Hs]. apply IH; [assumption|].
  unfold dstep. apply is_digit_range in Hc. lia.
Qed.

Lemma int64_okb_nonneg v : 0 <= v -> int64_okb v = (v <=? int64_max).
Proof.
  intro H. unfold int64_okb. replace (int64_min <=? v) with true; [reflexivity|].
  symmetry. apply Z.leb_le. unfold int64_min. lia.
Qed.

Lemma int64_okb_nonpos v : 0 <= v -> int64_okb (- v) = (int64_min <=? - v).
Proof.
  intro H. unfold int64_okb. replace (- v <=? int64_max) with true; [now rewrite andb_true_r|].
  symmetry. apply Z.leb_le. unfold int64_max. lia.
Qed.

(** strconv.ParseInt(s, 10, 64) = the numeral, provided it fits an int64 *)
Theorem parse_int10_numeral s :
  parse_int10 s = match numeral_value s with
                  | Some k => if int64_okb k then Some k else None
                  | None => None
                  end.
Proof.
  destruct s as [|c s]; [reflexivity|]. unfold parse_int10, numeral_value.
  destruct (c =? 43)%N.
  { unfold magnitude. destruct s as [|d s]; [reflexivity|].
    rewrite digits_val_spec. rewrite andb_true_r.
    destruct (forallb is_digit (d :: s)) eqn:Hd; [|reflexivity].
    rewrite digits_value_fold. rewrite int64_okb_nonneg; [reflexivity|].
    apply fold_dstep_nonneg; [assumption | lia]. }
  destruct (c =? 45)%N.
  { unfold magnitude. destruct s as [|d s]; [reflexivity|].
    rewrite digits_val_spec. rewrite andb_true_r.
    destruct (forallb is_digit (d :: s)) eqn:Hd; [|reflexivity].
    rewrite digits_value_fold. rewrite int64_okb_nonpos; [reflexivity|].
    apply fold_dstep_nonneg; [assumption | lia]. }
  unfold magnitude. rewrite digits_val_spec.
  destruct (forallb is_digit (c :: s)) eqn:Hd; [|reflexivity].
  rewrite digits_value_fold. rewrite int64_okb_nonneg; [reflexivity|].
  apply fold_dstep_nonneg; [assumption | lia].
Qed.

(** ** cutting at colons *)

Lemma cut_at_colon_Some s a r :
  cut_at_colon s = Some (a, r) <-> s = a ++ colon :: r /\ ~ In colon a.
Proof.
  revert a r. induction s as [|c s IH]; intros a r; simpl.
  - split; [discriminate|]. intros [H _]. destruct a; discriminate.
  - destruct (N.eqb c colon) eqn:E.
    + apply N.eqb_eq in E. subst. split.
      * intro H; inversion H; subst. split; [reflexivity | intros []].
      * intros [H Hn]. destruct a as [|x a]; simpl in H.
        -- now inversion H.
        -- inversion H; subst. exfalso. apply Hn. now left.
    + apply N.eqb_neq in E. destruct (cut_at_colon s) as [[a' r']|] eqn:Ec.
      * split.
        -- intro H; inversion H; subst. destruct (proj1 (IH a' r) eq_refl) as [-> Hn].
           split; [reflexivity|]. intros [H1|H1]; [congruence | contradiction].
        -- intros [H Hn]. destruct a as [|x a]; simpl in H; inversion H; subst; [congruence|].
           assert (Some (a', r') = Some (a, r)).
           { apply IH. split; [reflexivity|]. intro Hin. apply Hn. now right. }
           now inversion H0.
      * split; [discriminate|]. intros [H Hn].
        destruct a as [|x a]; simpl in H; inversion H; subst; [congruence|].
        assert (None = Some (a, r)).
        { apply IH. split; [reflexivity|]. intro Hin. apply Hn. now right. }
        discriminate.
Qed.

Lemma cut_at_colon_None s : cut_at_colon s = None <-> colon_freeb s = true.
Proof.
  unfold colon_freeb. induction s as [|c s IH]; [split; reflexivity|].
  cbn [cut_at_colon existsb]. rewrite (N.eqb_sym colon c).
  destruct (N.eqb c colon); cbn [orb negb].
  - split; intro H; discriminate H.
  - destruct (cut_at_colon s) as [[a r]|].
    + split; intro H; [discriminate H|]. apply IH in H. discriminate H.
    + exact IH.
Qed.

Lemma split_aux_nonempty b sep s : split_aux b sep s <> [].
Proof.
  revert b. induction s as [|c s IH]; intro b; simpl; [discriminate|].
  destruct (N.eqb c sep && can_cut b); [discriminate|].
  destruct (split_aux b sep s) eqn:E; discriminate.
Qed.

(** Split / SplitN at one-byte separators, read as repeated cutting *)
Lemma split_aux_cut s : forall b,
  split_aux b colon s =
  if can_cut b
  then match cut_at_colon s with
       | None => [s]
       | Some (a, r) => a :: split_aux (after_cut b) colon r
       end
  else [s].
Proof.
  induction s as [|c s IH]; intro b; simpl.
  - now destruct (can_cut b).
  - destruct (N.eqb c colon) eqn:E; simpl.
    + destruct (can_cut b) eqn:Eb; [reflexivity|].
      rewrite IH, Eb. reflexivity.
    + rewrite IH. destruct (can_cut b); [|reflexivity].
      destruct (cut_at_colon s) as [[a r]|]; reflexivity.
Qed.

Definition d_colon_free (s : str) : bool :=
  match cut_at_colon s with
  | Some (_, r) => match cut_at_colon r with
                   | Some (_, d) => colon_freeb d
                   | None => true
                   end
  | None => true
  end.

Lemma naddr_body k pk :
  match parse_int10 k with
  | None => false
  | Some kind => if negb (valid_kind kind) then false else if negb (valid_pubkey pk) then false else true
  end =
  match numeral_value k with
  | Some kind => int64_okb kind && g_valid_kind kind && hexb 64 pk
  | None => false
  end.
Proof.
  rewrite parse_int10_numeral, valid_pubkey_spec. unfold valid_kind.
  destruct (numeral_value k) as [kind|]; [|reflexivity].
  destruct (int64_okb kind); [|reflexivity]. simpl.
  destruct (g_valid_kind kind); [|reflexivity]. simpl. now destruct (hexb 64 pk).
Qed.

(** validNaddr when it cuts with SplitN(naddr, ":", 3) *)
Theorem valid_naddr_split3 :
  g_naddr_split_n = 3 -> forall s, valid_naddr s = naddr_okb g_valid_kind s.
Proof.
  intros Hn s. unfold valid_naddr, naddr_okb, splitn. rewrite Hn, g_naddr_sep_spec.
  change (if 3 =? 0 then [] else split_aux (if 3 <? 0 then None else Some (Z.to_nat (3 - 1))) colon s)
    with (split_aux (Some 2%nat) colon s).
  rewrite split_aux_cut. cbn [can_cut after_cut].
  destruct (cut_at_colon s) as [[a r]|]; [|reflexivity].
  rewrite split_aux_cut. cbn [can_cut after_cut].
  destruct (cut_at_colon r) as [[b d]|]; [|reflexivity].
  rewrite split_aux_cut. cbn [can_cut].
  rewrite g_naddr_arity_bad_spec. cbn [zlen length Z.of_nat]. simpl negb. cbv iota.
  apply naddr_body.
Qed.

(** validNaddr when it cuts with Split(naddr, ":") *)
Theorem valid_naddr_splitall :
  g_naddr_split_n = -1 -> forall s, valid_naddr s = naddr_okb g_valid_kind s && d_colon_free s.
Proof.
  intros Hn s. unfold valid_naddr, naddr_okb, d_colon_free, splitn. rewrite Hn, g_naddr_sep_spec.
  change (if -1 =? 0 then [] else split_aux (if -1 <? 0 then None else Some (Z.to_nat (-1 - 1))) colon s)
    with (split_aux None colon s).
  rewrite split_aux_cut. cbn [can_cut after_cut].
  destruct (cut_at_colon s) as [[a r]|]; [|reflexivity].
  rewrite split_aux_cut. cbn [can_cut after_cut].
  destruct (cut_at_colon r) as [[b d]|]; [|reflexivity].
  rewrite split_aux_cut. cbn [can_cut after_cut].
  destruct (cut_at_colon d) as [[c e]|] eqn:Ed.
  - (* a fourth part: arity test fails *)
    assert (Hf : colon_freeb d = false).
    { destruct (colon_freeb d) eqn:E; [|reflexivity]. apply cut_at_colon_None in E. congruence. }
    rewrite Hf, andb_false_r. rewrite g_naddr_arity_bad_spec.
    destruct (split_aux None colon e) as [|x l] eqn:Es; [now apply split_aux_nonempty in Es|].
    replace (zlen (a :: b :: c :: x :: l) =? 3) with false; [reflexivity|].
    symmetry. apply Z.eqb_neq. unfold zlen. simpl length. lia.
  - apply cut_at_colon_None in Ed. rewrite Ed, andb_true_r.
    rewrite g_naddr_arity_bad_spec. cbn [zlen length Z.of_nat]. simpl negb. cbv iota.
    apply naddr_body.
Qed.

(* ================================================================== *)
(** * 5. The declarative address predicate and its boolean form *)

Lemma numeral_no_colon ks k : numeral_value ks = Some k -> ~ In colon ks.
Proof.
  assert (Hd : forall s, forallb is_digit s = true -> ~ In colon s).
  { intros s H Hin. rewrite forallb_forall in H. apply H in Hin. discriminate. }
  unfold numeral_value. destruct ks as [|c s]; [discriminate|].
  destruct (c =? 43)%N eqn:E1.
  { apply N.eqb_eq in E1. subst. destruct (forallb is_digit s) eqn:H; [|discriminate].
    intros _ [Hin|Hin]; [discriminate | exact (Hd s H Hin)]. }
  destruct (c =? 45)%N eqn:E2.
  { apply N.eqb_eq in E2. subst. destruct (forallb is_digit s) eqn:H; [|discriminate].
    intros _ [Hin|Hin]; [discriminate | exact (Hd s H Hin)]. }
  destruct (forallb is_digit (c :: s)) eqn:H; [|discriminate]. intros _. exact (Hd _ H).
Qed.

Lemma hex_no_colon n pk : hexb n pk = true -> ~ In colon pk.
Proof.
  unfold hexb. intro H. apply andb_true_iff in H as [_ H]. rewrite forallb_forall in H.
  intro Hin. apply H in Hin. discriminate.
Qed.

Lemma kind_specb_spec k : kind_specb k = true <-> kind_spec k.
Proof. unfold kind_specb, kind_spec. rewrite andb_true_iff, !Z.leb_le. reflexivity. Qed.

Lemma kind_spec_int64 k : kind_specb k = true -> int64_okb k = true.
Proof.
  intro H. apply kind_specb_spec in H. unfold kind_spec in H. apply int64_okb_ok.
  unfold int64_ok, int64_min, int64_max. lia.
Qed.

(** [naddr_specb] decides [naddr_spec]: kind:pubkey:d with ANY d *)
Theorem naddr_specb_spec s : naddr_specb s = true <-> naddr_spec s.
Proof.
  unfold naddr_specb, naddr_okb, naddr_spec. split.
  - destruct (cut_at_colon s) as [[ks rest]|] eqn:E1; [|discriminate].
    destruct (cut_at_colon rest) as [[pk d]|] eqn:E2; [|discriminate].
    destruct (numeral_value ks) as [k|] eqn:E3; [|discriminate].
    intro H. apply andb_true_iff in H as [H Hpk]. apply andb_true_iff in H as [_ Hk].
    apply cut_at_colon_Some in E1 as [-> _]. apply cut_at_colon_Some in E2 as [-> _].
    exists ks, pk, d, k. split; [reflexivity|]. split; [assumption|]. split.
    + now apply kind_specb_spec.
    + now apply hexb_lower_hex.
  - intros [ks [pk [d [k [-> [Hnum [Hk Hpk]]]]]]].
    apply hexb_lower_hex in Hpk. apply kind_specb_spec in Hk.
    assert (E1 : cut_at_colon (ks ++ colon :: pk ++ colon :: d) = Some (ks, pk ++ colon :: d)).
    { apply cut_at_colon_Some. split; [reflexivity | eapply numeral_no_colon; eassumption]. }
    assert (E2 : cut_at_colon (pk ++ colon :: d) = Some (pk, d)).
    { apply cut_at_colon_Some. split; [reflexivity | eapply hex_no_colon; eassumption]. }
    rewrite E1, E2, Hnum, Hk, Hpk, (kind_spec_int64 k Hk). reflexivity.
Qed.

Lemma naddr_okb_mono (kp kp' : Z -> bool) s :
  (forall k, kp k = true -> kp' k = true) -> naddr_okb kp s = true -> naddr_okb kp' s = true.
Proof.
  intro H. unfold naddr_okb.
  destruct (cut_at_colon s) as [[ks rest]|]; [|discriminate].
  destruct (cut_at_colon rest) as [[pk d]|]; [|discriminate].
  destruct (numeral_value ks) as [k|]; [|discriminate].
  intro E. apply andb_true_iff in E as [E E3]. apply andb_true_iff in E as [E1 E2].
  now rewrite E1, (H k E2), E3.
Qed.

(* ================================================================== *)
(** * 6. The gate: ParseClientMsg then ValidClientMsg *)

(** what passed the gate is a filled value carrying the label of the text,
    and satisfies the constraint list over the code's own guards *)
Theorem admit_inv t :
  gate_admits t = true ->
  exists m, parse_client_msg t = Val m /\ wf_cmsg m /\
            first_label (ct_json t) = Some (label_of_cmsg m) /\
            cmsg_okb g_valid_kind valid_naddr true m = true.
Proof.
  unfold gate_admits. destruct (parse_client_msg t) as [m| |] eqn:E; try discriminate.
  intro H. exists m. destruct (parse_label_sound t m E) as [Hl Hw].
  repeat split; try assumption. now rewrite <- valid_char.
Qed.

(** white space before the opening bracket: decided by the pattern alone *)
Theorem admit_leading_ws esc j :
  gate_admits (mkCText true esc j) = if lead_ws_allowed then gate_admits (mkCText false esc j) else false.
Proof. unfold gate_admits. rewrite parse_leading_ws. now destruct lead_ws_allowed. Qed.
