(* Session.v — the automata of every session component of mocrelay (C13),
   their composition, and the table that ties them to the source.
   Definitions only; proofs are in SessionProofs.v.

   Every process below mirrors one goroutine (or one synchronous call, which
   is modelled as a process that the caller joins).  Program counters are the
   blocking points of the goroutine in source order; the comment of each
   instruction names the source line it stands for (handler.go unless said
   otherwise). *)
From Moc Require Import Base Proc.
From Moc.Gen Require Import GenSession.
Import ListNotations.
Open Scope nat_scope.

(** * Compositions *)
Inductive skind := SDefault | SCache | SSqlite.

Inductive comp :=
| CSimple (k : skind)          (* NewSimpleHandler(base): default, cache, SQLite *)
| CRouter (buflen : nat)       (* NewRouterHandler(buflen) *)
| CMw (inner : comp)           (* NewSimpleMiddleware(base)(inner): every provided middleware *)
| CMerge (cs : comps)          (* NewMergeHandler(children...) *)
with comps :=
| CNil
| CCons (c : comp) (r : comps).

Fixpoint clen (cs : comps) : nat := match cs with CNil => 0 | CCons _ r => S (clen r) end.

(* rank of the main process of a composition *)
Fixpoint rk (c : comp) : nat :=
  match c with
  | CSimple _ => 0
  | CRouter _ => 0
  | CMw c' => S (rk c')
  | CMerge cs => S (rks cs) + clen cs
  end
with rks (cs : comps) : nat :=
  match cs with CNil => 0 | CCons c r => rk c + rks r end.

Fixpoint cnth (i : nat) (cs : comps) : option comp :=
  match cs, i with
  | CNil, _ => None
  | CCons c _, 0 => Some c
  | CCons _ r, S i' => cnth i' r
  end.

Definition main_pid (p : path) (c : comp) : pid := mkPid p 0 (rk c).

(* rank of the main process of child i *)
Fixpoint crk (i : nat) (cs : comps) {struct cs} : nat :=
  match cs with
  | CNil => 0
  | CCons c r => match i with 0 => rk c | S i' => crk i' r end
  end.

Definition no_pend : pc -> chan -> nat := fun _ _ => 0.

(** * SimpleHandler.ServeNostr (lines 52-93) around a base *)
Definition ch_reply (p : path) : chan := mkChan p 1 0 Plain.   (* smsgCh returned by ServeNostrClientMsg *)
Definition ch_sql_events : chan := mkChan [] 0 2 Plain.        (* simpleSQLiteHandler.eventCh (handler-wide) *)

Definition simple_code (k : skind) (p : path) (ctx : flag) (snd rcv : chan) : pc -> instr := fun n =>
  match n with
  | 0 => (* 64: select { <-ctx.Done(); cmsg, ok := <-recv }; then ServeNostrClientMsg: error / nil channel / channel *)
         Select [ADone ctx 5; ARecv rcv (match k with SSqlite => [5; 0; 3; 4] | _ => [5; 0; 3] end) [5]]
  | 1 => (* 79: select { <-ctx.Done(); smsg, ok := <-smsgCh } *)
         Select [ADone ctx 5; ARecv (ch_reply p) [2; 1] [0]]
  | 2 => (* 87: sendServerMsgCtx(ctx, send, smsg) *)
         Select [ADone ctx 1; ASend snd [1]]
  | 3 => (* the base made, filled and closed the reply channel *)
         Fresh (ch_reply p) [0; 1; 2; 3] true 1
  | 4 => (* sqlite/handler.go 147: select { <-ctx.Done(); h.eventCh <- msg.Event } *)
         Select [ADone ctx 5; ASend ch_sql_events [3]]
  | _ => Exit  (* deferred ServeNostrEnd *)
  end.

Definition simple_meas : pc -> nat := fun n =>
  match n with 0 => 1 | 1 => 1 | 2 => 2 | 3 => 2 | 4 => 1 | _ => 0 end.

Definition simple_proc (k : skind) (p : path) (ctx : flag) (snd rcv : chan) : proc :=
  mkProc (mkPid p 0 0) (simple_code k p ctx snd rcv) 6 simple_meas no_pend.

(** * RouterHandler.ServeNostr (lines 149-191) *)
Definition ch_sub (p : path) (buflen : nat) : chan := mkChan p 1 buflen Plain.  (* subCh *)
Definition todo_ctx : flag := [].     (* context.TODO(): never cancelled *)

Definition router_main_code (p : path) (ctx : flag) (snd rcv : chan) (b : nat) : pc -> instr := fun n =>
  let c' := ctx ++ [0] in
  match n with
  | 0 => (* 179: select { <-ctx.Done(); msg, ok := <-recv }; router.recv: reply / no reply / EVENT: Publish *)
         Select [ADone c' 3; ARecv rcv [1; 0; 2] [3]]
  | 1 => (* 188: sendServerMsgCtx(ctx, send, m) *)
         Select [ADone c' 0; ASend snd [0]]
  | 2 => (* 239: trySendCtx(context.TODO(), sub.Ch, ...) for the matching subscribers, then the OK reply *)
         Select [ADone todo_ctx 1; ASend (ch_sub p b) [1]; ADefault [1]]
  | 3 => (* 176: defer cancel() *) Cancel c' 4
  | 4 => (* 158: defer UnsubscribeAll(reqID) (non-blocking); 155: defer cancel() *) Cancel c' 5
  | _ => Exit
  end.

Definition router_main_meas : pc -> nat := fun n =>
  match n with 0 => 3 | 1 => 4 | 2 => 5 | 3 => 2 | 4 => 1 | _ => 0 end.

Definition router_fwd_code (p : path) (ctx : flag) (snd : chan) (b : nat) : pc -> instr := fun n =>
  let c' := ctx ++ [0] in
  match n with
  | 0 => (* 166: select { <-ctx.Done(); msg := <-subCh } *) Select [ADone c' 2; ARecv (ch_sub p b) [1] []]
  | 1 => (* 171: sendCtx(ctx, send, msg) *) Select [ADone c' 0; ASend snd [0]]
  | 2 => (* 163: defer cancel() *) Cancel c' 3
  | _ => Exit
  end.

Definition router_fwd_meas : pc -> nat := fun n =>
  match n with 0 => 2 | 1 => 3 | 2 => 1 | _ => 0 end.

Definition router_main (p : path) (ctx : flag) (snd rcv : chan) (b : nat) : proc :=
  mkProc (mkPid p 0 0) (router_main_code p ctx snd rcv b) 6 router_main_meas no_pend.
Definition router_fwd (p : path) (ctx : flag) (snd : chan) (b : nat) : proc :=
  mkProc (mkPid p 1 0) (router_fwd_code p ctx snd b) 4 router_fwd_meas no_pend.

(** * NewSimpleMiddleware (lines 921-1051) *)
Definition mw_rCh (p : path) : chan := mkChan p 1 0 Plain.
Definition mw_sCh (p : path) : chan := mkChan p 2 0 Plain.
Definition mw_errs (p : path) : chan := mkChan p 3 2 Bounded.   (* make(chan error, 2) *)
Definition mw_smsgR (p : path) : chan := mkChan p 4 0 Plain.    (* smsgCh of ServeNostrClientMsg *)
Definition mw_cmsgR (p : path) : chan := mkChan p 5 0 Plain.    (* cmsgCh of ServeNostrClientMsg *)
Definition mw_smsgS (p : path) : chan := mkChan p 6 0 Plain.    (* smsgCh of ServeNostrServerMsg *)

Definition mw_recv_pid (p : path) : pid := mkPid p 1 0.
Definition mw_send_pid (p : path) : pid := mkPid p 2 0.

Definition mw_main_code (p : path) (ctx : flag) (inner : pid) : pc -> instr := fun n =>
  let c' := ctx ++ [0] in
  match n with
  | 0 => (* 954: handler.ServeNostr(ctx, sCh, rCh) *) Join inner 1
  | 1 => (* 953: defer cancel() *) Cancel c' 2
  | 2 => (* 938: <-errs *) Join (mw_recv_pid p) 3
  | 3 => (* 938: <-errs *) Join (mw_send_pid p) 4
  | 4 => (* 932: defer cancel() *) Cancel c' 5
  | _ => Exit (* 929: ServeNostrEnd *)
  end.
Definition mw_main_meas : pc -> nat := fun n =>
  match n with 0 => 5 | 1 => 4 | 2 => 3 | 3 => 2 | 4 => 1 | _ => 0 end.

Definition mw_recv_code (p : path) (ctx : flag) (snd rcv : chan) : pc -> instr := fun n =>
  let c' := ctx ++ [0] in
  match n with
  | 0 => (* 968: select { <-ctx.Done(); cmsg, ok := <-recv }; ServeNostrClientMsg: error / channels *)
         Select [ADone c' 7; ARecv rcv [7; 1] [7]]
  | 1 => Fresh (mw_smsgR p) [0; 1; 2] true 2
  | 2 => Fresh (mw_cmsgR p) [0; 1; 2] true 3
  | 3 => (* 985 *) Select [ADone c' 7; ARecv (mw_smsgR p) [4; 3] [5]]
  | 4 => (* 993: sendServerMsgCtx(ctx, send, smsg) *) Select [ADone c' 3; ASend snd [3]]
  | 5 => (* 1001 *) Select [ADone c' 7; ARecv (mw_cmsgR p) [6; 5] [0]]
  | 6 => (* 1009: sendClientMsgCtx(ctx, rCh, cmsg) *) Select [ADone c' 5; ASend (mw_rCh p) [5]]
  | 7 => (* 944: errs <- simpleMiddlewareHandleRecv(...) *) Select [ASend (mw_errs p) [8]]
  | 8 => (* 942: defer close(rCh) *) Close (mw_rCh p) 9
  | 9 => (* 941: defer cancel() *) Cancel c' 10
  | _ => Exit
  end.
Definition mw_recv_meas : pc -> nat := fun n =>
  match n with 0 => 5 | 1 => 8 | 2 => 7 | 3 => 5 | 4 => 6 | 5 => 5 | 6 => 6 | 7 => 4 | 8 => 3 | 9 => 2 | 10 => 1 | _ => 0 end.
Definition mw_recv_pend (p : path) : pc -> chan -> nat := fun n d =>
  if chan_eq_dec d (mw_errs p) then (if n <=? 7 then 1 else 0) else 0.

Definition mw_send_code (p : path) (ctx : flag) (snd : chan) : pc -> instr := fun n =>
  let c' := ctx ++ [0] in
  match n with
  | 0 => (* 1024: select { <-ctx.Done(); smsg := <-sCh }; ServeNostrServerMsg: error / channel *)
         Select [ADone c' 4; ARecv (mw_sCh p) [4; 1] []]
  | 1 => Fresh (mw_smsgS p) [0; 1; 2] true 2
  | 2 => (* 1037 *) Select [ADone c' 4; ARecv (mw_smsgS p) [3; 2] [0]]
  | 3 => (* 1045: sendServerMsgCtx(ctx, send, smsg) *) Select [ADone c' 2; ASend snd [2]]
  | 4 => (* 950: errs <- simpleMiddlewareHandleSend(...) *) Select [ASend (mw_errs p) [5]]
  | 5 => (* 948: defer cancel() *) Cancel c' 6
  | _ => Exit
  end.
Definition mw_send_meas : pc -> nat := fun n =>
  match n with 0 => 4 | 1 => 6 | 2 => 4 | 3 => 5 | 4 => 3 | 5 => 2 | 6 => 1 | _ => 0 end.
Definition mw_send_pend (p : path) : pc -> chan -> nat := fun n d =>
  if chan_eq_dec d (mw_errs p) then (if n <=? 4 then 1 else 0) else 0.

Definition mw_main (p : path) (ctx : flag) (inner : pid) : proc :=
  mkProc (mkPid p 0 (S (p_rank inner))) (mw_main_code p ctx inner) 6 mw_main_meas no_pend.
Definition mw_recv (p : path) (ctx : flag) (snd rcv : chan) : proc :=
  mkProc (mw_recv_pid p) (mw_recv_code p ctx snd rcv) 11 mw_recv_meas (mw_recv_pend p).
Definition mw_send (p : path) (ctx : flag) (snd : chan) : proc :=
  mkProc (mw_send_pid p) (mw_send_code p ctx snd) 7 mw_send_meas (mw_send_pend p).

(** * mergeHandlerSession (lines 417-696) with n children *)
Definition m_pre (p : path) : chan := mkChan p 0 0 Plain.        (* preSendCh *)
Definition m_ok (p : path) : chan := mkChan p 1 1 Token.         (* okStat *)
Definition m_req (p : path) : chan := mkChan p 2 1 Token.        (* reqStat *)
Definition m_cnt (p : path) : chan := mkChan p 3 1 Token.        (* countStat *)
Definition m_recvs (p : path) (i : nat) : chan := mkChan p (4 + 3 * i) 0 Plain.
Definition m_sends (p : path) (i : nat) : chan := mkChan p (5 + 3 * i) 0 Plain.
Definition m_errCh (p : path) (k : nat) : chan := mkChan p (6 + 3 * k) 1 Bounded.   (* errCh made by runHandlers at level k+1 *)

(* contexts: the session's ctx (459) is mctx = ctx ++ [0]; runHandlers at level l
   (l handlers) derives rh_ctx l from the context it is given; child i runs
   under rh_ctx (i+1). *)
Definition rh_ctx (mctx : flag) (n l : nat) : flag := mctx ++ repeat 1 (S n - l).

Definition m_hr_pid (p : path) : pid := mkPid p 1 0.
Definition m_hs_pid (p : path) : pid := mkPid p 2 0.
Definition m_rh_pid (p : path) (R k : nat) : pid := mkPid p (3 + 2 * k) (R + k).   (* goroutine 489 running runHandlers(handlers[:k]) *)
Definition m_ms_pid (p : path) (i : nat) : pid := mkPid p (4 + 2 * i) 0.           (* mergeSend for sends[i] *)

(* the top-level runHandlers (l = n), running in the caller's goroutine *)
Definition m_main_code (p : path) (ctx : flag) (n R : nat) (child : pid) : pc -> instr := fun k =>
  let mctx := ctx ++ [0] in
  match k with
  | 0 => (* 496: handlers[l-1].ServeNostr(ctx, sends[l-1], recvs[l-1]) *) Join child 1
  | 1 => (* 495: defer cancel() *) Cancel (rh_ctx mctx n n) 2
  | 2 => (* 487: <-errCh (the goroutine of 489 sends exactly once, then exits) *) Join (m_rh_pid p R (n - 1)) 3
  | 3 => (* 461: defer cancel() *) Cancel mctx 4
  | _ => Exit
  end.
Definition m_main_meas : pc -> nat := fun k =>
  match k with 0 => 4 | 1 => 3 | 2 => 2 | 3 => 1 | _ => 0 end.

(* goroutine 489 at level k (1 <= k < n): runHandlers(rh_ctx (k+1), handlers[:k]) then errCh <- *)
Definition m_rh_code (p : path) (ctx : flag) (n R k : nat) (child : pid) : pc -> instr := fun j =>
  let mctx := ctx ++ [0] in
  match j with
  | 0 => (* 496 *) Join child 1
  | 1 => (* 495: defer cancel() *) Cancel (rh_ctx mctx n k) 2
  | 2 => (* 487: <-errCh, only when k > 1 *)
         if 1 <? k then Join (m_rh_pid p R (k - 1)) 3 else Cancel (rh_ctx mctx n k) 3
  | 3 => (* 491: errCh <- ss.runHandlers(...) *) Select [ASend (m_errCh p k) [4]]
  | 4 => (* 490: defer cancel() of the enclosing level *) Cancel (rh_ctx mctx n (S k)) 5
  | _ => Exit
  end.
Definition m_rh_meas : pc -> nat := fun j =>
  match j with 0 => 5 | 1 => 4 | 2 => 3 | 3 => 2 | 4 => 1 | _ => 0 end.
Definition m_rh_pend (p : path) (k : nat) : pc -> chan -> nat := fun j d =>
  if chan_eq_dec d (m_errCh p k) then (if j <=? 3 then 1 else 0) else 0.

(* mergeSend for sends[i] (503-521); the outermost one (i = n-1) runs in goroutine 463 with defer cancel() *)
Definition m_ms_code (p : path) (ctx : flag) (n i : nat) : pc -> instr := fun k =>
  let mctx := ctx ++ [0] in
  match k with
  | 0 => (* 513 *) Select [ADone mctx 2; ARecv (m_sends p i) [1] []]
  | 1 => (* 518: sendCtx(ctx, ss.preSendCh, ...) *) Select [ADone mctx 0; ASend (m_pre p) [0]]
  | 2 => (* 464: defer cancel() (outermost only) *) if S i =? n then Cancel mctx 3 else Exit
  | _ => Exit
  end.
Definition m_ms_meas : pc -> nat := fun k =>
  match k with 0 => 2 | 1 => 3 | 2 => 1 | _ => 0 end.

(* handleRecv (529-543) in goroutine 467, with handleRecvMsg's token sections and broadcastRecvs *)
Definition m_hr_code (p : path) (ctx : flag) (rcv : chan) (n : nat) : pc -> instr := fun k =>
  let mctx := ctx ++ [0] in
  if k =? 0 then (* 531; EVENT / REQ,CLOSE / COUNT / other *)
    Select [ADone mctx (7 + n); ARecv rcv [1; 3; 5; 7] [7 + n]]
  else if k =? 1 then (* 561: s := <-ss.okStat *) Select [ARecv (m_ok p) [2] []]
  else if k =? 2 then (* 562: ss.okStat <- s *) Select [ASend (m_ok p) [7]]
  else if k =? 3 then (* 568, 575: s := <-ss.reqStat *) Select [ARecv (m_req p) [4] []]
  else if k =? 4 then (* 569, 576 *) Select [ASend (m_req p) [7]]
  else if k =? 5 then (* 582 *) Select [ARecv (m_cnt p) [6] []]
  else if k =? 6 then (* 583 *) Select [ASend (m_cnt p) [7]]
  else if k <? 7 + n then (* 590: sendClientMsgCtx(ctx, r, msg) for r = recvs[k-7] *)
    let nx := if S k =? 7 + n then 0 else S k in
    Select [ADone mctx nx; ASend (m_recvs p (k - 7)) [nx]]
  else if k =? 7 + n then (* 469: defer cancel() *) Cancel mctx (8 + n)
  else if k <? 8 + 2 * n then (* 468, 525: close(recvs[k-8-n]) *) Close (m_recvs p (k - 8 - n)) (S k)
  else Exit.
Definition m_hr_meas (n : nat) : pc -> nat := fun k =>
  if k =? 0 then n + 2
  else if k <? 7 then (if Nat.even k then 2 * n + 3 else 2 * n + 4)
  else if k <? 7 + n then (7 + n - k) + (n + 2)
  else if k =? 7 + n then n + 1
  else if k <? 8 + 2 * n then 8 + 2 * n - k
  else 0.
Definition m_hr_pend (p : path) : pc -> chan -> nat := fun k d =>
  if chan_eq_dec d (m_ok p) then (if k =? 2 then 1 else 0)
  else if chan_eq_dec d (m_req p) then (if k =? 4 then 1 else 0)
  else if chan_eq_dec d (m_cnt p) then (if k =? 6 then 1 else 0)
  else 0.

(* handleSend (606-617) in goroutine 472, with handleSendMsg's token sections *)
Definition m_hs_code (p : path) (ctx : flag) (snd : chan) : pc -> instr := fun k =>
  let mctx := ctx ++ [0] in
  match k with
  | 0 => (* 608; EOSE,EVENT / OK / COUNT / other *) Select [ADone mctx 8; ARecv (m_pre p) [1; 3; 5; 7] []]
  | 1 => (* 637, 654: s := <-ss.reqStat *) Select [ARecv (m_req p) [2] []]
  | 2 => (* 638, 655; result nil or not *) Select [ASend (m_req p) [7; 0]]
  | 3 => (* 667 *) Select [ARecv (m_ok p) [4] []]
  | 4 => (* 668 *) Select [ASend (m_ok p) [7; 0]]
  | 5 => (* 684 *) Select [ARecv (m_cnt p) [6] []]
  | 6 => (* 685 *) Select [ASend (m_cnt p) [7; 0]]
  | 7 => (* 614: sendServerMsgCtx(ctx, send, m) *) Select [ADone mctx 0; ASend snd [0]]
  | 8 => (* 473: defer cancel() *) Cancel mctx 9
  | _ => Exit
  end.
Definition m_hs_meas : pc -> nat := fun k =>
  match k with 0 => 3 | 1 => 6 | 2 => 5 | 3 => 6 | 4 => 5 | 5 => 6 | 6 => 5 | 7 => 4 | 8 => 2 | 9 => 1 | _ => 0 end.
Definition m_hs_pend (p : path) : pc -> chan -> nat := fun k d =>
  if chan_eq_dec d (m_req p) then (if k =? 2 then 1 else 0)
  else if chan_eq_dec d (m_ok p) then (if k =? 4 then 1 else 0)
  else if chan_eq_dec d (m_cnt p) then (if k =? 6 then 1 else 0)
  else 0.

Definition m_main (p : path) (ctx : flag) (n R : nat) (child : pid) : proc :=
  mkProc (mkPid p 0 (R + n)) (m_main_code p ctx n R child) 5 m_main_meas no_pend.
Definition m_rh (p : path) (ctx : flag) (n R k : nat) (child : pid) : proc :=
  mkProc (m_rh_pid p R k) (m_rh_code p ctx n R k child) 6 m_rh_meas (m_rh_pend p k).
Definition m_ms (p : path) (ctx : flag) (n i : nat) : proc :=
  mkProc (m_ms_pid p i) (m_ms_code p ctx n i) 4 m_ms_meas no_pend.
Definition m_hr (p : path) (ctx : flag) (rcv : chan) (n : nat) : proc :=
  mkProc (m_hr_pid p) (m_hr_code p ctx rcv n) (9 + 2 * n) (m_hr_meas n) (m_hr_pend p).
Definition m_hs (p : path) (ctx : flag) (snd : chan) : proc :=
  mkProc (m_hs_pid p) (m_hs_code p ctx snd) 10 m_hs_meas (m_hs_pend p).

(** * Composition: network union; names are made distinct by the component path *)
(* A merge of n children at path p consists of: the top-level runHandlers (level n, in the
   caller's goroutine, running child n-1), handleRecv, handleSend, and per child i: the
   goroutine of line 489 running runHandlers at level i+1 (when i+1 < n; its last handler is
   child i), the mergeSend for sends[i], and the child's own session at path p ++ [i]. *)
Fixpoint build (p : path) (ctx : flag) (snd rcv : chan) (c : comp) {struct c} : list proc :=
  match c with
  | CSimple k => [simple_proc k p ctx snd rcv]
  | CRouter b => [router_main p ctx snd rcv b; router_fwd p ctx snd b]
  | CMw c' =>
      mw_main p ctx (main_pid (p ++ [0]) c') :: mw_recv p ctx snd rcv :: mw_send p ctx snd
      :: build (p ++ [0]) (ctx ++ [0]) (mw_sCh p) (mw_rCh p) c'
  | CMerge cs =>
      let n := clen cs in
      let R := S (rks cs) in
      m_main p ctx n R (mkPid (p ++ [n - 1]) 0 (crk (n - 1) cs))
      :: m_hr p ctx rcv n :: m_hs p ctx snd
      :: build_children p ctx n R 0 cs
  end
with build_children (p : path) (ctx : flag) (n R i : nat) (cs : comps) {struct cs} : list proc :=
  match cs with
  | CNil => []
  | CCons c r =>
      (if S i =? n then [] else [m_rh p ctx n R (S i) (main_pid (p ++ [i]) c)])
      ++ m_ms p ctx n i
      :: build (p ++ [i]) (rh_ctx (ctx ++ [0]) n (S i)) (m_sends p i) (m_recvs p i) c
      ++ build_children p ctx n R (S i) r
  end.

(* the session of composition c served under context root with the peer's channels *)
Definition top_send : chan := mkChan [] 1 0 Plain.
Definition top_recv : chan := mkChan [] 2 0 Plain.
Definition session (root : flag) (c : comp) : net := build [0] root top_send top_recv c.

(* every merge has at least two children (NewMergeHandler panics otherwise) *)
Fixpoint wf_comp (c : comp) : Prop :=
  match c with
  | CSimple _ | CRouter _ => True
  | CMw c' => wf_comp c'
  | CMerge cs => 2 <= clen cs /\ wf_comps cs
  end
with wf_comps (cs : comps) : Prop :=
  match cs with CNil => True | CCons c r => wf_comp c /\ wf_comps r end.

(** * The peer and whoever cancels the session: environment processes *)
Definition env_path : path := [1].

(* a client that sends m messages (any history of length m), then optionally closes the
   inbound channel; it gives up when the session context is cancelled *)
Definition feeder_code (root : flag) (m : nat) (closes : bool) : pc -> instr := fun k =>
  if k <? m then Select [ADone root (S (S m)); ASend top_recv [S k]]
  else if k =? m then (if closes then Close top_recv (S m) else Exit)
  else Exit.
Definition feeder_meas (m : nat) : pc -> nat := fun k => if k <=? m then 2 + m - k else 0.
Definition feeder (root : flag) (m : nat) (closes : bool) : proc :=
  mkProc (mkPid env_path 0 0) (feeder_code root m closes) (S (S (S m))) (feeder_meas m) no_pend.

(* a peer that keeps reading what the session sends *)
Definition drainer_code (root : flag) : pc -> instr := fun k =>
  match k with
  | 0 => Select [ADone root 1; ARecv top_send [0] [1]]
  | _ => Exit
  end.
Definition drainer (root : flag) : proc :=
  mkProc (mkPid env_path 1 0) (drainer_code root) 2 (fun k => match k with 0 => 1 | _ => 0 end) no_pend.

(* cancel() of the session context, at any moment *)
Definition canceller_code (root : flag) : pc -> instr := fun k =>
  match k with 0 => Cancel root 1 | _ => Exit end.
Definition canceller (root : flag) : proc :=
  mkProc (mkPid env_path 2 0) (canceller_code root) 2 (fun k => match k with 0 => 1 | _ => 0 end) no_pend.

(* an environment: processes outside the session's name space that hold no reservations *)
Record env_ok (root : flag) (E : net) : Prop := mkEnvOk {
  e_nodup : NoDup (List.map pr_id E);
  e_procs : Forall (proc_ok root) E;
  e_names : Forall (fun pr => ~ is_prefix [0] (p_path (pr_id pr))) E;
  e_pend : Forall (fun pr => forall d, pr_pend pr 0 d = 0) E
}.

(** * Relay.ServeHTTP (relay.go 47-262): read loop, write loop, handler call, wg.Wait *)
Definition r_recv (p : path) : chan := mkChan p 1 0 Plain.      (* recv := make(chan ClientMsg) *)
Definition r_send (p : path) : chan := mkChan p 2 0 Plain.      (* send := make(chan ServerMsg) *)
Definition r_errs (p : path) : chan := mkChan p 3 3 Bounded.    (* errs := make(chan error, 3) *)
Definition r_netin (p : path) : chan := mkChan p 4 0 Plain.     (* frames arriving from the peer (conn.Read) *)
Definition r_netout (p : path) (sock : nat) : chan := mkChan p 5 sock Plain.  (* socket buffers towards the peer (conn.Write) *)
Definition r_tick (p : path) : chan := mkChan p 6 1 Plain.      (* pingTicker.C *)

Definition r_read_pid (p : path) : pid := mkPid p 1 0.
Definition r_write_pid (p : path) : pid := mkPid p 2 0.

(* the request goroutine; ctx' = r ++ [0] is context.WithCancel(r.Context()) of line 52 *)
Definition r_main_code (p : path) (r : flag) (h : pid) : pc -> instr := fun k =>
  let c' := r ++ [0] in
  match k with
  | 0 => (* 99: relay.Handler.ServeNostr(ctx, send, recv) *) Join h 1
  | 1 => (* 100: errs <- handler terminated *) Select [ASend (r_errs p) [2]]
  | 2 => (* 98: defer cancel() *) Cancel c' 3
  | 3 => (* 103: <-ctx.Done() *) Select [ADone c' 4]
  | 4 => (* 105: conn.Close: pending reads fail *) Close (r_netin p) 5
  | 5 => (* 107: wg.Wait() *) Join (r_read_pid p) 6
  | 6 => (* 107: wg.Wait() *) Join (r_write_pid p) 7
  | 7 => (* 109-112: close(errs); range errs: never blocks (closed); 53: defer cancel() *) Cancel c' 8
  | _ => Exit
  end.
Definition r_main_meas : pc -> nat := fun k => 8 - k.
Definition r_main_pend (p : path) : pc -> chan -> nat := fun k d =>
  if chan_eq_dec d (r_errs p) then (if k <=? 1 then 1 else 0) else 0.

(* goroutine 81: serveReadLoop *)
Definition r_read_code (p : path) (r : flag) : pc -> instr := fun k =>
  let c' := r ++ [0] in
  match k with
  | 0 => (* 150: limiter.Wait(ctx) *) Select [ADone c' 4; ADefault [1]]
  | 1 => (* 154: conn.Read(ctx): bad frame -> notice / good frame -> forward / error or closed *)
         Select [ADone c' 4; ARecv (r_netin p) [2; 3; 4] [4]]
  | 2 => (* 161,167,175,182,190,196: sendServerMsgCtx(ctx, send, notice) *) Select [ADone c' 0; ASend (r_send p) [0]]
  | 3 => (* 201: sendCtx(ctx, recv, msg) *) Select [ADone c' 0; ASend (r_recv p) [0]]
  | 4 => (* 86: errs <- *) Select [ASend (r_errs p) [5]]
  | 5 => (* 84: defer close(recv) *) Close (r_recv p) 6
  | 6 => (* 83: defer cancel() *) Cancel c' 7
  | _ => Exit (* 82: wg.Done() *)
  end.
Definition r_read_meas : pc -> nat := fun k =>
  match k with 0 => 5 | 1 => 5 | 2 => 6 | 3 => 6 | 4 => 4 | 5 => 3 | 6 => 2 | 7 => 1 | _ => 0 end.
Definition r_read_pend (p : path) : pc -> chan -> nat := fun k d =>
  if chan_eq_dec d (r_errs p) then (if k <=? 4 then 1 else 0) else 0.

(* goroutine 90: serveWriteLoop.  conn.Write / conn.Ping return when ctx is done, when the
   frame fits the socket buffers, or with an error; the write deadline (a timer) is not modelled *)
Definition r_write_code (p : path) (r : flag) (sock : nat) : pc -> instr := fun k =>
  let c' := r ++ [0] in
  match k with
  | 0 => (* 220: select { <-ctx.Done(); <-pingTickCh; msg := <-send } *)
         Select [ADone c' 3; ARecv (r_tick p) [1] []; ARecv (r_send p) [2; 3] []]
  | 1 => (* 248: conn.Ping(ctx) *) Select [ADone c' 3; ASend (r_netout p sock) [0; 3]]
  | 2 => (* 261: conn.Write(ctx, ...) *) Select [ADone c' 3; ASend (r_netout p sock) [0; 3]]
  | 3 => (* 94: errs <- *) Select [ASend (r_errs p) [4]]
  | 4 => (* 92: defer cancel() *) Cancel c' 5
  | _ => Exit
  end.
Definition r_write_meas : pc -> nat := fun k =>
  match k with 0 => 4 | 1 => 4 | 2 => 4 | 3 => 3 | 4 => 2 | 5 => 1 | _ => 0 end.
Definition r_write_pend (p : path) : pc -> chan -> nat := fun k d =>
  if chan_eq_dec d (r_errs p) then (if k <=? 3 then 1 else 0) else 0.

Definition r_main (p : path) (r : flag) (h : pid) : proc :=
  mkProc (mkPid p 0 (S (p_rank h))) (r_main_code p r h) 9 r_main_meas (r_main_pend p).
Definition r_read (p : path) (r : flag) : proc :=
  mkProc (r_read_pid p) (r_read_code p r) 8 r_read_meas (r_read_pend p).
Definition r_write (p : path) (r : flag) (sock : nat) : proc :=
  mkProc (r_write_pid p) (r_write_code p r sock) 6 r_write_meas (r_write_pend p).

(* one WebSocket connection serving composition c under the request context r *)
Definition relay_conn (r : flag) (sock : nat) (c : comp) : net :=
  let p := [0] in
  r_main p r (main_pid (p ++ [0]) c) :: r_read p r :: r_write p r sock
  :: build (p ++ [0]) (r ++ [0]) (r_send p) (r_recv p) c.

(** * What the session leaves behind: router registry and gauges *)
(* successors of an instruction (used to state "every way to Exit passes point k") *)
Definition alt_succs (a : alt) : list pc :=
  match a with
  | ADone _ n => [n]
  | ARecv _ oks cls => oks ++ cls
  | ASend _ ns => ns
  | ADefault ns => ns
  end.
Definition succs (i : instr) : list pc :=
  match i with
  | Select alts => flat_map alt_succs alts
  | Join _ n | Cancel _ n | Close _ n | Fresh _ _ _ n => [n]
  | Exit => []
  end.

(* subscribers.subs: map[reqID]map[subID]*subscriber (lines 243-282), sub ids abstracted to numbers *)
Definition registry := list (nat * list nat).

Fixpoint reg_get (r : nat) (g : registry) : option (list nat) :=
  match g with
  | [] => None
  | (x, l) :: t => if x =? r then Some l else reg_get r t
  end.
Fixpoint reg_del (r : nat) (g : registry) : registry :=
  match g with
  | [] => []
  | (x, l) :: t => if x =? r then reg_del r t else (x, l) :: reg_del r t
  end.
Definition reg_set (r : nat) (l : list nat) (g : registry) : registry := (r, l) :: reg_del r g.

Inductive rop :=
| RSubscribe (r s : nat)     (* 254: Subscribe *)
| RUnsubscribe (r s : nat)   (* 264: Unsubscribe *)
| RUnsubscribeAll (r : nat). (* 272: UnsubscribeAll, deferred at line 158 *)

Definition rop_conn (o : rop) : nat :=
  match o with RSubscribe r _ | RUnsubscribe r _ | RUnsubscribeAll r => r end.

Definition reg_step (g : registry) (o : rop) : registry :=
  match o with
  | RSubscribe r s =>
      match reg_get r g with
      | Some l => reg_set r (s :: List.filter (fun x => negb (x =? s)) l) g
      | None => reg_set r [s] g
      end
  | RUnsubscribe r s =>
      match reg_get r g with
      | Some l => reg_set r (List.filter (fun x => negb (x =? s)) l) g
      | None => g
      end
  | RUnsubscribeAll r => reg_del r g
  end.

Definition reg_run (g : registry) (ops : list rop) : registry := fold_left reg_step ops g.

(* prometheus.go: connectionCounter (171-179) and reqCounter (351-426) *)
Record gstate := mkG { g_conn : Z; g_req : Z; g_map : registry }.

Inductive gop :=
| GStart (r : nat)          (* ServeNostrStart: connection gauge Inc; m[reqID] = {} *)
| GReq (r s : nat)          (* client REQ: if the id is new, record it and Inc *)
| GClose (r s : nat)        (* client CLOSE or server CLOSED: if recorded, delete and Dec *)
| GEnd (r : nat).           (* ServeNostrEnd: connection gauge Dec; Sub(len(m[reqID])); delete *)

Definition gop_conn (o : gop) : nat :=
  match o with GStart r | GReq r _ | GClose r _ | GEnd r => r end.

Definition g_step (st : gstate) (o : gop) : gstate :=
  match o with
  | GStart r => mkG (g_conn st + 1) (g_req st) (reg_set r [] (g_map st))
  | GReq r s =>
      match reg_get r (g_map st) with
      | Some l => if existsb (Nat.eqb s) l then st
                  else mkG (g_conn st) (g_req st + 1) (reg_set r (s :: l) (g_map st))
      | None => st   (* c.m[reqID] is a nil map: the write would panic; not reachable between Start and End *)
      end
  | GClose r s =>
      match reg_get r (g_map st) with
      | Some l => if existsb (Nat.eqb s) l
                  then mkG (g_conn st) (g_req st - 1) (reg_set r (List.filter (fun x => negb (x =? s)) l) (g_map st))
                  else st
      | None => st
      end
  | GEnd r =>
      match reg_get r (g_map st) with
      | Some l => mkG (g_conn st - 1) (g_req st - Z.of_nat (length l)) (reg_del r (g_map st))
      | None => mkG (g_conn st - 1) (g_req st) (g_map st)
      end
  end.

Definition g_run (st : gstate) (ops : list gop) : gstate := fold_left g_step ops st.

Fixpoint reg_total (g : registry) : nat :=
  match g with [] => 0 | (_, l) :: t => length l + reg_total t end.

(* keys distinct, recorded ids distinct *)
Definition reg_wf (g : registry) : Prop :=
  NoDup (List.map fst g) /\ Forall (fun e => NoDup (snd e)) g.

(* a session uses a fresh request id (uuid) and acts only between its Start and its End *)
Fixpoint g_ops_wf (open : list nat) (ops : list gop) : Prop :=
  match ops with
  | [] => True
  | GStart r :: t => ~ In r open /\ g_ops_wf (r :: open) t
  | GEnd r :: t => In r open /\ g_ops_wf (List.filter (fun x => negb (x =? r)) open) t
  | o :: t => In (gop_conn o) open /\ g_ops_wf open t
  end.

(** * The tie to the source: which source operation each instruction stands for *)
Import String.StringSyntax.
Definition S_ (x : String.string) : str := str_of_string x.
Definition sref := (String.string * nat)%type.
Definition mrow := (str * nat * instr)%type.

Definition rows_of (pr : proc) (src : pc -> list sref) : list mrow :=
  flat_map (fun k => List.map (fun r : sref => (S_ (fst r), snd r, pr_code pr k)) (src k)) (seq 0 (pr_len pr)).

Local Open Scope string_scope.

(* the guarded-send helpers of utils.go: every call site is modelled by the helper's own select *)
Definition h_sendCtx : list sref := [("sendCtx", 0)].
Definition h_server : list sref := [("sendServerMsgCtx", 0); ("sendCtx", 0)].
Definition h_client : list sref := [("sendClientMsgCtx", 0); ("sendCtx", 0)].
Definition h_try : list sref := [("trySendCtx", 0)].

Definition src_simple (k : pc) : list sref :=
  match k with
  | 0 => [("SimpleHandler.ServeNostr", 0)]
  | 1 => [("SimpleHandler.ServeNostr", 1)]
  | 2 => ("SimpleHandler.ServeNostr", 2) :: h_server
  | 4 => [("sqlite.simpleSQLiteHandler.serveClientEventMsg", 0)]
  | _ => []
  end%nat.
Definition src_router_main (k : pc) : list sref :=
  match k with
  | 0 => [("RouterHandler.ServeNostr", 0)]
  | 1 => ("RouterHandler.ServeNostr", 1) :: h_server
  | 2 => ("subscriber.SendIfMatch", 0) :: h_try
  | _ => []
  end%nat.
Definition src_router_fwd (k : pc) : list sref :=
  match k with
  | 0 => [("RouterHandler.ServeNostr$1", 0)]
  | 1 => ("RouterHandler.ServeNostr$1", 1) :: h_sendCtx
  | _ => []
  end%nat.
Definition src_mw_main (k : pc) : list sref :=
  match k with
  | 2 => [("NewSimpleMiddleware$1$1$2", 0)]
  | 3 => [("NewSimpleMiddleware$1$1$2", 1)]
  | _ => []
  end%nat.
Definition src_mw_recv (k : pc) : list sref :=
  match k with
  | 0 => [("simpleMiddlewareHandleRecv", 0)]
  | 3 => [("simpleMiddlewareHandleRecv", 1)]
  | 4 => ("simpleMiddlewareHandleRecv", 2) :: h_server
  | 5 => [("simpleMiddlewareHandleRecv", 3)]
  | 6 => ("simpleMiddlewareHandleRecv", 4) :: h_client
  | 7 => [("NewSimpleMiddleware$1$1$3", 0)]
  | _ => []
  end%nat.
Definition src_mw_send (k : pc) : list sref :=
  match k with
  | 0 => [("simpleMiddlewareHandleSend", 0)]
  | 2 => [("simpleMiddlewareHandleSend", 1)]
  | 3 => ("simpleMiddlewareHandleSend", 2) :: h_server
  | 4 => [("NewSimpleMiddleware$1$1$4", 0)]
  | _ => []
  end%nat.
Definition src_m_main (k : pc) : list sref :=
  match k with 2 => [("mergeHandlerSession.runHandlers$1", 0)] | _ => [] end%nat.
Definition src_m_rh (k : pc) : list sref :=
  match k with
  | 2 => [("mergeHandlerSession.runHandlers$1", 0)]
  | 3 => [("mergeHandlerSession.runHandlers$2", 0)]
  | _ => []
  end%nat.
Definition src_m_ms (k : pc) : list sref :=
  match k with
  | 0 => [("mergeHandlerSession.mergeSend", 0)]
  | 1 => ("mergeHandlerSession.mergeSend", 1) :: h_sendCtx
  | _ => []
  end%nat.
(* handleRecv for n = 2 *)
Definition src_m_hr (k : pc) : list sref :=
  match k with
  | 0 => [("mergeHandlerSession.handleRecv", 0)]
  | 1 => [("mergeHandlerSession.handleRecvEventMsg", 0)]
  | 2 => [("mergeHandlerSession.handleRecvEventMsg$1", 0)]
  | 3 => [("mergeHandlerSession.handleRecvReqMsg", 0); ("mergeHandlerSession.handleRecvCloseMsg", 0)]
  | 4 => [("mergeHandlerSession.handleRecvReqMsg$1", 0); ("mergeHandlerSession.handleRecvCloseMsg$1", 0)]
  | 5 => [("mergeHandlerSession.handleRecvCountMsg", 0)]
  | 6 => [("mergeHandlerSession.handleRecvCountMsg$1", 0)]
  | 7 | 8 => ("mergeHandlerSession.broadcastRecvs", 0) :: h_client
  | _ => []
  end%nat.
Definition src_m_hs (k : pc) : list sref :=
  match k with
  | 0 => [("mergeHandlerSession.handleSend", 0)]
  | 1 => [("mergeHandlerSession.handleSendEOSEMsg", 0); ("mergeHandlerSession.handleSendEventMsg", 0)]
  | 2 => [("mergeHandlerSession.handleSendEOSEMsg$1", 0); ("mergeHandlerSession.handleSendEventMsg$1", 0)]
  | 3 => [("mergeHandlerSession.handleSendOKMsg", 0)]
  | 4 => [("mergeHandlerSession.handleSendOKMsg$1", 0)]
  | 5 => [("mergeHandlerSession.handleSendCountMsg", 0)]
  | 6 => [("mergeHandlerSession.handleSendCountMsg$1", 0)]
  | 7 => ("mergeHandlerSession.handleSend", 1) :: h_server
  | _ => []
  end%nat.
Definition src_r_main (k : pc) : list sref :=
  match k with
  | 1 => [("Relay.ServeHTTP$3", 0)]
  | 3 => [("Relay.ServeHTTP", 0)]
  | 5 | 6 => [("Relay.ServeHTTP", 1)]
  | _ => []
  end%nat.
Definition src_r_read (k : pc) : list sref :=
  match k with
  | 0 => [("Relay.serveRead", 0)]
  | 1 => [("Relay.serveRead", 1)]
  | 2 => [("Relay.serveRead", 2); ("Relay.serveRead", 3); ("Relay.serveRead", 4); ("Relay.serveRead", 5);
          ("Relay.serveRead", 6); ("Relay.serveRead", 7)] ++ h_server
  | 3 => ("Relay.serveRead", 8) :: h_sendCtx
  | 4 => [("Relay.ServeHTTP$1", 0)]
  | _ => []
  end%nat.
Definition src_r_write (k : pc) : list sref :=
  match k with
  | 0 => [("Relay.serveWriteLoop", 0)]
  | 1 => [("Relay.sendPingWithTimeout", 0)]
  | 2 => [("Relay.sendMsgWithTimeout", 0)]
  | 3 => [("Relay.ServeHTTP$2", 0)]
  | _ => []
  end%nat.

Local Close Scope string_scope.

(* sample instances of every process (the parameters do not matter for the shape of the instructions) *)
Definition sp : path := [0].
Definition sctx : flag := [7].
Definition model_rows : list mrow :=
  rows_of (simple_proc SSqlite sp sctx top_send top_recv) src_simple
  ++ rows_of (router_main sp sctx top_send top_recv 4) src_router_main
  ++ rows_of (router_fwd sp sctx top_send 4) src_router_fwd
  ++ rows_of (mw_main sp sctx (mkPid [0; 0] 0 0)) src_mw_main
  ++ rows_of (mw_recv sp sctx top_send top_recv) src_mw_recv
  ++ rows_of (mw_send sp sctx top_send) src_mw_send
  ++ rows_of (m_main sp sctx 2 1 (mkPid [0; 1] 0 0)) src_m_main
  ++ rows_of (m_rh sp sctx 3 1 2 (mkPid [0; 1] 0 0)) src_m_rh
  ++ rows_of (m_ms sp sctx 2 0) src_m_ms
  ++ rows_of (m_hr sp sctx top_recv 2) src_m_hr
  ++ rows_of (m_hs sp sctx top_send) src_m_hs
  ++ rows_of (r_main sp sctx (mkPid [0; 0] 0 0)) src_r_main
  ++ rows_of (r_read sp sctx) src_r_read
  ++ rows_of (r_write sp sctx 2) src_r_write.

(* blocking operations of the source that sit in straight-line code and cannot block, with the reason *)
Inductive jkind :=
| JFreshBuf     (* send on a channel made in the same function with a capacity covering all its sends *)
| JTokenInit    (* initial fill of a freshly made 1-slot state channel *)
| JClosedRange  (* range over a channel that was closed on the line before, after all senders were joined *)
| JNotSession   (* loop of a handler-lifetime goroutine (not per session); must still select on ctx.Done() *)
| JServerWait   (* Relay.Wait: server shutdown, outside any session *)
| JNonBlocking. (* a select with a default case in a handler-lifetime goroutine: it never waits *)

Local Open Scope string_scope.
Definition straight : list (String.string * nat * jkind) := [
  ("simpleCacheHandler.ServeNostrClientMsg", 0, JFreshBuf);
  ("simpleCacheHandler.ServeNostrClientMsg", 1, JFreshBuf);
  ("newMergeHandlerSession", 0, JTokenInit);
  ("newMergeHandlerSession", 1, JTokenInit);
  ("newMergeHandlerSession", 2, JTokenInit);
  ("Relay.Wait", 0, JServerWait);
  ("Relay.ServeHTTP", 2, JClosedRange);
  ("newBufCh", 0, JFreshBuf);
  ("sqlite.simpleSQLiteHandler.serveClientReqMsg", 0, JFreshBuf);
  ("sqlite.simpleSQLiteHandler.serveClientReqMsg", 1, JFreshBuf);
  ("sqlite.simpleSQLiteHandler.serveClientReqMsg", 2, JFreshBuf);
  ("sqlite.simpleSQLiteHandler.serveClientEventMsg", 1, JFreshBuf);
  ("sqlite.simpleSQLiteHandler.serveBulkInsert", 0, JNotSession);
  ("sqlite.simpleSQLiteHandler.serveBulkInsert", 1, JNonBlocking);   (* shutdown: the queue is drained (fix F13) *)
  ("sqlite.simpleSQLiteHandler.bulkInsertWithRetry", 0, JNotSession);
  ("prometheus.simplePrometheusMiddlewareBase.ServeNostrClientMsg", 0, JFreshBuf);
  ("prometheus.simplePrometheusMiddlewareBase.ServeNostrServerMsg", 0, JFreshBuf)
]%nat.
Local Close Scope string_scope.
Local Open Scope string_scope.
Definition m_chan_makes : list (str * str * str) := [
  (S_ "RouterHandler.ServeNostr", S_ "subCh", S_ "router.buflen");
  (S_ "simpleCacheHandler.ServeNostrClientMsg", S_ "smsgCh", S_ "len(evs) + 1");
  (S_ "newMergeHandlerSession", S_ "recvs[i]", S_ "");
  (S_ "newMergeHandlerSession", S_ "sends[i]", S_ "");
  (S_ "newMergeHandlerSession", S_ "preSendCh", S_ "");
  (S_ "newMergeHandlerSession", S_ "okStat", S_ "1");
  (S_ "newMergeHandlerSession", S_ "reqStat", S_ "1");
  (S_ "newMergeHandlerSession", S_ "countStat", S_ "1");
  (S_ "mergeHandlerSession.runHandlers", S_ "errCh", S_ "1");
  (S_ "NewSimpleMiddleware$1$1", S_ "rCh", S_ "");
  (S_ "NewSimpleMiddleware$1$1", S_ "sCh", S_ "");
  (S_ "NewSimpleMiddleware$1$1", S_ "errs", S_ "2");
  (S_ "Relay.ServeHTTP", S_ "errs", S_ "3");
  (S_ "Relay.ServeHTTP", S_ "recv", S_ "");
  (S_ "Relay.ServeHTTP", S_ "send", S_ "");
  (S_ "newBufCh", S_ "ret", S_ "len(items)");
  (S_ "sqlite.newSimpleSQLiteHandler", S_ "eventCh", S_ "2 * option.EventBulkInsertNum");
  (S_ "sqlite.simpleSQLiteHandler.serveClientReqMsg", S_ "smsgCh", S_ "1");
  (S_ "sqlite.simpleSQLiteHandler.serveClientReqMsg", S_ "smsgCh", S_ "len(events) + 1");
  (S_ "sqlite.simpleSQLiteHandler.serveClientEventMsg", S_ "smsgCh", S_ "1");
  (S_ "prometheus.simplePrometheusMiddlewareBase.ServeNostrClientMsg", S_ "ret", S_ "1");
  (S_ "prometheus.simplePrometheusMiddlewareBase.ServeNostrServerMsg", S_ "res", S_ "1")
].

Definition m_defers : list (str * list str) := [
  (S_ "SimpleHandler.ServeNostr", [S_ "SimpleHandler.ServeNostr$1"]);
  (S_ "RouterHandler.ServeNostr", [S_ "cancel()"; S_ "router.subs.UnsubscribeAll(reqID)"; S_ "cancel()"]);
  (S_ "RouterHandler.ServeNostr$1", [S_ "cancel()"]);
  (S_ "simpleCacheHandler.ServeNostrClientMsg", [S_ "close(smsgCh)"]);
  (S_ "mergeHandlerSession.ServeNostr", [S_ "cancel()"]);
  (S_ "mergeHandlerSession.ServeNostr$1", [S_ "cancel()"]);
  (S_ "mergeHandlerSession.ServeNostr$2", [S_ "ss.closeRecvs()"; S_ "cancel()"]);
  (S_ "mergeHandlerSession.ServeNostr$3", [S_ "cancel()"]);
  (S_ "mergeHandlerSession.runHandlers", [S_ "mergeHandlerSession.runHandlers$1"; S_ "cancel()"]);
  (S_ "mergeHandlerSession.runHandlers$2", [S_ "cancel()"]);
  (S_ "mergeHandlerSession.handleRecvEventMsg", [S_ "mergeHandlerSession.handleRecvEventMsg$1"]);
  (S_ "mergeHandlerSession.handleRecvReqMsg", [S_ "mergeHandlerSession.handleRecvReqMsg$1"]);
  (S_ "mergeHandlerSession.handleRecvCloseMsg", [S_ "mergeHandlerSession.handleRecvCloseMsg$1"]);
  (S_ "mergeHandlerSession.handleRecvCountMsg", [S_ "mergeHandlerSession.handleRecvCountMsg$1"]);
  (S_ "mergeHandlerSession.handleSendEOSEMsg", [S_ "mergeHandlerSession.handleSendEOSEMsg$1"]);
  (S_ "mergeHandlerSession.handleSendEventMsg", [S_ "mergeHandlerSession.handleSendEventMsg$1"]);
  (S_ "mergeHandlerSession.handleSendOKMsg", [S_ "mergeHandlerSession.handleSendOKMsg$1"]);
  (S_ "mergeHandlerSession.handleSendCountMsg", [S_ "mergeHandlerSession.handleSendCountMsg$1"]);
  (S_ "NewSimpleMiddleware$1$1", [S_ "NewSimpleMiddleware$1$1$1"; S_ "cancel()"; S_ "NewSimpleMiddleware$1$1$2"; S_ "cancel()"]);
  (S_ "NewSimpleMiddleware$1$1$3", [S_ "cancel()"; S_ "close(rCh)"]);
  (S_ "NewSimpleMiddleware$1$1$4", [S_ "cancel()"]);
  (S_ "Relay.ServeHTTP", [S_ "relay.wg.Done()"; S_ "cancel()"; S_ "conn.Close(websocket.StatusInternalError, """")"]);
  (S_ "Relay.ServeHTTP$1", [S_ "wg.Done()"; S_ "cancel()"; S_ "close(recv)"]);
  (S_ "Relay.ServeHTTP$2", [S_ "wg.Done()"; S_ "cancel()"]);
  (S_ "Relay.ServeHTTP$3", [S_ "cancel()"]);
  (S_ "Relay.serveWriteLoop", [S_ "pingTicker.Stop()"]);
  (S_ "Relay.sendPingWithTimeout", [S_ "cancel()"]);
  (S_ "Relay.sendMsgWithTimeout", [S_ "cancel()"]);
  (S_ "sqlite.simpleSQLiteHandler.serveClientReqMsg", [S_ "close(smsgCh)"; S_ "close(smsgCh)"]);
  (S_ "sqlite.simpleSQLiteHandler.serveClientEventMsg", [S_ "close(smsgCh)"]);
  (S_ "sqlite.simpleSQLiteHandler.serveBulkInsert", [S_ "ticker.Stop()"; S_ "cancel()"]);
  (S_ "prometheus.simplePrometheusMiddlewareBase.ServeNostrClientMsg", [S_ "close(ret)"]);
  (S_ "prometheus.simplePrometheusMiddlewareBase.ServeNostrServerMsg", [S_ "close(res)"])
].

Definition m_spawns : list (str * str) := [
  (S_ "RouterHandler.ServeNostr", S_ "RouterHandler.ServeNostr$1");
  (S_ "mergeHandlerSession.ServeNostr", S_ "mergeHandlerSession.ServeNostr$1");
  (S_ "mergeHandlerSession.ServeNostr", S_ "mergeHandlerSession.ServeNostr$2");
  (S_ "mergeHandlerSession.ServeNostr", S_ "mergeHandlerSession.ServeNostr$3");
  (S_ "mergeHandlerSession.runHandlers", S_ "mergeHandlerSession.runHandlers$2");
  (S_ "mergeHandlerSession.mergeSend", S_ "ss.mergeSend(ctx, sends[:idx])");
  (S_ "NewSimpleMiddleware$1$1", S_ "NewSimpleMiddleware$1$1$3");
  (S_ "NewSimpleMiddleware$1$1", S_ "NewSimpleMiddleware$1$1$4");
  (S_ "Relay.ServeHTTP", S_ "Relay.ServeHTTP$1");
  (S_ "Relay.ServeHTTP", S_ "Relay.ServeHTTP$2");
  (S_ "sqlite.newSimpleSQLiteHandler", S_ "h.serveBulkInsert(ctx)")
].

Definition m_closes : list (str * str) := [
  (S_ "simpleCacheHandler.ServeNostrClientMsg", S_ "smsgCh");
  (S_ "mergeHandlerSession.closeRecvs", S_ "r");
  (S_ "NewSimpleMiddleware$1$1$3", S_ "rCh");
  (S_ "Relay.ServeHTTP$1", S_ "recv");
  (S_ "Relay.ServeHTTP", S_ "errs");
  (S_ "newClosedBufCh", S_ "ret");
  (S_ "sqlite.simpleSQLiteHandler.serveClientReqMsg", S_ "smsgCh");
  (S_ "sqlite.simpleSQLiteHandler.serveClientReqMsg", S_ "smsgCh");
  (S_ "sqlite.simpleSQLiteHandler.serveClientEventMsg", S_ "smsgCh");
  (S_ "prometheus.simplePrometheusMiddlewareBase.ServeNostrClientMsg", S_ "ret");
  (S_ "prometheus.simplePrometheusMiddlewareBase.ServeNostrServerMsg", S_ "res")
].

Local Close Scope string_scope.

(** ** the computed check *)
Definition is_real_done (a : alt) : bool :=
  match a with ADone f _ => negb (list_eqb Nat.eqb f todo_ctx) | _ => false end.
Definition is_done (a : alt) : bool := match a with ADone _ _ => true | _ => false end.
Definition is_recv (a : alt) : bool := match a with ARecv _ _ _ => true | _ => false end.
Definition is_send (a : alt) : bool := match a with ASend _ _ => true | _ => false end.
Definition is_default (a : alt) : bool := match a with ADefault _ => true | _ => false end.
Definition cnt {A} (f : A -> bool) (l : list A) : nat := length (List.filter f l).

Definition case_is_done (c : bp_case) := match c with CDone _ => true | _ => false end.
Definition case_is_recv (c : bp_case) := match c with CRecv _ => true | _ => false end.
Definition case_is_send (c : bp_case) := match c with CSend _ => true | _ => false end.
Definition case_is_default (c : bp_case) := match c with CDefault => true | _ => false end.

Definition nonplain (c : chan) : bool := match c_class c with Plain => false | _ => true end.
Definition is_token (c : chan) : bool := match c_class c with Token => true | _ => false end.

(* does instruction i implement source operation k with the same "has ctx.Done()" and "has default" bits,
   and, if the source operation is unguarded, is it one of the justified kinds? *)
Definition compat (k : bp_kind) (d df : bool) (i : instr) : bool :=
  match k, i with
  | BSelect cases, Select alts =>
      (cnt case_is_done cases =? cnt is_done alts) && (cnt case_is_recv cases =? cnt is_recv alts)
      && (cnt case_is_send cases =? cnt is_send alts) && (cnt case_is_default cases =? cnt is_default alts)
      && Bool.eqb d (0 <? cnt is_done alts) && Bool.eqb df (0 <? cnt is_default alts)
  | BCall _ _ _, Select alts =>
      (cnt is_send alts =? 1) && (cnt is_recv alts =? 0)
      && Bool.eqb d (0 <? cnt is_real_done alts) && Bool.eqb df (0 <? cnt is_default alts)
  | BLib _ _, Select alts =>
      Bool.eqb d (0 <? cnt is_real_done alts) && negb df
  | BSend _, Select [ASend c _] => negb d && negb df && nonplain c        (* buffered error channel or token put *)
  | BRecv _, Select [ARecv c _ _] => negb d && negb df && is_token c      (* token take *)
  | BRecv _, Select [ADone f _] => d && negb df                           (* <-ctx.Done() *)
  | BRecv _, Join _ _ => negb d && negb df                                (* <-errCh of a goroutine that sends once and exits *)
  | BWait _, Join _ _ => negb d && negb df                                (* wg.Wait() *)
  | _, _ => false
  end.

Definition jcompat (k : bp_kind) (d df : bool) (j : jkind) : bool :=
  match j, k with
  | JFreshBuf, BSend _ => negb d && negb df
  | JTokenInit, BSend _ => negb d && negb df
  | JClosedRange, BRange _ => true
  | JNotSession, BSelect _ => d
  | JServerWait, BWait _ => true
  | JNonBlocking, BSelect _ => df
  | _, _ => false
  end.

Definition row_key_eqb (f : str) (o : nat) (f' : str) (o' : nat) : bool := str_eqb f f' && (o =? o').

Definition covered (g : bp_row) : bool :=
  match g with
  | (f, o, k, d, df) =>
      let ms := List.filter (fun m : mrow => match m with (f', o', _) => row_key_eqb f o f' o' end) model_rows in
      let ss := List.filter (fun s : String.string * nat * jkind => match s with (f', o', _) => row_key_eqb f o (S_ f') o' end) straight in
      match ms, ss with
      | [], [ (_, _, j) ] => jcompat k d df j
      | _ :: _, [] => forallb (fun m : mrow => match m with (_, _, i) => compat k d df i end) ms
      | _, _ => false
      end
  end.

Definition in_source (f : str) (o : nat) : bool :=
  existsb (fun g : bp_row => match g with (f', o', _, _, _) => row_key_eqb f o f' o' end) g_blocking_points.

Definition str3_eqb (a b : str * str * str) : bool :=
  match a, b with (a1, a2, a3), (b1, b2, b3) => str_eqb a1 b1 && str_eqb a2 b2 && str_eqb a3 b3 end.
Definition str2_eqb (a b : str * str) : bool :=
  match a, b with (a1, a2), (b1, b2) => str_eqb a1 b1 && str_eqb a2 b2 end.
Definition strl_eqb (a b : str * list str) : bool :=
  match a, b with (a1, a2), (b1, b2) => str_eqb a1 b1 && list_eqb str_eqb a2 b2 end.

(* every blocking operation of the source is implemented by the model (or is a justified
   straight-line one), nothing in the model refers to an operation that is not in the source, and
   channel capacities, deferred calls, goroutines and close() calls are the ones the model assumes *)
Definition covers : bool :=
  forallb covered g_blocking_points
  && forallb (fun m : mrow => match m with (f, o, _) => in_source f o end) model_rows
  && forallb (fun s : String.string * nat * jkind => match s with (f, o, _) => in_source (S_ f) o end) straight
  && list_eqb str3_eqb g_chan_makes m_chan_makes
  && list_eqb strl_eqb g_defers m_defers
  && list_eqb str2_eqb g_spawns m_spawns
  && list_eqb str2_eqb g_closes m_closes.
