(* HandlersProofs.v — C16: proofs about the handler models of Handlers.v.
   Part 1: the reply sequence of a session has the shape the property states
           (cache handler, SQLite handler under every schedule of its inserter).
   Part 2: dump/restore: re-adding the listing of a cache that satisfies the
           representation invariant into an empty cache of the same capacity
           takes the clean path of [c_add] at every step (never suppressed:
           closedness; never a replacement: one event per key; never an
           eviction: the capacity bound) and rebuilds the tree exactly and the
           index up to the order inside its sets, which [c_find] cannot see. *)
From Coq Require Import Permutation Sorted.
From Moc Require Import Base Match Msg Cache CacheSpec CacheInv Handlers.
From Moc.Gen Require Import GenMsg GenMatch GenCache.
Open Scope Z_scope.

(* ================================================================== *)
(** * Part 1: session shape *)

Lemma cache_session_shape_holds : forall msgs s s' out,
  cache_session s msgs = Ok (s', out) -> cache_session_shape s msgs out.
Proof.
  unfold cache_session, cache_session_shape.
  induction msgs as [|m rest IH]; intros s s' out H; cbn [simple_session] in H.
  - inversion H; subst. constructor.
  - destruct (cache_base s m) as [[s1 ch]|] eqn:Hb; [|discriminate].
    destruct (simple_session cache_base s1 rest) as [[s2 o]|] eqn:Hr; [|discriminate].
    inversion H; subst s' out; clear H. apply IH in Hr.
    destruct m as [e|sub fs|sub|e|sub fs]; cbn [cache_base] in Hb.
    + destruct (c_add s e) as [sa added] eqn:Ha. inversion Hb; subst s1 ch; clear Hb.
      cbn [chan_items app].
      eapply sh_event; [| |exact Hr].
      * exists added, (if added then [] else dup_prefix), (if added then [] else already_have).
        rewrite Ha. cbn [snd]. destruct added; repeat split; auto. discriminate.
      * unfold cache_after_event. now rewrite Ha.
    + destruct (c_find s fs) as [evs|] eqn:Hf; [|discriminate].
      inversion Hb; subst s1 ch; clear Hb. cbn [chan_items].
      rewrite <- app_assoc. cbn [app].
      apply sh_req; [exact Hf | exact Hr].
    + inversion Hb; subst s1 ch. cbn [chan_items app]. now apply sh_close.
    + inversion Hb; subst s1 ch. cbn [chan_items app]. now apply sh_auth.
    + inversion Hb; subst s1 ch. cbn [chan_items app]. now apply sh_count.
Qed.

(** nothing else than what the shape lists is ever sent: the number of
    replies of each kind is determined by the requests *)
Lemma cache_session_counts : forall msgs s s' out,
  cache_session s msgs = Ok (s', out) ->
  count_occ_b (fun r => match r with SOk _ _ _ _ => true | _ => false end) out =
    count_occ_b (fun m => match m with CEvent _ => true | _ => false end) msgs /\
  count_occ_b (fun r => match r with SEose _ => true | _ => false end) out =
    count_occ_b (fun m => match m with CReq _ _ => true | _ => false end) msgs /\
  count_occ_b (fun r => match r with SCount _ _ _ => true | _ => false end) out =
    count_occ_b (fun m => match m with CCount _ _ => true | _ => false end) msgs /\
  count_occ_b (fun r => match r with SOk _ _ _ _ | SEose _ | SCount _ _ _ | SEvent _ _ => false | _ => true end) out = 0%nat.
Proof.
  unfold cache_session.
  induction msgs as [|m rest IH]; intros s s' out H; cbn [simple_session] in H.
  - inversion H; subst. repeat split.
  - destruct (cache_base s m) as [[s1 ch]|] eqn:Hb; [|discriminate].
    destruct (simple_session cache_base s1 rest) as [[s2 o]|] eqn:Hr; [|discriminate].
    inversion H; subst s' out; clear H. apply IH in Hr. destruct Hr as (H1 & H2 & H3 & H4).
    rewrite !count_occ_b_app, H1, H2, H3, H4.
    destruct m as [e|sub fs|sub|e|sub fs]; cbn [cache_base] in Hb.
    + destruct (c_add s e) as [sa added]. inversion Hb; subst. destruct added; cbn; repeat apply conj; reflexivity.
    + destruct (c_find s fs) as [evs|]; [|discriminate]. inversion Hb; subst. cbn [chan_items].
      rewrite !count_occ_b_app.
      assert (E : forall (p : smsg -> bool) (l : list event), (forall sb e, p (SEvent sb e) = false) ->
                  count_occ_b p (List.map (SEvent sub) l) = 0%nat).
      { intros p l Hp. induction l as [|x l IHe]; cbn; [reflexivity|]. rewrite Hp. exact IHe. }
      rewrite !E by reflexivity. cbn. repeat apply conj; reflexivity.
    + inversion Hb; subst. cbn. repeat apply conj; reflexivity.
    + inversion Hb; subst. cbn. repeat apply conj; reflexivity.
    + inversion Hb; subst. cbn. repeat apply conj; reflexivity.
Qed.

Section SqliteProofs.
  Variable db : Type.
  Variable query : db -> list rfilter -> option (list event).
  Variable insert_batch : db -> list event -> db.
  Variable bulk_num : nat.

  Lemma bg_reach_fold : forall l s, bg_reach db insert_batch bulk_num s (fold_left (bg_step db insert_batch bulk_num) l s).
  Proof.
    induction l as [|b l IH]; intro s; cbn [fold_left].
    - apply bg_refl.
    - eapply bg_more. apply IH.
  Qed.

  Lemma sqlite_session_shape_holds : forall msgs sched s st' out,
    sqlite_session db query insert_batch bulk_num sched s msgs = Ok (st', out) ->
    sqlite_session_shape db query insert_batch bulk_num s msgs out.
  Proof.
    unfold sqlite_session, sqlite_session_shape.
    induction msgs as [|m rest IH]; intros sched s st' out H; cbn [simple_session] in H.
    - inversion H; subst. constructor.
    - unfold sqlite_base at 1 in H. cbn [fst snd] in H.
      set (s0 := fold_left (bg_step db insert_batch bulk_num) (hd [] sched) s) in *.
      destruct (sqlite_reply db query s0 m) as [s1 ch] eqn:Hb.
      destruct (simple_session (sqlite_base db query insert_batch bulk_num) (tl sched, s1) rest)
        as [[s2 o]|] eqn:Hr; [|discriminate].
      inversion H; subst st' out; clear H. apply IH in Hr.
      eapply sh_bg; [apply (bg_reach_fold (hd [] sched) s)|]. fold s0.
      destruct m as [e|sub fs|sub|e|sub fs]; cbn [sqlite_reply default_reply] in Hb;
        inversion Hb; subst s1 ch; clear Hb; cbn [chan_items app].
      + eapply sh_event; [| |exact Hr].
        * exists [], []. reflexivity.
        * reflexivity.
      + destruct (query (sq_db s0) fs) as [evs|] eqn:Hq.
        * rewrite <- app_assoc. cbn [app]. apply sh_req; [now left | exact Hr].
        * apply (sh_req (sqlite_ok_reply db) (sqlite_after_event db) (sqlite_matches db query)
                          (bg_reach db insert_batch bulk_num) s0 sub fs [] rest o);
            [right; split; [exact Hq | reflexivity] | exact Hr].
      + now apply sh_close.
      + now apply sh_auth.
      + now apply sh_count.
  Qed.

  (** the SQLite session never panics in the model *)
  Lemma sqlite_session_total : forall msgs sched s,
    exists st' out, sqlite_session db query insert_batch bulk_num sched s msgs = Ok (st', out).
  Proof.
    unfold sqlite_session.
    induction msgs as [|m rest IH]; intros sched s; cbn [simple_session].
    - eauto.
    - unfold sqlite_base at 1. cbn [fst snd].
      destruct (sqlite_reply db query (fold_left (bg_step db insert_batch bulk_num) (hd [] sched) s) m) as [s1 ch].
      destruct (IH (tl sched) s1) as (st' & out & E). rewrite E. eauto.
  Qed.
End SqliteProofs.

(* ================================================================== *)
(** * Part 2: dump / restore *)

(* ------------------------------------------------------------------ *)
(** ** The order of the tree *)

Lemma str_ltb_irrefl : forall a, str_ltb a a = false.
Proof.
  induction a as [|x a IH]; cbn; [reflexivity|].
  rewrite N.ltb_irrefl, N.eqb_refl. exact IH.
Qed.

Lemma str_ltb_trans : forall a b c, str_ltb a b = true -> str_ltb b c = true -> str_ltb a c = true.
Proof.
  induction a as [|x a IH]; intros [|y b] [|z c]; cbn; try congruence.
  destruct (N.ltb_spec x y), (N.eqb_spec x y), (N.ltb_spec y z), (N.eqb_spec y z),
           (N.ltb_spec x z), (N.eqb_spec x z); try congruence; try lia.
  subst. apply IH.
Qed.

Lemma str_ltb_total : forall a b, str_ltb a b = false -> str_ltb b a = false -> a = b.
Proof.
  induction a as [|x a IH]; intros [|y b]; cbn; try congruence.
  destruct (N.ltb_spec x y), (N.eqb_spec x y), (N.ltb_spec y x), (N.eqb_spec y x);
    try congruence; try lia.
  subst. intros H1 H2. f_equal. now apply IH.
Qed.

Lemma str_ltb_asym : forall a b, str_ltb a b = true -> str_ltb b a = false.
Proof.
  intros a b H. destruct (str_ltb b a) eqn:E; [|reflexivity].
  pose proof (str_ltb_trans _ _ _ H E) as C. rewrite str_ltb_irrefl in C. discriminate.
Qed.

(** the one fact used about the generated comparison *)
Lemma g_created_key_lt_spec : forall a_ts a_id b_ts b_id,
  g_created_key_lt a_ts a_id b_ts b_id = true <->
  b_ts < a_ts \/ (b_ts = a_ts /\ str_ltb b_id a_id = true).
Proof.
  intros. unfold g_created_key_lt.
  rewrite orb_true_iff, andb_true_iff, Z.ltb_lt, Z.eqb_eq. reflexivity.
Qed.

Definition tlt (a b : event) : Prop := tkey_lt a b = true.

Lemma tkey_lt_iff a b :
  tkey_lt a b = true <-> ev_ts b < ev_ts a \/ (ev_ts b = ev_ts a /\ str_ltb (ev_id b) (ev_id a) = true).
Proof. unfold tkey_lt. apply g_created_key_lt_spec. Qed.

Lemma tkey_lt_irrefl a : tkey_lt a a = false.
Proof.
  destruct (tkey_lt a a) eqn:E; [|reflexivity].
  apply tkey_lt_iff in E. destruct E as [E|[_ E]]; [lia|]. rewrite str_ltb_irrefl in E. discriminate.
Qed.

Lemma tkey_lt_trans a b c : tkey_lt a b = true -> tkey_lt b c = true -> tkey_lt a c = true.
Proof.
  rewrite !tkey_lt_iff. intros [H1|[H1 H1']] [H2|[H2 H2']].
  - left; lia.
  - left; lia.
  - left; lia.
  - right. split; [lia|]. eapply str_ltb_trans; eassumption.
Qed.

Lemma tkey_lt_asym a b : tkey_lt a b = true -> tkey_lt b a = false.
Proof.
  intro H. destruct (tkey_lt b a) eqn:E; [|reflexivity].
  pose proof (tkey_lt_trans _ _ _ H E) as C. rewrite tkey_lt_irrefl in C. discriminate.
Qed.

Lemma tkey_total a b : tkey_lt a b = false -> tkey_lt b a = false -> ev_ts a = ev_ts b /\ ev_id a = ev_id b.
Proof.
  intros H1 H2.
  assert (N1 : ~ (ev_ts b < ev_ts a \/ (ev_ts b = ev_ts a /\ str_ltb (ev_id b) (ev_id a) = true))).
  { intro C. apply tkey_lt_iff in C. congruence. }
  assert (N2 : ~ (ev_ts a < ev_ts b \/ (ev_ts a = ev_ts b /\ str_ltb (ev_id a) (ev_id b) = true))).
  { intro C. apply tkey_lt_iff in C. congruence. }
  assert (T : ev_ts a = ev_ts b) by lia. split; [exact T|].
  apply str_ltb_total.
  - destruct (str_ltb (ev_id a) (ev_id b)) eqn:E; [|reflexivity]. exfalso. apply N2. right. auto.
  - destruct (str_ltb (ev_id b) (ev_id a)) eqn:E; [|reflexivity]. exfalso. apply N1. right. auto.
Qed.

Lemma tkey_eq_iff a b : tkey_eq a b = true <-> tkey_lt a b = false /\ tkey_lt b a = false.
Proof. unfold tkey_eq. rewrite andb_true_iff, !negb_true_iff. reflexivity. Qed.

Lemma tkey_eq_sym a b : tkey_eq a b = tkey_eq b a.
Proof. unfold tkey_eq. apply andb_comm. Qed.

Lemma tkey_eq_ids a b : tkey_eq a b = true -> ev_id a = ev_id b.
Proof. intro H. apply tkey_eq_iff in H as [H1 H2]. now apply tkey_total. Qed.

Lemma tkey_lt_not_eq a b : tkey_lt a b = true -> tkey_eq a b = false.
Proof. intro H. unfold tkey_eq. now rewrite H. Qed.

Lemma tkey_trichotomy a b : tkey_eq a b = false -> tkey_lt a b = false -> tkey_lt b a = true.
Proof.
  intros He Hl. destruct (tkey_lt b a) eqn:E; [reflexivity|].
  assert (tkey_eq a b = true) by (apply tkey_eq_iff; auto). congruence.
Qed.
(* ------------------------------------------------------------------ *)
(** ** Insertion into the sorted tree *)

Lemma tree_set_In x l y : In y (tree_set x l) -> y = x \/ In y l.
Proof.
  induction l as [|z l IH]; cbn.
  - intros [H|[]]; auto.
  - destruct (tkey_lt x z); [cbn; intuition|].
    destruct (tkey_eq x z); cbn; intuition.
Qed.

Lemma tree_set_In_new x l : In x (tree_set x l).
Proof.
  induction l as [|z l IH]; cbn; [auto|].
  destruct (tkey_lt x z); [cbn; auto|].
  destruct (tkey_eq x z); cbn; auto.
Qed.

Definition fresh (x : event) (l : list event) : Prop := forall y, In y l -> tkey_eq x y = false.

Lemma tree_set_In_old x l y : fresh x l -> In y l -> In y (tree_set x l).
Proof.
  induction l as [|z l IH]; cbn; [tauto|].
  intros F Hy.
  destruct (tkey_lt x z); [cbn; auto|].
  rewrite (F z) by (now left).
  destruct Hy as [->|Hy]; [now left|]. right. apply IH; [|exact Hy].
  intros w Hw. apply F. now right.
Qed.

Lemma tree_set_length x l : fresh x l -> length (tree_set x l) = S (length l).
Proof.
  induction l as [|z l IH]; cbn; [reflexivity|].
  intro F. destruct (tkey_lt x z); [reflexivity|].
  rewrite (F z) by (now left). cbn. f_equal. apply IH.
  intros w Hw. apply F. now right.
Qed.

Lemma tree_set_perm x l : fresh x l -> Permutation (tree_set x l) (x :: l).
Proof.
  induction l as [|z l IH]; cbn; [reflexivity|].
  intro F. destruct (tkey_lt x z); [reflexivity|].
  rewrite (F z) by (now left).
  rewrite IH; [apply perm_swap|]. intros w Hw. apply F. now right.
Qed.

Lemma tree_set_sorted x l :
  StronglySorted tlt l -> fresh x l -> StronglySorted tlt (tree_set x l).
Proof.
  induction l as [|z l IH]; cbn; intros S F.
  - repeat constructor.
  - inversion S as [|? ? S' Hz]; subst.
    destruct (tkey_lt x z) eqn:Hl.
    + constructor; [exact S|]. constructor; [exact Hl|].
      rewrite Forall_forall in *. intros w Hw. eapply tkey_lt_trans; [exact Hl|]. now apply Hz.
    + assert (Fz : tkey_eq x z = false) by (apply F; now left). rewrite Fz.
      assert (F' : fresh x l) by (intros w Hw; apply F; now right).
      constructor; [now apply IH|].
      rewrite Forall_forall in *. intros w Hw. apply tree_set_In in Hw as [->|Hw].
      * now apply tkey_trichotomy.
      * now apply Hz.
Qed.

Lemma tree_set_end x l : (forall y, In y l -> tlt y x) -> tree_set x l = l ++ [x].
Proof.
  induction l as [|z l IH]; cbn; [reflexivity|].
  intro H. assert (Hz : tkey_lt z x = true) by (apply H; now left).
  rewrite (tkey_lt_asym _ _ Hz).
  rewrite tkey_eq_sym, (tkey_lt_not_eq _ _ Hz). f_equal. apply IH. intros y Hy. apply H. now right.
Qed.

Definition ins_all (xs acc : list event) : list event := fold_left (fun a x => tree_set x a) xs acc.

(** pairwise distinct tree keys *)
Fixpoint tknd (l : list event) : Prop :=
  match l with
  | [] => True
  | x :: r => fresh x r /\ tknd r
  end.

Definition cross (xs acc : list event) : Prop := forall x, In x xs -> fresh x acc.

Lemma cross_step x xs acc : tknd (x :: xs) -> cross (x :: xs) acc -> cross xs (tree_set x acc).
Proof.
  intros [Fx _] C z Hz y Hy. apply tree_set_In in Hy as [->|Hy].
  - rewrite tkey_eq_sym. now apply Fx.
  - apply (C z); [now right | exact Hy].
Qed.

Lemma ins_all_spec : forall xs acc,
  tknd xs -> cross xs acc -> StronglySorted tlt acc ->
  StronglySorted tlt (ins_all xs acc) /\ Permutation (ins_all xs acc) (xs ++ acc).
Proof.
  induction xs as [|x xs IH]; intros acc T C S; cbn.
  - split; [exact S | reflexivity].
  - assert (Fx : fresh x acc) by (apply C; now left).
    destruct (IH (tree_set x acc)) as [S' P'].
    + apply T.
    + now apply cross_step.
    + now apply tree_set_sorted.
    + split; [exact S'|]. unfold ins_all in P'. rewrite P'.
      rewrite (tree_set_perm _ _ Fx). symmetry. apply Permutation_middle.
Qed.

Lemma sorted_unique : forall l1 l2,
  StronglySorted tlt l1 -> StronglySorted tlt l2 -> (forall x, In x l1 <-> In x l2) -> l1 = l2.
Proof.
  induction l1 as [|a l1 IH]; intros [|b l2] S1 S2 E.
  - reflexivity.
  - exfalso. apply (proj2 (E b)). now left.
  - exfalso. apply (proj1 (E a)). now left.
  - inversion S1 as [|? ? S1' H1]; inversion S2 as [|? ? S2' H2]; subst.
    rewrite Forall_forall in H1, H2.
    assert (Eab : a = b).
    { destruct (proj1 (E a) (or_introl eq_refl)) as [->|Ha]; [reflexivity|].
      destruct (proj2 (E b) (or_introl eq_refl)) as [->|Hb]; [reflexivity|].
      pose proof (H2 _ Ha) as L1. pose proof (H1 _ Hb) as L2. unfold tlt in *.
      rewrite (tkey_lt_asym _ _ L1) in L2. discriminate. }
    subst b. f_equal. apply IH; [assumption..|].
    intro x. split; intro Hx.
    + destruct (proj1 (E x) (or_intror Hx)) as [<-|Hx2]; [|exact Hx2].
      pose proof (H1 _ Hx) as L. unfold tlt in L. rewrite tkey_lt_irrefl in L. discriminate.
    + destruct (proj2 (E x) (or_intror Hx)) as [<-|Hx1]; [|exact Hx1].
      pose proof (H2 _ Hx) as L. unfold tlt in L. rewrite tkey_lt_irrefl in L. discriminate.
Qed.

Lemma ins_all_perm_eq xs ys :
  tknd xs -> tknd ys -> Permutation xs ys -> ins_all xs [] = ins_all ys [].
Proof.
  intros Tx Ty P.
  destruct (ins_all_spec xs [] Tx) as [Sx Px]; [intros ? ? ? [] | constructor |].
  destruct (ins_all_spec ys [] Ty) as [Sy Py]; [intros ? ? ? [] | constructor |].
  apply sorted_unique; [assumption..|].
  rewrite app_nil_r in Px, Py. intro x. split; intro H.
  - eapply Permutation_in; [symmetry; exact Py|]. eapply Permutation_in; [exact P|].
    eapply Permutation_in; [exact Px | exact H].
  - eapply Permutation_in; [symmetry; exact Px|]. eapply Permutation_in; [symmetry; exact P|].
    eapply Permutation_in; [exact Py | exact H].
Qed.

Lemma ins_all_sorted_id : forall l acc,
  StronglySorted tlt (acc ++ l) -> ins_all l acc = acc ++ l.
Proof.
  induction l as [|x l IH]; intros acc S; cbn.
  - now rewrite app_nil_r.
  - rewrite tree_set_end.
    + rewrite IH; rewrite <- app_assoc; [reflexivity | exact S].
    + intros y Hy. clear IH. induction acc as [|a acc IHa]; [destruct Hy|].
      cbn in S. inversion S as [|? ? S' Ha]; subst. destruct Hy as [->|Hy].
      * rewrite Forall_forall in Ha. apply Ha. apply in_or_app. right. now left.
      * now apply IHa.
Qed.

(* ------------------------------------------------------------------ *)
(** ** Truncation commutes with insertion *)

Lemma firstn_pred {A} : forall (m : nat) (u v : list A),
  firstn (S m) u = firstn (S m) v -> firstn m u = firstn m v.
Proof.
  induction m as [|m IHm]; intros u v Huv; [reflexivity|].
  destruct u as [|u0 u], v as [|v0 v]; cbn in Huv; try discriminate; [reflexivity|].
  inversion Huv; subst. cbn. f_equal. now apply IHm.
Qed.

Lemma firstn_tree_set y : forall n l1 l2,
  firstn n l1 = firstn n l2 -> firstn n (tree_set y l1) = firstn n (tree_set y l2).
Proof.
  induction n as [|n IH]; intros l1 l2 E; [reflexivity|].
  destruct l1 as [|a l1], l2 as [|b l2]; cbn in E; try discriminate; [reflexivity|].
  inversion E as [[Eab E']]; subst b. cbn [tree_set].
  destruct (tkey_lt y a).
  - cbn [firstn]. f_equal. apply firstn_pred. cbn [firstn]. now f_equal.
  - destruct (tkey_eq y a); cbn [firstn]; f_equal; [exact E' | now apply IH].
Qed.

Lemma firstn_ins_all n : forall ys l1 l2,
  firstn n l1 = firstn n l2 -> firstn n (ins_all ys l1) = firstn n (ins_all ys l2).
Proof.
  induction ys as [|y ys IH]; intros l1 l2 E; cbn; [exact E|].
  apply IH. now apply firstn_tree_set.
Qed.

Lemma firstn_In {A} (n : nat) (l : list A) x : In x (firstn n l) -> In x l.
Proof.
  revert l; induction n as [|n IH]; intros [|a l]; cbn; try tauto.
  intros [->|H]; auto.
Qed.
(* ------------------------------------------------------------------ *)
(** ** The bounded insertion of the index path *)

Definition su_filter (since until : option Z) : rfilter := mkFilter None None None None since until None.
Definition su_ok (since until : option Z) (x : event) : bool :=
  negb (optb since (g_since_reject (ev_ts x))) && negb (optb until (g_until_reject (ev_ts x))).

Lemma match_impl_su since until x : match_impl x (su_filter since until) = Ok (su_ok since until x).
Proof.
  unfold match_impl, su_filter, su_ok, tags_part. cbn.
  destruct (optb since (g_since_reject (ev_ts x))); [reflexivity|].
  destruct (optb until (g_until_reject (ev_ts x))); reflexivity.
Qed.

Lemma g_index_over_limit_spec c l : g_index_over_limit c l = true <-> c > l.
Proof. unfold g_index_over_limit. rewrite Z.gtb_lt. lia. Qed.

Lemma tknd_filter p l : tknd l -> tknd (filter p l).
Proof.
  induction l as [|x l IH]; cbn; [auto|]. intros [F T].
  destruct (p x); cbn; [split|]; auto.
  intros y Hy. apply filter_In in Hy as [Hy _]. now apply F.
Qed.

Lemma bounded_insert_spec since until limit : forall cands acc cnt,
  tknd cands -> cross cands acc ->
  cnt = Z.of_nat (length acc) -> (length acc <= Z.to_nat limit)%nat ->
  bounded_insert cands (su_filter since until) limit acc cnt =
  Ok (firstn (Z.to_nat limit) (ins_all (filter (su_ok since until) cands) acc)).
Proof.
  induction cands as [|x rest IH]; intros acc cnt T C Hc Hl.
  - cbn. now rewrite firstn_all2.
  - cbn [bounded_insert filter]. rewrite match_impl_su.
    destruct (su_ok since until x) eqn:Hx.
    + assert (Fx : fresh x acc) by (apply C; now left).
      pose proof (tree_set_length _ _ Fx) as Hlen.
      pose proof (cross_step _ _ _ T C) as C1.
      destruct (g_index_over_limit (cnt + 1) limit) eqn:Ho.
      * apply g_index_over_limit_spec in Ho.
        assert (HN : length acc = Z.to_nat limit) by lia.
        rewrite removelast_firstn_len, Hlen. cbn [Nat.pred]. rewrite HN.
        rewrite IH.
        -- cbn [ins_all fold_left]. f_equal. apply firstn_ins_all.
           rewrite firstn_firstn. now rewrite Nat.min_id.
        -- apply T.
        -- intros z Hz y Hy. apply (C1 z Hz). eapply firstn_In; exact Hy.
        -- rewrite firstn_length, Hlen. lia.
        -- rewrite firstn_length. lia.
      * assert (Ho' : ~ cnt + 1 > limit) by (intro G; apply g_index_over_limit_spec in G; congruence).
        rewrite IH; [reflexivity | apply T | exact C1 | rewrite Hlen; lia | rewrite Hlen; lia].
    + apply IH; [apply T | | exact Hc | exact Hl].
      intros z Hz. apply C. now right.
Qed.

(** two candidate lists with the same members give the same answer *)
Lemma bounded_insert_perm since until limit c1 c2 :
  tknd c1 -> tknd c2 -> Permutation c1 c2 ->
  bounded_insert c1 (su_filter since until) limit [] 0 =
  bounded_insert c2 (su_filter since until) limit [] 0.
Proof.
  intros T1 T2 P.
  rewrite !bounded_insert_spec; try assumption; try reflexivity; try (cbn; lia);
    try (intros ? ? ? []).
  f_equal. f_equal. apply ins_all_perm_eq; try now apply tknd_filter.
  clear T1 T2. induction P; cbn.
  - reflexivity.
  - destruct (su_ok since until x); [now constructor | assumption].
  - destruct (su_ok since until x), (su_ok since until y); try reflexivity; try apply perm_swap.
  - etransitivity; eassumption.
Qed.
(* ------------------------------------------------------------------ *)
(** ** Association lists *)

Section ALFacts.
  Context {K V : Type} (keqb : K -> K -> bool).
  Hypothesis keqb_eq : forall x y, keqb x y = true <-> x = y.

  Lemma keqb_refl k : keqb k k = true.
  Proof. now apply keqb_eq. Qed.

  Lemma keqb_false x y : keqb x y = false <-> x <> y.
  Proof.
    split.
    - intros H E. apply keqb_eq in E. congruence.
    - intro H. destruct (keqb x y) eqn:E; [|reflexivity]. apply keqb_eq in E. contradiction.
  Qed.

  Lemma al_get_set k k' (v : V) l :
    al_get keqb k (al_set keqb k' v l) = if keqb k k' then Some v else al_get keqb k l.
  Proof.
    induction l as [|[k0 v0] l IH]; cbn.
    - reflexivity.
    - destruct (keqb k' k0) eqn:E0; cbn.
      + apply keqb_eq in E0; subst k0. destruct (keqb k k'); reflexivity.
      + rewrite IH. destruct (keqb k k0) eqn:E1; [|reflexivity].
        apply keqb_eq in E1; subst k0.
        destruct (keqb k k') eqn:E2; [|reflexivity].
        apply keqb_eq in E2; subst k'. rewrite keqb_refl in E0. discriminate.
  Qed.

  Lemma al_get_In k l (v : V) : al_get keqb k l = Some v -> In (k, v) l.
  Proof.
    induction l as [|[k0 v0] l IH]; cbn; [discriminate|].
    destruct (keqb k k0) eqn:E.
    - apply keqb_eq in E; subst. intro H; inversion H; subst. now left.
    - intro H. right. now apply IH.
  Qed.

  Lemma al_get_None_notin k (l : list (K * V)) : ~ In k (List.map fst l) -> al_get keqb k l = None.
  Proof.
    induction l as [|[k0 v0] l IH]; cbn; [reflexivity|].
    intro H. destruct (keqb k k0) eqn:E.
    - apply keqb_eq in E. subst. exfalso. apply H. now left.
    - apply IH. intro G. apply H. now right.
  Qed.

  Lemma al_set_fresh k (v : V) l : al_get keqb k l = None -> al_set keqb k v l = l ++ [(k, v)].
  Proof.
    induction l as [|[k0 v0] l IH]; cbn; [reflexivity|].
    destruct (keqb k k0); [discriminate|]. intro H. f_equal. now apply IH.
  Qed.
End ALFacts.

Lemma ikey_eqb_eq a b : ikey_eqb a b = true <-> a = b.
Proof.
  destruct a, b; cbn; try (split; intro; discriminate);
    rewrite ?andb_true_iff, ?str_eqb_eq, ?Z.eqb_eq;
    (split; [intuition congruence | intro E; inversion E; auto]).
Qed.

Lemma dkey_eqb_eq a b : dkey_eqb a b = true <-> a = b.
Proof.
  destruct a as [a1 a2], b as [b1 b2]. unfold dkey_eqb. cbn.
  rewrite andb_true_iff, !str_eqb_eq. split; [intros [-> ->]; reflexivity | intro E; inversion E; auto].
Qed.

(* ------------------------------------------------------------------ *)
(** ** Event sets *)

Lemma eset_mem_In e s : eset_mem e s = true <-> In e s.
Proof.
  unfold eset_mem. rewrite existsb_exists. split.
  - intros [y [Hy E]]. apply event_eqb_eq in E. now subst.
  - intro H. exists e. split; [exact H | now apply event_eqb_eq].
Qed.

Lemma eset_add_In e s x : In x (eset_add e s) <-> x = e \/ In x s.
Proof.
  unfold eset_add. destruct (eset_mem e s) eqn:E.
  - apply eset_mem_In in E. split; [auto | intros [->|H]; auto].
  - rewrite in_app_iff. cbn. intuition.
Qed.

Lemma eset_add_NoDup e s : NoDup s -> NoDup (eset_add e s).
Proof.
  intro N. unfold eset_add. destruct (eset_mem e s) eqn:E; [exact N|].
  assert (~ In e s) by (intro H; apply eset_mem_In in H; congruence).
  apply (Permutation_NoDup (Permutation_cons_append s e)). now constructor.
Qed.

Lemma eset_add_idem e s : eset_add e (eset_add e s) = eset_add e s.
Proof.
  unfold eset_add at 1. rewrite (proj2 (eset_mem_In e (eset_add e s))); [reflexivity|].
  apply eset_add_In. now left.
Qed.

Lemma eset_union_In b : forall a x, In x (eset_union a b) <-> In x a \/ In x b.
Proof.
  unfold eset_union. induction b as [|y b IH]; intros a x; cbn.
  - tauto.
  - rewrite IH, eset_add_In. intuition.
Qed.

Lemma eset_union_NoDup b : forall a, NoDup a -> NoDup (eset_union a b).
Proof.
  unfold eset_union. induction b as [|y b IH]; intros a N; cbn; [exact N|].
  apply IH. now apply eset_add_NoDup.
Qed.

Lemma perm_filter {A} (p q : A -> bool) l l' :
  Permutation l l' -> (forall x, p x = q x) -> Permutation (filter p l) (filter q l').
Proof.
  intros P E. rewrite (filter_ext p q E). clear E. induction P; cbn.
  - reflexivity.
  - destruct (q x); [now constructor | assumption].
  - destruct (q x), (q y); try reflexivity. apply perm_swap.
  - etransitivity; eassumption.
Qed.

Lemma eset_inter_perm a a' b b' :
  Permutation a a' -> Permutation b b' -> Permutation (eset_inter a b) (eset_inter a' b').
Proof.
  intros Pa Pb. unfold eset_inter. apply perm_filter; [exact Pa|].
  intro x. destruct (eset_mem x b) eqn:E1, (eset_mem x b') eqn:E2; try reflexivity.
  - apply eset_mem_In in E1. assert (In x b') by (eapply Permutation_in; eassumption).
    apply eset_mem_In in H. congruence.
  - apply eset_mem_In in E2. assert (In x b) by (eapply Permutation_in; [symmetry|]; eassumption).
    apply eset_mem_In in H. congruence.
Qed.

(* ------------------------------------------------------------------ *)
(** ** The index as a map from index keys to sets *)

Definition idx_set (idx : list (ikey * eset)) (ik : ikey) : eset :=
  match al_get ikey_eqb ik idx with Some s => s | None => [] end.

Lemma idx_set_add_key e idx k ik :
  idx_set (idx_add_key e idx k) ik =
  if ikey_eqb ik k then eset_add e (idx_set idx ik) else idx_set idx ik.
Proof.
  unfold idx_add_key, idx_set.
  destruct (al_get ikey_eqb k idx) as [s|] eqn:Hk; rewrite (al_get_set ikey_eqb ikey_eqb_eq);
    destruct (ikey_eqb ik k) eqn:E; try reflexivity;
    apply ikey_eqb_eq in E; subst ik; rewrite Hk; reflexivity.
Qed.

Lemma idx_set_fold e ik : forall ks idx,
  idx_set (fold_left (idx_add_key e) ks idx) ik =
  if existsb (ikey_eqb ik) ks then eset_add e (idx_set idx ik) else idx_set idx ik.
Proof.
  induction ks as [|k ks IH]; intro idx; cbn; [reflexivity|].
  rewrite IH, idx_set_add_key.
  destruct (ikey_eqb ik k), (existsb (ikey_eqb ik) ks); cbn; try reflexivity.
  apply eset_add_idem.
Qed.

Lemma idx_set_add e idx ik :
  idx_set (idx_add e idx) ik = if has_ikey ik e then eset_add e (idx_set idx ik) else idx_set idx ik.
Proof. unfold idx_add, has_ikey. apply idx_set_fold. Qed.

(** the index lists, under every key, the events of [R] that carry the key *)
Definition idx_sound (idx : list (ikey * eset)) (R : list event) : Prop :=
  forall ik e, In e (idx_set idx ik) <-> In e R /\ has_ikey ik e = true.

Lemma idx_sound_nil : idx_sound [] [].
Proof. intros ik e. cbn. tauto. Qed.

Lemma idx_sound_add e idx R : idx_sound idx R -> idx_sound (idx_add e idx) (R ++ [e]).
Proof.
  intros S ik x. rewrite idx_set_add, in_app_iff. cbn [In].
  destruct (has_ikey ik e) eqn:E.
  - rewrite eset_add_In, (S ik x). split.
    + intros [->|[H1 H2]]; auto.
    + intros [[H|[H|[]]] H2]; [right; auto | left; auto].
  - rewrite (S ik x). split.
    + intros [H1 H2]; auto.
    + intros [[H|[H|[]]] H2]; [auto | subst; congruence].
Qed.

Lemma idx_sound_ext idx R R' : (forall x, In x R <-> In x R') -> idx_sound idx R -> idx_sound idx R'.
Proof. intros E S ik e. rewrite (S ik e), (E e). reflexivity. Qed.

Definition idx_equiv (i1 i2 : list (ikey * eset)) : Prop :=
  forall ik x, In x (idx_set i1 ik) <-> In x (idx_set i2 ik).

Lemma idx_sound_equiv i1 i2 R1 R2 :
  idx_sound i1 R1 -> idx_sound i2 R2 -> (forall x, In x R1 <-> In x R2) -> idx_equiv i1 i2.
Proof. intros S1 S2 E ik x. rewrite (S1 ik x), (S2 ik x), (E x). reflexivity. Qed.

Lemma idx_union_alt idx keys :
  idx_union idx keys = fold_left (fun acc k => eset_union acc (idx_set idx k)) keys [].
Proof.
  unfold idx_union. generalize (@nil event) as acc.
  induction keys as [|k keys IH]; intro acc; cbn; [reflexivity|].
  rewrite IH. f_equal. unfold idx_set. destruct (al_get ikey_eqb k idx); reflexivity.
Qed.

Lemma idx_union_In idx keys x :
  In x (idx_union idx keys) <-> exists k, In k keys /\ In x (idx_set idx k).
Proof.
  rewrite idx_union_alt.
  assert (G : forall acc, In x (fold_left (fun acc k => eset_union acc (idx_set idx k)) keys acc) <->
                          In x acc \/ exists k, In k keys /\ In x (idx_set idx k)).
  { induction keys as [|k keys IH]; intro acc; cbn.
    - split; [auto | intros [H|[k [[] _]]]; exact H].
    - rewrite IH, eset_union_In. split.
      + intros [[H|H]|[k' [H1 H2]]]; eauto.
      + intros [H|[k' [[->|H1] H2]]]; eauto. }
  rewrite G. cbn. split; [intros [[]|H]; exact H | auto].
Qed.

Lemma idx_union_NoDup idx keys : NoDup (idx_union idx keys).
Proof.
  rewrite idx_union_alt.
  assert (G : forall acc, NoDup acc -> NoDup (fold_left (fun acc k => eset_union acc (idx_set idx k)) keys acc)).
  { induction keys as [|k keys IH]; intros acc N; cbn; [exact N|]. apply IH. now apply eset_union_NoDup. }
  apply G. constructor.
Qed.

Lemma idx_union_perm i1 i2 keys : idx_equiv i1 i2 -> Permutation (idx_union i1 keys) (idx_union i2 keys).
Proof.
  intro E. apply NoDup_Permutation; try apply idx_union_NoDup.
  intro x. rewrite !idx_union_In. split; intros [k [H1 H2]]; exists k; (split; [exact H1|]); now apply E.
Qed.

(* ------------------------------------------------------------------ *)
(** ** The index path does not see the order inside the sets *)

Lemma insert_by_len_F2 (P : eset -> eset -> Prop) s s' l l' :
  length s = length s' -> (forall a b, P a b -> length a = length b) ->
  P s s' -> Forall2 P l l' -> Forall2 P (insert_by_len s l) (insert_by_len s' l').
Proof.
  intros Hs HP Ps F. induction F as [|x y l l' Pxy F IH]; cbn.
  - repeat constructor. exact Ps.
  - rewrite <- Hs, <- (HP _ _ Pxy). destruct (Nat.leb (length s) (length x)).
    + repeat constructor; assumption.
    + constructor; assumption.
Qed.

Lemma sort_by_len_F2 l l' :
  Forall2 (@Permutation event) l l' -> Forall2 (@Permutation event) (sort_by_len l) (sort_by_len l').
Proof.
  intro F. induction F as [|x y l l' Pxy F IH]; cbn; [constructor|].
  apply insert_by_len_F2; auto using Permutation_length.
Qed.

Lemma insert_by_len_Forall (P : eset -> Prop) s l : P s -> Forall P l -> Forall P (insert_by_len s l).
Proof.
  intros Ps F. induction F as [|x l Px F IH]; cbn; [repeat constructor; exact Ps|].
  destruct (Nat.leb (length s) (length x)); repeat constructor; assumption.
Qed.

Lemma sort_by_len_Forall (P : eset -> Prop) l : Forall P l -> Forall P (sort_by_len l).
Proof. intro F. induction F; cbn; [constructor|]. now apply insert_by_len_Forall. Qed.

Lemma Forall2_rev {A B} (R : A -> B -> Prop) l l' : Forall2 R l l' -> Forall2 R (rev l) (rev l').
Proof.
  intro F. induction F; cbn; [constructor|]. apply Forall2_app; [assumption|]. repeat constructor. assumption.
Qed.

Lemma fold_inter_perm l l' : Forall2 (@Permutation event) l l' -> forall m m',
  Permutation m m' -> Permutation (fold_left eset_inter l m) (fold_left eset_inter l' m').
Proof.
  intro F. induction F as [|x y l l' Pxy F IH]; intros m m' Pm; cbn; [exact Pm|].
  apply IH. now apply eset_inter_perm.
Qed.

Lemma fold_inter_sub l : forall m x, In x (fold_left eset_inter l m) -> In x m.
Proof.
  induction l as [|b l IH]; intros m x; cbn; [auto|].
  intro H. apply IH in H. unfold eset_inter in H. apply filter_In in H. tauto.
Qed.

Lemma fold_inter_NoDup l : forall m, NoDup m -> NoDup (fold_left eset_inter l m).
Proof.
  induction l as [|b l IH]; intros m N; cbn; [exact N|]. apply IH. now apply NoDup_filter.
Qed.

(** events of [R] are told apart by their tree keys *)
Definition tk_inj (R : list event) : Prop :=
  forall x y, In x R -> In y R -> tkey_eq x y = true -> x = y.

Lemma tknd_of_nodup R l : tk_inj R -> NoDup l -> (forall x, In x l -> In x R) -> tknd l.
Proof.
  intros I N. induction N as [|x l Hx N IH]; intro Sub; cbn; [exact Logic.I|]. split.
  - intros y Hy. destruct (tkey_eq x y) eqn:E; [|reflexivity].
    exfalso. apply Hx. rewrite (I x y); auto. apply Sub. now left. apply Sub. now right.
  - apply IH. intros z Hz. apply Sub. now right.
Qed.

Lemma idx_find_equiv i1 i2 R f :
  idx_equiv i1 i2 -> idx_sound i1 R -> tk_inj R -> idx_find i1 f = idx_find i2 f.
Proof.
  intros E S I. unfold idx_find.
  destruct (g_full_scan _ _ _ _); [reflexivity|]. f_equal.
  set (A1 := List.map (idx_union i1) (ikeys_of_filter f)).
  set (A2 := List.map (idx_union i2) (ikeys_of_filter f)).
  assert (F : Forall2 (@Permutation event) A1 A2).
  { subst A1 A2. induction (ikeys_of_filter f) as [|ks l IH]; cbn; constructor; [|exact IH].
    now apply idx_union_perm. }
  assert (G : Forall (fun s => NoDup s /\ forall x, In x s -> In x R) A1).
  { subst A1. apply Forall_forall. intros s Hs. apply in_map_iff in Hs as [ks [<- _]].
    split; [apply idx_union_NoDup|]. intros x Hx. apply idx_union_In in Hx as [k [_ Hx]].
    apply S in Hx. tauto. }
  apply sort_by_len_F2 in F. apply (sort_by_len_Forall _ _) in G.
  destruct F as [|m m' rest rest' Pm F]; cbn [inter_all]; [reflexivity|].
  inversion G as [|? ? [Nm Sm] _]; subst.
  match goal with
  | |- bounded_insert ?a _ _ _ _ = bounded_insert ?b _ _ _ _ => set (c1 := a); set (c2 := b)
  end.
  assert (Pc : Permutation c1 c2) by (apply fold_inter_perm; [now apply Forall2_rev | exact Pm]).
  assert (N1 : NoDup c1) by (now apply fold_inter_NoDup).
  assert (S1 : forall x, In x c1 -> In x R) by (intros x Hx; apply Sm; eapply fold_inter_sub; exact Hx).
  assert (T1 : tknd c1) by (eapply tknd_of_nodup; eassumption).
  assert (T2 : tknd c2).
  { eapply tknd_of_nodup; [exact I | eapply Permutation_NoDup; eassumption |].
    intros x Hx. apply S1. eapply Permutation_in; [symmetry; exact Pc | exact Hx]. }
  rewrite (Permutation_length Pc).
  apply (bounded_insert_perm (f_since f) (f_until f)); assumption.
Qed.

Lemma find_loop_ext s1 s2 :
  (forall f, idx_find (c_idx s1) f = idx_find (c_idx s2) f) -> c_tree s1 = c_tree s2 ->
  forall fs acc, find_loop s1 fs acc = find_loop s2 fs acc.
Proof.
  intros Hi Ht. induction fs as [|f fs IH]; intro acc; cbn; [reflexivity|].
  rewrite Hi, Ht. destruct (idx_find (c_idx s2) f) as [[t|]|]; try reflexivity.
  - apply IH.
  - destruct (scan_loop (c_tree s2) (lm_new f) acc); [apply IH | reflexivity].
Qed.
(* ------------------------------------------------------------------ *)
(** ** Facts about the generated guards used by [c_add] *)

Lemma g_add_skip_ephemeral_spec ty : g_add_skip_ephemeral ty = true <-> ty = 3.
Proof. unfold g_add_skip_ephemeral. apply Z.eqb_eq. Qed.

Lemma g_add_blocked_spec a b : g_add_blocked a b = true <-> a = true \/ b = true.
Proof. unfold g_add_blocked. apply orb_true_iff. Qed.

Lemma g_is_kind5_spec k : g_is_kind5 k = true <-> k = 5.
Proof. unfold g_is_kind5. apply Z.eqb_eq. Qed.

Lemma g_del_is_kind5_spec k : g_del_is_kind5 k = true <-> k = 5.
Proof. unfold g_del_is_kind5. apply Z.eqb_eq. Qed.

Lemma g_del_other_author_spec a b : g_del_other_author a b = true <-> a <> b.
Proof. unfold g_del_other_author. rewrite negb_true_iff. apply str_eqb_neq. Qed.

Lemma g_over_cap_spec n cap : g_over_cap n cap = true <-> n > cap.
Proof. unfold g_over_cap. rewrite Z.gtb_lt. lia. Qed.

(* ------------------------------------------------------------------ *)
(** ** Re-adding a closed, duplicate-free, sorted list takes the clean path *)

Definition evs_of (l : list event) : list (str * event) := List.map (fun e => (event_key e, e)) l.

Lemma evs_of_fst l : List.map fst (evs_of l) = List.map event_key l.
Proof. unfold evs_of. rewrite map_map. reflexivity. Qed.

Lemma evs_of_In k c l : In (k, c) (evs_of l) -> In c l /\ event_key c = k.
Proof.
  unfold evs_of. intro H. apply in_map_iff in H as [x [E Hx]]. inversion E; subst. auto.
Qed.

Lemma NoDup_map_inj {A B} (f : A -> B) l a b :
  NoDup (List.map f l) -> In a l -> In b l -> f a = f b -> a = b.
Proof.
  induction l as [|x l IH]; cbn; [tauto|].
  intros N Ha Hb E. inversion N as [|? ? Hx N']; subst.
  destruct Ha as [->|Ha], Hb as [->|Hb]; try reflexivity.
  - exfalso. apply Hx. rewrite E. now apply in_map.
  - exfalso. apply Hx. rewrite <- E. now apply in_map.
  - now apply IH.
Qed.

(** every registry entry is explained by a deletion request of the list *)
Definition del_sound (del : list (dkey * list str)) (l : list event) : Prop :=
  forall k pk ids, al_get dkey_eqb (k, pk) del = Some ids ->
    exists d, In d l /\ g_del_is_kind5 (ev_kind d) = true /\ ev_pk d = pk /\ In k (k5_keys d).

Lemma del_sound_mono del l l' : (forall x, In x l -> In x l') -> del_sound del l -> del_sound del l'.
Proof. intros Sub S k pk ids H. destruct (S k pk ids H) as [d [H1 H2]]. exists d. split; [now apply Sub | exact H2]. Qed.

Lemma del_register_sound e l : In e l -> g_del_is_kind5 (ev_kind e) = true ->
  forall ks del, (forall k, In k ks -> In k (k5_keys e)) -> del_sound del l ->
  del_sound (fold_left (del_register (ev_pk e) (ev_id e)) ks del) l.
Proof.
  intros He H5. induction ks as [|k ks IH]; intros del Sub S; cbn; [exact S|].
  apply IH; [intros k' Hk'; apply Sub; now right|].
  assert (W : forall v k' pk' ids, al_get dkey_eqb (k', pk') (al_set dkey_eqb (k, ev_pk e) v del) = Some ids ->
              exists d, In d l /\ g_del_is_kind5 (ev_kind d) = true /\ ev_pk d = pk' /\ In k' (k5_keys d)).
  { intros v k' pk' ids. rewrite (al_get_set dkey_eqb dkey_eqb_eq).
    destruct (dkey_eqb (k', pk') (k, ev_pk e)) eqn:E.
    - apply dkey_eqb_eq in E. inversion E; subst. intros _. exists e. repeat split; auto.
      apply Sub. now left.
    - apply S. }
  unfold del_register.
  destruct (al_get dkey_eqb (k, ev_pk e) del) as [ids0|].
  - destruct (mem_str (ev_id e) ids0); [exact S|]. intros k' pk' ids. apply W.
  - intros k' pk' ids. apply W.
Qed.

(** every deletion request of the list is registered under each key it names *)
Definition del_complete (del : list (dkey * list str)) (l : list event) : Prop :=
  forall d, In d l -> g_del_is_kind5 (ev_kind d) = true ->
  forall k, In k (k5_keys d) -> isSome (al_get dkey_eqb (k, ev_pk d) del) = true.

Lemma del_register_some pk id del k key :
  isSome (al_get dkey_eqb key del) = true \/ key = (k, pk) ->
  isSome (al_get dkey_eqb key (del_register pk id del k)) = true.
Proof.
  intro H. unfold del_register.
  destruct (al_get dkey_eqb (k, pk) del) as [ids0|] eqn:E0.
  - destruct (mem_str id ids0).
    + destruct H as [H| ->]; [exact H | now rewrite E0].
    + rewrite (al_get_set dkey_eqb dkey_eqb_eq). destruct (dkey_eqb key (k, pk)) eqn:E; [reflexivity|].
      destruct H as [H| ->]; [exact H|]. rewrite (keqb_refl dkey_eqb dkey_eqb_eq) in E. discriminate.
  - rewrite (al_get_set dkey_eqb dkey_eqb_eq). destruct (dkey_eqb key (k, pk)) eqn:E; [reflexivity|].
    destruct H as [H| ->]; [exact H|]. rewrite (keqb_refl dkey_eqb dkey_eqb_eq) in E. discriminate.
Qed.

Lemma fold_register_some pk id key : forall ks del,
  isSome (al_get dkey_eqb key del) = true \/ (exists k, In k ks /\ key = (k, pk)) ->
  isSome (al_get dkey_eqb key (fold_left (del_register pk id) ks del)) = true.
Proof.
  induction ks as [|k ks IH]; intros del H; cbn.
  - destruct H as [H|[k [[] _]]]. exact H.
  - apply IH. destruct H as [H|[k' [[<-|Hin] ->]]].
    + left. apply del_register_some. now left.
    + left. apply del_register_some. now right.
    + right. eauto.
Qed.

Lemma not_deleted st l key pk :
  del_sound (c_del st) l ->
  (forall d, In d l -> g_del_is_kind5 (ev_kind d) = true -> ev_pk d = pk -> ~ In key (k5_keys d)) ->
  c_is_deleted st key pk = false.
Proof.
  intros S H. unfold c_is_deleted.
  destruct (al_get dkey_eqb (key, pk) (c_del st)) as [ids|] eqn:E; [|reflexivity].
  destruct (S _ _ _ E) as [d [H1 [H2 [H3 H4]]]]. exfalso. exact (H d H1 H2 H3 H4).
Qed.

Lemma c_delete_noop t k pk :
  (forall cand, al_get str_eqb k (c_evs t) = Some cand -> ev_pk cand <> pk) -> c_delete t (k, pk) = t.
Proof.
  intro H. unfold c_delete. cbn [fst snd].
  destruct (al_get str_eqb k (c_evs t)) as [cand|] eqn:E; [|reflexivity].
  rewrite (proj2 (g_del_other_author_spec (ev_pk cand) pk)); [reflexivity|]. now apply H.
Qed.

Lemma fold_left_fixed {A B} (F : A -> B -> A) ks t : (forall k, In k ks -> F t k = t) -> fold_left F ks t = t.
Proof.
  induction ks as [|k ks IH]; cbn; [reflexivity|].
  intro H. rewrite (H k) by (now left). apply IH. intros k' Hk'. apply H. now right.
Qed.

Lemma tag_ikeys_shape tags ik : In ik (tag_ikeys tags) -> exists n v, ik = IKTag n v.
Proof.
  unfold tag_ikeys. rewrite in_flat_map. intros [t [_ H]].
  destruct t as [|n t']; [destruct H|].
  destruct (Nat.eqb (length n) 1); [|destruct H].
  destruct H as [<-|[]]. eauto.
Qed.

Lemma has_ikey_id k ev : has_ikey (IKId k) ev = true -> ev_id ev = k.
Proof.
  unfold has_ikey, ikeys_of_event. rewrite existsb_exists. intros [ik [Hin E]].
  cbn in Hin. destruct Hin as [<-|[<-|[<-|Hin]]]; cbn in E; try discriminate.
  - apply str_eqb_eq in E. now symmetry.
  - apply tag_ikeys_shape in Hin as [n [v ->]]. discriminate.
Qed.

(** a deletion request that references nothing of its own author in the list deletes nothing *)
Lemma delete_by_kind5_noop t l e :
  c_evs t = evs_of l -> idx_sound (c_idx t) l -> NoDup (List.map event_key l) ->
  (forall x, In x l -> ev_pk x = ev_pk e -> ~ In (event_key x) (k5_keys e) /\ ~ In (ev_id x) (k5_keys e)) ->
  c_delete_by_kind5 t e = t.
Proof.
  intros Hevs Hidx ND H. unfold c_delete_by_kind5. apply fold_left_fixed. intros k Hk.
  assert (D : forall k' , (k' = k \/ exists ev, In ev l /\ ev_id ev = k /\ k' = event_key ev) ->
                          c_delete t (k', ev_pk e) = t).
  { intros k' Hk'. apply c_delete_noop. intros cand Hc. rewrite Hevs in Hc.
    apply (al_get_In str_eqb str_eqb_eq) in Hc. apply evs_of_In in Hc as [Hcl Hck].
    intro Epk. destruct (H cand Hcl Epk) as [N1 N2].
    destruct Hk' as [->|[ev [Hev [Hid ->]]]].
    - apply N1. now rewrite Hck.
    - assert (cand = ev) by (eapply NoDup_map_inj; eassumption). subst cand.
      apply N2. now rewrite Hid. }
  rewrite (D k) by (now left).
  destruct (al_get ikey_eqb (IKId k) (c_idx t)) as [evs|] eqn:Ei; [|reflexivity].
  apply fold_left_fixed. intros ev Hev. apply D. right. exists ev.
  assert (Hs : In ev (idx_set (c_idx t) (IKId k))) by (unfold idx_set; now rewrite Ei).
  apply Hidx in Hs as [Hl Hk']. apply has_ikey_id in Hk'. auto.
Qed.

Record good (cap : Z) (L : list event) : Prop := mkGood {
  gd_noeph : forall e, In e L -> g_event_type (ev_kind e) <> 3;
  gd_keys : NoDup (List.map event_key L);
  gd_closed : forall x d, In x L -> In d L -> g_del_is_kind5 (ev_kind d) = true -> ev_pk x = ev_pk d ->
              ~ In (event_key x) (k5_keys d) /\ ~ In (ev_id x) (k5_keys d);
  gd_sorted : StronglySorted tlt L;
  gd_cap : Z.of_nat (length L) <= cap
}.

(** the state after re-adding the prefix [l] *)
Record clean (cap : Z) (l : list event) (st : cstate) : Prop := mkClean {
  cl_cap : c_cap st = cap;
  cl_evs : c_evs st = evs_of l;
  cl_tree : c_tree st = l;
  cl_idx : idx_sound (c_idx st) l;
  cl_del : del_sound (c_del st) l;
  cl_delc : del_complete (c_del st) l
}.

Lemma clean_empty cap : clean cap [] (c_empty cap).
Proof.
  constructor; try reflexivity.
  - apply idx_sound_nil.
  - intros k pk ids H. discriminate.
  - intros d [].
Qed.

Lemma NoDup_app_l {A} (a b : list A) : NoDup (a ++ b) -> NoDup a.
Proof.
  induction a as [|x a IH]; cbn; intro N; [constructor|].
  inversion N as [|? ? Hx N']; subst. constructor; [|now apply IH].
  intro H. apply Hx. apply in_or_app. now left.
Qed.

Lemma sorted_app_lt {A} (R : A -> A -> Prop) l e rest :
  StronglySorted R (l ++ e :: rest) -> forall y, In y l -> R y e.
Proof.
  induction l as [|a l IH]; cbn; [tauto|].
  intros S y [->|Hy]; inversion S as [|? ? S' Ha]; subst.
  - rewrite Forall_forall in Ha. apply Ha. apply in_or_app. right. now left.
  - now apply IH.
Qed.

Lemma clean_step cap L l e rest st :
  good cap L -> L = l ++ e :: rest -> clean cap l st ->
  snd (c_add st e) = true /\ clean cap (l ++ [e]) (fst (c_add st e)).
Proof.
  intros G EL C. destruct C as [Ccap Cevs Ctree Cidx Cdel Cdelc].
  assert (InL : forall x, In x (l ++ [e]) -> In x L).
  { intros x Hx. subst L. apply in_app_iff in Hx as [Hx|[<-|[]]]; apply in_or_app; [now left | right; now left]. }
  assert (HeL : In e L) by (apply InL, in_or_app; right; now left).
  assert (Sub : forall x, In x l -> In x L) by (intros x Hx; apply InL, in_or_app; now left).
  unfold c_add.
  (* not ephemeral *)
  destruct (g_add_skip_ephemeral (g_event_type (ev_kind e))) eqn:Eeph.
  { apply g_add_skip_ephemeral_spec in Eeph. exfalso. exact (gd_noeph _ _ G e HeL Eeph). }
  (* not suppressed *)
  assert (B1 : c_is_deleted st (event_key e) (ev_pk e) = false).
  { apply (not_deleted st l); [exact Cdel|]. intros d Hd H5 Hpk.
    apply (gd_closed _ _ G e d HeL (Sub d Hd) H5). now symmetry. }
  assert (B2 : c_is_deleted st (ev_id e) (ev_pk e) = false).
  { apply (not_deleted st l); [exact Cdel|]. intros d Hd H5 Hpk.
    apply (gd_closed _ _ G e d HeL (Sub d Hd) H5). now symmetry. }
  rewrite B1, B2.
  destruct (g_add_blocked false false) eqn:Eb.
  { apply g_add_blocked_spec in Eb. destruct Eb; discriminate. }
  (* no event under this key yet *)
  assert (Hk : al_get str_eqb (event_key e) (c_evs st) = None).
  { apply (al_get_None_notin str_eqb str_eqb_eq). rewrite Cevs, evs_of_fst.
    pose proof (gd_keys _ _ G) as ND. subst L. rewrite map_app in ND. cbn [List.map] in ND.
    apply NoDup_remove_2 in ND. intro Hin. apply ND. apply in_or_app. now left. }
  unfold c_add_inner. rewrite Hk. cbn [negb].
  set (s1 := mkC (c_cap st) (al_set str_eqb (event_key e) e (c_evs st)) (tree_set e (c_tree st))
                 (idx_add e (c_idx st)) (c_del st)).
  assert (E1 : c_evs s1 = evs_of (l ++ [e])).
  { subst s1. cbn [c_evs]. rewrite (al_set_fresh str_eqb _ _ _ Hk), Cevs. unfold evs_of. now rewrite map_app. }
  assert (T1 : c_tree s1 = l ++ [e]).
  { subst s1. cbn [c_tree]. rewrite Ctree. apply tree_set_end.
    apply (sorted_app_lt tlt l e rest). rewrite <- EL. exact (gd_sorted _ _ G). }
  assert (I1 : idx_sound (c_idx s1) (l ++ [e])) by (subst s1; cbn [c_idx]; now apply idx_sound_add).
  assert (NDk : NoDup (List.map event_key (l ++ [e]))).
  { pose proof (gd_keys _ _ G) as ND. subst L.
    replace (l ++ e :: rest) with ((l ++ [e]) ++ rest) in ND by (rewrite <- app_assoc; reflexivity).
    rewrite map_app in ND. eapply NoDup_app_l. exact ND. }
  (* the deletion request deletes nothing *)
  set (s2 := if g_is_kind5 (ev_kind e) then c_delete_by_kind5 (c_add_kind5 s1 e) e else s1).
  assert (S2 : c_cap s2 = cap /\ c_evs s2 = evs_of (l ++ [e]) /\ c_tree s2 = l ++ [e] /\
               idx_sound (c_idx s2) (l ++ [e]) /\ del_sound (c_del s2) (l ++ [e]) /\
               del_complete (c_del s2) (l ++ [e])).
  { subst s2. destruct (g_is_kind5 (ev_kind e)) eqn:E5.
    - assert (E5' : g_del_is_kind5 (ev_kind e) = true).
      { apply g_del_is_kind5_spec. now apply g_is_kind5_spec. }
      rewrite (delete_by_kind5_noop _ (l ++ [e]) e); cbn [c_add_kind5 c_evs c_idx c_cap c_tree c_del];
        try assumption.
      + split; [exact Ccap|]. split; [exact E1|]. split; [exact T1|]. split; [exact I1|]. split.
        * apply del_register_sound; [apply in_or_app; right; now left | exact E5' | auto |].
          eapply del_sound_mono; [|exact Cdel]. intros x Hx. apply in_or_app. now left.
        * intros d Hd H5 k0 Hk0. apply fold_register_some.
          apply in_app_iff in Hd as [Hd|[<-|[]]]; [left; now apply Cdelc | right; eauto].
      + intros x Hx Hpk. exact (gd_closed _ _ G x e (InL x Hx) HeL E5' Hpk).
    - split; [exact Ccap|]. split; [exact E1|]. split; [exact T1|]. split; [exact I1|]. split.
      + eapply del_sound_mono; [|exact Cdel]. intros x Hx. apply in_or_app. now left.
      + intros d Hd H5 k0 Hk0. apply in_app_iff in Hd as [Hd|[<-|[]]]; [now apply Cdelc|].
        apply g_del_is_kind5_spec in H5. apply g_is_kind5_spec in H5. congruence. }
  destruct S2 as (Q1 & Q2 & Q3 & Q4 & Q5 & Q6).
  (* no eviction *)
  destruct (g_over_cap (c_len s2) (c_cap s2)) eqn:Eo.
  { apply g_over_cap_spec in Eo. exfalso. unfold c_len in Eo. rewrite Q2, Q1 in Eo.
    unfold evs_of in Eo. rewrite map_length in Eo.
    pose proof (gd_cap _ _ G) as Hc. subst L. rewrite !app_length in *. cbn [length] in *. lia. }
  cbn [fst snd]. split; [reflexivity|]. constructor; assumption.
Qed.

Lemma restore_clean cap L : good cap L ->
  forall rest l st, L = l ++ rest -> clean cap l st -> clean cap L (restore st rest).
Proof.
  intro G. induction rest as [|e rest IH]; intros l st EL C; cbn [restore fold_left].
  - rewrite app_nil_r in EL. now subst.
  - destruct (clean_step cap L l e rest st G EL C) as [_ C'].
    apply (IH (l ++ [e])); [|exact C']. rewrite <- app_assoc. exact EL.
Qed.
(* ------------------------------------------------------------------ *)
(** ** The dump is the tree *)

Lemma scan_all : forall t c acc, scan_loop t (mkLM empty_filter c) acc = Ok (ins_all t acc).
Proof.
  induction t as [|x t IH]; intros c acc; cbn [scan_loop]; [reflexivity|].
  assert (D : lm_done (mkLM empty_filter c) = false) by reflexivity.
  rewrite D. unfold lm_limit_match. cbn [lm_f lm_cnt].
  change empty_filter with (su_filter None None). rewrite match_impl_su.
  change (su_ok None None x) with true. cbn iota. apply IH.
Qed.

Lemma listing_is_tree s :
  StronglySorted tlt (c_tree s) -> length (c_tree s) = length (c_evs s) -> c_listing s = c_tree s.
Proof.
  intros S L. unfold c_listing, c_find, c_len.
  destruct (Z.of_nat (length (c_evs s)) =? 0) eqn:E.
  - apply Z.eqb_eq in E. destruct (c_tree s); [reflexivity|]. cbn in L. lia.
  - cbn [find_loop].
    assert (F : idx_find (c_idx s) empty_filter = None) by reflexivity.
    rewrite F. unfold lm_new. rewrite scan_all. now rewrite (ins_all_sorted_id (c_tree s) []).
Qed.

(* ------------------------------------------------------------------ *)
(** ** Dump and restore *)

(** what the proof uses of the representation invariant *)
Record dump_pre (s : cstate) : Prop := mkDumpPre {
  dp_keys_nodup : NoDup (List.map fst (c_evs s));
  dp_keys : forall k e, In (k, e) (c_evs s) -> event_key e = k;
  dp_ids_nodup : NoDup (List.map ev_id (retained s));
  dp_tree_perm : Permutation (c_tree s) (retained s);
  dp_tree_sorted : StronglySorted tlt (c_tree s);
  dp_idx : idx_sound (c_idx s) (retained s);
  dp_cap : c_len s <= c_cap s;
  dp_closed : forall x d, In x (retained s) -> In d (retained s) ->
              g_del_is_kind5 (ev_kind d) = true -> ev_pk x = ev_pk d ->
              ~ In (event_key x) (k5_keys d) /\ ~ In (ev_id x) (k5_keys d);
  dp_no_ephemeral : forall e, In e (retained s) -> g_event_type (ev_kind e) <> 3
}.

Lemma inv_dump_pre s : Inv s -> 1 <= c_cap s -> dump_pre s.
Proof.
  intros I Hc. constructor.
  - apply (inv_keys_nodup _ I).
  - apply (inv_keys _ I).
  - apply (inv_ids_nodup _ I).
  - apply (inv_tree_perm _ I).
  - apply (inv_tree_sorted _ I).
  - intros ik e. unfold idx_set.
    destruct (al_get ikey_eqb ik (c_idx s)) as [set|] eqn:E.
    + destruct (inv_idx_some _ I ik set E) as (_ & _ & H). apply H.
    + pose proof (inv_idx_none _ I ik E) as H. split; [intros []|].
      intros [H1 H2]. rewrite (H e H1) in H2. discriminate.
  - apply (inv_cap _ I Hc).
  - apply (inv_closed _ I).
  - apply (inv_no_ephemeral _ I).
Qed.

Lemma keys_of_retained s :
  (forall k e, In (k, e) (c_evs s) -> event_key e = k) ->
  List.map event_key (retained s) = List.map fst (c_evs s).
Proof.
  unfold retained. intro H. rewrite map_map.
  induction (c_evs s) as [|[k e] l IH]; cbn; [reflexivity|].
  f_equal; [apply H; now left|]. apply IH. intros k' e' Hin. apply H. now right.
Qed.

Lemma dump_pre_good s : dump_pre s -> good (c_cap s) (c_tree s).
Proof.
  intro P.
  assert (M : forall x, In x (c_tree s) <-> In x (retained s)).
  { intro x. split; apply Permutation_in; [|symmetry]; apply (dp_tree_perm _ P). }
  constructor.
  - intros e He. apply (dp_no_ephemeral _ P). now apply M.
  - apply (Permutation_NoDup (l := List.map event_key (retained s))).
    + apply Permutation_map. symmetry. apply (dp_tree_perm _ P).
    + rewrite (keys_of_retained s (dp_keys _ P)). apply (dp_keys_nodup _ P).
  - intros x d Hx Hd. apply (dp_closed _ P); now apply M.
  - apply (dp_tree_sorted _ P).
  - rewrite (Permutation_length (dp_tree_perm _ P)). unfold retained. rewrite map_length.
    apply (dp_cap _ P).
Qed.

Lemma dump_pre_tree_len s : dump_pre s -> length (c_tree s) = length (c_evs s).
Proof.
  intro P. rewrite (Permutation_length (dp_tree_perm _ P)). unfold retained. apply map_length.
Qed.

Lemma dump_is_tree s : dump_pre s -> dump s = c_tree s.
Proof.
  intro P. unfold dump. apply listing_is_tree; [apply (dp_tree_sorted _ P) | now apply dump_pre_tree_len].
Qed.

(** the restored cache: the same capacity, the same events under the same
    keys (in the order of the dump), the same tree, an index with the same sets *)
Lemma restore_is_clean s : dump_pre s -> clean (c_cap s) (c_tree s) (restore (c_empty (c_cap s)) (dump s)).
Proof.
  intro P. rewrite (dump_is_tree s P).
  apply (restore_clean (c_cap s) (c_tree s) (dump_pre_good s P) (c_tree s) []); [reflexivity|].
  apply clean_empty.
Qed.

Theorem dump_restore_pre s : dump_pre s ->
  forall fs, c_find (restore (c_empty (c_cap s)) (dump s)) fs = c_find s fs.
Proof.
  intros P fs. pose proof (restore_is_clean s P) as C.
  set (s' := restore (c_empty (c_cap s)) (dump s)) in *.
  destruct C as [Ccap Cevs Ctree Cidx Cdel Cdelc].
  assert (M : forall x, In x (c_tree s) <-> In x (retained s)).
  { intro x. split; apply Permutation_in; [|symmetry]; apply (dp_tree_perm _ P). }
  unfold c_find.
  assert (EL : c_len s' = c_len s).
  { unfold c_len. rewrite Cevs. unfold evs_of. rewrite map_length. now rewrite (dump_pre_tree_len s P). }
  rewrite EL. destruct (c_len s =? 0); [reflexivity|].
  apply find_loop_ext; [|exact Ctree].
  intro f. apply (idx_find_equiv _ _ (c_tree s)); [| exact Cidx |].
  - eapply idx_sound_equiv; [exact Cidx | apply (dp_idx _ P) | exact M].
  - intros x y Hx Hy E. apply tkey_eq_ids in E.
    apply (NoDup_map_inj ev_id (retained s)); [apply (dp_ids_nodup _ P) | now apply M | now apply M | exact E].
Qed.

Theorem dump_restore s : Inv s -> 1 <= c_cap s ->
  forall fs, c_find (restore (c_empty (c_cap s)) (dump s)) fs = c_find s fs.
Proof. intros I Hc. apply dump_restore_pre. now apply inv_dump_pre. Qed.

(** corollaries: the dump is complete (it lists every retained event exactly
    once), the restored cache retains exactly the dumped events, lists them
    as the original does, and dumping it again gives the same dump *)
Lemma dump_complete s : dump_pre s -> Permutation (dump s) (retained s).
Proof. intro P. rewrite (dump_is_tree s P). apply (dp_tree_perm _ P). Qed.

Lemma restore_retained s : dump_pre s -> retained (restore (c_empty (c_cap s)) (dump s)) = dump s.
Proof.
  intro P. destruct (restore_is_clean s P) as [_ Cevs _ _ _ _].
  unfold retained. rewrite Cevs, (dump_is_tree s P). unfold evs_of. rewrite map_map. cbn. apply map_id.
Qed.

Lemma dump_restore_dump s : dump_pre s -> dump (restore (c_empty (c_cap s)) (dump s)) = dump s.
Proof.
  intro P. unfold dump at 1 3. unfold c_listing. now rewrite (dump_restore_pre s P).
Qed.

(* ------------------------------------------------------------------ *)
(** ** A checkable form of the precondition (for the examples) *)

Definition idx_sound_b (idx : list (ikey * eset)) (R : list event) : bool :=
  forallb (fun p => forallb (fun e => eset_mem e R && has_ikey (fst p) e) (snd p) &&
                    forallb (fun e => negb (has_ikey (fst p) e) || eset_mem e (snd p)) R) idx &&
  forallb (fun e => forallb (fun ik => isSome (al_get ikey_eqb ik idx)) (ikeys_of_event e)) R.

Lemma idx_sound_b_ok idx R : idx_sound_b idx R = true -> idx_sound idx R.
Proof.
  unfold idx_sound_b. rewrite andb_true_iff, !forallb_forall. intros [H1 H2] ik e. unfold idx_set.
  destruct (al_get ikey_eqb ik idx) as [set|] eqn:E.
  - apply (al_get_In ikey_eqb ikey_eqb_eq) in E. specialize (H1 _ E). cbn [fst snd] in H1.
    rewrite andb_true_iff, !forallb_forall in H1. destruct H1 as [A B]. split.
    + intro He. specialize (A e He). rewrite andb_true_iff, eset_mem_In in A. exact A.
    + intros [He Hk]. specialize (B e He). rewrite Hk in B. cbn in B. now apply eset_mem_In.
  - split; [intros []|]. intros [He Hk]. exfalso.
    unfold has_ikey in Hk. apply existsb_exists in Hk as [ik' [Hin Heq]]. apply ikey_eqb_eq in Heq. subst ik'.
    specialize (H2 e He). rewrite forallb_forall in H2. specialize (H2 ik Hin). rewrite E in H2. discriminate.
Qed.

Fixpoint nodup_strb (l : list str) : bool :=
  match l with
  | [] => true
  | x :: r => negb (mem_str x r) && nodup_strb r
  end.

Lemma nodup_strb_ok l : nodup_strb l = true -> NoDup l.
Proof.
  induction l as [|x l IH]; cbn; [constructor|].
  rewrite andb_true_iff, negb_true_iff. intros [H1 H2]. constructor; [|now apply IH].
  intro Hin. apply mem_str_In in Hin. congruence.
Qed.

Fixpoint sorted_b (l : list event) : bool :=
  match l with
  | [] => true
  | x :: r => forallb (tkey_lt x) r && sorted_b r
  end.

Lemma sorted_b_ok l : sorted_b l = true -> StronglySorted tlt l.
Proof.
  induction l as [|x l IH]; cbn; [constructor|].
  rewrite andb_true_iff, forallb_forall. intros [H1 H2]. constructor; [now apply IH|].
  apply Forall_forall. exact H1.
Qed.

(** same members, same length, no duplicate on one side: a permutation *)
Definition perm_b (a b : list event) : bool :=
  Nat.eqb (length a) (length b) && forallb (fun x => eset_mem x b) a &&
  nodup_strb (List.map ev_id a) && nodup_strb (List.map ev_id b).

Lemma perm_b_ok a b : perm_b a b = true -> Permutation a b.
Proof.
  unfold perm_b. rewrite !andb_true_iff, forallb_forall. intros [[[L S] Na] Nb].
  apply Nat.eqb_eq in L.
  assert (NDa : NoDup a) by (apply nodup_strb_ok in Na; eapply NoDup_map_inv; exact Na).
  assert (NDb : NoDup b) by (apply nodup_strb_ok in Nb; eapply NoDup_map_inv; exact Nb).
  apply NoDup_Permutation_bis; try assumption; [lia|].
  intros x Hx. apply eset_mem_In. now apply S.
Qed.

Definition dump_pre_b (s : cstate) : bool :=
  let R := retained s in
  nodup_strb (List.map fst (c_evs s)) &&
  forallb (fun p => str_eqb (event_key (snd p)) (fst p)) (c_evs s) &&
  nodup_strb (List.map ev_id R) &&
  perm_b (c_tree s) R &&
  sorted_b (c_tree s) &&
  idx_sound_b (c_idx s) R &&
  (c_len s <=? c_cap s) &&
  forallb (fun x => forallb (fun d => negb (g_del_is_kind5 (ev_kind d)) || negb (str_eqb (ev_pk x) (ev_pk d)) ||
                                      (negb (mem_str (event_key x) (k5_keys d)) && negb (mem_str (ev_id x) (k5_keys d)))) R) R &&
  forallb (fun e => negb (g_event_type (ev_kind e) =? 3)) R.

Lemma dump_pre_b_ok s : dump_pre_b s = true -> dump_pre s.
Proof.
  unfold dump_pre_b. rewrite !andb_true_iff.
  intros [[[[[[[[H1 H2] H3] H4] H5] H6] H7] H8] H9]. constructor.
  - now apply nodup_strb_ok.
  - intros k e Hin. rewrite forallb_forall in H2. specialize (H2 _ Hin). now apply str_eqb_eq in H2.
  - now apply nodup_strb_ok.
  - now apply perm_b_ok.
  - now apply sorted_b_ok.
  - now apply idx_sound_b_ok.
  - now apply Z.leb_le.
  - intros x d Hx Hd H5' Hpk. rewrite forallb_forall in H8. specialize (H8 x Hx).
    rewrite forallb_forall in H8. specialize (H8 d Hd).
    rewrite H5', (proj2 (str_eqb_eq _ _) Hpk) in H8. cbn in H8.
    rewrite andb_true_iff, !negb_true_iff in H8. destruct H8 as [A B].
    split; intro Hin; apply mem_str_In in Hin; congruence.
  - intros e He. rewrite forallb_forall in H9. specialize (H9 e He).
    rewrite negb_true_iff in H9. now apply Z.eqb_neq in H9.
Qed.

(* ------------------------------------------------------------------ *)
(** ** The rebuilt registry suppresses exactly what the original one does *)

Lemma induced_nonempty s k pk :
  induced_ids s (k, pk) <> [] <->
  exists d, In d (retained s) /\ g_del_is_kind5 (ev_kind d) = true /\ ev_pk d = pk /\ In k (k5_keys d).
Proof.
  unfold induced_ids. cbn [fst snd]. split.
  - intro H.
    destruct (List.filter _ (retained s)) as [|d r] eqn:E; [exfalso; apply H; reflexivity|].
    assert (Hd : In d (d :: r)) by (now left). rewrite <- E in Hd. apply filter_In in Hd as [Hd Hp].
    rewrite !andb_true_iff in Hp. destruct Hp as [[P1 P2] P3].
    exists d. repeat split; auto. now apply str_eqb_eq. now apply mem_str_In.
  - intros [d [Hd [H5 [Hpk Hk]]]] E.
    assert (Hin : In d (List.filter (fun d0 => g_del_is_kind5 (ev_kind d0) && str_eqb (ev_pk d0) pk && mem_str k (k5_keys d0))
                                    (retained s))).
    { apply filter_In. split; [exact Hd|]. rewrite H5, (proj2 (str_eqb_eq _ _) Hpk), (proj2 (mem_str_In _ _) Hk). reflexivity. }
    apply (in_map ev_id) in Hin. rewrite E in Hin. destruct Hin.
Qed.

Theorem restore_registry s : Inv s -> 1 <= c_cap s ->
  forall k pk, c_is_deleted (restore (c_empty (c_cap s)) (dump s)) k pk = c_is_deleted s k pk.
Proof.
  intros I Hc k pk. pose proof (inv_dump_pre s I Hc) as P.
  destruct (restore_is_clean s P) as [_ _ _ _ Cdel Cdelc].
  set (s' := restore (c_empty (c_cap s)) (dump s)) in *.
  assert (M : forall x, In x (c_tree s) <-> In x (retained s)).
  { intro x. split; apply Permutation_in; [|symmetry]; apply (dp_tree_perm _ P). }
  unfold c_is_deleted.
  destruct (al_get dkey_eqb (k, pk) (c_del s')) as [ids'|] eqn:E1;
    destruct (al_get dkey_eqb (k, pk) (c_del s)) as [ids|] eqn:E2; try reflexivity; exfalso.
  - destruct (Cdel _ _ _ E1) as [d [Hd [H5 [Hpk Hk]]]].
    pose proof (inv_del_none _ I _ E2) as N.
    apply (proj2 (induced_nonempty s k pk)); [|exact N]. exists d. repeat split; auto. now apply M.
  - destruct (inv_del_some _ I _ _ E2) as (Hne & _ & Hiff).
    assert (N : induced_ids s (k, pk) <> []).
    { destruct ids as [|i ids]; [congruence|]. intro E. pose proof (proj1 (Hiff i) (or_introl eq_refl)) as Hi.
      rewrite E in Hi. destruct Hi. }
    apply induced_nonempty in N as [d [Hd [H5 [Hpk Hk]]]].
    pose proof (Cdelc d (proj2 (M d) Hd) H5 k Hk) as S. rewrite Hpk, E1 in S. discriminate.
Qed.
