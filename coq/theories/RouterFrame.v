(* RouterFrame.v — C07: frame lemmas for the step function of Router.v: which
   labels can change which component of the state. *)
From Moc Require Import Base Match Router RouterLemmas.
From Moc.Gen Require Import GenRouter.
Open Scope Z_scope.

(** the control part of a connection: changed only by its own goroutine *)
Definition ctl (st : cst) := (c_pc st, c_dead st, c_ops st, c_ctr st).

Lemma ctl_send_if_match buf e t sub fs st : ctl (send_if_match buf e t sub fs st) = ctl st.
Proof. unfold send_if_match. destruct (sub_matches e fs); [destruct (Nat.ltb _ _)|]; reflexivity. Qed.

Lemma ctl_set_rd st n : ctl (set_rd st n) = ctl st.
Proof. reflexivity. Qed.

Lemma send_if_match_out buf e t sub fs st : c_out (send_if_match buf e t sub fs st) = c_out st.
Proof. unfold send_if_match. destruct (sub_matches e fs); [destruct (Nat.ltb _ _)|]; reflexivity. Qed.
Lemma send_if_match_hand buf e t sub fs st : c_hand (send_if_match buf e t sub fs st) = c_hand st.
Proof. unfold send_if_match. destruct (sub_matches e fs); [destruct (Nat.ltb _ _)|]; reflexivity. Qed.
Lemma send_if_match_rd buf e t sub fs st : c_rd (send_if_match buf e t sub fs st) = c_rd st.
Proof. unfold send_if_match. destruct (sub_matches e fs); [destruct (Nat.ltb _ _)|]; reflexivity. Qed.
Lemma send_if_match_pc buf e t sub fs st : c_pc (send_if_match buf e t sub fs st) = c_pc st.
Proof. unfold send_if_match. destruct (sub_matches e fs); [destruct (Nat.ltb _ _)|]; reflexivity. Qed.
Lemma send_if_match_dead buf e t sub fs st : c_dead (send_if_match buf e t sub fs st) = c_dead st.
Proof. unfold send_if_match. destruct (sub_matches e fs); [destruct (Nat.ltb _ _)|]; reflexivity. Qed.
Lemma send_if_match_ops buf e t sub fs st : c_ops (send_if_match buf e t sub fs st) = c_ops st.
Proof. unfold send_if_match. destruct (sub_matches e fs); [destruct (Nat.ltb _ _)|]; reflexivity. Qed.
Lemma send_if_match_ctr buf e t sub fs st : c_ctr (send_if_match buf e t sub fs st) = c_ctr st.
Proof. unfold send_if_match. destruct (sub_matches e fs); [destruct (Nat.ltb _ _)|]; reflexivity. Qed.

(** what SendIfMatch does to the queue and the drop log *)
Lemma send_if_match_q buf e t sub fs st :
  (sub_matches e fs = true /\ (length (c_q st) < buf)%nat /\
   c_q (send_if_match buf e t sub fs st) = c_q st ++ [MEvent sub e t] /\
   c_drops (send_if_match buf e t sub fs st) = c_drops st) \/
  (sub_matches e fs = true /\ (buf <= length (c_q st))%nat /\
   c_q (send_if_match buf e t sub fs st) = c_q st /\
   c_drops (send_if_match buf e t sub fs st) = c_drops st ++ [(sub, e, t)]) \/
  (sub_matches e fs = false /\ send_if_match buf e t sub fs st = st).
Proof.
  unfold send_if_match. destruct (sub_matches e fs); [|right; right; auto].
  destruct (Nat.ltb (length (c_q st)) buf) eqn:E.
  - left. apply Nat.ltb_lt in E. auto.
  - right; left. apply Nat.ltb_ge in E. auto.
Qed.

(** the registry, the buffer size and the reader set of the outer map *)
Lemma step_buf s l : r_buf (step s l) = r_buf s.
Proof.
  unfold step. destruct (enabled s l); [|reflexivity].
  destruct l as [c o|c|c c' ord|c|c|c]; cbn [step_enabled].
  - destruct (c_pc (r_cs s c)); [destruct (c_dead (r_cs s c) || _)|destruct (is_disc o && _ && _)]; reflexivity.
  - unfold run_instr. destruct (c_pc (r_cs s c)) as [|i rest]; [destruct (mem_conn c (r_cancel s)); reflexivity|].
    destruct i; try reflexivity.
    + destruct (reg_get c (r_reg s)); reflexivity.
    + destruct (reg_get c (r_reg s)); reflexivity.
    + destruct rem; reflexivity.
    + destruct todo as [|[sub fs] todo]; reflexivity.
  - destruct (c_pc (r_cs s c)) as [|i rest]; [reflexivity|]. destruct i; try reflexivity.
    destruct (mem_conn c' rem); reflexivity.
  - destruct (c_dead (r_cs s c)); [reflexivity|]. destruct (c_hand (r_cs s c)); [reflexivity|].
    destruct (c_q (r_cs s c)); reflexivity.
  - destruct (c_dead (r_cs s c)); [reflexivity|]. destruct (c_hand (r_cs s c)); reflexivity.
  - destruct (c_pc (r_cs s c)) as [|i rest]; [reflexivity|]. destruct (mem_conn c (r_cancel s) && _); reflexivity.
Qed.

Lemma run_buf s tr : r_buf (run s tr) = r_buf s.
Proof.
  revert s. induction tr as [|l tr IH]; intro s; [reflexivity|].
  rewrite run_cons, IH. apply step_buf.
Qed.

Lemma reachable_buf buf s : reachable buf s -> r_buf s = buf.
Proof. induction 1; [reflexivity|]. now rewrite step_buf. Qed.

(** a step that is not one of connection [x]'s own goroutine leaves [x]'s
    control part alone *)
Lemma step_ctl_other s l x : label_of_conn x l = false -> ctl (r_cs (step s l) x) = ctl (r_cs s x).
Proof.
  intro Hl. unfold step. destruct (enabled s l); [|reflexivity].
  destruct l as [c o|c|c c' ord|c|c|c]; cbn [step_enabled]; cbn [label_of_conn] in Hl.
  - apply Nat.eqb_neq in Hl.
    destruct (c_pc (r_cs s c)); [destruct (c_dead (r_cs s c) || _)|destruct (is_disc o && _ && _)]; try reflexivity.
    cbn. now rewrite upd_other.
  - apply Nat.eqb_neq in Hl. unfold run_instr.
    destruct (c_pc (r_cs s c)) as [|i rest]; [destruct (mem_conn c (r_cancel s)); [cbn; now rewrite upd_other | reflexivity]|].
    destruct i; cbn; try (now rewrite upd_other).
    + destruct (reg_get c (r_reg s)); cbn; now rewrite upd_other.
    + destruct (reg_get c (r_reg s)); cbn; now rewrite upd_other.
    + destruct rem as [|c1 rem]; cbn; [now rewrite upd_other|].
      unfold start_visit. cbn.
      match goal with |- ctl (upd ?f ?k ?v x) = _ => destruct (upd_cases f k v x) as [[-> ->]|[_ ->]] end.
      * rewrite ctl_set_rd. now rewrite upd_other.
      * now rewrite upd_other.
    + destruct todo as [|[sub fs] todo]; cbn.
      * match goal with |- ctl (upd ?f ?k ?v x) = _ => destruct (upd_cases f k v x) as [[-> ->]|[_ ->]] end.
        -- rewrite ctl_set_rd. now rewrite upd_other.
        -- now rewrite upd_other.
      * match goal with |- ctl (upd ?f ?k ?v x) = _ => destruct (upd_cases f k v x) as [[-> ->]|[_ ->]] end.
        -- rewrite ctl_send_if_match. now rewrite upd_other.
        -- now rewrite upd_other.
  - apply Nat.eqb_neq in Hl.
    destruct (c_pc (r_cs s c)) as [|i rest]; [reflexivity|]. destruct i; try reflexivity.
    destruct (mem_conn c' rem); [|reflexivity]. unfold start_visit. cbn.
    match goal with |- ctl (upd ?f ?k ?v x) = _ => destruct (upd_cases f k v x) as [[-> ->]|[_ ->]] end.
    + rewrite ctl_set_rd. now rewrite upd_other.
    + now rewrite upd_other.
  - destruct (c_dead (r_cs s c)) eqn:Hd; [reflexivity|]. destruct (c_hand (r_cs s c)) eqn:Hh; [reflexivity|].
    destruct (c_q (r_cs s c)) eqn:Hq; [reflexivity|]. cbn.
    match goal with |- ctl (upd ?f ?k ?v x) = _ => destruct (upd_cases f k v x) as [[-> ->]|[_ ->]] end; unfold ctl; cbn; rewrite ?Hd; reflexivity.
  - destruct (c_dead (r_cs s c)) eqn:Hd; [reflexivity|]. destruct (c_hand (r_cs s c)) eqn:Hh; [|reflexivity]. cbn.
    match goal with |- ctl (upd ?f ?k ?v x) = _ => destruct (upd_cases f k v x) as [[-> ->]|[_ ->]] end; unfold ctl; cbn; rewrite ?Hd; reflexivity.
  - apply Nat.eqb_neq in Hl.
    destruct (c_pc (r_cs s c)) as [|i rest]; [reflexivity|]. destruct (mem_conn c (r_cancel s) && _); [|reflexivity].
    cbn. now rewrite upd_other.
Qed.

Lemma step_pc_other s l x : label_of_conn x l = false -> c_pc (r_cs (step s l) x) = c_pc (r_cs s x).
Proof. intro H. pose proof (step_ctl_other s l x H) as E. unfold ctl in E. now inversion E. Qed.
Lemma step_dead_other s l x : label_of_conn x l = false -> c_dead (r_cs (step s l) x) = c_dead (r_cs s x).
Proof. intro H. pose proof (step_ctl_other s l x H) as E. unfold ctl in E. now inversion E. Qed.
Lemma step_ops_other s l x : label_of_conn x l = false -> c_ops (r_cs (step s l) x) = c_ops (r_cs s x).
Proof. intro H. pose proof (step_ctl_other s l x H) as E. unfold ctl in E. now inversion E. Qed.
Lemma step_ctr_other s l x : label_of_conn x l = false -> c_ctr (r_cs (step s l) x) = c_ctr (r_cs s x).
Proof. intro H. pose proof (step_ctl_other s l x H) as E. unfold ctl in E. now inversion E. Qed.

(** the registry entry of [x] is written only by [x]'s own [LRun] steps *)
Lemma step_reg_other s l x : l <> LRun x -> reg_get x (r_reg (step s l)) = reg_get x (r_reg s).
Proof.
  intro Hl. unfold step. destruct (enabled s l); [|reflexivity].
  destruct l as [c o|c|c c' ord|c|c|c]; cbn [step_enabled].
  - destruct (c_pc (r_cs s c)); [destruct (c_dead (r_cs s c) || _)|destruct (is_disc o && _ && _)]; reflexivity.
  - assert (N : x <> c) by (intro; subst; now apply Hl).
    unfold run_instr. destruct (c_pc (r_cs s c)) as [|i rest]; [destruct (mem_conn c (r_cancel s)); reflexivity|].
    destruct i; cbn; try reflexivity.
    + now apply reg_get_set_other.
    + destruct (reg_get c (r_reg s)); cbn; [now apply reg_get_set_other | reflexivity].
    + destruct (reg_get c (r_reg s)); cbn; [now apply reg_get_set_other | reflexivity].
    + destruct rem; reflexivity.
    + destruct todo as [|[sub fs] todo]; reflexivity.
    + now apply reg_get_del_other.
  - destruct (c_pc (r_cs s c)) as [|i rest]; [reflexivity|]. destruct i; try reflexivity.
    destruct (mem_conn c' rem); reflexivity.
  - destruct (c_dead (r_cs s c)); [reflexivity|]. destruct (c_hand (r_cs s c)); [reflexivity|].
    destruct (c_q (r_cs s c)); reflexivity.
  - destruct (c_dead (r_cs s c)); [reflexivity|]. destruct (c_hand (r_cs s c)); reflexivity.
  - destruct (c_pc (r_cs s c)) as [|i rest]; [reflexivity|]. destruct (mem_conn c (r_cancel s) && _); reflexivity.
Qed.

(** a second update that keeps the control part *)
Lemma ctl_upd2 f c v1 c2 (g : cst -> cst) x :
  (forall st, ctl (g st) = ctl st) ->
  ctl (upd (upd f c v1) c2 (g (upd f c v1 c2)) x) = ctl (upd f c v1 x).
Proof.
  intro Hg. destruct (upd_cases (upd f c v1) c2 (g (upd f c v1 c2)) x) as [[-> ->]|[_ ->]]; [apply Hg | reflexivity].
Qed.

Lemma pc_upd2 f c v1 c2 (g : cst -> cst) x :
  (forall st, ctl (g st) = ctl st) ->
  c_pc (upd (upd f c v1) c2 (g (upd f c v1 c2)) x) = c_pc (upd f c v1 x).
Proof. intro Hg. pose proof (ctl_upd2 f c v1 c2 g x Hg) as E. unfold ctl in E. now inversion E. Qed.
Lemma dead_upd2 f c v1 c2 (g : cst -> cst) x :
  (forall st, ctl (g st) = ctl st) ->
  c_dead (upd (upd f c v1) c2 (g (upd f c v1 c2)) x) = c_dead (upd f c v1 x).
Proof. intro Hg. pose proof (ctl_upd2 f c v1 c2 g x Hg) as E. unfold ctl in E. now inversion E. Qed.
Lemma ctr_upd2 f c v1 c2 (g : cst -> cst) x :
  (forall st, ctl (g st) = ctl st) ->
  c_ctr (upd (upd f c v1) c2 (g (upd f c v1 c2)) x) = c_ctr (upd f c v1 x).
Proof. intro Hg. pose proof (ctl_upd2 f c v1 c2 g x Hg) as E. unfold ctl in E. now inversion E. Qed.
Lemma ops_upd2 f c v1 c2 (g : cst -> cst) x :
  (forall st, ctl (g st) = ctl st) ->
  c_ops (upd (upd f c v1) c2 (g (upd f c v1 c2)) x) = c_ops (upd f c v1 x).
Proof. intro Hg. pose proof (ctl_upd2 f c v1 c2 g x Hg) as E. unfold ctl in E. now inversion E. Qed.

Lemma ctl_add_rd c st : ctl (set_rd st (c :: c_rd st)) = ctl st.
Proof. reflexivity. Qed.
Lemma ctl_rem_rd c st : ctl (set_rd st (remove_conn c (c_rd st))) = ctl st.
Proof. reflexivity. Qed.

