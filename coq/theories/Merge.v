(* Merge.v — C08/C09: model of the merge handler (handler.go: MergeHandler,
   mergeHandlerSession and its three state types), the specification
   predicates and the boolean oracles.  Definitions only; proofs are in
   MergeProofs.v (C08, the state invariant), MergeAggProofs.v (C09) and
   MergeOracleProofs.v (the oracles).

   The OK and COUNT states are the ones of the code AFTER the repair of
   finding K1: per id a count of pending submissions and one FIFO queue of
   replies per child (MergeOld.v keeps a copy of the former bookkeeping).

   One [merge_step] is exactly one critical section of the code: the
   section of [handleRecv*Msg] / [handleSend*Msg] that runs between taking a
   state out of its one-slot channel and putting it back.  The unbuffered
   plumbing between the sections ([preSendCh], the per-child forwarders, the
   broadcast to the children) is not modelled here (C13). *)
From Moc Require Import Base Match.
Open Scope Z_scope.

(* ------------------------------------------------------------------ *)
(** * The guards of the code, as the model uses them.

    Each [h_x] is the hand-written reading of one condition of handler.go.
    The guard translator regenerates the same conditions from the source as
    [Gen.GenMerge.g_x]; MergeProofs.v proves [g_x = h_x] for every one of
    them (section "ties"), so an edited or vanished condition breaks a named
    proof obligation, while this file — and with it the correspondence check
    and the oracles — still compiles and keeps judging the implementation. *)

Definition h_merge_too_few (n : Z) : bool := n <? 2.                      (* len(handlers) < 2 *)
Definition h_eose_already (all : bool) : bool := all.                       (* s.AllEOSE(sub) *)
Definition h_eose_incomplete (all : bool) : bool := negb all.               (* !s.AllEOSE(sub) *)
Definition h_event_unsendable (sendable : bool) : bool := negb sendable.    (* !s.IsSendableEventMsg(..) *)
Definition h_ok_not_ready (ready : bool) : bool := negb ready.              (* !s.Ready(id) *)
Definition h_count_not_ready (ready : bool) : bool := negb ready.           (* !s.Ready(sub, idx) *)
Definition h_ok_no_slot (len : Z) : bool := len =? 0.                       (* len(stat.s[eventID]) == 0 *)
Definition h_ok_setmsg_drop (len qlen pending : Z) : bool :=                (* len(msgs) == 0 || len(msgs[chIdx]) >= stat.pending[id] *)
  (len =? 0) || (qlen >=? pending).
Definition h_ok_clear_done (pending : Z) : bool := pending <=? 0.           (* stat.pending[eventID] <= 0 *)
Definition h_ok_ready_absent (len : Z) : bool := len =? 0.
Definition h_ok_msg_absent (len : Z) : bool := len =? 0.
Definition h_ok_is_accepted (accepted : bool) : bool := accepted.           (* msg.Accepted *)
Definition h_ok_any_rejected (nrejected : Z) : bool := nrejected >? 0.      (* len(ngs) > 0 *)
Definition h_req_seteose_absent (len : Z) : bool := len =? 0.               (* len(stat.eose[subID]) == 0 *)
Definition h_req_alleose_missing (present : bool) : bool := negb present.   (* !ok *)
Definition h_req_alleose_delete (res : bool) : bool := res.                 (* res *)
Definition h_ev_all_eose (all : bool) : bool := all.
Definition h_ev_child_eose (child_eose : bool) : bool := child_eose.
Definition h_ev_has_last (has_last : bool) : bool := has_last.              (* last != nil *)
Definition h_ev_older_first (res : Z) : bool := res <? 0.                   (* res < 0 *)
Definition h_ev_ts_decreased (res : Z) : bool := res >? 0.                  (* res > 0 *)
Definition h_ev_seen_reject (seen_nil seen_has : bool) : bool := seen_nil || seen_has.
Definition h_ev_done (done : bool) : bool := done.
Definition h_ev_nomatch (matched : bool) : bool := negb matched.
Definition h_cnt_no_slot (len : Z) : bool := len =? 0.                      (* len(stat.counts[subID]) == 0 *)
Definition h_cnt_set_drop (len qlen pending : Z) : bool :=
  (len =? 0) || (qlen >=? pending).
Definition h_cnt_clear_done (pending : Z) : bool := pending <=? 0.
Definition h_cnt_ready_absent (len : Z) : bool := len =? 0.

(* ------------------------------------------------------------------ *)
(** * Messages *)

(** [ServerOKMsg]: EventID, Accepted, MsgPrefix, Msg *)
Record okm := mkOk { ok_id : str; ok_acc : bool; ok_prefix : str; ok_text : str }.

(** ServerOKMsg.Message: prefix followed by text *)
Definition ok_message (m : okm) : str := ok_prefix m ++ ok_text m.

(** [ServerCountMsg]: SubscriptionID, Count (uint64), Approximate (pointer to bool) *)
Record cntm := mkCnt { c_sub : str; c_count : Z; c_approx : option bool }.

Inductive smsg :=
| SEose (sub : str)
| SEvent (sub : str) (e : event)
| SOk (m : okm)
| SCount (c : cntm)
| SNotice (t : str)
| SClosed (sub p t : str).

(** what the session receives: the four client messages it inspects, and a
    server message coming out of child number [i] *)
Inductive input :=
| CReq (sub : str) (fs : list rfilter)
| CClose (sub : str)
| CEvent (id : str)
| CCount (sub : str)
| Child (i : nat) (m : smsg).

(* ------------------------------------------------------------------ *)
(** * Go maps keyed by strings, Go slices indexed by child *)

Definition m_del {B} (k : str) (l : list (str * B)) : list (str * B) :=
  filter (fun kv => negb (str_eqb k (fst kv))) l.

Definition m_set {B} (k : str) (v : B) (l : list (str * B)) : list (str * B) :=
  (k, v) :: m_del k l.

(** [m[k]] for a slice-valued map: a missing key reads as the nil slice *)
Definition vlist {A} (o : option (list A)) : list A :=
  match o with Some l => l | None => [] end.

Definition zlen {A} (l : list A) : Z := Z.of_nat (length l).

(** [s[i] = v]; [None] is Go's index-out-of-range panic *)
Fixpoint upd_nth {A} (i : nat) (v : A) (l : list A) : option (list A) :=
  match l, i with
  | [], _ => None
  | _ :: r, O => Some (v :: r)
  | x :: r, S j => match upd_nth j v r with
                   | Some r' => Some (x :: r')
                   | None => None
                   end
  end.

Definition isNone {A} (o : option A) : bool := match o with None => true | Some _ => false end.

(* ------------------------------------------------------------------ *)
(** * mergeHandlerSessionReqState *)

Record rstate := mkRS {
  rs_size : nat;
  rs_eose : list (str * list bool);            (* map[subID][chIdx]eose? *)
  rs_last : list (str * option event);         (* map[subID]*ServerEventMsg; nil is stored by SetSubID *)
  rs_seen : list (str * list str);             (* map[subID]map[eventID]bool; a key is never bound to nil *)
  rs_matcher : list (str * list lmatcher)      (* map[subID]EventLimitMatcher *)
}.

Definition rs_with_eose r x := mkRS (rs_size r) x (rs_last r) (rs_seen r) (rs_matcher r).
Definition rs_with_last r x := mkRS (rs_size r) (rs_eose r) x (rs_seen r) (rs_matcher r).
Definition rs_with_seen r x := mkRS (rs_size r) (rs_eose r) (rs_last r) x (rs_matcher r).
Definition rs_with_matcher r x := mkRS (rs_size r) (rs_eose r) (rs_last r) (rs_seen r) x.

(** SetSubID *)
Definition rs_set_sub (r : rstate) (sub : str) (fs : list rfilter) : rstate :=
  mkRS (rs_size r)
       (m_set sub (repeat false (rs_size r)) (rs_eose r))
       (m_set sub None (rs_last r))
       (m_set sub [] (rs_seen r))
       (m_set sub (lms_new fs) (rs_matcher r)).

(** ClearSubID, and the four deletes inside AllEOSE *)
Definition rs_clear (r : rstate) (sub : str) : rstate :=
  mkRS (rs_size r) (m_del sub (rs_eose r)) (m_del sub (rs_last r))
       (m_del sub (rs_seen r)) (m_del sub (rs_matcher r)).

(** AllEOSE: a query with a side effect — when it answers yes for a key that
    is present it deletes the subscription's state *)
Definition rs_all_eose (r : rstate) (sub : str) : rstate * bool :=
  let eoses := assoc sub (rs_eose r) in
  if h_req_alleose_missing (isSome eoses) then (r, true) else
  let res := negb (existsb negb (vlist eoses)) in
  if h_req_alleose_delete res then (rs_clear r sub, res) else (r, res).

(** SetEOSE; [None] = index out of range *)
Definition rs_set_eose (r : rstate) (sub : str) (i : nat) : option rstate :=
  let eoses := vlist (assoc sub (rs_eose r)) in
  if h_req_seteose_absent (zlen eoses) then Some r else
  match upd_nth i true eoses with
  | None => None
  | Some l' => Some (rs_with_eose r (m_set sub l' (rs_eose r)))
  end.

(** IsEOSE; [None] = index out of range *)
Definition rs_is_eose (r : rstate) (sub : str) (i : nat) : option bool :=
  match vlist (assoc sub (rs_eose r)) with
  | [] => Some true
  | l => nth_error l i
  end.

(** [cmp.Compare] on int64 *)
Definition cmpZ (a b : Z) : Z :=
  match a ?= b with Lt => -1 | Eq => 0 | Gt => 1 end.

(** IsSendableEventMsg, with its side effects in the order of the code:
    AllEOSE (may delete), IsEOSE, the comparison with the last event (an
    older-first event returns before anything is written; a strictly newer
    "last" resets [seen]), [lastEvent] overwritten, the duplicate test,
    [seen] extended, the matcher's Done, then LimitMatch (which counts). *)

(** [stat.lastEvent[sub]], nil when the key is missing or bound to nil *)
Definition rs_last_of (r : rstate) (sub : str) : option event :=
  match assoc sub (rs_last r) with Some (Some l) => Some l | _ => None end.

(** the block from [if last := ...] to [stat.lastEvent[sub] = msg];
    [None] = "return false" taken for an older-first event, nothing written *)
Definition rs_order (r : rstate) (sub : str) (e : event) : option rstate :=
  let last := rs_last_of r sub in
  let res := match last with Some l => cmpZ (ev_ts l) (ev_ts e) | None => 0 end in
  if h_ev_has_last (isSome last) && h_ev_older_first res then None else
  let r2 := if h_ev_has_last (isSome last) && h_ev_ts_decreased res
            then rs_with_seen r (m_set sub [] (rs_seen r)) else r in
  Some (rs_with_last r2 (m_set sub (Some e) (rs_last r2))).

(** the rest: duplicate test, [seen] extended, Done, LimitMatch;
    outer [None] = panic *)
Definition rs_dedup_limit (r3 : rstate) (sub : str) (e : event) : option (rstate * bool) :=
  let seen := assoc sub (rs_seen r3) in
  if h_ev_seen_reject (negb (isSome seen)) (optb seen (mem_str (ev_id e))) then Some (r3, false) else
  match seen with
  | None => None                       (* assignment to an entry of a nil map *)
  | Some ids =>
    let r4 := rs_with_seen r3 (m_set sub (ev_id e :: ids) (rs_seen r3)) in
    match assoc sub (rs_matcher r4) with
    | None => None                     (* method call on a nil interface *)
    | Some ms =>
      if h_ev_done (lms_done ms) then Some (r4, false) else
      match lms_limit_match ms e with
      | Panic => None
      | Ok (ms', matched) =>
          let r5 := rs_with_matcher r4 (m_set sub ms' (rs_matcher r4)) in
          if h_ev_nomatch matched then Some (r5, false) else Some (r5, true)
      end
    end
  end.

Definition rs_is_sendable (r : rstate) (i : nat) (sub : str) (e : event) : option (rstate * bool) :=
  let '(r1, all) := rs_all_eose r sub in
  if h_ev_all_eose all then Some (r1, true) else
  match rs_is_eose r1 sub i with
  | None => None
  | Some child_eose =>
    if h_ev_child_eose child_eose then Some (r1, false) else
    match rs_order r1 sub e with
    | None => Some (r1, false)
    | Some r3 => rs_dedup_limit r3 sub e
    end
  end.

(* ------------------------------------------------------------------ *)
(** * Reply bookkeeping shared by the OK and the COUNT state

    Per id the code keeps [pending], the number of submissions that still
    await their merged reply, and one FIFO queue of replies per child. *)

(** [m[k]] for an int-valued map: a missing key reads as 0 *)
Definition zget (k : str) (m : list (str * Z)) : Z :=
  match assoc k m with Some v => v | None => 0 end.

(** [q[0]]; [None] = index out of range *)
Definition hd_opt {A} (q : list A) : option A := match q with [] => None | x :: _ => Some x end.

Definition is_nil {A} (q : list A) : bool := match q with [] => true | _ => false end.

(** [len(msgs[chIdx])] as the second operand of [len(msgs) == 0 || ...]: it is
    evaluated only when [msgs] is non-empty; [None] = index out of range *)
Definition idx_guarded {A} (l : list (list A)) (i : nat) : option (list A) :=
  match l with
  | [] => Some []
  | _ :: _ => nth_error l i
  end.

(** [for i := range msgs { msgs[i] = msgs[i][1:] }]; [None] = slice bounds out of range *)
Fixpoint tails {A} (l : list (list A)) : option (list (list A)) :=
  match l with
  | [] => Some []
  | [] :: _ => None
  | (_ :: q) :: r => match tails r with Some r' => Some (q :: r') | None => None end
  end.

(* ------------------------------------------------------------------ *)
(** * mergeHandlerSessionOKState *)

Record ostate := mkOS {
  os_size : nat;
  os_pending : list (str * Z);              (* map[eventID]int *)
  os_s : list (str * list (list okm))       (* map[eventID][chIdx][]msg *)
}.

(** TrySetEventID *)
Definition os_try_set (o : ostate) (id : str) : ostate :=
  let s1 := if h_ok_no_slot (zlen (vlist (assoc id (os_s o))))
            then m_set id (repeat [] (os_size o)) (os_s o) else os_s o in
  mkOS (os_size o) (m_set id (zget id (os_pending o) + 1) (os_pending o)) s1.

(** SetMsg; [None] = index out of range *)
Definition os_set_msg (o : ostate) (i : nat) (m : okm) : option ostate :=
  let msgs := vlist (assoc (ok_id m) (os_s o)) in
  match idx_guarded msgs i with
  | None => None
  | Some q =>
      if h_ok_setmsg_drop (zlen msgs) (zlen q) (zget (ok_id m) (os_pending o)) then Some o else
      match upd_nth i (q ++ [m]) msgs with
      | None => None
      | Some l' => Some (mkOS (os_size o) (os_pending o) (m_set (ok_id m) l' (os_s o)))
      end
  end.

(** Ready *)
Definition os_ready (o : ostate) (id : str) : bool :=
  let msgs := vlist (assoc id (os_s o)) in
  if h_ok_ready_absent (zlen msgs) then false else negb (existsb is_nil msgs).

(** the loop of Msg over the heads of the queues: accepting and rejecting
    replies, each in child order; [None] = [q[0]] on an empty queue *)
Fixpoint ok_partition (l : list (option okm)) : option (list okm * list okm) :=
  match l with
  | [] => Some ([], [])
  | None :: _ => None
  | Some m :: r =>
      match ok_partition r with
      | None => None
      | Some (oks, ngs) =>
          if h_ok_is_accepted (ok_acc m) then Some (m :: oks, ngs) else Some (oks, m :: ngs)
      end
  end.

(** joinServerOKMsgs; [None] = msgs[0] on an empty slice *)
Definition join_oks (l : list okm) : option okm :=
  match l with
  | [] => None
  | m0 :: _ => Some (mkOk (ok_id m0) (ok_acc m0) [] (concat (List.map ok_message l)))
  end.

(** Msg; [None] = panic *)
Definition os_msg (o : ostate) (id : str) : option okm :=
  let msgs := vlist (assoc id (os_s o)) in
  if h_ok_msg_absent (zlen msgs) then None else
  match ok_partition (List.map hd_opt msgs) with
  | None => None
  | Some (oks, ngs) => if h_ok_any_rejected (zlen ngs) then join_oks ngs else join_oks oks
  end.

(** ClearEventID: drops the heads, one submission fewer; [None] = panic *)
Definition os_clear (o : ostate) (id : str) : option ostate :=
  match tails (vlist (assoc id (os_s o))) with
  | None => None
  | Some l' =>
      let s1 := match assoc id (os_s o) with Some _ => m_set id l' (os_s o) | None => os_s o end in
      let p := zget id (os_pending o) - 1 in
      if h_ok_clear_done p
      then Some (mkOS (os_size o) (m_del id (os_pending o)) (m_del id s1))
      else Some (mkOS (os_size o) (m_set id p (os_pending o)) s1)
  end.

(* ------------------------------------------------------------------ *)
(** * mergeHandlerSessionCountState *)

Record cstate := mkCS {
  cs_size : nat;
  cs_pending : list (str * Z);
  cs_counts : list (str * list (list cntm))
}.

(** SetSubID *)
Definition cs_set_sub (c : cstate) (sub : str) : cstate :=
  let s1 := if h_cnt_no_slot (zlen (vlist (assoc sub (cs_counts c))))
            then m_set sub (repeat [] (cs_size c)) (cs_counts c) else cs_counts c in
  mkCS (cs_size c) (m_set sub (zget sub (cs_pending c) + 1) (cs_pending c)) s1.

(** SetCountMsg *)
Definition cs_set_msg (c : cstate) (i : nat) (m : cntm) : option cstate :=
  let counts := vlist (assoc (c_sub m) (cs_counts c)) in
  match idx_guarded counts i with
  | None => None
  | Some q =>
      if h_cnt_set_drop (zlen counts) (zlen q) (zget (c_sub m) (cs_pending c)) then Some c else
      match upd_nth i (q ++ [m]) counts with
      | None => None
      | Some l' => Some (mkCS (cs_size c) (cs_pending c) (m_set (c_sub m) l' (cs_counts c)))
      end
  end.

(** Ready *)
Definition cs_ready (c : cstate) (sub : str) : bool :=
  let counts := vlist (assoc sub (cs_counts c)) in
  if h_cnt_ready_absent (zlen counts) then false else negb (existsb is_nil counts).

Fixpoint all_some {A} (l : list (option A)) : option (list A) :=
  match l with
  | [] => Some []
  | None :: _ => None
  | Some x :: r => match all_some r with Some r' => Some (x :: r') | None => None end
  end.

(** the loop of slices.MaxFunc: a later element replaces the current maximum
    only when it is strictly greater, so the first maximal element wins *)
Fixpoint first_max (m : cntm) (l : list cntm) : cntm :=
  match l with
  | [] => m
  | x :: r => if c_count x >? c_count m then first_max x r else first_max m r
  end.

(** Msg: the heads of the queues, then MaxFunc; [None] = panic ([q[0]] on an
    empty queue, MaxFunc on an empty slice) *)
Definition cs_msg (c : cstate) (sub : str) : option cntm :=
  match all_some (List.map hd_opt (vlist (assoc sub (cs_counts c)))) with
  | None => None
  | Some [] => None
  | Some (m :: r) => Some (first_max m r)
  end.

(** ClearSubID *)
Definition cs_clear (c : cstate) (sub : str) : option cstate :=
  match tails (vlist (assoc sub (cs_counts c))) with
  | None => None
  | Some l' =>
      let s1 := match assoc sub (cs_counts c) with Some _ => m_set sub l' (cs_counts c) | None => cs_counts c end in
      let p := zget sub (cs_pending c) - 1 in
      if h_cnt_clear_done p
      then Some (mkCS (cs_size c) (m_del sub (cs_pending c)) (m_del sub s1))
      else Some (mkCS (cs_size c) (m_set sub p (cs_pending c)) s1)
  end.

(* ------------------------------------------------------------------ *)
(** * The session *)

(** [st_dead]: a goroutine of the session has panicked (the process is gone).
    No theorem relies on what a dead session does; the hypotheses exclude the
    inputs that kill it, exactly the ones the admission gate excludes. *)
Record state := mkSt { st_rs : rstate; st_os : ostate; st_cs : cstate; st_dead : bool }.

Definition init (n : nat) : state :=
  mkSt (mkRS n [] [] [] []) (mkOS n [] []) (mkCS n [] []) false.

(** NewMergeHandler panics for fewer than two handlers *)
Definition new_session (n : nat) : option state :=
  if h_merge_too_few (Z.of_nat n) then None else Some (init n).

Definition with_rs s r := mkSt r (st_os s) (st_cs s) (st_dead s).
Definition with_os s o := mkSt (st_rs s) o (st_cs s) (st_dead s).
Definition with_cs s c := mkSt (st_rs s) (st_os s) c (st_dead s).
Definition kill s := mkSt (st_rs s) (st_os s) (st_cs s) true.

(** handleSendEOSEMsg *)
Definition send_eose (s : state) (i : nat) (sub : str) : state * option smsg :=
  let '(r1, a1) := rs_all_eose (st_rs s) sub in
  if h_eose_already a1 then (with_rs s r1, None) else
  match rs_set_eose r1 sub i with
  | None => (kill s, None)
  | Some r2 =>
      let '(r3, a2) := rs_all_eose r2 sub in
      if h_eose_incomplete a2 then (with_rs s r3, None) else (with_rs s r3, Some (SEose sub))
  end.

(** handleSendEventMsg *)
Definition send_event (s : state) (i : nat) (sub : str) (e : event) : state * option smsg :=
  match rs_is_sendable (st_rs s) i sub e with
  | None => (kill s, None)
  | Some (r', sendable) =>
      if h_event_unsendable sendable then (with_rs s r', None) else (with_rs s r', Some (SEvent sub e))
  end.

(** handleSendOKMsg *)
Definition send_ok (s : state) (i : nat) (m : okm) : state * option smsg :=
  match os_set_msg (st_os s) i m with
  | None => (kill s, None)
  | Some o1 =>
      if h_ok_not_ready (os_ready o1 (ok_id m)) then (with_os s o1, None) else
      match os_msg o1 (ok_id m) with
      | None => (kill s, None)
      | Some ret =>
          match os_clear o1 (ok_id m) with
          | None => (kill s, None)
          | Some o2 => (with_os s o2, Some (SOk ret))
          end
      end
  end.

(** handleSendCountMsg *)
Definition send_count (s : state) (i : nat) (m : cntm) : state * option smsg :=
  match cs_set_msg (st_cs s) i m with
  | None => (kill s, None)
  | Some c1 =>
      if h_count_not_ready (cs_ready c1 (c_sub m)) then (with_cs s c1, None) else
      match cs_msg c1 (c_sub m) with
      | None => (kill s, None)
      | Some ret =>
          match cs_clear c1 (c_sub m) with
          | None => (kill s, None)
          | Some c2 => (with_cs s c2, Some (SCount ret))
          end
      end
  end.

Definition merge_step (s : state) (inp : input) : state * option smsg :=
  if st_dead s then (s, None) else
  match inp with
  | CReq sub fs => (with_rs s (rs_set_sub (st_rs s) sub fs), None)
  | CClose sub => (with_rs s (rs_clear (st_rs s) sub), None)
  | CEvent id => (with_os s (os_try_set (st_os s) id), None)
  | CCount sub => (with_cs s (cs_set_sub (st_cs s) sub), None)
  | Child i (SEose sub) => send_eose s i sub
  | Child i (SEvent sub e) => send_event s i sub e
  | Child i (SOk m) => send_ok s i m
  | Child i (SCount c) => send_count s i c
  | Child i m => (s, Some m)
  end.

(** a trace: the final state and what the client sees at every step *)
Fixpoint exec (s : state) (t : list input) : state * list (option smsg) :=
  match t with
  | [] => (s, [])
  | x :: t' =>
      let '(s1, o) := merge_step s x in
      let '(s2, os) := exec s1 t' in
      (s2, o :: os)
  end.

Definition outs (s : state) (t : list input) : list (option smsg) := snd (exec s t).
Definition final (s : state) (t : list input) : state := fst (exec s t).

(* ------------------------------------------------------------------ *)
(** * Equality tests on messages (for the correspondence check) *)

Definition okm_eqb (a b : okm) : bool :=
  str_eqb (ok_id a) (ok_id b) && Bool.eqb (ok_acc a) (ok_acc b) &&
  str_eqb (ok_prefix a) (ok_prefix b) && str_eqb (ok_text a) (ok_text b).

Definition optbool_eqb (a b : option bool) : bool :=
  match a, b with
  | None, None => true
  | Some x, Some y => Bool.eqb x y
  | _, _ => false
  end.

Definition cntm_eqb (a b : cntm) : bool :=
  str_eqb (c_sub a) (c_sub b) && Z.eqb (c_count a) (c_count b) && optbool_eqb (c_approx a) (c_approx b).

Definition smsg_eqb (a b : smsg) : bool :=
  match a, b with
  | SEose x, SEose y => str_eqb x y
  | SEvent x e, SEvent y f => str_eqb x y && event_eqb e f
  | SOk x, SOk y => okm_eqb x y
  | SCount x, SCount y => cntm_eqb x y
  | SNotice x, SNotice y => str_eqb x y
  | SClosed a1 a2 a3, SClosed b1 b2 b3 => str_eqb a1 b1 && str_eqb a2 b2 && str_eqb a3 b3
  | _, _ => false
  end.

(** an observed trace: every input with the messages the client received
    before the session was quiescent again *)
Definition otrace := list (input * list smsg).

Definition out_list (o : option smsg) : list smsg := match o with Some m => [m] | None => [] end.

(** the model reproduces the observation, step by step *)
Fixpoint model_agrees (s : state) (t : otrace) : bool :=
  match t with
  | [] => true
  | (x, obs) :: t' =>
      let '(s1, o) := merge_step s x in
      negb (st_dead s1) && list_eqb smsg_eqb (out_list o) obs && model_agrees s1 t'
  end.

(* ------------------------------------------------------------------ *)
(** * Trace vocabulary shared by the specifications *)

Definition is_req_of (sub : str) (x : input) : bool :=
  match x with CReq s _ => str_eqb s sub | _ => false end.
Definition is_close_of (sub : str) (x : input) : bool :=
  match x with CClose s => str_eqb s sub | _ => false end.
Definition is_eose_of (sub : str) (i : nat) (x : input) : bool :=
  match x with Child j (SEose s) => Nat.eqb j i && str_eqb s sub | _ => false end.
Definition is_cevent_of (id : str) (x : input) : bool :=
  match x with CEvent s => str_eqb s id | _ => false end.
Definition is_ccount_of (sub : str) (x : input) : bool :=
  match x with CCount s => str_eqb s sub | _ => false end.

(** a window of [sub]: no REQ and no CLOSE for [sub] inside *)
Definition no_reset (sub : str) (w : list input) : Prop :=
  forall x, In x w -> is_req_of sub x = false /\ is_close_of sub x = false.
Definition no_resetb (sub : str) (w : list input) : bool :=
  forallb (fun x => negb (is_req_of sub x) && negb (is_close_of sub x)) w.

(** child [i] has sent EOSE for [sub] somewhere in [w] *)
Definition eosed (sub : str) (w : list input) (i : nat) : bool := existsb (is_eose_of sub i) w.
(** every child has *)
Definition all_eosed (n : nat) (sub : str) (w : list input) : bool :=
  forallb (eosed sub w) (seq 0 n).

(** a child's reply to an EVENT / to a COUNT *)
Definition ok_reply (x : input) : option (nat * okm) :=
  match x with Child i (SOk m) => Some (i, m) | _ => None end.
Definition cnt_reply (x : input) : option (nat * cntm) :=
  match x with Child i (SCount m) => Some (i, m) | _ => None end.

(** the replies of child [i] under key [k] in [t], oldest first *)
Fixpoint replies_of {A} (key : A -> str) (reply_of : input -> option (nat * A))
  (k : str) (i : nat) (t : list input) : list A :=
  match t with
  | [] => []
  | x :: t' =>
      match reply_of x with
      | Some (j, a) =>
          if Nat.eqb j i && str_eqb (key a) k
          then a :: replies_of key reply_of k i t' else replies_of key reply_of k i t'
      | None => replies_of key reply_of k i t'
      end
  end.

(** the [j]-th reply of every child, in child order *)
Definition column {A} (key : A -> str) (reply_of : input -> option (nat * A))
  (n : nat) (k : str) (j : nat) (t : list input) : list (option A) :=
  List.map (fun i => nth_error (replies_of key reply_of k i t) j) (seq 0 n).

(** the OK replies of child [i] for event id [id] / its COUNT replies for [sub] *)
Definition ok_replies_of : str -> nat -> list input -> list okm := replies_of ok_id ok_reply.
Definition cnt_replies_of : str -> nat -> list input -> list cntm := replies_of c_sub cnt_reply.
Definition ok_column : nat -> str -> nat -> list input -> list (option okm) := column ok_id ok_reply.
Definition cnt_column : nat -> str -> nat -> list input -> list (option cntm) := column c_sub cnt_reply.

(** what the gate in front of the handler guarantees about a trace: child
    indices are in range, events carry no empty tag, filters are ones the
    decoder can produce *)
Definition input_ok (n : nat) (x : input) : Prop :=
  match x with
  | CReq _ fs => Forall filter_wf fs
  | Child i (SEvent _ e) => (i < n)%nat /\ tags_nonempty e
  | Child i _ => (i < n)%nat
  | _ => True
  end.
Definition trace_ok (n : nat) (t : list input) : Prop := Forall (input_ok n) t.

(** the events forwarded for [sub] by the steps of [w] (inputs zipped with
    outputs) *)
Fixpoint forwarded (sub : str) (os : list (option smsg)) : list event :=
  match os with
  | [] => []
  | Some (SEvent s e) :: r => if str_eqb s sub then e :: forwarded sub r else forwarded sub r
  | _ :: r => forwarded sub r
  end.

Definition is_eose_out (sub : str) (o : option smsg) : bool :=
  match o with Some (SEose s) => str_eqb s sub | _ => false end.
Definition is_ok_out (id : str) (o : option smsg) : bool :=
  match o with Some (SOk m) => str_eqb (ok_id m) id | _ => false end.
Definition is_count_out (sub : str) (o : option smsg) : bool :=
  match o with Some (SCount m) => str_eqb (c_sub m) sub | _ => false end.

(** the window opened by [CReq sub fs] in state [s]: what the client sees at
    each of the steps [w] that follow the REQ *)
Definition win_outs (s : state) (sub : str) (fs : list rfilter) (w : list input) : list (option smsg) :=
  outs (fst (merge_step s (CReq sub fs))) w.

(** created_at never increases along a list of events *)
Fixpoint ts_noninc (l : list event) : Prop :=
  match l with
  | [] => True
  | e :: r => (forall e', In e' r -> ev_ts e' <= ev_ts e) /\ ts_noninc r
  end.

(** the aggregated OK the property asks for, from the children's replies in
    child order: accepting iff every child accepted; a rejecting one begins
    with the first rejecting child's text *)
Definition ok_verdict_spec (id : str) (replies : list okm) (out : okm) : Prop :=
  ok_id out = id /\
  (ok_acc out = true <-> forall r, In r replies -> ok_acc r = true) /\
  (ok_acc out = false ->
     exists before r after rest,
       replies = before ++ r :: after /\
       (forall b, In b before -> ok_acc b = true) /\ ok_acc r = false /\
       ok_message out = ok_message r ++ rest).

Definition count_max_spec (sub : str) (replies : list cntm) (out : cntm) : Prop :=
  c_sub out = sub /\ In out replies /\ (forall r, In r replies -> c_count r <= c_count out).

(* ------------------------------------------------------------------ *)
(** * Well-formed client/child histories (the quantifier of C08) *)

(** [wf_scan n t pend]: [pend] lists the subscriptions with a REQ awaiting
    its merged EOSE, each with the children that have answered so far.
    - a subscription id is not re-issued while it is pending;
    - a child sends EOSE for [sub] only in answer to a pending REQ, once. *)
Fixpoint remove_key (k : str) (l : list (str * list nat)) : list (str * list nat) :=
  match l with
  | [] => []
  | (k', v) :: r => if str_eqb k k' then remove_key k r else (k', v) :: remove_key k r
  end.

Definition covers (n : nat) (l : list nat) : bool := forallb (fun i => existsb (Nat.eqb i) l) (seq 0 n).

Fixpoint wf_scan (n : nat) (t : list input) (pend : list (str * list nat)) : bool :=
  match t with
  | [] => true
  | CReq sub _ :: t' =>
      match assoc sub pend with
      | Some _ => false
      | None => wf_scan n t' ((sub, []) :: pend)
      end
  | CClose sub :: t' => wf_scan n t' (remove_key sub pend)
  | Child i (SEose sub) :: t' =>
      match assoc sub pend with
      | None => false
      | Some l =>
          if existsb (Nat.eqb i) l then false
          else if covers n (i :: l) then wf_scan n t' (remove_key sub pend)
          else wf_scan n t' ((sub, i :: l) :: remove_key sub pend)
      end
  | _ :: t' => wf_scan n t' pend
  end.

Definition wf_trace (n : nat) (t : list input) : Prop := trace_ok n t /\ wf_scan n t [] = true.

(* ------------------------------------------------------------------ *)
(** * The quantifier of C09: every child answers each request once, and
      requests carrying the same id in the order of their submission.

    Read off a history: whenever child [i] sends an OK for event id [id], it
    has so far sent fewer OKs for [id] than EVENTs with that id were
    submitted — the reply answers a submission the child has not answered yet,
    and because the child answers the submissions of one id in order, its
    [j]-th OK for [id] is its answer to the [j]-th EVENT [id].  Likewise for
    COUNT.  (That every child does answer is a hypothesis of the theorems that
    need it, stated as "the child's replies are as many as the requests".) *)

Definition answers_in_order_ev (t : list input) : Prop :=
  forall pre i m rest, t = pre ++ Child i (SOk m) :: rest ->
    (length (ok_replies_of (ok_id m) i pre) < count_occ_b (is_cevent_of (ok_id m)) pre)%nat.

Definition answers_in_order_cnt (t : list input) : Prop :=
  forall pre i m rest, t = pre ++ Child i (SCount m) :: rest ->
    (length (cnt_replies_of (c_sub m) i pre) < count_occ_b (is_ccount_of (c_sub m)) pre)%nat.

Definition answers_in_order (t : list input) : Prop := answers_in_order_ev t /\ answers_in_order_cnt t.

(** the same as a boolean scan (used by the Example in Properties/C09.v) *)
Fixpoint in_orderb (pre t : list input) : bool :=
  match t with
  | [] => true
  | x :: t' =>
      match x with
      | Child i (SOk m) =>
          Nat.ltb (length (ok_replies_of (ok_id m) i pre)) (count_occ_b (is_cevent_of (ok_id m)) pre)
      | Child i (SCount m) =>
          Nat.ltb (length (cnt_replies_of (c_sub m) i pre)) (count_occ_b (is_ccount_of (c_sub m)) pre)
      | _ => true
      end && in_orderb (pre ++ [x]) t'
  end.

(* ------------------------------------------------------------------ *)
(** * Oracles: the property texts as boolean judgements of an observed trace.
      They are written over inputs and observed outputs only and never run
      [merge_step]. *)

(** ** C08 *)

(** what the oracle remembers of one subscription id *)
Inductive sub_phase :=
| PhOpen (fs : list rfilter) (answered : list nat) (fwd : list event)  (* REQ seen, merged EOSE not yet due *)
| PhDone                                                              (* merged EOSE was due and seen *)
| PhClosed.                                                           (* closed by the client, or never opened *)

Definition phase_of (sub : str) (ph : list (str * sub_phase)) : sub_phase :=
  match assoc sub ph with Some p => p | None => PhClosed end.

Definition single_limit (fs : list rfilter) : option Z :=
  match fs with
  | [f] => f_limit f
  | _ => None
  end.

(** may [e] be forwarded before the merged EOSE, given what was forwarded? *)
Definition pre_eose_ok (fs : list rfilter) (fwd : list event) (e : event) : bool :=
  matches_specb e fs &&
  negb (existsb (fun p => Z.eqb (ev_ts p) (ev_ts e) && str_eqb (ev_id p) (ev_id e)) fwd) &&
  forallb (fun p => ev_ts e <=? ev_ts p) fwd &&
  match single_limit fs with
  | Some l => Z.of_nat (length fwd) + 1 <=? l
  | None => true
  end.

Fixpoint c08_scan (n : nat) (t : otrace) (ph : list (str * sub_phase)) : bool :=
  match t with
  | [] => true
  | (x, obs) :: t' =>
      match x with
      | CReq sub fs =>
          list_eqb smsg_eqb obs [] && c08_scan n t' (m_set sub (PhOpen fs [] []) ph)
      | CClose sub =>
          list_eqb smsg_eqb obs [] && c08_scan n t' (m_set sub PhClosed ph)
      | CEvent _ | CCount _ => list_eqb smsg_eqb obs [] && c08_scan n t' ph
      | Child i (SEose sub) =>
          match phase_of sub ph with
          | PhOpen fs ans fwd =>
              if covers n (i :: ans)
              then list_eqb smsg_eqb obs [SEose sub] && c08_scan n t' (m_set sub PhDone ph)
              else list_eqb smsg_eqb obs [] && c08_scan n t' (m_set sub (PhOpen fs (i :: ans) fwd) ph)
          | _ => list_eqb smsg_eqb obs [] && c08_scan n t' ph
          end
      | Child i (SEvent sub e) =>
          match phase_of sub ph with
          | PhOpen fs ans fwd =>
              match obs with
              | [] => c08_scan n t' ph
              | [m] => smsg_eqb m (SEvent sub e) && pre_eose_ok fs fwd e &&
                       c08_scan n t' (m_set sub (PhOpen fs ans (fwd ++ [e])) ph)
              | _ => false
              end
          | PhDone => list_eqb smsg_eqb obs [SEvent sub e] && c08_scan n t' ph
          | PhClosed =>
              (* nothing is promised for a subscription that is not open,
                 except that nothing is invented *)
              match obs with
              | [] => c08_scan n t' ph
              | [m] => smsg_eqb m (SEvent sub e) && c08_scan n t' ph
              | _ => false
              end
          end
      | Child i (SNotice x1) => list_eqb smsg_eqb obs [SNotice x1] && c08_scan n t' ph
      | Child i (SClosed x1 x2 x3) => list_eqb smsg_eqb obs [SClosed x1 x2 x3] && c08_scan n t' ph
      | Child _ _ =>
          (* OK and COUNT replies: judged by C09; here only "no REQ traffic appears" *)
          forallb (fun m => match m with SEose _ | SEvent _ _ => false | _ => true end) obs &&
          c08_scan n t' ph
      end
  end.

Definition c08_oracle (n : nat) (t : otrace) : bool := c08_scan n t [].

(** ** C09 *)

(** one submission in flight: the replies received so far, by child *)
Definition pending (A : Type) := list (str * list (list (nat * A))).
(* per id: FIFO of submissions, each a list of (child, reply) *)

Definition has_child {A} (i : nat) (rs : list (nat * A)) : bool :=
  existsb (fun p => Nat.eqb (fst p) i) rs.

Definition complete {A} (n : nat) (rs : list (nat * A)) : bool :=
  forallb (fun i => has_child i rs) (seq 0 n).

(** a child's reply answers the oldest submission it has not answered yet.
    Returns the queue after the reply and, when the reply completed a
    submission, that submission (which then leaves the queue); [None] when
    the child has nothing left to answer. *)
Fixpoint attribute {A} (n i : nat) (a : A) (q : list (list (nat * A)))
  : option (list (list (nat * A)) * option (list (nat * A))) :=
  match q with
  | [] => None
  | rs :: q' =>
      if has_child i rs then
        match attribute n i a q' with
        | None => None
        | Some (q'', c) => Some (rs :: q'', c)
        end
      else
        let rs' := (i, a) :: rs in
        if complete n rs' then Some (q', Some rs') else Some (rs' :: q', None)
  end.

(** the replies of a complete submission in child order *)
Definition in_child_order {A} (n : nat) (rs : list (nat * A)) : list A :=
  flat_map (fun i => match find (fun p => Nat.eqb (fst p) i) rs with
                     | Some p => [snd p]
                     | None => []
                     end) (seq 0 n).

Fixpoint is_prefix (p l : str) : bool :=
  match p, l with
  | [], _ => true
  | x :: p', y :: l' => N.eqb x y && is_prefix p' l'
  | _ :: _, [] => false
  end.

(** the merged OK demanded by the text, given the replies in child order *)
Definition ok_out_ok (id : str) (replies : list okm) (out : okm) : bool :=
  str_eqb (ok_id out) id &&
  Bool.eqb (ok_acc out) (forallb ok_acc replies) &&
  match find (fun r => negb (ok_acc r)) replies with
  | Some r => is_prefix (ok_message r) (ok_message out)
  | None => true
  end.

Definition cnt_out_ok (sub : str) (replies : list cntm) (out : cntm) : bool :=
  str_eqb (c_sub out) sub &&
  forallb (fun r => c_count r <=? c_count out) replies &&
  existsb (fun r => c_count r =? c_count out) replies.

Fixpoint c09_scan (n : nat) (t : otrace) (pe : pending okm) (pc : pending cntm) : bool :=
  match t with
  | [] => true
  | (x, obs) :: t' =>
      match x with
      | CEvent id =>
          list_eqb smsg_eqb obs [] &&
          c09_scan n t' (m_set id (vlist (assoc id pe) ++ [[]]) pe) pc
      | CCount sub =>
          list_eqb smsg_eqb obs [] &&
          c09_scan n t' pe (m_set sub (vlist (assoc sub pc) ++ [[]]) pc)
      | CReq _ _ | CClose _ => list_eqb smsg_eqb obs [] && c09_scan n t' pe pc
      | Child i (SOk m) =>
          let id := ok_id m in
          match attribute n i m (vlist (assoc id pe)) with
          | None => list_eqb smsg_eqb obs [] && c09_scan n t' pe pc      (* unsolicited reply *)
          | Some (q', Some hit) =>
              match obs with
              | [SOk out] => ok_out_ok id (in_child_order n hit) out && c09_scan n t' (m_set id q' pe) pc
              | _ => false
              end
          | Some (q', None) => list_eqb smsg_eqb obs [] && c09_scan n t' (m_set id q' pe) pc
          end
      | Child i (SCount m) =>
          let sub := c_sub m in
          match attribute n i m (vlist (assoc sub pc)) with
          | None => list_eqb smsg_eqb obs [] && c09_scan n t' pe pc
          | Some (q', Some hit) =>
              match obs with
              | [SCount out] => cnt_out_ok sub (in_child_order n hit) out && c09_scan n t' pe (m_set sub q' pc)
              | _ => false
              end
          | Some (q', None) => list_eqb smsg_eqb obs [] && c09_scan n t' pe (m_set sub q' pc)
          end
      | Child _ _ =>
          (* REQ traffic: judged by C08; here only "no OK/COUNT appears from nowhere" *)
          forallb (fun m => match m with SOk _ | SCount _ => false | _ => true end) obs &&
          c09_scan n t' pe pc
      end
  end.

Definition c09_oracle (n : nat) (t : otrace) : bool := c09_scan n t [] [].
