(* HttpProofs.v — C20: routing of the HTTP front door and round-trips of the
   NIP-11 document. *)
From Moc Require Import Base Http.
From Moc.Gen Require Import GenHttp.
Open Scope Z_scope.
Import Coq.Strings.String.StringSyntax.

(* ------------------------------------------------------------------ *)
(** * Facts about the generated guards (one lemma per guard) *)

Lemma g_kind_single_spec a b : g_kind_single a b = (a =? b).
Proof. reflexivity. Qed.

Lemma g_kind_pair_len_bad_spec n : g_kind_pair_len_bad n = negb (n =? 2).
Proof. reflexivity. Qed.

Lemma g_nip11_bad_accept_spec a : g_nip11_bad_accept a = negb (str_eqb a nostr_json).
Proof. reflexivity. Qed.

Lemma g_nip11_headers_spec :
  g_nip11_headers = [(hs "Content-Type", nostr_json); (hs "Access-Control-Allow-Origin", hs "*")].
Proof. reflexivity. Qed.

(** the text written when no default handler is configured *)
Definition greeting : str := snd (g_mux_route [] [] true true).

Lemma g_mux_route_spec u a nn dn :
  g_mux_route u a nn dn =
  if negb (str_eqb u [])
  then (0, [])
  else if str_eqb a nostr_json
       then (if nn then (1, hs "{}") else (2, []))
       else (if dn then (3, greeting) else (4, [])).
Proof.
  unfold g_mux_route. destruct (negb (str_eqb u [])); [reflexivity|].
  change (str_eqb a _) with (str_eqb a nostr_json).
  destruct (str_eqb a nostr_json); [destruct nn; reflexivity|].
  destruct dn; reflexivity.
Qed.

Definition fld (a b c : String.string) (d : bool) : str * (str * (str * bool)) := (hs a, (hs b, (hs c, d))).
Arguments fld (a b c)%string d.

(** text pinning of the struct tags: field, Go type, JSON key, omitempty.  The
    encoder and decoder of Http.v were written for exactly this table. *)
Lemma g_nip11_tags_pinned :
  g_nip11_tags =
  [(hs "NIP11",
    [fld "Name" "string" "name" true; fld "Description" "string" "description" true;
     fld "Pubkey" "string" "pubkey" true; fld "Contact" "string" "contact" true;
     fld "SupportedNIPs" "[]int" "supported_nips" true; fld "Software" "string" "software" true;
     fld "Version" "string" "version" true; fld "Limitation" "*NIP11Limitation" "limitation" true;
     fld "Retention" "*NIP11Retention" "retention" true; fld "RelayContries" "[]string" "relay_countries" true;
     fld "LanguageTags" "[]string" "language_tags" true; fld "Tags" "[]string" "tags" true;
     fld "PostingPolicy" "string" "posting_policy" true; fld "PaymentsURL" "string" "payments_url" true;
     fld "Fees" "*NIP11Fees" "fees" true; fld "Icon" "string" "icon" true]);
   (hs "NIP11Limitation",
    [fld "MaxMessageLength" "int" "max_message_length" true; fld "MaxSubscriptions" "int" "max_subscriptions" true;
     fld "MaxFilters" "int" "max_filters" true; fld "MaxLimit" "int" "max_limit" true;
     fld "MaxSubIDLength" "int" "max_subid_length" true; fld "MaxEventTags" "int" "max_event_tags" true;
     fld "MaxContentLength" "int" "max_content_length" true; fld "MinPoWDifficulty" "int" "min_pow_difficulty" true;
     fld "AuthRequired" "bool" "auth_required" true; fld "PaymentRequired" "bool" "payment_required" true;
     fld "CreatedAtLowerLimit" "int64" "created_at_lower_limit" true;
     fld "CreatedAtUpperLimit" "int64" "created_at_upper_limit" true]);
   (hs "NIP11Retention",
    [fld "Kinds" "[]*Nip11Kind" "kinds" true; fld "Time" "*int" "time" true; fld "Count" "*int" "count" true]);
   (hs "NIP11Fees",
    [fld "Admission" "[]*Nip11Fee" "admission" true; fld "Subscription" "[]*Nip11Fee" "subscription" true;
     fld "Publication" "[]*Nip11Fee" "publication" true]);
   (hs "Nip11Fee",
    [fld "Kinds" "[]*Nip11Kind" "kinds" true; fld "Amount" "int" "amount" false;
     fld "Unit" "string" "unit" true; fld "Period" "*int" "period" true])].
Proof. vm_compute. reflexivity. Qed.

(* ------------------------------------------------------------------ *)
(** * Routing *)

Lemma route_of_eq u a hn hd :
  route_of u a hn hd =
  if negb (str_eqb u []) then Relay
  else if str_eqb a nostr_json then (if hn then Nip11Doc else EmptyObj)
       else (if hd then Default else Greeting).
Proof.
  unfold route_of. rewrite g_mux_route_spec.
  destruct (negb (str_eqb u [])); [reflexivity|].
  destruct (str_eqb a nostr_json); [destruct hn; reflexivity | destruct hd; reflexivity].
Qed.

(** Upgrade non-empty -> relay; else Accept exactly application/nostr+json ->
    the document (or `{}` when none is configured); else the default handler
    (or the greeting when none is configured) *)
Theorem route_spec u a hn hd :
  (u <> [] -> route_of u a hn hd = Relay) /\
  (u = [] -> a = nostr_json -> route_of u a hn hd = if hn then Nip11Doc else EmptyObj) /\
  (u = [] -> a <> nostr_json -> route_of u a hn hd = if hd then Default else Greeting).
Proof.
  rewrite route_of_eq. repeat split.
  - intro H. apply str_eqb_neq in H. now rewrite H.
  - intros -> ->. now rewrite !str_eqb_refl.
  - intros -> H. apply str_eqb_neq in H. now rewrite str_eqb_refl, H.
Qed.

(** every request has exactly one destination, decided by the two headers alone *)
Theorem route_total_exclusive u a hn hd :
  route_of u a hn hd <> Broken /\
  (route_of u a hn hd = Relay <-> u <> []) /\
  (route_of u a hn hd = Nip11Doc \/ route_of u a hn hd = EmptyObj <-> u = [] /\ a = nostr_json) /\
  (route_of u a hn hd = Default \/ route_of u a hn hd = Greeting <-> u = [] /\ a <> nostr_json).
Proof.
  rewrite route_of_eq.
  destruct (str_eqb u []) eqn:U; [apply str_eqb_eq in U | apply str_eqb_neq in U];
    (destruct (str_eqb a nostr_json) eqn:A; [apply str_eqb_eq in A | apply str_eqb_neq in A]);
    destruct hn, hd; cbn [negb];
    (split; [discriminate|]);
    (split; [split; [try discriminate; intros _; assumption | intro H; try reflexivity; contradiction]|]);
    (split; (split; [intros [H|H]; try discriminate H; split; assumption
                    | intros [H1 H2]; try contradiction; try congruence; auto])).
Qed.

(** the mux never dereferences a missing NIP11 or Default *)
Theorem mux_no_panic upgrade accept cfg : mux_serve upgrade accept cfg <> OPanic.
Proof.
  unfold mux_serve. rewrite g_mux_route_spec.
  destruct (negb (str_eqb (hdr_get upgrade) [])); [discriminate|].
  destruct (str_eqb (hdr_get accept) nostr_json).
  - destruct (mc_nip11 cfg); discriminate.
  - destruct (mc_has_default cfg); simpl; discriminate.
Qed.

Theorem mux_relay upgrade accept cfg :
  hdr_get upgrade <> [] -> mux_serve upgrade accept cfg = ORelay.
Proof.
  intro H. apply str_eqb_neq in H. unfold mux_serve. rewrite g_mux_route_spec, H. reflexivity.
Qed.

Theorem mux_default upgrade accept cfg :
  hdr_get upgrade = [] -> hdr_get accept <> nostr_json ->
  mux_serve upgrade accept cfg =
  if mc_has_default cfg then ODefault else OResp (mkResp 200 [] (BText greeting)).
Proof.
  intros U A. apply str_eqb_neq in A. unfold mux_serve. rewrite g_mux_route_spec, U, A. simpl.
  destruct (mc_has_default cfg); reflexivity.
Qed.

Theorem mux_empty_obj upgrade accept hd :
  hdr_get upgrade = [] -> hdr_get accept = nostr_json ->
  mux_serve upgrade accept (mkCfg None hd) = OResp (mkResp 200 [] (BText (hs "{}"))).
Proof.
  intros U A. unfold mux_serve. rewrite g_mux_route_spec, U, A. reflexivity.
Qed.

(* ------------------------------------------------------------------ *)
(** * Kind ranges *)

Theorem kind_roundtrip k : dec_kind (enc_kind k) = Some k.
Proof.
  destruct k as [a b]. unfold enc_kind. rewrite g_kind_single_spec. cbn [k_from k_to].
  destruct (a =? b) eqn:E.
  - apply Z.eqb_eq in E. subst. reflexivity.
  - unfold dec_kind. rewrite g_kind_pair_len_bad_spec. reflexivity.
Qed.

Lemma enc_kind_not_null k : enc_kind k <> JNull.
Proof. unfold enc_kind. destruct (g_kind_single _ _); discriminate. Qed.

Lemma kind_ptr_roundtrip o : dec_kind_ptr (enc_kind_ptr o) = Some o.
Proof.
  destruct o as [k|]; [|reflexivity]. simpl. pose proof (enc_kind_not_null k) as N.
  pose proof (kind_roundtrip k) as R. unfold dec_kind_ptr.
  destruct (enc_kind k); try contradiction; rewrite R; reflexivity.
Qed.

(** a single number is read as the range [n, n]; a pair as [a, b] — also when a = b *)
Theorem kind_readings n a b :
  dec_kind (JInt n) = Some (mkKind n n) /\ dec_kind (JArr [JInt a; JInt b]) = Some (mkKind a b).
Proof. split; [reflexivity|]. unfold dec_kind. rewrite g_kind_pair_len_bad_spec. reflexivity. Qed.

(* ------------------------------------------------------------------ *)
(** * Objects with omitted members *)

Fixpoint str_nodupb (l : list str) : bool :=
  match l with [] => true | x :: r => negb (mem_str x r) && str_nodupb r end.

Lemma str_nodupb_NoDup l : str_nodupb l = true -> NoDup l.
Proof.
  induction l as [|x l IH]; simpl; intro H; [constructor|].
  apply andb_true_iff in H as [H1 H2]. constructor; [|now apply IH].
  intro Hin. apply mem_str_In in Hin. rewrite Hin in H1. discriminate.
Qed.

Lemma jget_objl_absent k fs : ~ In k (List.map fst fs) -> jget k (objl fs) = None.
Proof.
  induction fs as [|[k0 ov0] fs IH]; simpl; intro H; [reflexivity|].
  assert (N : k <> k0) by (intro E; apply H; now left).
  assert (R : jget k (objl fs) = None) by (apply IH; intro Hin; apply H; now right).
  unfold objl in *. simpl. destruct ov0 as [v|]; simpl; [|exact R].
  rewrite R. apply str_eqb_neq in N. now rewrite N.
Qed.

Lemma jget_objl k ov fs : NoDup (List.map fst fs) -> In (k, ov) fs -> jget k (objl fs) = ov.
Proof.
  induction fs as [|[k0 ov0] fs IH]; simpl; intros ND Hin; [contradiction|].
  inversion ND as [|? ? Hn ND']; subst. unfold objl in *. simpl. destruct Hin as [E|Hin].
  - injection E as E1 E2. subst k0 ov0. pose proof (jget_objl_absent k fs Hn) as R. unfold objl in R.
    destruct ov as [v|]; simpl; [|exact R]. now rewrite R, str_eqb_refl.
  - pose proof (IH ND' Hin) as R.
    assert (N : k <> k0).
    { intro E; subst k. apply Hn. change k0 with (fst (k0, ov)). now apply in_map. }
    destruct ov0 as [v|]; simpl; [|exact R]. rewrite R. destruct ov; [reflexivity|].
    apply str_eqb_neq in N. now rewrite N.
Qed.

Ltac solve_in := simpl; repeat (first [left; reflexivity | right]).
Ltac solve_nodup := apply str_nodupb_NoDup; vm_compute; reflexivity.
Ltac get_field := erewrite jget_objl; [| solve_nodup | solve_in].

(* ---- field-level round trips --------------------------------------- *)

Lemma d_f_str s : d_str (f_str s) = Some s.
Proof. destruct s; reflexivity. Qed.

Lemma d_f_int z : d_int (f_int z) = Some z.
Proof. unfold f_int. destruct (z =? 0) eqn:E; [apply Z.eqb_eq in E; subst|]; reflexivity. Qed.

Lemma d_f_bool b : d_bool (f_bool b) = Some b.
Proof. destruct b; reflexivity. Qed.

Lemma d_f_optint o : d_optint (f_optint o) = Some o.
Proof. destruct o; reflexivity. Qed.

Lemma map_opt_map {A} (enc : A -> jv) dec (nf : A -> A) l :
  (forall x, dec (enc x) = Some (nf x)) -> map_opt dec (List.map enc l) = Some (List.map nf l).
Proof.
  intro H. induction l as [|x l IH]; simpl; [reflexivity|]. now rewrite H, IH.
Qed.

Lemma d_f_slice {A} (enc : A -> jv) dec (nf : A -> A) o :
  (forall x, dec (enc x) = Some (nf x)) -> d_slice dec (f_slice enc o) = Some (norm_slice nf o).
Proof.
  intro H. destruct o as [[|x l]|]; try reflexivity.
  unfold f_slice, d_slice, norm_slice. now rewrite (map_opt_map enc dec nf (x :: l) H).
Qed.

Lemma norm_slice_id {A} (o : option (list A)) : norm_slice (fun x => x) o = norm_list o.
Proof. destruct o as [[|x l]|]; try reflexivity. unfold norm_slice. now rewrite map_id. Qed.

Lemma d_f_slice_id {A} (enc : A -> jv) dec o :
  (forall x, dec (enc x) = Some x) -> d_slice dec (f_slice enc o) = Some (norm_list o).
Proof. intro H. rewrite <- norm_slice_id. now apply d_f_slice. Qed.

Lemma d_f_ptr {A} (enc : A -> jv) dec (nf : A -> A) o :
  (forall x, enc x <> JNull) -> (forall x, dec (enc x) = Some (nf x)) ->
  d_ptr dec (f_ptr enc o) = Some (option_map nf o).
Proof.
  intros N H. destruct o as [x|]; [|reflexivity]. simpl. specialize (N x). specialize (H x).
  destruct (enc x); try contradiction; rewrite H; reflexivity.
Qed.

(* ---- struct-level round trips -------------------------------------- *)

Lemma lim_roundtrip l : dec_lim (enc_lim l) = Some l.
Proof.
  cbv beta iota delta [enc_lim dec_lim obj].
  repeat get_field. rewrite !d_f_int, !d_f_bool. destruct l. reflexivity.
Qed.

Lemma ret_roundtrip r : dec_ret (enc_ret r) = Some (norm_ret r).
Proof.
  cbv beta iota delta [enc_ret dec_ret obj norm_ret].
  repeat get_field. rewrite (d_f_slice_id enc_kind_ptr dec_kind_ptr _ kind_ptr_roundtrip), !d_f_optint.
  destruct r. reflexivity.
Qed.

Lemma fee_roundtrip f : dec_fee (enc_fee f) = Some (norm_fee f).
Proof.
  cbv beta iota delta [enc_fee dec_fee obj norm_fee].
  repeat get_field. rewrite (d_f_slice_id enc_kind_ptr dec_kind_ptr _ kind_ptr_roundtrip), d_f_str, d_f_optint.
  destruct f. reflexivity.
Qed.

Lemma fee_ptr_roundtrip o : dec_fee_ptr (enc_fee_ptr o) = Some (option_map norm_fee o).
Proof.
  destruct o as [f|]; [|reflexivity]. cbn [enc_fee_ptr option_map].
  pose proof (fee_roundtrip f) as R. unfold dec_fee_ptr.
  assert (N : exists kv, enc_fee f = JObj kv) by (unfold enc_fee, obj; eauto).
  destruct N as [kv E]. rewrite E in *. now rewrite R.
Qed.

Lemma fees_roundtrip f : dec_fees (enc_fees f) = Some (norm_fees f).
Proof.
  cbv beta iota delta [enc_fees dec_fees obj norm_fees norm_feelist].
  repeat get_field.
  rewrite !(d_f_slice enc_fee_ptr dec_fee_ptr (option_map norm_fee) _ fee_ptr_roundtrip).
  destruct f. reflexivity.
Qed.

Lemma int_elem_roundtrip z : dec_int_elem (JInt z) = Some z.
Proof. reflexivity. Qed.
Lemma str_elem_roundtrip s : dec_str_elem (JStr s) = Some s.
Proof. reflexivity. Qed.

(** the document read back from its JSON form is the configuration, up to nil
    versus empty slices (which `omitempty` cannot tell apart) *)
Theorem nip11_roundtrip d : dec_nip11 (enc_nip11 d) = Some (norm d).
Proof.
  cbv beta iota delta [enc_nip11 dec_nip11 obj nip11_fields norm].
  repeat get_field.
  rewrite !d_f_str.
  rewrite (d_f_slice_id JInt dec_int_elem _ int_elem_roundtrip).
  rewrite !(d_f_slice_id JStr dec_str_elem _ str_elem_roundtrip).
  rewrite (d_f_ptr enc_lim dec_lim (fun x => x)); [| discriminate | apply lim_roundtrip].
  rewrite (d_f_ptr enc_ret dec_ret norm_ret); [| discriminate | apply ret_roundtrip].
  rewrite (d_f_ptr enc_fees dec_fees norm_fees); [| discriminate | apply fees_roundtrip].
  destruct d as [? ? ? ? ? ? ? lim ? ? ? ? ? ? ? ?]. simpl. destruct lim; reflexivity.
Qed.

(** normalisation is idempotent, and the identity on documents without empty slices *)
Lemma norm_list_idem {A} (o : option (list A)) : norm_list (norm_list o) = norm_list o.
Proof. destruct o as [[|x l]|]; reflexivity. Qed.

Lemma norm_fee_idem f : norm_fee (norm_fee f) = norm_fee f.
Proof. destruct f. unfold norm_fee. simpl. now rewrite norm_list_idem. Qed.

Lemma norm_feelist_idem l : norm_feelist (norm_feelist l) = norm_feelist l.
Proof.
  destruct l as [[|x l]|]; try reflexivity. unfold norm_feelist, norm_slice. simpl. f_equal.
  rewrite map_map. f_equal.
  - destruct x; simpl; [now rewrite norm_fee_idem | reflexivity].
  - apply map_ext. intros [f|]; simpl; [now rewrite norm_fee_idem | reflexivity].
Qed.

Theorem norm_idempotent d : norm (norm d) = norm d.
Proof.
  destruct d as [a b c d0 e f g h ret j k l m n fe p]. unfold norm. simpl. rewrite !norm_list_idem. f_equal.
  - destruct ret as [[ks t cnt]|]; simpl; [|reflexivity]. unfold norm_ret. simpl.
    now rewrite norm_list_idem.
  - destruct fe as [[x y z]|]; simpl; [|reflexivity]. unfold norm_fees. simpl.
    now rewrite !norm_feelist_idem.
Qed.

(** decoding the encoding twice is stable: the normal form round-trips exactly *)
Corollary nip11_roundtrip_exact d : dec_nip11 (enc_nip11 (norm d)) = Some (norm d).
Proof. rewrite nip11_roundtrip. now rewrite norm_idempotent. Qed.

(* ------------------------------------------------------------------ *)
(** * The document over HTTP *)

(** a request without Upgrade whose Accept is application/nostr+json is answered
    200 with exactly the two headers and a body that is the JSON form of the
    configured document, which reads back as the configuration *)
Theorem nip11_body_equals_config upgrade accept d hd :
  hdr_get upgrade = [] -> hdr_get accept = nostr_json ->
  mux_serve upgrade accept (mkCfg (Some d) hd) =
    OResp (mkResp 200 [(hs "Content-Type", nostr_json); (hs "Access-Control-Allow-Origin", hs "*")]
                  (BJson (enc_nip11 d))) /\
  dec_nip11 (enc_nip11 d) = Some (norm d).
Proof.
  intros U A. split; [|apply nip11_roundtrip].
  unfold mux_serve. rewrite g_mux_route_spec, U, A. simpl.
  unfold serve_nip11. rewrite g_nip11_bad_accept_spec, str_eqb_refl, g_nip11_headers_spec. reflexivity.
Qed.

(* ------------------------------------------------------------------ *)
(** * A non-trivial document *)

Definition ex_doc : nip11 :=
  mkNip11 (hs "relay") [] [] (hs "mailto:a@b") (Some [1; 11; -3]) [] (hs "v1")
          (Some (mkLim 0 20 0 500 0 0 0 0 true false (-5) 0))
          (Some (mkRet (Some [Some (mkKind 0 0); None; Some (mkKind 4 7); Some (mkKind 7 4)]) (Some 0) None))
          (Some []) None (Some [hs "x"; []]) [] []
          (Some (mkFees (Some [Some (mkFee (Some []) 0 (hs "msats") None); None]) (Some []) None)) [].

Example ex_doc_roundtrip :
  dec_nip11 (enc_nip11 ex_doc) = Some (norm ex_doc) /\ norm ex_doc <> ex_doc.
Proof. split; [apply nip11_roundtrip | discriminate]. Qed.
