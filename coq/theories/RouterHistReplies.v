(* RouterHistReplies.v — C07: the replies a connection has received are the
   replies of its operations that have an end stamp, in order.  (An
   operation that was in flight when the session's context was cancelled may
   stay without reply and without end stamp.) *)
From Moc Require Import Base Match Router RouterSpec RouterHist RouterLemmas RouterFrame RouterTrans RouterData
  RouterMust RouterEnv RouterInv RouterDataInv RouterOnce RouterOrder RouterReplies RouterProofs RouterHistBase RouterHistInv.
From Coq Require Import Sorted.
Open Scope Z_scope.

Definition contrib (h : hop) : list smsg := if is_some (h_d h) then reply_of (h_o h) else [].
Definition rep_hops (L : list hop) : list smsg := flat_map contrib L.

Definition RHInv (st : istate) : Prop :=
  forall x, replies (c_out (r_cs (i_s st) x)) = rep_hops (xops x (i_hops st)).

Lemma RHInv_init buf : RHInv (i_init buf).
Proof. intro x. reflexivity. Qed.

Lemma rep_hops_app L1 L2 : rep_hops (L1 ++ L2) = rep_hops L1 ++ rep_hops L2.
Proof. apply flat_map_app. Qed.

Lemma contrib_close1_true c k h : contrib (close1 true c k h) = contrib h.
Proof.
  unfold contrib. rewrite close1_o. destruct (close1_d true c k h) as [E|(E1 & E2 & _ & _ & Ek)]; [now rewrite E|].
  rewrite E1, E2. cbn. destruct (h_o h); try discriminate. reflexivity.
Qed.

Lemma rep_hops_close_true c k L : rep_hops (List.map (close1 true c k) L) = rep_hops L.
Proof.
  induction L as [|a L IH]; [reflexivity|]. cbn [List.map]. unfold rep_hops in *. cbn [flat_map].
  now rewrite contrib_close1_true, IH.
Qed.

Lemma fin_reply o : reply_of o = reply_of_instr (fin_instr o).
Proof. destruct o; reflexivity. Qed.

Lemma reply_of_instr_noevent i m : In m (reply_of_instr i) -> is_event_msg m = false.
Proof. destruct i; cbn; intros [<-|[]] || intros []; reflexivity. Qed.

Lemma replies_app_replies out l : (forall m, In m l -> is_event_msg m = false) -> replies (out ++ l) = replies out ++ l.
Proof.
  intro H. unfold replies. rewrite filter_app. f_equal.
  induction l as [|m l IH]; [reflexivity|]. cbn. rewrite (H m (or_introl eq_refl)). cbn. f_equal. apply IH.
  intros m' Hm'. apply H. now right.
Qed.

Lemma xops_close_other x d c k H : x <> c -> xops x (close_hop d c k H) = xops x H.
Proof.
  intro N. rewrite xops_close. rewrite <- (map_id (xops x H)) at 2. apply map_ext_in.
  intros h Hin. apply xops_In in Hin as [_ Hc]. apply close1_other. congruence.
Qed.

Lemma out_upd2 f c v1 c2 (g : cst -> cst) x :
  (forall st, c_out (g st) = c_out st) ->
  c_out (upd (upd f c v1) c2 (g (upd f c v1 c2)) x) = c_out (upd f c v1 x).
Proof.
  intro Hg. destruct (upd_cases (upd f c v1) c2 (g (upd f c v1 c2)) x) as [[-> ->]|[_ ->]]; [apply Hg | reflexivity].
Qed.

(** what the goroutine's step hands over *)
Lemma trans_out_run s c s' :
  trans s (LRun c) s' ->
  c_out (r_cs s' c) = c_out (r_cs s c) ++ flat_map reply_of_instr (firstn 1 (c_pc (r_cs s c))).
Proof.
  intro T. inversion T; subst; cbn [r_cs with_cs start_visit];
    try (match goal with Hd : _ = LVisit _ _ _ \/ _ |- _ => destruct Hd as [Hd|[Hd _]]; [discriminate | inversion Hd; subst] end);
    match goal with Hpc : c_pc (r_cs _ _) = _ |- _ => rewrite Hpc end; cbn [firstn flat_map app].
  - rewrite upd_same. cbn. now rewrite app_nil_r.
  - rewrite upd_same. cbn. now rewrite app_nil_r.
  - rewrite upd_same. cbn. now rewrite app_nil_r.
  - rewrite upd_same. cbn. now rewrite app_nil_r.
  - rewrite upd_same. cbn. now rewrite app_nil_r.
  - rewrite upd_same. cbn.
    match goal with Hr : is_reply_instr ?i ?m |- _ => destruct i; cbn in Hr; try contradiction; subst; reflexivity end.
  - rewrite upd_same. cbn. now rewrite app_nil_r.
  - rewrite upd_same. cbn. now rewrite app_nil_r.
  - match goal with |- c_out (upd ?F ?k ?v ?x) = _ => destruct (upd_cases F k v x) as [[Ek Ev]|[Nk Ev]]; rewrite Ev; clear Ev end.
    + cbn [c_out set_rd]. rewrite <- Ek, upd_same. cbn. now rewrite app_nil_r.
    + rewrite upd_same. cbn. now rewrite app_nil_r.
  - match goal with |- c_out (upd ?F ?k ?v ?x) = _ => destruct (upd_cases F k v x) as [[Ek Ev]|[Nk Ev]]; rewrite Ev; clear Ev end.
    + cbn [c_out set_rd]. rewrite <- Ek, upd_same. cbn. now rewrite app_nil_r.
    + rewrite upd_same. cbn. now rewrite app_nil_r.
  - match goal with |- c_out (upd ?F ?k ?v ?x) = _ => destruct (upd_cases F k v x) as [[Ek Ev]|[Nk Ev]]; rewrite Ev; clear Ev end.
    + rewrite send_if_match_out. rewrite <- Ek, upd_same. cbn. now rewrite app_nil_r.
    + rewrite upd_same. cbn. now rewrite app_nil_r.
  - rewrite upd_same. cbn. now rewrite app_nil_r.
  - rewrite upd_same. cbn. now rewrite app_nil_r.
Qed.

(** the end of an operation of [c]: its hop gets the end stamp, and this is
    the only change in what [c]'s hops contribute *)
Lemma rep_close_op buf st c ops0 o :
  reachable buf (i_s st) -> HInv st ->
  c_pc (r_cs (i_s st) c) <> [] -> c_dead (r_cs (i_s st) c) = false ->
  c_ops (r_cs (i_s st) c) = ops0 ++ [o] -> is_disc o = false ->
  rep_hops (xops c (close_hop false c (i_now st) (i_hops st))) = rep_hops (xops c (i_hops st)) ++ reply_of o.
Proof.
  intros R HI Hne Hd Eo Hnd.
  destruct (h_busy st HI c Hne Hd) as (hs & Hhs & Hchs & Hkhs & Hdhs & Lhs).
  destruct (last_op_hop buf st c ops0 o R HI Eo) as (q0 & Hq0 & Hcq0 & Hoq0 & Hlater).
  assert (q0 = hs).
  { eapply hop_eq_of_b; [apply HI | assumption | assumption|].
    assert (A1 : h_b q0 <= h_b hs) by (apply Lhs; [assumption | assumption | now rewrite Hoq0]).
    destruct (Z.eq_dec (h_b q0) (h_b hs)) as [Eq|Nq]; [assumption|]. exfalso.
    destruct (Hlater hs Hhs Hchs) as [X _]; [lia | congruence]. }
  subst q0.
  assert (Hx : In hs (xops c (i_hops st))) by (apply xops_In; auto).
  apply in_split in Hx as (l1 & l2 & EL).
  assert (S' : StronglySorted (fun a b => h_b a < h_b b) (xops c (i_hops st))) by (unfold xops; apply SSorted_filter_gen, HI).
  rewrite EL in S'. destruct (SSorted_mid _ _ _ _ S') as [F1 F2]. rewrite Forall_forall in F1, F2.
  (* hops other than hs keep their contribution *)
  assert (Keep : forall b, In b (l1 ++ l2) -> contrib (close1 false c (i_now st) b) = contrib b).
  { intros b Hb. unfold contrib. rewrite close1_o.
    destruct (close1_d false c (i_now st) b) as [E|(E1 & E2 & Ec & Ecl & Ek)]; [now rewrite E|]. exfalso.
    assert (Hbin : In b (i_hops st)).
    { assert (X : In b (xops c (i_hops st))) by (rewrite EL; apply in_app_iff in Hb as [Hb|Hb]; apply in_or_app; [now left | right; now right]).
      now apply xops_In in X. }
    destruct (h_open st HI b Hbin E1 Ecl Ek) as [Lb _].
    assert (A1 : h_b hs <= h_b b) by (apply Lb; [assumption | congruence | assumption]).
    assert (A2 : h_b b <= h_b hs) by (apply Lhs; [assumption | assumption | assumption]).
    apply in_app_iff in Hb as [Hb|Hb]; [specialize (F1 b Hb) | specialize (F2 b Hb)]; cbn in *; lia. }
  (* hops after hs are disconnects: no reply *)
  assert (After : forall b, In b l2 -> contrib b = []).
  { intros b Hb. unfold contrib.
    assert (Hbx : In b (xops c (i_hops st))) by (rewrite EL; apply in_or_app; right; now right).
    apply xops_In in Hbx as [Hbin Hbc]. specialize (F2 b Hb). cbn in F2.
    destruct (Hlater b Hbin Hbc F2) as [X _]. destruct (h_o b); try discriminate. now destruct (is_some _). }
  rewrite xops_close, EL, map_app. cbn [List.map]. rewrite !rep_hops_app. cbn [rep_hops flat_map].
  fold (rep_hops (List.map (close1 false c (i_now st)) l2)). fold (rep_hops l2).
  assert (E1 : rep_hops (List.map (close1 false c (i_now st)) l1) = rep_hops l1).
  { unfold rep_hops. rewrite flat_map_concat_map, map_map, <- flat_map_concat_map. apply flat_map_ext_in || idtac.
    clear -Keep. induction l1 as [|a l1 IH]; [reflexivity|]. cbn. rewrite Keep by (now left). f_equal. apply IH.
    intros b Hb. apply Keep. cbn. now right. }
  assert (E2 : rep_hops (List.map (close1 false c (i_now st)) l2) = []).
  { clear -Keep After. induction l2 as [|a l2 IH]; [reflexivity|]. cbn [List.map rep_hops flat_map].
    rewrite Keep by (apply in_or_app; right; now left). rewrite (After a (or_introl eq_refl)). cbn.
    apply IH; [intros b Hb; apply Keep; apply in_app_iff in Hb as [Hb|Hb]; apply in_or_app; [now left | right; now right]
              | intros b Hb; apply After; now right]. }
  assert (E3 : rep_hops l2 = []).
  { clear -After. induction l2 as [|a l2 IH]; [reflexivity|]. cbn. rewrite (After a (or_introl eq_refl)). cbn.
    apply IH. intros b Hb. apply After. now right. }
  assert (Ec : contrib hs = []) by (unfold contrib; now rewrite Hdhs).
  assert (Ec' : contrib (close1 false c (i_now st) hs) = reply_of o).
  { unfold contrib. rewrite close1_o, Hoq0.
    destruct (is_close o) eqn:Ecl.
    - rewrite close1_isclose by (now rewrite Hoq0). rewrite Hdhs. cbn. destruct o; try discriminate. reflexivity.
    - rewrite (close1_open false c _ hs Hchs Hdhs); [reflexivity | now rewrite Hoq0 | assumption]. }
  rewrite E1, E2, E3, Ec, Ec'. cbn [app]. now rewrite !app_nil_r.
Qed.

Theorem RHInv_step buf st l : reachable buf (i_s st) -> HInv st -> RHInv st -> RHInv (istep st l).
Proof.
  intros R HI RH x. pose proof (Inv_reachable buf _ R) as I.
  destruct (step_trans (i_s st) l) as [E|T].
  { destruct (istep_stutter st l E) as [EH _]. rewrite istep_s, E, EH. apply RH. }
  rewrite istep_s, (istep_hops_trans st l T).
  (* the output of x grows only by its own goroutine or forwarder *)
  assert (OutSame : l <> LRun x -> l <> LDeliver x -> c_out (r_cs (step (i_s st) l) x) = c_out (r_cs (i_s st) x)).
  { intros N1 N2. destruct (trans_out _ _ _ x T) as [E|(m & _ & [[E _]|[E _]])]; [assumption | contradiction | contradiction]. }
  destruct l as [c o|c|c c' ord|c|c|c].
  - (* a new operation: no end stamp yet *)
    rewrite OutSame by discriminate. rewrite xops_app, rep_hops_app, (RH x).
    assert (E0 : rep_hops (xops x [mkHop c o (i_now st) None]) = []).
    { unfold xops. cbn [filter h_c]. destruct (Nat.eqb c x); reflexivity. }
    rewrite E0. now rewrite app_nil_r.
  - destruct (Nat.eq_dec x c) as [->|N].
    2:{ rewrite OutSame by (try discriminate; intro X; inversion X; congruence).
        destruct (_ && _); [rewrite xops_close_other by assumption|]; apply RH. }
    rewrite (trans_out_run _ _ _ T).
    assert (Hl : label_of_conn c (LRun c) = true) by (cbn; apply Nat.eqb_refl).
    destruct (c_pc (r_cs (i_s st) c)) as [|i rest] eqn:Hpc.
    + (* defer *) cbn [firstn flat_map is_nil negb andb]. rewrite app_nil_r. apply RH.
    + cbn [firstn flat_map is_nil negb andb]. rewrite app_nil_r.
      destruct (trans_pc_actor _ _ _ _ I T Hl) as [(o & _ & X & _)|[(i' & rest' & heads & Hpc0 & Hpc' & Hh & _)|(X & _)]];
        [congruence | | discriminate].
      rewrite Hpc in Hpc0. inversion Hpc0; subst i' rest'.
      destruct (is_nil (c_pc (r_cs (step (i_s st) (LRun c)) c))) eqn:En.
      * (* the program ends *)
        apply is_nil_true in En. rewrite En in Hpc'. symmetry in Hpc'. apply app_eq_nil in Hpc' as [-> ->].
        destruct (is_unsub_head [i]) eqn:Eu.
        -- (* the deferred UnsubscribeAll: a disconnect has no reply *)
           destruct i; try discriminate.
           cbn [flat_map reply_of_instr app]. rewrite app_nil_r, xops_close, rep_hops_close_true. apply RH.
        -- assert (Hne : c_pc (r_cs (i_s st) c) <> []) by (rewrite Hpc; discriminate).
           assert (Hd : c_dead (r_cs (i_s st) c) = false).
           { destruct (c_dead (r_cs (i_s st) c)) eqn:Ed; [|reflexivity].
             destruct (inv_dead _ I c Ed) as [X|[X _]]; rewrite X in Hpc; [inversion Hpc; subst i; discriminate | discriminate]. }
           destruct (LOInv_reachable buf _ R _ Hne) as (ops0 & o & pre & Eo & Ep).
           rewrite Hpc in Ep. destruct pre as [|i0 pre]; [|destruct pre; discriminate]. cbn in Ep. inversion Ep as [Ei].
           assert (Hnd : is_disc o = false) by (destruct o; try reflexivity; subst i; discriminate).
           rewrite (rep_close_op buf st c ops0 o R HI Hne Hd Eo Hnd), fin_reply, <- Ei.
           rewrite replies_app_replies by (apply reply_of_instr_noevent). now rewrite (RH c).
      * (* the program goes on: nothing was handed over *)
        assert (Ei : reply_of_instr i = []).
        { destruct (reply_of_instr i) as [|m ms] eqn:Er; [reflexivity|]. exfalso.
          pose proof (inv_pc _ I c) as P. rewrite Hpc in P. apply is_nil_false in En. apply En. rewrite Hpc'.
          destruct i; try discriminate.
          - destruct (pc_ok_inv_eose _ _ _ _ P) as [-> _]. destruct Hh as [->|X]; [reflexivity | contradiction].
          - rewrite (pc_ok_inv_count _ _ _ _ P) in *. destruct Hh as [->|X]; [reflexivity | contradiction].
          - rewrite (pc_ok_inv_ok _ _ _ _ P) in *. destruct Hh as [->|X]; [reflexivity | contradiction]. }
        rewrite Ei, app_nil_r. apply RH.
  - rewrite OutSame by discriminate. apply RH.
  - rewrite OutSame by discriminate. apply RH.
  - destruct (trans_out _ _ _ x T) as [E|(m & E & [[X _]|[X Hh]])]; rewrite E; [apply RH | discriminate|].
    inversion X; subst c. rewrite replies_snoc_event; [apply RH|].
    destruct (QInv_reachable buf _ R x) as [_ Q]. now apply Q.
  - rewrite OutSame by discriminate. apply RH.
Qed.
