(* RouterReplies.v — C07: every accepted REQ is answered by exactly one EOSE,
   every EVENT by exactly one accepting OK with its id, every COUNT by one
   COUNT, in the order of the operations. *)
From Moc Require Import Base Match Router RouterLemmas RouterFrame RouterTrans RouterData RouterMust RouterEnv RouterInv.
From Moc.Gen Require Import GenRouter.
Open Scope Z_scope.

(** the queue and the forwarder's slot hold live-event copies only *)
Definition QInv (s : rstate) : Prop :=
  forall x, Forall (fun m => is_event_msg m = true) (c_q (r_cs s x)) /\
            (forall m, c_hand (r_cs s x) = Some m -> is_event_msg m = true).

Lemma QInv_init buf : QInv (r_init buf).
Proof. intro x. cbn. split; [constructor | discriminate]. Qed.

Lemma QInv_trans s l s' : QInv s -> trans s l s' -> QInv s'.
Proof.
  intros Q T x. destruct (Q x) as [Hq Hh].
  destruct (dat_trans s l s' x T)
    as [E|m Hl Hm Ho Eq Eh Hdr|c e t sub fs todo rest Hl Hpc E|rest Hl Hpc Eq Eh Ho Hdr|m q' Hl Hh0 Hq0 Eq Eh Ho Hdr|m Hl Hh0 Eq Eh Ho Hdr].
  - apply dat_eq in E as (E1 & E2 & _). now rewrite E1, E2.
  - now rewrite Eq, Eh.
  - apply dat_eq in E as (E1 & E2 & _). rewrite E1, E2, send_if_match_hand. split; [|assumption].
    destruct (send_if_match_q (r_buf s) e t sub fs (r_cs s x)) as [(_ & _ & Q1 & _)|[(_ & _ & Q1 & _)|(_ & Q1)]]; rewrite Q1; try assumption.
    apply Forall_app. split; [assumption | constructor; [reflexivity | constructor]].
  - rewrite Eq, Eh. split; [constructor | discriminate].
  - rewrite Eq, Eh. rewrite Hq0 in Hq. inversion Hq; subst. split; [assumption|]. intros m0 E. now inversion E; subst.
  - rewrite Eq, Eh. split; [assumption | discriminate].
Qed.

Lemma QInv_reachable buf s : reachable buf s -> QInv s.
Proof. apply (reachable_ind' QInv buf); [apply QInv_init|]. intros s0 l s1 _ Q T. eapply QInv_trans; eassumption. Qed.

Definition pending_replies (pc : list instr) : list smsg := flat_map reply_of_instr pc.
Definition expected_replies (ops : list op) : list smsg := flat_map reply_of ops.

(** [sk]: the reply the recv goroutine gave up because the session's context
    had been cancelled while the operation was in flight (at most the last one) *)
Definition RInv (s : rstate) : Prop :=
  forall x, exists sk,
    replies (c_out (r_cs s x)) ++ pending_replies (c_pc (r_cs s x)) ++ sk = expected_replies (c_ops (r_cs s x)) /\
    (sk = [] \/ (pending_replies (c_pc (r_cs s x)) = [] /\ (In x (r_cancel s) \/ c_dead (r_cs s x) = true))).

Lemma RInv_init buf : RInv (r_init buf).
Proof. intro x. exists []. split; [reflexivity | now left]. Qed.

Lemma replies_snoc_event l m : is_event_msg m = true -> replies (l ++ [m]) = replies l.
Proof. intro H. unfold replies. rewrite filter_app. cbn. rewrite H. cbn. apply app_nil_r. Qed.

Lemma replies_snoc_reply l m : is_event_msg m = false -> replies (l ++ [m]) = replies l ++ [m].
Proof. intro H. unfold replies. rewrite filter_app. cbn. now rewrite H. Qed.

Lemma program_replies s c o : pending_replies (program s c o) = reply_of o.
Proof.
  destruct o; cbn; try reflexivity; destruct (reg_get c (r_reg s)); reflexivity.
Qed.

Lemma out_upd_pc f c pc x : c_out (upd f c (set_pc (f c) pc) x) = c_out (f x).
Proof. destruct (upd_cases f c (set_pc (f c) pc) x) as [[-> ->]|[_ ->]]; reflexivity. Qed.

Lemma view_upd2 f c v1 c2 (g : cst -> cst) x :
  (forall st, c_out (g st) = c_out st /\ c_pc (g st) = c_pc st /\ c_ops (g st) = c_ops st /\ c_dead (g st) = c_dead st) ->
  c_out (upd (upd f c v1) c2 (g (upd f c v1 c2)) x) = c_out (upd f c v1 x) /\
  c_pc (upd (upd f c v1) c2 (g (upd f c v1 c2)) x) = c_pc (upd f c v1 x) /\
  c_ops (upd (upd f c v1) c2 (g (upd f c v1 c2)) x) = c_ops (upd f c v1 x) /\
  c_dead (upd (upd f c v1) c2 (g (upd f c v1 c2)) x) = c_dead (upd f c v1 x).
Proof.
  intro Hg. destruct (upd_cases (upd f c v1) c2 (g (upd f c v1 c2)) x) as [[-> ->]|[_ ->]]; [apply Hg | auto].
Qed.

Lemma reply_instr_pending i m rest : is_reply_instr i m -> pending_replies (i :: rest) = m :: pending_replies rest.
Proof. destruct i; cbn; intro H; try contradiction; now subst. Qed.

Theorem RInv_trans s l s' : Inv s -> QInv s -> RInv s -> trans s l s' -> RInv s'.
Proof.
  intros I Q R T x. destruct (R x) as (sk & E & Side). unfold pending_replies, expected_replies in *.
  assert (Pop : forall c i rest,
            c_pc (r_cs s c) = i :: rest -> reply_of_instr i = [] ->
            exists sk0,
              replies (c_out (upd (r_cs s) c (set_pc (r_cs s c) rest) x)) ++
              flat_map reply_of_instr (c_pc (upd (r_cs s) c (set_pc (r_cs s c) rest) x)) ++ sk0 =
              flat_map reply_of (c_ops (upd (r_cs s) c (set_pc (r_cs s c) rest) x)) /\
              (sk0 = [] \/ (flat_map reply_of_instr (c_pc (upd (r_cs s) c (set_pc (r_cs s c) rest) x)) = [] /\
                            (In x (r_cancel s) \/ c_dead (upd (r_cs s) c (set_pc (r_cs s c) rest) x) = true)))).
  { intros c i rest Hpc Hi. exists sk.
    destruct (upd_cases (r_cs s) c (set_pc (r_cs s c) rest) x) as [[-> ->]|[_ ->]]; [|auto].
    rewrite Hpc in E, Side. cbn [flat_map] in E, Side. rewrite Hi in E, Side. cbn in E, Side |- *. auto. }
  inversion T; subst; cbn [r_cs with_cs r_cancel].
  - (* op *)
    match goal with |- context [upd ?f ?k ?v x] => destruct (upd_cases f k v x) as [[-> ->]|[_ ->]] end; [|eauto].
    exists []. split; [|now left]. cbn [c_out c_pc c_ops]. rewrite flat_map_app. cbn [flat_map]. rewrite !app_nil_r.
    fold (pending_replies (program s c o)). rewrite program_replies.
    assert (sk = []).
    { destruct Side as [->|[_ [X|X]]]; [reflexivity | contradiction | congruence]. }
    subst sk. rewrite H in E. cbn in E. rewrite ?app_nil_r in E. now rewrite E.
  - eapply Pop; [eassumption | reflexivity].
  - eapply Pop; [eassumption | reflexivity].
  - eapply Pop; [eassumption | reflexivity].
  - eapply Pop; [eassumption | reflexivity].
  - eapply Pop; [eassumption | reflexivity].
  - (* reply *)
    match goal with |- context [upd ?f ?k ?v x] => destruct (upd_cases f k v x) as [[-> ->]|[_ ->]] end; [|eauto].
    cbn [c_out c_pc c_ops c_dead push_out set_pc]. rewrite H in E, Side.
    fold (pending_replies (i :: rest)) in E, Side. rewrite (reply_instr_pending i m rest H0) in E, Side.
    exists sk. split.
    + rewrite replies_snoc_reply by (eapply is_reply_not_event; eassumption). rewrite <- app_assoc. exact E.
    + left. destruct Side as [->|[X _]]; [reflexivity | discriminate].
  - (* pubbegin *)
    match goal with |- context [upd ?f ?k ?v x] => destruct (upd_cases f k v x) as [[-> ->]|[_ ->]] end; [|eauto].
    exists sk. rewrite H in E, Side. cbn in E, Side |- *. auto.
  - eapply Pop; [eassumption | reflexivity].
  - (* visit *)
    unfold start_visit. cbn [r_cs with_cs].
    destruct (view_upd2 (r_cs s) c
       (set_pc (r_cs s c) (IVisit e t c' (reorder ord match reg_get c' (r_reg s) with Some m => m | None => [] end)
                            :: IPub e t (remove_conn c' rem) :: rest)) c' (fun st => set_rd st (c :: c_rd st)) x)
      as (E1 & E2 & E3 & E4); [intro; auto|]. rewrite E1, E2, E3, E4.
    match goal with |- context [upd ?f ?k ?v x] => destruct (upd_cases f k v x) as [[-> ->]|[_ ->]] end; [|eauto].
    exists sk. rewrite H in E, Side. cbn in E, Side |- *. auto.
  - (* visitend *)
    destruct (view_upd2 (r_cs s) c (set_pc (r_cs s c) rest) c' (fun st => set_rd st (remove_conn c (c_rd st))) x)
      as (E1 & E2 & E3 & E4); [intro; auto|]. rewrite E1, E2, E3, E4.
    eapply Pop; [eassumption | reflexivity].
  - (* send *)
    destruct (view_upd2 (r_cs s) c (set_pc (r_cs s c) (IVisit e t c' todo :: rest)) c' (send_if_match (r_buf s) e t sub fs) x)
      as (E1 & E2 & E3 & E4).
    { intro st. rewrite send_if_match_out, send_if_match_pc, send_if_match_ops, send_if_match_dead. auto. }
    rewrite E1, E2, E3, E4.
    match goal with |- context [upd ?f ?k ?v x] => destruct (upd_cases f k v x) as [[-> ->]|[_ ->]] end; [|eauto].
    exists sk. rewrite H in E, Side. cbn in E, Side |- *. auto.
  - (* unsuball *)
    match goal with |- context [upd ?f ?k ?v x] => destruct (upd_cases f k v x) as [[-> ->]|[_ ->]] end; [|eauto].
    exists sk. rewrite H in E, Side. cbn in E, Side |- *. auto.
  - (* take *)
    match goal with |- context [upd ?f ?k ?v x] => destruct (upd_cases f k v x) as [[-> ->]|[_ ->]] end; eauto.
  - (* deliver *)
    match goal with |- context [upd ?f ?k ?v x] => destruct (upd_cases f k v x) as [[-> ->]|[_ ->]] end; [|eauto].
    exists sk. cbn [c_out c_pc c_ops c_dead]. rewrite replies_snoc_event; [auto|].
    destruct (Q c) as [_ Hh]. now apply Hh.
  - (* cancel *)
    exists sk. split; [exact E|]. destruct Side as [->|[X [Y|Y]]]; [now left | right; split; [assumption | left; now right] | right; auto].
  - (* skip *)
    match goal with |- context [upd ?f ?k ?v x] => destruct (upd_cases f k v x) as [[-> ->]|[_ ->]] end; [|eauto].
    cbn [c_out c_pc c_ops c_dead set_pc]. rewrite H in E, Side.
    fold (pending_replies (i :: rest)) in E, Side. rewrite (reply_instr_pending i m rest H0) in E, Side.
    assert (sk = []) by (destruct Side as [->|[X _]]; [reflexivity | discriminate]). subst sk.
    assert (rest = []).
    { pose proof (inv_pc s I c) as P. rewrite H in P. destruct i; cbn in H0; try contradiction.
      - now destruct (pc_ok_inv_eose _ _ _ _ P).
      - exact (pc_ok_inv_count _ _ _ _ P).
      - exact (pc_ok_inv_ok _ _ _ _ P). }
    subst rest. exists [m]. cbn in E |- *. split; [exact E | right; auto].
  - (* defer *)
    match goal with |- context [upd ?f ?k ?v x] => destruct (upd_cases f k v x) as [[-> ->]|[N ->]] end.
    + exists sk. cbn [c_out c_pc c_ops c_dead]. rewrite H in E. rewrite flat_map_app. cbn in E |- *.
      rewrite app_nil_r. split; [exact E | right; auto].
    + exists sk. split; [exact E|]. destruct Side as [->|[X [Y|Y]]]; [now left | | right; auto].
      right. split; [assumption|]. left. apply remove_conn_In. auto.
Qed.

Theorem RInv_reachable buf s : reachable buf s -> RInv s.
Proof.
  intro R. induction R as [|s l R IH]; [apply RInv_init|].
  destruct (step_trans s l) as [E|T]; [now rewrite E|].
  eapply RInv_trans; [eapply Inv_reachable | eapply QInv_reachable | |]; eassumption.
Qed.

(** when a connection is idle and its session alive, the replies it has
    received are exactly the replies of its operations, in order: one EOSE per
    REQ, one OK carrying the event's id per EVENT, one COUNT per COUNT,
    nothing for CLOSE *)
Theorem replies_exact buf s x :
  reachable buf s -> c_pc (r_cs s x) = [] -> c_dead (r_cs s x) = false -> ~ In x (r_cancel s) ->
  replies (c_out (r_cs s x)) = expected_replies (c_ops (r_cs s x)).
Proof.
  intros R Hpc Hd Hc. destruct (RInv_reachable buf s R x) as (sk & E & Side).
  assert (sk = []) by (destruct Side as [->|[_ [X|X]]]; [reflexivity | contradiction | congruence]). subst sk.
  rewrite Hpc in E. cbn in E. now rewrite app_nil_r in E.
Qed.

(** in any state: received replies are a prefix of the expected ones; the
    rest is still in the connection's program, except for the one reply that a
    session cancelled in flight may have given up *)
Theorem replies_prefix buf s x :
  reachable buf s ->
  exists sk,
    replies (c_out (r_cs s x)) ++ pending_replies (c_pc (r_cs s x)) ++ sk = expected_replies (c_ops (r_cs s x)) /\
    (sk = [] \/ (pending_replies (c_pc (r_cs s x)) = [] /\ (In x (r_cancel s) \/ c_dead (r_cs s x) = true))).
Proof. intro R. exact (RInv_reachable buf s R x). Qed.
