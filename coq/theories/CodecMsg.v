(* CodecMsg.v — Go-level values of the wire types of message.go, as the codec
   and the validators see them.  Definitions only.

   [None] is Go's nil (nil slice, nil map, nil pointer); [Some []] an empty
   non-nil slice.  The records differ from Base.event / Base.rfilter only in
   keeping the nil cases that Valid() and the encoders distinguish:
   Event.Tags == nil, a nil Tag inside Tags, a nil value slice inside
   ReqFilter.Tags, a nil *Event / *ReqFilter inside a message. *)
From Moc Require Import Base Json.
Open Scope Z_scope.

Definition gtag := option (list str).

Record gevent := mkGEvent {
  ge_id : str;
  ge_pk : str;
  ge_ts : Z;
  ge_kind : Z;
  ge_tags : option (list gtag);
  ge_content : str;
  ge_sig : str
}.

Record gfilter := mkGFilter {
  gf_ids : option (list str);
  gf_authors : option (list str);
  gf_kinds : option (list Z);
  gf_tags : option (list (str * option (list str)));   (* Go map: keys pairwise distinct *)
  gf_since : option Z;
  gf_until : option Z;
  gf_limit : option Z
}.

Definition empty_gfilter : gfilter := mkGFilter None None None None None None None.

(** the five client messages; ReqFilters nil and empty are one value
    (both encode as no filter at all and both are invalid) *)
Inductive cmsg :=
| CEvent (e : option gevent)
| CReq (sub : str) (fs : list (option gfilter))
| CClose (sub : str)
| CAuth (e : option gevent)
| CCount (sub : str) (fs : list (option gfilter)).

(** the seven server messages; Count is a uint64 *)
Inductive smsg :=
| SEose (sub : str)
| SEvent (sub : str) (e : option gevent)
| SNotice (m : str)
| SOk (id : str) (accepted : bool) (msg pfx : str)
| SAuth (challenge : str)
| SCount (sub : str) (count : N) (approx : option bool)
| SClosed (sub : str) (msg pfx : str).

(** any value the codec handles (the harness names the Go target type) *)
Inductive wval :=
| WEvent (e : gevent)
| WFilter (f : gfilter)
| WC (m : cmsg)
| WS (m : smsg).

Inductive wty :=
| TEvent | TFilter
| TCEvent | TCReq | TCClose | TCAuth | TCCount
| TSEose | TSEvent | TSNotice | TSOk | TSAuth | TSCount | TSClosed.

(* ------------------------------------------------------------------ *)
(** * Views in the shared Base types (nil treated as empty) *)

Definition event_of_gevent (e : gevent) : event :=
  mkEvent (ge_id e) (ge_pk e) (ge_ts e) (ge_kind e)
    (match ge_tags e with
     | None => []
     | Some l => List.map (fun t => match t with None => [] | Some t' => t' end) l
     end)
    (ge_content e) (ge_sig e).

Definition gevent_of_event (e : event) : gevent :=
  mkGEvent (ev_id e) (ev_pk e) (ev_ts e) (ev_kind e) (Some (List.map (@Some _) (ev_tags e)))
    (ev_content e) (ev_sig e).

Definition rfilter_of_gfilter (f : gfilter) : rfilter :=
  mkFilter (gf_ids f) (gf_authors f) (gf_kinds f)
    (match gf_tags f with
     | None => None
     | Some m => Some (List.map (fun kv => (fst kv, match snd kv with None => [] | Some v => v end)) m)
     end)
    (gf_since f) (gf_until f) (gf_limit f).

Definition gfilter_of_rfilter (f : rfilter) : gfilter :=
  mkGFilter (f_ids f) (f_authors f) (f_kinds f)
    (match f_tags f with
     | None => None
     | Some m => Some (List.map (fun kv => (fst kv, Some (snd kv))) m)
     end)
    (f_since f) (f_until f) (f_limit f).

(* ------------------------------------------------------------------ *)
(** * Boolean equality (correspondence files compare observations with it) *)

Definition opt_eqb {A} (eqb : A -> A -> bool) (a b : option A) : bool :=
  match a, b with
  | None, None => true
  | Some x, Some y => eqb x y
  | _, _ => false
  end.

Definition strs_eqb : list str -> list str -> bool := list_eqb str_eqb.

Definition gevent_eqb (a b : gevent) : bool :=
  str_eqb (ge_id a) (ge_id b) && str_eqb (ge_pk a) (ge_pk b) &&
  Z.eqb (ge_ts a) (ge_ts b) && Z.eqb (ge_kind a) (ge_kind b) &&
  opt_eqb (list_eqb (opt_eqb strs_eqb)) (ge_tags a) (ge_tags b) &&
  str_eqb (ge_content a) (ge_content b) && str_eqb (ge_sig a) (ge_sig b).

(** tag maps are compared as maps: same number of keys, same lookups *)
Definition tagmap_eqb (a b : list (str * option (list str))) : bool :=
  Nat.eqb (length a) (length b) &&
  forallb (fun kv => match assoc (fst kv) b with
                     | Some v => opt_eqb strs_eqb (snd kv) v
                     | None => false
                     end) a.

Definition gfilter_eqb (a b : gfilter) : bool :=
  opt_eqb strs_eqb (gf_ids a) (gf_ids b) &&
  opt_eqb strs_eqb (gf_authors a) (gf_authors b) &&
  opt_eqb (list_eqb Z.eqb) (gf_kinds a) (gf_kinds b) &&
  opt_eqb tagmap_eqb (gf_tags a) (gf_tags b) &&
  opt_eqb Z.eqb (gf_since a) (gf_since b) &&
  opt_eqb Z.eqb (gf_until a) (gf_until b) &&
  opt_eqb Z.eqb (gf_limit a) (gf_limit b).

Definition gfilters_eqb : list (option gfilter) -> list (option gfilter) -> bool :=
  list_eqb (opt_eqb gfilter_eqb).

Definition cmsg_eqb (a b : cmsg) : bool :=
  match a, b with
  | CEvent x, CEvent y => opt_eqb gevent_eqb x y
  | CReq s fs, CReq s' fs' => str_eqb s s' && gfilters_eqb fs fs'
  | CClose s, CClose s' => str_eqb s s'
  | CAuth x, CAuth y => opt_eqb gevent_eqb x y
  | CCount s fs, CCount s' fs' => str_eqb s s' && gfilters_eqb fs fs'
  | _, _ => false
  end.

Definition smsg_eqb (a b : smsg) : bool :=
  match a, b with
  | SEose s, SEose s' => str_eqb s s'
  | SEvent s x, SEvent s' y => str_eqb s s' && opt_eqb gevent_eqb x y
  | SNotice m, SNotice m' => str_eqb m m'
  | SOk i a m p, SOk i' a' m' p' => str_eqb i i' && Bool.eqb a a' && str_eqb m m' && str_eqb p p'
  | SAuth c, SAuth c' => str_eqb c c'
  | SCount s n a, SCount s' n' a' => str_eqb s s' && N.eqb n n' && opt_eqb Bool.eqb a a'
  | SClosed s m p, SClosed s' m' p' => str_eqb s s' && str_eqb m m' && str_eqb p p'
  | _, _ => false
  end.

Definition wval_eqb (a b : wval) : bool :=
  match a, b with
  | WEvent x, WEvent y => gevent_eqb x y
  | WFilter x, WFilter y => gfilter_eqb x y
  | WC x, WC y => cmsg_eqb x y
  | WS x, WS y => smsg_eqb x y
  | _, _ => false
  end.

Definition res_eqb {A} (eqb : A -> A -> bool) (a b : res A) : bool :=
  match a, b with
  | Val x, Val y => eqb x y
  | Err, Err => true
  | Panic, Panic => true
  | _, _ => false
  end.
