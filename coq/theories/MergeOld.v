(* MergeOld.v — documentation: the OK and COUNT bookkeeping of the merge
   handler as it was BEFORE the repair of finding K1 (handler.go up to commit
   e02b724: one slot vector per id, [TrySetEventID] a no-op for an id that
   already has one, COUNT's [SetSubID] overwriting it).  This is an explicit
   copy of the step function the model had then, restricted to the inputs
   that touch these two tables; nothing else depends on it.  Properties/C09.v
   uses it to keep the refutation of the unguarded statement for the old code
   ([C09_k1_history_old_model_refuted]) beside the proof for the repaired one.
   Definitions only. *)
From Moc Require Import Base Match Merge.
Open Scope Z_scope.

Record old_state := mkOld {
  old_size : nat;
  old_ok : list (str * list (option okm));       (* map[eventID][chIdx]msg *)
  old_cnt : list (str * list (option cntm))      (* map[subID][chIdx]msg *)
}.

Definition old_init (n : nat) : old_state := mkOld n [] [].

(** TrySetEventID: [if len(stat.s[eventID]) > 0 { return }] *)
Definition old_try_set (s : old_state) (id : str) : old_state :=
  if zlen (vlist (assoc id (old_ok s))) >? 0 then s
  else mkOld (old_size s) (m_set id (repeat None (old_size s)) (old_ok s)) (old_cnt s).

(** SetSubID of the COUNT state: unconditional *)
Definition old_set_sub (s : old_state) (sub : str) : old_state :=
  mkOld (old_size s) (old_ok s) (m_set sub (repeat None (old_size s)) (old_cnt s)).

(** handleSendOKMsg: SetMsg, Ready, Msg, ClearEventID *)
Definition old_send_ok (s : old_state) (i : nat) (m : okm) : old_state * option smsg :=
  let msgs := vlist (assoc (ok_id m) (old_ok s)) in
  if zlen msgs =? 0 then (s, None) else
  match upd_nth i (Some m) msgs with
  | None => (s, None)
  | Some l' =>
      if existsb isNone l' then (mkOld (old_size s) (m_set (ok_id m) l' (old_ok s)) (old_cnt s), None) else
      match ok_partition l' with
      | None => (s, None)
      | Some (oks, ngs) =>
          (mkOld (old_size s) (m_del (ok_id m) (old_ok s)) (old_cnt s),
           option_map SOk (if zlen ngs >? 0 then join_oks ngs else join_oks oks))
      end
  end.

(** handleSendCountMsg: SetCountMsg, Ready, Msg (first maximum), ClearSubID *)
Definition old_send_count (s : old_state) (i : nat) (m : cntm) : old_state * option smsg :=
  let counts := vlist (assoc (c_sub m) (old_cnt s)) in
  if zlen counts =? 0 then (s, None) else
  match upd_nth i (Some m) counts with
  | None => (s, None)
  | Some l' =>
      if existsb isNone l' then (mkOld (old_size s) (old_ok s) (m_set (c_sub m) l' (old_cnt s)), None) else
      match all_some l' with
      | Some (x :: r) => (mkOld (old_size s) (old_ok s) (m_del (c_sub m) (old_cnt s)), Some (SCount (first_max x r)))
      | _ => (s, None)
      end
  end.

Definition old_step (s : old_state) (x : input) : old_state * option smsg :=
  match x with
  | CEvent id => (old_try_set s id, None)
  | CCount sub => (old_set_sub s sub, None)
  | Child i (SOk m) => old_send_ok s i m
  | Child i (SCount m) => old_send_count s i m
  | _ => (s, None)
  end.

Fixpoint old_outs (s : old_state) (t : list input) : list (option smsg) :=
  match t with
  | [] => []
  | x :: t' => snd (old_step s x) :: old_outs (fst (old_step s x)) t'
  end.
