(* Match.v — C02: model of event_matcher.go and the NIP-01 predicate.
   Definitions only; proofs are in MatchProofs.v. *)
From Moc Require Import Base.
From Moc.Gen Require Import GenMatch.
Open Scope Z_scope.

(* ------------------------------------------------------------------ *)
(** * Specification: the NIP-01 predicate, stated declaratively *)

Definition opt_holds {A} (o : option A) (P : A -> Prop) : Prop :=
  match o with None => True | Some x => P x end.

(** an event has "a tag named [n] whose value is listed in [vs]" *)
Definition has_tag (e : event) (n : str) (vs : list str) : Prop :=
  exists t, In t (ev_tags e) /\ hd_error t = Some n /\ In (tag_value t) vs.

Definition match_spec (e : event) (f : rfilter) : Prop :=
  opt_holds (f_ids f) (fun l => In (ev_id e) l) /\
  opt_holds (f_authors f) (fun l => In (ev_pk e) l) /\
  opt_holds (f_kinds f) (fun l => In (ev_kind e) l) /\
  opt_holds (f_tags f) (fun m => forall n vs, In (n, vs) m -> has_tag e n vs) /\
  opt_holds (f_since f) (fun s => s <= ev_ts e) /\
  opt_holds (f_until f) (fun u => ev_ts e <= u).

Definition matches_spec (e : event) (fs : list rfilter) : Prop :=
  exists f, In f fs /\ match_spec e f.

(** boolean version of the specification (the oracle); written directly
    from the text of the property, without the structure of the code *)
Definition has_tagb (e : event) (n : str) (vs : list str) : bool :=
  existsb (fun t => match t with
                    | [] => false
                    | n' :: _ => str_eqb n' n && mem_str (tag_value t) vs
                    end) (ev_tags e).

Definition opt_holdsb {A} (o : option A) (p : A -> bool) : bool :=
  match o with None => true | Some x => p x end.

Definition match_specb (e : event) (f : rfilter) : bool :=
  opt_holdsb (f_ids f) (mem_str (ev_id e)) &&
  opt_holdsb (f_authors f) (mem_str (ev_pk e)) &&
  opt_holdsb (f_kinds f) (mem_Z (ev_kind e)) &&
  opt_holdsb (f_tags f) (forallb (fun nv => has_tagb e (fst nv) (snd nv))) &&
  opt_holdsb (f_since f) (fun s => s <=? ev_ts e) &&
  opt_holdsb (f_until f) (fun u => ev_ts e <=? u).

Definition matches_specb (e : event) (fs : list rfilter) : bool :=
  existsb (match_specb e) fs.

(* ------------------------------------------------------------------ *)
(** * Model of the code *)

(** outcome of a call that may panic in Go *)
Inductive outcome (A : Type) := Ok (a : A) | Panic.
Arguments Ok {A} a.
Arguments Panic {A}.

(** the [found] loop of [Match]: walks the event's tags, keeps the set of
    tag names for which a listed value was seen ([found] as a duplicate-free
    list).  An empty tag makes [tag[0]] panic. *)
Fixpoint found_loop (tags : list tag) (m : list (str * list str)) (found : list str)
  : outcome (list str) :=
  match tags with
  | [] => Ok found
  | t :: rest =>
      match t with
      | [] => Panic
      | n :: _ =>
          if mem_str n found then found_loop rest m found
          else
            let v := if g_tag_has_value (Z.of_nat (length t)) then tag_value t else [] in
            let hit := match assoc n m with
                       | Some vs => mem_str v vs
                       | None => false
                       end in
            if hit then found_loop rest m (n :: found) else found_loop rest m found
      end
  end.

Definition isSome {A} (o : option A) : bool := match o with Some _ => true | None => false end.
Definition optb {A} (o : option A) (p : A -> bool) : bool :=
  match o with Some x => p x | None => false end.

(** the tag clause: [Ok true] when the filter has no tag map *)
Definition tags_part (e : event) (f : rfilter) : outcome bool :=
  match f_tags f with
  | None => Ok true
  | Some m =>
      match found_loop (ev_tags e) m [] with
      | Panic => Panic
      | Ok found => Ok (negb (g_tags_reject (Z.of_nat (length found)) (Z.of_nat (length m))))
      end
  end.

Definition match_impl (e : event) (f : rfilter) : outcome bool :=
  if g_ids_reject (isSome (f_ids f)) (optb (f_ids f) (mem_str (ev_id e))) then Ok false else
  if g_kinds_reject (isSome (f_kinds f)) (optb (f_kinds f) (mem_Z (ev_kind e))) then Ok false else
  if g_authors_reject (isSome (f_authors f)) (optb (f_authors f) (mem_str (ev_pk e))) then Ok false else
  match tags_part e f with
  | Panic => Panic
  | Ok false => Ok false
  | Ok true =>
      if optb (f_since f) (g_since_reject (ev_ts e)) then Ok false else
      if optb (f_until f) (g_until_reject (ev_ts e)) then Ok false else Ok true
  end.

(** limit-counting matcher: the filter and its counter *)
Record lmatcher := mkLM { lm_f : rfilter; lm_cnt : Z }.

Definition lm_new (f : rfilter) : lmatcher := mkLM f 0.

Definition lm_limit_match (m : lmatcher) (e : event) : outcome (lmatcher * bool) :=
  match match_impl e (lm_f m) with
  | Panic => Panic
  | Ok true => Ok (mkLM (lm_f m) (lm_cnt m + 1), true)
  | Ok false => Ok (m, false)
  end.

Definition lm_done (m : lmatcher) : bool :=
  g_done (isSome (f_limit (lm_f m)))
         (match f_limit (lm_f m) with Some l => l | None => 0 end)
         (lm_cnt m).

(** the list forms: no short-circuit, every member is consulted *)
Fixpoint lms_match (ms : list lmatcher) (e : event) : outcome bool :=
  match ms with
  | [] => Ok false
  | m :: rest =>
      match match_impl e (lm_f m) with
      | Panic => Panic
      | Ok b1 => match lms_match rest e with
                 | Panic => Panic
                 | Ok b2 => Ok (b1 || b2)
                 end
      end
  end.

Fixpoint lms_limit_match (ms : list lmatcher) (e : event) : outcome (list lmatcher * bool) :=
  match ms with
  | [] => Ok ([], false)
  | m :: rest =>
      match lm_limit_match m e with
      | Panic => Panic
      | Ok (m', b1) =>
          match lms_limit_match rest e with
          | Panic => Panic
          | Ok (rest', b2) => Ok (m' :: rest', b1 || b2)
          end
      end
  end.

Definition lms_done (ms : list lmatcher) : bool := forallb lm_done ms.

Definition lms_new (fs : list rfilter) : list lmatcher := List.map lm_new fs.

(** feed a sequence of events to a limit-counting matcher list *)
Fixpoint lms_feed (ms : list lmatcher) (es : list event) : outcome (list lmatcher) :=
  match es with
  | [] => Ok ms
  | e :: rest =>
      match lms_limit_match ms e with
      | Panic => Panic
      | Ok (ms', _) => lms_feed ms' rest
      end
  end.

(** exhaustion as the property states it: every filter of the list has a
    limit and has matched at least that many of the events fed so far *)
Definition exhausted (fs : list rfilter) (es : list event) : Prop :=
  forall f, In f fs ->
    exists l, f_limit f = Some l /\ l <= Z.of_nat (count_occ_b (fun e => match_specb e f) es).

Definition exhaustedb (fs : list rfilter) (es : list event) : bool :=
  forallb (fun f => match f_limit f with
                    | Some l => l <=? Z.of_nat (count_occ_b (fun e => match_specb e f) es)
                    | None => false
                    end) fs.

Definition tags_nonempty (e : event) : Prop := Forall (fun t => t <> []) (ev_tags e).
Definition tags_nonemptyb (e : event) : bool :=
  forallb (fun t => match t with [] => false | _ => true end) (ev_tags e).

Definition filter_wf (f : rfilter) : Prop :=
  match f_tags f with None => True | Some m => NoDup (List.map fst m) end.
