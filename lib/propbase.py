"""Base class of the per-property plug-ins (props/Cnn.py)."""
import json


class Prop:
    id = "C00"
    coq_targets = []          # proof targets, e.g. ["theories/Properties/C02.vo"]
    check_vo = ""             # e.g. "theories/Check/C02Check.vo" (model + oracle, no proofs)
    check_module = ""         # e.g. "Moc.Check.C02Check"
    harness_bin = "core"
    harness_sub = ""
    sizes = {"quick": 1000, "thorough": 20000}
    widen_rounds = 2
    widen_factor = 3
    max_reports = 1
    can_shrink = True
    coqchk = True
    rule = ""
    trusted_base = []
    assumptions = []
    signatures = {}           # name -> predicate(case) for known_findings.json
    gen_names = ()            # generated guards this property depends on

    def gen_relevant(self, text):
        return any(g in text for g in self.gen_names)

    def harness_extra(self, tier):
        return []

    def to_coq(self, I, case):
        raise NotImplementedError

    def nontrivial_key(self, case):
        return json.dumps(case, sort_keys=True)

    def dedup_key(self, case):
        return json.dumps(case, sort_keys=True)

    def shrink(self, case):
        return []

    def summarize(self, case):
        return case

    def distribution(self, cases):
        return {}

    def extra_coverage(self, cases, tier):
        return {}


COMMON_TRUSTED = [
    "Coq 8.16.1 kernel (coqc full .vo build; vm_compute used for correspondence evaluation and finite sweeps; no native_compute)",
    "no axioms: Print Assumptions prints 'Closed under the global context' under every property theorem",
    "guard translator /verif/gen (go/ast -> Gallina) and its anchor table",
    "Go harness /verif/harness (generators, drivers) and lib/engine.py + props/*.py (JSON -> Gallina printing, verdict logic)",
    "Go compiler/runtime; the model mirrors the code by hand and is tied to it by the correspondence run and the regenerated guards",
]


def drop_one(xs):
    for i in range(len(xs)):
        yield xs[:i] + xs[i + 1:]
