"""Printing harness JSON values as Gallina terms (for cases.v files)."""


class Interner:
    """Strings are byte lists in the model; long or repeated ones are bound
    once per file (Definition sN := [...]%N) and referred to by name."""

    def __init__(self):
        self.tab = {}
        self.defs = []

    def s(self, x):
        if isinstance(x, str):
            b = x.encode("utf-8", "surrogateescape")
        else:
            b = bytes(x)
        if len(b) == 0:
            return "(@nil N)"
        if len(b) <= 2:
            return "[" + ";".join(str(c) for c in b) + "]%N"
        k = self.tab.get(b)
        if k is None:
            k = "s%d" % len(self.tab)
            self.tab[b] = k
            if len(b) <= 4000:
                self.defs.append("Definition %s : str := [%s]%%N." % (k, ";".join(str(c) for c in b)))
            else:
                # a list literal of tens of thousands of elements overflows coqc's stack: chunks, appended
                parts = []
                for j in range(0, len(b), 4000):
                    pn = "%s_%d" % (k, j // 4000)
                    parts.append(pn)
                    self.defs.append("Definition %s : str := [%s]%%N." % (pn, ";".join(str(c) for c in b[j:j + 4000])))
                self.defs.append("Definition %s : str := (%s)%%list." % (k, " ++ ".join(parts)))
        return k

    def preamble(self):
        return "\n".join(self.defs)


def cbool(b):
    return "true" if b else "false"


def cZ(z):
    z = int(z)
    return "(%d)%%Z" % z


def cN(n):
    return "(%d)%%N" % int(n)


def cnat(n):
    n = int(n)
    assert 0 <= n < 5000, "nat literal too large"
    return "%d%%nat" % n


def clist(xs, f=None, ty=None):
    items = [f(x) if f else x for x in xs]
    if not items:
        return "(@nil %s)" % ty if ty else "[]"
    return "[" + "; ".join(items) + "]"


def copt(x, f, ty=None):
    if x is None:
        return "(@None %s)" % ty if ty else "None"
    return "(Some %s)" % f(x)


def cpair(a, b):
    return "(%s, %s)" % (a, b)


def ctag(I, t):
    return clist(t, I.s, "str")


def cevent(I, e):
    return "(mkEvent %s %s %s %s %s %s %s)" % (
        I.s(e["id"]), I.s(e["pk"]), cZ(e["ts"]), cZ(e["kind"]),
        clist(e["tags"], lambda t: ctag(I, t), "tag"),
        I.s(e.get("content", "")), I.s(e.get("sig", "")))


def cfilter(I, f):
    def strs(l):
        return clist(l, I.s, "str")

    def tags(l):
        return clist(l, lambda tc: cpair(I.s(tc["n"]), clist(tc["v"], I.s, "str")), "(str * list str)%type")

    return "(mkFilter %s %s %s %s %s %s %s)" % (
        copt(f.get("ids"), strs, "(list str)"),
        copt(f.get("authors"), strs, "(list str)"),
        copt(f.get("kinds"), lambda l: clist(l, cZ, "Z"), "(list Z)"),
        copt(f.get("tags"), tags, "(list (str * list str))"),
        copt(f.get("since"), cZ, "Z"),
        copt(f.get("until"), cZ, "Z"),
        copt(f.get("limit"), cZ, "Z"))


def cfilters(I, fs):
    return clist(fs, lambda f: cfilter(I, f), "rfilter")


def cevents(I, es):
    return clist(es, lambda e: cevent(I, e), "event")
