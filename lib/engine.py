"""The check engine shared by all properties.

One run of ./check Cnn:
  1 gen      guard translator re-reads /repo and regenerates coq/theories/Gen/*.v
  2 prove    make the property's .vo files (full build, flock'd); collect Print Assumptions
  3 build    go build -tags verif of the harness against /repo's working tree
  4 run impl corpus first, then generated cases (one PRNG seed) -> trace.jsonl
  5 run M,S  cases_k.v shards evaluated by coqc/vm_compute: model-vs-impl and S_ok(impl)
  6 verdict  VIOLATION / KNOWN-FINDING lines, replay files, exit code
  7 evidence evidence/Cnn.json
"""
import concurrent.futures as cf
import fcntl
import glob
import hashlib
import json
import os
import re
import shutil
import subprocess
import sys
import time

ROOT = os.path.dirname(os.path.dirname(os.path.abspath(__file__)))
COQ = os.path.join(ROOT, "coq")
REPO = os.environ.get("VERIF_REPO", "/repo")
BIN = os.path.join(ROOT, "bin")
HARNESS = os.path.join(ROOT, "harness")
OUT = ROOT          # where work/, evidence/, replays/ go
SCRATCH = os.environ.get("VERIF_WORK")
if SCRATCH:
    # scratch run: private copies of the Coq tree and the harness module, so that a run against
    # another checkout (VERIF_REPO) does not disturb /verif's own build or other runs
    OUT = os.path.join(OUT, "work", SCRATCH)
    os.makedirs(OUT, exist_ok=True)
    subprocess.run(["rsync", "-a", "--delete", os.path.join(ROOT, "coq") + "/", os.path.join(OUT, "coq") + "/"], check=True)
    subprocess.run(["rsync", "-a", "--delete", "--exclude", "go.sum", os.path.join(ROOT, "harness") + "/",
                    os.path.join(OUT, "harness") + "/"], check=True)
    COQ = os.path.join(OUT, "coq")
    HARNESS = os.path.join(OUT, "harness")
    BIN = os.path.join(OUT, "bin")
    _gm = os.path.join(HARNESS, "go.mod")
    _t = open(_gm).read().replace("=> /repo", "=> " + os.path.abspath(REPO))
    open(_gm, "w").write(_t)
DEFAULT_SEED = 20260930
GOENV = dict(os.environ, GOFLAGS="-mod=mod", GOPROXY="off", GOSUMDB="off", GOTOOLCHAIN="local",
             CGO_ENABLED="1")
FORBIDDEN = re.compile(r"\b(Admitted|admit|Axiom|Parameter|Conjecture|bypass_check|Unset Guard|type-in-type|impredicative-set)\b")
STMT = re.compile(r"^\s*(Theorem|Lemma|Corollary|Example|Fact|Remark|Proposition)\s+([A-Za-z_][A-Za-z0-9_']*)", re.M)


def log(*a):
    print("[check]", *a, file=sys.stderr, flush=True)


def sh(cmd, cwd=None, env=None, timeout=None, capture=True):
    p = subprocess.run(cmd, cwd=cwd, env=env, timeout=timeout, stdout=subprocess.PIPE if capture else None,
                       stderr=subprocess.STDOUT if capture else None, text=True)
    return p.returncode, (p.stdout or "")


class Lock:
    def __init__(self, path):
        self.path = path

    def __enter__(self):
        os.makedirs(os.path.dirname(self.path), exist_ok=True)
        self.f = open(self.path, "w")
        fcntl.flock(self.f, fcntl.LOCK_EX)
        return self

    def __exit__(self, *a):
        fcntl.flock(self.f, fcntl.LOCK_UN)
        self.f.close()


# --------------------------------------------------------------------------
# step 1: guard translator

def run_gen():
    """Returns dict(changed=[...], errors=[...], matched=[...])."""
    os.makedirs(BIN, exist_ok=True)
    with Lock(os.path.join(OUT, "work", "gen.lock")):
        rc, out = sh(["go", "build", "-o", os.path.join(BIN, "gen"), "."], cwd=os.path.join(ROOT, "gen"), env=GOENV)
        if rc != 0:
            raise SystemExit("cannot build the guard translator:\n" + out)
        rep = os.path.join(OUT, "work", "gen_report.%d.json" % os.getpid())
        rc, out = sh([os.path.join(BIN, "gen"), "-repo", REPO, "-out", os.path.join(COQ, "theories", "Gen"),
                      "-report", rep])
        try:
            r = json.load(open(rep))
            os.unlink(rep)
        except Exception:
            r = {"changed": [], "errors": ["translator crashed: " + out], "matched": []}
        r["changed"] = r.get("changed") or []
        r["errors"] = r.get("errors") or []
        r["matched"] = r.get("matched") or []
        return r


# --------------------------------------------------------------------------
# step 2: proofs

def ensure_makefile():
    """_CoqProject is regenerated from the files present under coq/theories."""
    mk = os.path.join(COQ, "Makefile")
    cp = os.path.join(COQ, "_CoqProject")
    vs = sorted(os.path.relpath(p, COQ) for p in glob.glob(os.path.join(COQ, "theories", "**", "*.v"), recursive=True)
                if not os.path.basename(p).startswith("."))
    want = "-Q theories Moc\n" + "\n".join(vs) + "\n"
    if not os.path.exists(cp) or open(cp).read() != want:
        open(cp, "w").write(want)
    if not os.path.exists(mk) or os.path.getmtime(mk) < os.path.getmtime(cp):
        rc, out = sh(["coq_makefile", "-f", "_CoqProject", "-o", "Makefile"], cwd=COQ)
        if rc != 0:
            raise SystemExit("coq_makefile failed:\n" + out)


def make_targets(targets, jobs=8, timeout=3000):
    """Full .vo build of the given targets.  Returns (ok, output)."""
    with Lock(os.path.join(OUT, "work", "coq.lock")):
        ensure_makefile()
        rc, out = sh(["timeout", str(timeout), "make", "-j%d" % jobs] + targets, cwd=COQ)
        return rc == 0, out


def vfile_of(vo):
    return os.path.join(COQ, vo[:-1] if vo.endswith(".vo") else vo)


def module_to_path(mod):
    # Moc.Foo.Bar -> theories/Foo/Bar.v
    parts = mod.split(".")
    if parts[0] != "Moc":
        return None
    return os.path.join("theories", *parts[1:]) + ".v"


REQ = re.compile(r"^\s*From\s+(Moc(?:\.[A-Za-z0-9_]+)*)\s+Require\s+(?:Import|Export)\s+([^.]*)\.", re.M)
REQ2 = re.compile(r"^\s*Require\s+(?:Import|Export)\s+((?:Moc\.[A-Za-z0-9_.]+\s*)+)\.", re.M)


def closure(vfiles):
    """Source files (relative to coq/) in the dependency closure of the given .v files (Moc namespace only)."""
    seen, todo = [], list(vfiles)
    while todo:
        v = todo.pop()
        if v in seen or not os.path.exists(os.path.join(COQ, v)):
            continue
        seen.append(v)
        src = open(os.path.join(COQ, v)).read()
        for m in REQ.finditer(src):
            base = m.group(1)
            for name in m.group(2).split():
                p = module_to_path(base + "." + name)
                if p:
                    todo.append(p)
        for m in REQ2.finditer(src):
            for name in m.group(1).split():
                p = module_to_path(name)
                if p:
                    todo.append(p)
    return sorted(seen)


def count_obligations(vfiles):
    """(total statements, statements in files whose .vo is present and newer than the source, forbidden hits)"""
    total = done = 0
    forbidden = []
    names = []
    for v in vfiles:
        p = os.path.join(COQ, v)
        src = open(p).read()
        nocom = strip_comments(src)
        st = STMT.findall(nocom)
        total += len(st)
        vo = p + "o"
        if os.path.exists(vo) and os.path.getmtime(vo) >= os.path.getmtime(p):
            done += len(st)
        for m in FORBIDDEN.finditer(nocom):
            forbidden.append("%s: %s" % (v, m.group(0)))
        names += [n for _, n in st]
    return total, done, forbidden, names


def strip_comments(s):
    out, depth, i = [], 0, 0
    while i < len(s):
        if s.startswith("(*", i):
            depth += 1
            i += 2
        elif s.startswith("*)", i) and depth > 0:
            depth -= 1
            i += 2
        else:
            if depth == 0:
                out.append(s[i])
            i += 1
    return "".join(out)


def assumptions_of(targets):
    """Re-compile the Properties files alone to read their Print Assumptions output."""
    res = {}
    for t in targets:
        v = t[:-1]
        if "/Properties/" not in v:
            continue
        with Lock(os.path.join(OUT, "work", "coq.lock")):
            rc, out = sh(["coqc", "-Q", "theories", "Moc", v], cwd=COQ, timeout=1200)
        closed = out.count("Closed under the global context")
        ax = [l.strip() for l in out.splitlines() if l.strip() and "Closed under the global context" not in l]
        res[v] = {"rc": rc, "closed_under_the_global_context": closed, "axioms_reported": "Axioms:" in out,
                  "other_output": ax[:50]}
    return res


# --------------------------------------------------------------------------
# step 3/4: harness

def build_harness(binname, flags=()):
    os.makedirs(BIN, exist_ok=True)
    hdir = HARNESS
    with Lock(os.path.join(OUT, "work", "go-%s.lock" % binname)):
        shutil.copyfile(os.path.join(REPO, "go.sum"), os.path.join(hdir, "go.sum"))
        rc, out = sh(["go", "build", "-tags", "verif"] + list(flags) + ["-o", os.path.join(BIN, binname), "./cmd/" + binname],
                     cwd=hdir, env=GOENV, timeout=1800)
        return rc == 0, out


def run_harness(binname, sub, out_path, seed=None, n=None, replay=None, extra=None, timeout=3000):
    cmd = [os.path.join(BIN, binname), sub, "-out", out_path]
    if seed is not None:
        cmd += ["-seed", str(seed)]
    if n is not None:
        cmd += ["-n", str(n)]
    if replay:
        cmd += ["-replay", replay]
    cmd += extra or []
    rc, out = sh(["timeout", str(timeout)] + cmd, env=GOENV)
    return rc, out


def read_jsonl(path):
    out = []
    with open(path) as f:
        for line in f:
            line = line.strip()
            if line:
                out.append(json.loads(line))
    return out


# --------------------------------------------------------------------------
# step 5: evaluate model and oracle inside Coq

BAD = re.compile(r"\(\s*(\d+)(?:%nat)?,\s*\(\s*(true|false),\s*(true|false)\s*\)\s*\)")


def write_shard(prop, cases, path):
    from coqterm import Interner
    I = Interner()
    terms = [prop.to_coq(I, c) for c in cases]
    with open(path, "w") as f:
        f.write("From Moc Require Import Base.\n")
        f.write("Require Import %s.\n" % prop.check_module)
        for extra in getattr(prop, "case_imports", []):
            f.write("Require Import %s.\n" % extra)
        f.write("Open Scope Z_scope.\n")
        f.write(I.preamble() + "\n")
        for i, t in enumerate(terms):
            f.write("Definition c%d : case := %s.\n" % (i, t))
        f.write("Definition cases : list case := [%s].\n" % "; ".join("c%d" % i for i in range(len(terms))))
        f.write("Definition R := Eval vm_compute in bad_cases run_case cases 0.\n")
        f.write("Set Printing Width 1000000.\n")
        f.write("Print R.\n")


def eval_shard(path):
    d, b = os.path.split(path)
    # (a generous stack: the observations of a case can contain strings of tens of thousands of bytes)
    rc, out = sh(["sh", "-c", 'ulimit -s unlimited 2>/dev/null || ulimit -s 1000000 2>/dev/null; exec timeout 1800 coqc -Q "$1" Moc "$2"',
                  "coqc", os.path.join(COQ, "theories"), b], cwd=d)
    if rc != 0:
        return None, out
    flat = " ".join(out.split())
    if not re.search(r"R\s*=", flat):
        return None, out
    bad = [(int(a), b1 == "true", b2 == "true") for a, b1, b2 in BAD.findall(flat)]
    return bad, out


def evaluate(prop, cases, workdir, tag, shard=250, jobs=12):
    """Returns list of (index, model_agrees, spec_ok) for the bad cases, or raises."""
    for f in glob.glob(os.path.join(workdir, "%s_*" % tag)) + glob.glob(os.path.join(workdir, ".%s_*" % tag)):
        os.unlink(f)
    shards = []
    for k in range(0, len(cases), shard):
        p = os.path.join(workdir, "%s_%d.v" % (tag, k // shard))
        write_shard(prop, cases[k:k + shard], p)
        shards.append((k, p))
    bad = []
    with cf.ThreadPoolExecutor(max_workers=jobs) as ex:
        futs = {ex.submit(eval_shard, p): (k, p) for k, p in shards}
        for fu in cf.as_completed(futs):
            k, p = futs[fu]
            res, out = fu.result()
            if res is None:
                raise RuntimeError("coqc failed on %s:\n%s" % (p, out[-3000:]))
            bad += [(k + i, m, s) for i, m, s in res]
    for f in glob.glob(os.path.join(workdir, "%s_*" % tag)) + glob.glob(os.path.join(workdir, ".%s_*" % tag)):
        if not f.endswith(".v"):
            os.unlink(f)
    return sorted(bad)


# --------------------------------------------------------------------------
# shrinking

def shrink(prop, case, workdir, want, rounds=40, budget_s=None):
    """Greedy delta-debugging: prop.shrink(case) yields smaller inputs; a
    candidate is kept when, re-run on the implementation, it still fails the
    same way (want = 'spec' or 'model')."""
    cur = case
    global _SHRINK_SPENT
    total = float(os.environ.get("VERIF_SHRINK_TOTAL_S") or 200)
    if _SHRINK_SPENT >= total:
        return cur          # the run's overall shrinking budget is used up: report the case as found
    t_begin = time.time()
    t_end = t_begin + min(budget_s or float(os.environ.get("VERIF_SHRINK_S") or 75), total - _SHRINK_SPENT)
    for _ in range(rounds):
        if time.time() > t_end:
            break
        cands = list(prop.shrink(cur))[:120]
        if not cands:
            break
        inp = os.path.join(workdir, "shrink_in.jsonl")
        outp = os.path.join(workdir, "shrink_out.jsonl")
        with open(inp, "w") as f:
            for c in cands:
                f.write(json.dumps(c) + "\n")
        rc, out = run_harness(prop.harness_bin, prop.harness_sub, outp, replay=inp, timeout=600)
        if rc != 0:
            break
        res = read_jsonl(outp)
        if len(res) != len(cands):
            break
        try:
            bad = evaluate(prop, res, workdir, "shr")
        except RuntimeError:
            break
        pick = None
        for i, m, s in bad:
            if (want == "spec" and not s) or (want == "model" and not m):
                pick = res[i]
                break
        if pick is None:
            break
        cur = pick
    _SHRINK_SPENT += time.time() - t_begin
    return cur


_SHRINK_SPENT = 0.0


# --------------------------------------------------------------------------
# known findings

def load_known():
    p = os.path.join(ROOT, "known_findings.json")
    if not os.path.exists(p):
        return []
    return json.load(open(p)).get("findings", [])


def match_known(prop, case, known):
    for k in known:
        if k.get("property") != prop.id or k.get("kind") != "known":
            continue
        sig = prop.signatures.get(k.get("signature"))
        if sig and sig(case):
            return k
    return None


# --------------------------------------------------------------------------
# the run

def run_check(prop, tier, seed, replay=None):
    # two runs of the same property share work/Cnn: serialize them
    with Lock(os.path.join(OUT, "work", "%s.run.lock" % prop.id)):
        return _run_check(prop, tier, seed, replay)


def _run_check(prop, tier, seed, replay=None):
    t0 = time.time()
    work = os.path.join(OUT, "work", prop.id)
    os.makedirs(work, exist_ok=True)
    os.makedirs(os.path.join(OUT, "evidence"), exist_ok=True)
    os.makedirs(os.path.join(OUT, "replays"), exist_ok=True)
    known = load_known()
    violations = []        # list of dict(kind=..., replay=path, nofail=bool)
    known_lines = []
    notes = []

    # 1 gen
    gen = run_gen()
    relevant_gen = [g for g in gen["changed"]]
    gen_errors = [e for e in gen["errors"] if prop.gen_relevant(e)]
    if gen["changed"]:
        log("guards changed:", ",".join(gen["changed"]))
    for e in gen_errors:
        log("translator lost an anchor:", e)

    # 2 prove
    targets = list(prop.coq_targets)
    ok_check, out_check = make_targets([prop.check_vo])
    ok_proof, out_proof = make_targets(targets)
    srcs = closure([t[:-1] for t in targets])
    total, done, forbidden, names = count_obligations(srcs)
    broken = []
    if not ok_proof:
        m = re.findall(r'File "\./([^"]+)", line (\d+)[^\n]*\n((?:.*\n){0,12})', out_proof)
        for f, ln, msg in m[:3]:
            broken.append({"file": f, "line": int(ln), "error": " ".join(msg.split())[:600]})
        if not broken:
            broken.append({"file": "?", "line": 0, "error": out_proof[-800:]})
        log("PROOF BROKEN:", json.dumps(broken)[:800])
    if forbidden:
        broken.append({"file": "sources", "line": 0, "error": "forbidden construct: " + "; ".join(forbidden)})
    assum = {}
    if ok_proof:
        # the Properties files are tiny (statement + exact): re-compiling them alone re-reads
        # the Print Assumptions output under every property theorem on every run
        assum = assumptions_of(targets)
        for v, a in assum.items():
            if a["other_output"]:
                notes.append("Print Assumptions of %s printed: %s" % (v, a["other_output"][:5]))

    # 3 build
    ok_build, out_build = build_harness(prop.harness_bin, getattr(prop, 'build_flags', ()))
    if not ok_build:
        print(out_build[-4000:], file=sys.stderr)
        raise SystemExit("harness does not build against %s (exit 2)" % REPO)

    # 4 run impl
    n = int(os.environ.get("VERIF_N") or prop.sizes[tier])
    trace = os.path.join(work, "trace.jsonl")
    cases = []
    corpus_n = 0
    for cfile in sorted(glob.glob(os.path.join(ROOT, "corpus", prop.id, "*.jsonl"))):
        outp = os.path.join(work, "corpus_out.jsonl")
        rc, out = run_harness(prop.harness_bin, prop.harness_sub, outp, replay=cfile)
        if rc != 0:
            raise SystemExit("harness failed on corpus %s:\n%s" % (cfile, out[-2000:]))
        cs = read_jsonl(outp)
        corpus_n += len(cs)
        cases += cs
    rc, out = run_harness(prop.harness_bin, prop.harness_sub, trace, seed=seed, n=n,
                          extra=prop.harness_extra(tier))
    harness_msgs = out
    if rc != 0:
        # a crash of the implementation under the harness is itself an observation
        log("harness exited with", rc)
        notes.append("harness exit %d: %s" % (rc, out[-1500:]))
    gen_cases = read_jsonl(trace) if os.path.exists(trace) else []
    cases += gen_cases

    # 5 model + oracle
    spec_fail, model_diff = [], []
    eval_error = None
    if ok_check and cases:
        try:
            bad = evaluate(prop, cases, work, "cases")
            for i, m, s in bad:
                if not s:
                    spec_fail.append(i)
                elif not m:
                    model_diff.append(i)
        except RuntimeError as e:
            eval_error = str(e)
            log(eval_error[-1500:])
    elif not ok_check:
        eval_error = "correspondence file %s does not compile: %s" % (prop.check_vo, out_check[-1500:])
        log(eval_error)
    if rc != 0 and not spec_fail:
        eval_error = (eval_error or "") + " harness failed: " + out[-1500:]

    # 6 verdict
    def write_replay(kind, case, extra=None):
        body = {"property": prop.id, "kind": kind, "seed": seed, "tier": tier, "case": case}
        body.update(extra or {})
        h = hashlib.sha1(json.dumps(body, sort_keys=True).encode()).hexdigest()[:12]
        p = os.path.join(OUT, "replays", "%s-%s.json" % (prop.id, h))
        json.dump(body, open(p, "w"), indent=1)
        return p

    reported_known = set()
    seen_sigs = set()
    for i in spec_fail[:prop.max_reports * 4]:
        small = shrink(prop, cases[i], work, "spec") if prop.can_shrink else cases[i]
        k = match_known(prop, small, known) or match_known(prop, cases[i], known)
        if k:
            if k["id"] not in reported_known:
                reported_known.add(k["id"])
                known_lines.append("KNOWN-FINDING: property=%s %s" % (prop.id, k["what"]))
            continue
        sig = prop.dedup_key(small)
        if sig in seen_sigs:
            continue
        seen_sigs.add(sig)
        if len(violations) < prop.max_reports:
            p = write_replay("spec-violated-by-implementation", small,
                             {"explanation": "the specification oracle rejects what the implementation did on this input",
                              "original_case_index": i})
            violations.append({"replay": p, "nofail": False})

    unproved = bool(broken) or bool(gen_errors) or bool(eval_error) or bool(model_diff)
    if unproved and not violations:
        # the property is no longer shown; widen the search for a failing input
        found = None
        if ok_check and not eval_error or model_diff:
            for extra_seed in range(1, prop.widen_rounds + 1):
                wtrace = os.path.join(work, "widen.jsonl")
                rc2, _ = run_harness(prop.harness_bin, prop.harness_sub, wtrace, seed=seed + 7919 * extra_seed,
                                     n=prop.sizes["quick"] * prop.widen_factor, extra=prop.harness_extra("thorough"))
                if rc2 != 0 or not ok_check:
                    break
                wc = read_jsonl(wtrace)
                try:
                    wbad = evaluate(prop, wc, work, "widen")
                except RuntimeError:
                    break
                for i, m, s in wbad:
                    if not s:
                        small = shrink(prop, wc[i], work, "spec") if prop.can_shrink else wc[i]
                        if not (match_known(prop, small, known) or match_known(prop, wc[i], known)):
                            found = small
                            break
                if found:
                    break
        if found:
            p = write_replay("spec-violated-by-implementation", found,
                             {"explanation": "found while widening the search after a proof/correspondence break",
                              "broken": broken, "translator_errors": gen_errors})
            violations.append({"replay": p, "nofail": False})
        else:
            what = {"broken_obligations": broken, "translator_errors": gen_errors,
                    "correspondence_error": eval_error,
                    "model_differs_from_implementation_on": None}
            if model_diff:
                small = shrink(prop, cases[model_diff[0]], work, "model") if prop.can_shrink else cases[model_diff[0]]
                what["model_differs_from_implementation_on"] = small
                what["number_of_differing_cases"] = len(model_diff)
            p = write_replay("no-longer-shown", what.get("model_differs_from_implementation_on"),
                             {"explanation": "a proof obligation, the guard translator or the model/implementation "
                                             "correspondence no longer checks; no input on which the specification "
                                             "itself fails was found", "what": what})
            violations.append({"replay": p, "nofail": True})

    for l in known_lines:
        print(l)
    for v in violations:
        print("VIOLATION property=%s replay=%s%s" % (prop.id, v["replay"], " no-failing-input-found" if v["nofail"] else ""))

    # 7 evidence
    keys = set()
    for c in cases:
        k = prop.nontrivial_key(c)
        if k is not None:
            keys.add(k)
    cov = {
        "obligations": total,
        "discharged": done if ok_proof else min(done, max(total - 1, 0)),
        "checker_cmd": "make -C coq %s   # coqc 8.16.1 full .vo build; Print Assumptions under every property theorem" % " ".join(targets),
        "trusted_base": prop.trusted_base,
        "theorem_files": srcs,
        "property_theorems": [n for n in names if n.startswith(tuple(getattr(prop, "theorem_prefixes", (prop.id + "_",))))],
        "guards_regenerated_from_source": [m["name"] for m in gen["matched"] if prop.gen_relevant(m["name"])],
        "evaluations": len(cases),
        "traces_validated_against_impl": len(cases),
        "corpus_cases": corpus_n,
        "distinct_nontrivial": len(keys),
        "rule": prop.rule,
        "samples": [prop.summarize(c) for c in cases[:2] + cases[-1:]],
        "distribution": prop.distribution(cases),
        "model_vs_impl_differences": len(model_diff),
        "oracle_rejections": len(spec_fail),
        "known_findings_reported": sorted(reported_known),
        "exhaustive": False,
    }
    if assum:
        cov["print_assumptions"] = assum
    if tier == "thorough" and ok_proof and prop.coqchk:
        cov["coqchk"] = run_coqchk(prop)
    cov.update(prop.extra_coverage(cases, tier))
    ev = {
        "property_id": prop.id, "tier": tier, "seed": seed, "level": "proof",
        "coverage": cov,
        "assumptions": prop.assumptions + notes,
        "wall_s": round(time.time() - t0, 2),
        "violations": len(violations),
    }
    json.dump(ev, open(os.path.join(OUT, "evidence", "%s.json" % prop.id), "w"), indent=1)
    log("%s %s: %d cases, %d oracle rejections, %d model differences, proofs %s, %.1fs" % (
        prop.id, tier, len(cases), len(spec_fail), len(model_diff), "ok" if ok_proof else "BROKEN", time.time() - t0))
    return 1 if violations else 0


def run_coqchk(prop):
    mods = []
    for t in prop.coq_targets:
        if "/Properties/" in t:
            mods.append("Moc." + t[len("theories/"):-3].replace("/", "."))
    with Lock(os.path.join(OUT, "work", "coq.lock")):
        t0 = time.time()
        rc, out = sh(["timeout", "3000", "coqchk", "-silent", "-o", "-Q", "theories", "Moc"] + mods, cwd=COQ)
    return {"rc": rc, "wall_s": round(time.time() - t0, 1), "output_tail": out[-1500:]}


def run_replay(prop, path):
    """./check Cnn --replay FILE: re-run the recorded case on implementation, model and oracle."""
    body = json.load(open(path))
    case = body.get("case")
    if case is None:
        print("replay file names a broken obligation, not an input:")
        print(json.dumps(body.get("what"), indent=1)[:4000])
        return 1
    work = os.path.join(OUT, "work", prop.id)
    os.makedirs(work, exist_ok=True)
    run_gen()
    make_targets([prop.check_vo])
    ok, out = build_harness(prop.harness_bin, getattr(prop, 'build_flags', ()))
    if not ok:
        raise SystemExit(out)
    inp = os.path.join(work, "replay_in.jsonl")
    outp = os.path.join(work, "replay_out.jsonl")
    open(inp, "w").write(json.dumps(case) + "\n")
    rc, out = run_harness(prop.harness_bin, prop.harness_sub, outp, replay=inp)
    res = read_jsonl(outp)
    print("implementation observation:", json.dumps(res[0])[:3000])
    bad = evaluate(prop, res, work, "replay")
    if not bad:
        print("model agrees with implementation: true\nspecification oracle accepts: true")
        return 0
    _, m, s = bad[0]
    print("model agrees with implementation: %s\nspecification oracle accepts: %s" % (m, s))
    return 1 if not s else 0


if __name__ == "__main__":
    if sys.argv[1:] == ["makefile"]:
        ensure_makefile()
