#!/usr/bin/env python3
"""Swap the C06 development from the pinned tree to the repaired tree.

Run ONCE, after the two `fix:` commits (F6: `len(tag) < 2` in both tombstone
builders of handler/sqlite/insert.go; F7: a filter with limit 0 selects
nothing, see repo-F6-F7.patch) are in /repo:

    python3 /verif/fixed/sql/apply_after_fix.py

What it does (all inside /verif):
  1. gen/anchors_sql.go: adds the anchor g_sql_limit0_empty (the new
     `if f.Limit != nil && *f.Limit == 0` in buildEventQuery).
  2. coq/theories/Sql.v: replaces the marked definition MODEL-F7
     ([sub_limit_of]) by the repaired one.
  3. coq/theories/SqlPinned.v is removed (its refutations are false after the
     repair), coq/theories/SqlProofsFixed.v is installed.
  4. coq/theories/Properties/C06.v is replaced by the version that states the
     full theorem C06_query_correct.
Nothing else changes: SqlLemmas/SqlInv/SqlAbs/SqlSort/SqlQuery/SqlC14/
SqlProofs, the check files, the harness, the plug-ins and the corpus are the
same on both trees (the corpus cases of F6/F7 then pass and stay as
regression cases).
"""
import os
import shutil
import sys

ROOT = os.path.dirname(os.path.dirname(os.path.dirname(os.path.abspath(__file__))))
HERE = os.path.dirname(os.path.abspath(__file__))


def edit(path, old, new):
    p = os.path.join(ROOT, path)
    s = open(p).read()
    if new in s:
        print("already applied:", path)
        return
    if old not in s:
        sys.exit("cannot find the text to replace in " + path)
    open(p, "w").write(s.replace(old, new, 1))
    print("edited", path)


ANCHOR_OLD = '''		{Name: "g_sql_since_present", File: sqlQuery, Func: "appendSinceQuery",'''
ANCHOR_NEW = '''		// the repair of F7: `if f.Limit != nil && *f.Limit == 0 { sub = sub.Where(goqu.L("0")) }`
		{Name: "g_sql_limit0_empty", File: sqlQuery, Func: "buildEventQuery", Kind: "ifcond", Select: "*f.Limit == 0",
			Header: "(present : bool) (limit : Z)", RetTy: "bool", Out: out,
			Syms: map[string]sym{"f.Limit != nil": b("present"), "*f.Limit": z("limit")}},
		{Name: "g_sql_since_present", File: sqlQuery, Func: "appendSinceQuery",'''

MODEL_OLD_BEGIN = "(* MODEL-F7 begin"
MODEL_OLD_END = "(* MODEL-F7 end *)"
MODEL_NEW = '''(* MODEL-F7 begin — the LIMIT of a filter's sub-select in buildEventQuery:
   appendLimitQuery, and (the repair of F7)
       if f.Limit != nil && *f.Limit == 0 { sub = sub.Where(goqu.L("0")) }
   a WHERE 0 selects no row, which is what LIMIT 0 means. *)
Definition sub_limit_of (limit : option Z) (maxLimit : Z) : option Z :=
  if g_sql_limit0_empty (isSome limit) (match limit with Some l => l | None => 0 end)
  then Some 0 else goqu_limit_of limit maxLimit.
(* MODEL-F7 end *)'''

edit("gen/anchors_sql.go", ANCHOR_OLD, ANCHOR_NEW)

p = os.path.join(ROOT, "coq/theories/Sql.v")
s = open(p).read()
a, b = s.index(MODEL_OLD_BEGIN), s.index(MODEL_OLD_END) + len(MODEL_OLD_END)
if "g_sql_limit0_empty" in s[a:b]:
    print("already applied: coq/theories/Sql.v")
else:
    open(p, "w").write(s[:a] + MODEL_NEW + s[b:])
    print("edited coq/theories/Sql.v")

pinned = os.path.join(ROOT, "coq/theories/SqlPinned.v")
for ext in ("v", "vo", "vok", "vos", "glob"):
    q = pinned[:-1] + ext
    if os.path.exists(q):
        os.unlink(q)
        print("removed", os.path.relpath(q, ROOT))
shutil.copyfile(os.path.join(HERE, "SqlProofsFixed.v"), os.path.join(ROOT, "coq/theories/SqlProofsFixed.v"))
shutil.copyfile(os.path.join(HERE, "C06Fixed.v"), os.path.join(ROOT, "coq/theories/Properties/C06.v"))
print("installed coq/theories/SqlProofsFixed.v and coq/theories/Properties/C06.v")
print("now run: ./check C06 && ./check C14")
