"""Shared by C03, C04, C05 (and C16): printing cache histories as Gallina."""
import copy
import json
from coqterm import cbool, cZ, clist, cpair, cevent, cfilters
from propbase import drop_one


def define_pool(I, pool):
    """Binds every pool event once; returns id -> Coq name."""
    names = {}
    for k in sorted(pool):
        nm = "ev_%d" % len(I.defs)
        I.defs.append("Definition %s : event := %s." % (nm, cevent(I, pool[k])))
        names[k] = nm
    return names


def hist_to_coq(I, c):
    names = define_pool(I, c["pool"])

    def evs(ids):
        return clist(ids, lambda i: names[i], "event")

    def step(st):
        qs = clist(st.get("qs") or [], lambda q: cpair(cfilters(I, q["fs"]), evs(q.get("out") or [])),
                   "(list rfilter * list event)%type")
        return "(mkStep %s %s %s %s %s %s %s %s %s)" % (
            names[st["e"]], cbool(st.get("added", False)), cZ(st.get("len", 0)), evs(st.get("list") or []),
            cZ(st.get("dlen", 0)), cZ(st.get("tlen", 0)), cZ(st.get("ilen", 0)), qs, cbool(bool(st.get("panic"))))

    return "(CHist %s %s)" % (cZ(c["cap"]), clist(c["steps"], step, "step"))


def strip_outputs(c):
    c = copy.deepcopy(c)
    for st in c["steps"]:
        for k in ("added", "len", "list", "dlen", "tlen", "ilen", "panic"):
            st.pop(k, None)
        for q in st.get("qs") or []:
            q.pop("out", None)
    return c


def shrink_hist(c):
    c = strip_outputs(c)
    steps = c["steps"]
    # drop a suffix, then single steps
    for k in range(len(steps) - 1, 0, -1):
        yield dict(c, steps=steps[:k])
    for s2 in drop_one(steps):
        yield dict(c, steps=s2)
    # drop queries
    for i, st in enumerate(steps):
        qs = st.get("qs") or []
        for q2 in drop_one(qs):
            c2 = copy.deepcopy(c)
            c2["steps"][i]["qs"] = q2
            yield c2
        for j, q in enumerate(qs):
            for f2 in drop_one(q["fs"]):
                if not f2:
                    continue
                c2 = copy.deepcopy(c)
                c2["steps"][i]["qs"][j]["fs"] = f2
                yield c2
            for fi, f in enumerate(q["fs"]):
                for fld in ("ids", "authors", "kinds", "tags", "since", "until", "limit"):
                    if f.get(fld) is not None:
                        c2 = copy.deepcopy(c)
                        c2["steps"][i]["qs"][j]["fs"][fi][fld] = None
                        yield c2
    # drop unused pool events and tags of used ones
    used = {st["e"] for st in steps}
    if set(c["pool"]) - used:
        yield dict(c, pool={k: v for k, v in c["pool"].items() if k in used})
    for k in sorted(used):
        for t2 in drop_one(c["pool"][k]["tags"]):
            c2 = copy.deepcopy(c)
            c2["pool"][k]["tags"] = t2
            yield c2
    if c["cap"] > 1:
        yield dict(c, cap=c["cap"] - 1)


def kind_class(k):
    if k in (0, 3) or 10000 <= k < 20000:
        return "replaceable"
    if 20000 <= k < 30000:
        return "ephemeral"
    if 30000 <= k < 40000:
        return "addressable"
    if k == 5:
        return "deletion"
    return "regular"


def hist_distribution(cases):
    d = {"histories": len(cases), "steps": 0, "queries": 0, "added_true": 0, "added_false": 0, "evictions_or_removals": 0,
         "by_class": {}, "capacity_hist": {}, "steps_with_panic": 0, "nonempty_query_answers": 0}
    for c in cases:
        d["capacity_hist"][str(c["cap"])] = d["capacity_hist"].get(str(c["cap"]), 0) + 1
        prev = []
        for st in c["steps"]:
            d["steps"] += 1
            d["queries"] += len(st.get("qs") or [])
            d["nonempty_query_answers"] += sum(1 for q in st.get("qs") or [] if q.get("out"))
            d["added_true" if st.get("added") else "added_false"] += 1
            cl = kind_class(c["pool"][st["e"]]["kind"])
            d["by_class"][cl] = d["by_class"].get(cl, 0) + 1
            lst = st.get("list") or []
            if set(prev) - set(lst):
                d["evictions_or_removals"] += 1
            if st.get("panic"):
                d["steps_with_panic"] += 1
            prev = lst
    return d


def hist_features(c):
    """which interesting things happened in a history"""
    feats = set()
    prev = []
    for st in c["steps"]:
        e = c["pool"][st["e"]]
        lst = st.get("list") or []
        lost = set(prev) - set(lst)
        cl = kind_class(e["kind"])
        if st.get("added") and lost:
            if cl in ("replaceable", "addressable") and any(kind_class(c["pool"][x]["kind"]) == cl for x in lost):
                feats.add("replacement")
            if cl == "deletion":
                feats.add("deletion")
            if len(prev) >= c["cap"]:
                feats.add("eviction")
        if not st.get("added"):
            feats.add("rejected")
        prev = lst
    return feats


def summarize_hist(c):
    return {"cap": c["cap"], "steps": [{"e": c["pool"][st["e"]], "added": st.get("added"), "list": st.get("list"),
                                        "queries": len(st.get("qs") or [])} for st in c["steps"][:6]],
            "total_steps": len(c["steps"])}
