import json
from propbase import Prop, COMMON_TRUSTED
import cachecommon as cc


class C05(Prop):
    id = "C05"
    coq_targets = ["theories/Properties/C05.vo"]
    check_vo = "theories/Check/C05Check.vo"
    check_module = "Moc.Check.C05Check"
    harness_bin = "core"
    harness_sub = "c05"
    sizes = {"quick": 1000, "thorough": 100000}
    gen_names = ("g_event_type", "g_created_key_lt", "g_add_keep_old", "g_over_cap", "g_is_kind5", "g_del_is_kind5",
                 "g_del_other_author", "g_k5_tag_short", "g_k5_tag_name", "g_full_scan", "g_index_over_limit",
                 "event_cache.go", "g_done", "g_since_reject", "g_until_reject")
    rule = ("histories of insertions into the real EventCache drawn from a pool of 4..17 events over 3 authors, all event "
            "classes, d values absent/empty/a/b, timestamps 0..6 (many ties; in one pool of eight a third of the events have a created_at at the ends of int64: MinInt64, -9e18, -1, 2^31, 9e18, MaxInt64 ...), deletion requests referencing past and future "
            "events, themselves, other requests, other authors' events and addressable addresses, re-offered events, "
            "capacity 1..6 or 100; after every insertion the verdict, Len, the match-everything listing, registry and tree "
            "sizes (hooks) are recorded, and after one insertion in five the answer to a list of 1..3 filters (ids, authors, kinds, tags, since, until, limit) as well: a read must leave the store as it found it. Non-trivial: the history contains an accepted deletion request that removes something and a later rejected insertion; distinct = distinct JSON")
    trusted_base = COMMON_TRUSTED
    assumptions = [
        "ids are functional in a history (two events with one id are the same event): what SHA-256 ids give behind the gate",
        "igrmk/treemap modelled as a sorted list, Go maps as association lists; map iteration order shown irrelevant by the proofs and by agreement with the implementation",
    ]

    def to_coq(self, I, c):
        return cc.hist_to_coq(I, c)

    def shrink(self, c):
        return cc.shrink_hist(c)

    def nontrivial_key(self, c):
        return NONTRIVIAL(c)

    def dedup_key(self, c):
        return json.dumps(cc.strip_outputs(c), sort_keys=True)[:2000]

    def distribution(self, cases):
        return cc.hist_distribution(cases)

    def summarize(self, c):
        return cc.summarize_hist(c)


def NONTRIVIAL(c):
    return NT_RULE(c)


def NT_RULE(c):
    f = cc.hist_features(c)
    if {"deletion", "rejected"} <= f:
        return json.dumps(cc.strip_outputs(c), sort_keys=True)
    return None


PROP = C05()
