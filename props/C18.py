import json
from propbase import Prop, COMMON_TRUSTED, drop_one
from coqterm import cZ, cnat, clist
from mw_common import (Broken, c_obs, c_desc, c_life_history, strip_outputs, count_ops, fewer_ops, simpler_msgs,
                       fewer_connections, count_life, is_life)


class C18(Prop):
    id = "C18"
    coq_targets = ["theories/Properties/C18.vo"]
    check_vo = "theories/Check/C18Check.vo"
    check_module = "Moc.Check.C18Check"
    case_imports = ["Moc.Msg", "Moc.Mw", "Moc.MwCheck"]
    harness_bin = "core"
    harness_sub = "c18"
    sizes = {"quick": 3000, "thorough": 100000}
    gen_names = ("g_quota_over", "g_recv_unique", "g_send_unique", "g_mw_max_filters", "g_mw_ctor_bad_max_subs")
    max_reports = 3
    rule = ("60% one stateful middleware (quota N, receive-side window, send-side window; N, size cycling through 1,2,3), "
            "40% stacks of two or three different ones in a random order (sometimes with a stateless limit in between); "
            "1..6 connections of ONE handler value advanced one operation at a time in a harness-chosen interleaving; in a "
            "third of the cases connections come and go (up to 6 slots, 3 connections at a time): a connection ends with what "
            "it opened still open and another begins afterwards, in a new slot or in the one just vacated; histories "
            "of 4..40 operations over {REQ,CLOSE}x{a,b,c}, client EVENTx{x,y,z}, server EVENTx{x,y,z}, the downstream's OK "
            "for x/y/z (accepted 40%, else refused with duplicate:/rate-limited:/blocked:/error:/no prefix) and a few "
            "EOSE/CLOSED/COUNT/AUTH/NOTICE; in a quarter of the cases the ids are not x/y/z and a/b/c but 64-digit event "
            "ids that agree on their first 16, 32 or 63 digits, event ids that are prefixes of one another (x, xx, xxx), or "
            "subscription ids of 64, 65 and 65 bytes with a common 64-byte prefix; the kind of the event behind an id is fixed per case: 1, or one of 0, 1, 3, 5, "
            "9999, 10000, 19999, 20000, 20001, 29999, 30000, 39999, 40000 (every NIP-01 class and both sides of its "
            "boundaries); non-trivial = at least one message answered or dropped and one passed; "
            "the messages a client received are kept as handed over and must still read the same at the end of the history; "
            "distinct = distinct inputs")
    trusted_base = COMMON_TRUSTED + [
        "the harness's sentinel protocol (a reserved CLOSE that every middleware forwards, answered by a reserved NOTICE) "
        "to know that a message has been fully processed",
        "hashicorp/golang-lru v2 (modelled by hand as a most-recent-first list: Get promotes, Add inserts in front and "
        "evicts the oldest beyond size); validated by the correspondence run only",
    ]
    assumptions = [
        "N >= 1 and window size >= 1 (the constructors panic otherwise)",
        "connections are advanced one operation at a time; truly simultaneous operations of different connections are not "
        "scheduled by the harness (each connection's state is private in the model; the shared-state mutants are caught "
        "by sequential interleavings)",
        "a connection ends by cancellation of its context; the next operation is issued after ServeNostr has returned "
        "(ServeNostrEnd of every wrapper has run), a connection's first operation after a sentinel round trip "
        "(ServeNostrStart of every wrapper has run)",
        "'last size distinct ids seen' counts every EVENT reaching the filter, repeats included",
        "an id seen earlier but no longer among the last size distinct ids may be forwarded or rejected (not claimed)",
    ]

    def to_coq(self, I, c):
        try:
            h = c_life_history(I, c.get("ops") or [])
            obs = clist(c.get("obs") or [], lambda o: c_obs(I, o), "obs")
            return "(CSys %s %s %s %s %s)" % (cZ(c.get("now", 0)), clist(c.get("mws") or [], lambda s: c_desc(I, s), "mwdesc"),
                                            cnat(c.get("nsess", 1)), h, obs)
        except Broken:
            return "CBroken"

    def nontrivial_key(self, c):
        a = b = False
        for op, ob in zip(c.get("ops") or [], c.get("obs") or []):
            if op["d"] == "c":
                a = a or bool(ob.get("client"))
                b = b or bool(ob.get("down"))
            elif op["d"] == "s" and op["m"]["t"] == "EVENT":
                a = a or not ob.get("client")
                b = b or bool(ob.get("client"))
        return json.dumps(strip_outputs(c), sort_keys=True) if a and b else None

    def dedup_key(self, c):
        return json.dumps(sorted(s["t"] for s in c.get("mws") or []))

    def shrink(self, c):
        c = strip_outputs(c)
        yield from fewer_connections(c)
        for ops in fewer_ops(c.get("ops") or []):
            yield dict(c, ops=ops)
        if len(c.get("mws") or []) > 1:
            for mws in drop_one(c["mws"]):
                yield dict(c, mws=mws)
        for ops in simpler_msgs(c.get("ops") or []):
            yield dict(c, ops=ops)

    def extra_coverage(self, cases, tier):
        if tier != "thorough":
            return {}
        return {"exhaustive_subspaces": [
            "quota N=1..3: every history of length 0..5 over {REQ,CLOSE}x{a,b,c} (one session)",
            "receive-side window 1..3: every history of length 0..8 over client EVENTx{x,y,z}",
            "send-side window 1..3: every history of length 0..8 over server EVENTx{x,y,z}",
        ], "exhaustive": False}

    def summarize(self, c):
        return {"mws": c.get("mws"), "slots": c.get("nsess"), "n_ops": len([o for o in c.get("ops") or [] if not is_life(o)])}

    def distribution(self, cases):
        d = {"cases": len(cases), "sessions": {}, "stack_sizes": {}, "kinds": {}, "event_kinds": {},
             "downstream_ok_refused": 0, "downstream_ok_accepted": 0}
        for c in cases:
            n = str(c.get("nsess"))
            d["sessions"][n] = d["sessions"].get(n, 0) + 1
            k = str(len(c.get("mws") or []))
            d["stack_sizes"][k] = d["stack_sizes"].get(k, 0) + 1
            for s in c.get("mws") or []:
                key = "%s=%s" % (s["t"], s.get("n"))
                d["kinds"][key] = d["kinds"].get(key, 0) + 1
            for o in c.get("ops") or []:
                m = o.get("c") or o.get("m") or {}
                if m.get("t") == "EVENT":
                    k = str(m["e"].get("kind"))
                    d["event_kinds"][k] = d["event_kinds"].get(k, 0) + 1
                if o["d"] == "s" and m.get("t") == "OK":
                    d["downstream_ok_accepted" if m.get("acc") else "downstream_ok_refused"] += 1
        count_life(cases, d)
        return count_ops(cases, d)


PROP = C18()
