import json
from propbase import Prop, COMMON_TRUSTED, drop_one
from coqterm import cZ, cnat, clist, cpair
from mw_common import Broken, c_op, c_obs, c_desc, strip_outputs, count_ops, fewer_ops


class C18(Prop):
    id = "C18"
    coq_targets = ["theories/Properties/C18.vo"]
    check_vo = "theories/Check/C18Check.vo"
    check_module = "Moc.Check.C18Check"
    case_imports = ["Moc.Msg", "Moc.Mw", "Moc.MwCheck"]
    harness_bin = "core"
    harness_sub = "c18"
    sizes = {"quick": 3000, "thorough": 100000}
    gen_names = ("g_quota_over", "g_recv_unique", "g_send_unique", "g_mw_max_filters", "g_mw_ctor_bad_max_subs")
    max_reports = 3
    rule = ("60% one stateful middleware (quota N, receive-side window, send-side window; N, size cycling through 1,2,3), "
            "40% stacks of two or three different ones in a random order (sometimes with a stateless limit in between); "
            "1..6 sessions of ONE handler value advanced one operation at a time in a harness-chosen interleaving; histories "
            "of 4..40 operations over {REQ,CLOSE}x{a,b,c}, client EVENTx{x,y,z}, server EVENTx{x,y,z} and a few "
            "EOSE/CLOSED/COUNT/AUTH/OK/NOTICE; non-trivial = at least one message answered or dropped and one passed; "
            "distinct = distinct inputs")
    trusted_base = COMMON_TRUSTED + [
        "the harness's sentinel protocol (a reserved CLOSE that every middleware forwards, answered by a reserved NOTICE) "
        "to know that a message has been fully processed",
        "hashicorp/golang-lru v2 (modelled by hand as a most-recent-first list: Get promotes, Add inserts in front and "
        "evicts the oldest beyond size); validated by the correspondence run only",
    ]
    assumptions = [
        "N >= 1 and window size >= 1 (the constructors panic otherwise)",
        "sessions are advanced one operation at a time; truly simultaneous operations of different sessions are not "
        "scheduled by the harness (each session's state is private in the model; the shared-state mutants are caught "
        "by sequential interleavings)",
        "'last size distinct ids seen' counts every EVENT reaching the filter, repeats included",
        "an id seen earlier but no longer among the last size distinct ids may be forwarded or rejected (not claimed)",
    ]

    def to_coq(self, I, c):
        try:
            ops = c.get("ops") or []
            h = clist(ops, lambda o: cpair(cnat(o.get("s", 0)), c_op(I, o)), "(nat * op)%type")
            obs = clist(c.get("obs") or [], lambda o: c_obs(I, o), "obs")
            return "(CSys %s %s %s %s %s)" % (cZ(c.get("now", 0)), clist(c.get("mws") or [], lambda s: c_desc(I, s), "mwdesc"),
                                            cnat(c.get("nsess", 1)), h, obs)
        except Broken:
            return "CBroken"

    def nontrivial_key(self, c):
        a = b = False
        for op, ob in zip(c.get("ops") or [], c.get("obs") or []):
            if op["d"] == "c":
                a = a or bool(ob.get("client"))
                b = b or bool(ob.get("down"))
            elif op["m"]["t"] == "EVENT":
                a = a or not ob.get("client")
                b = b or bool(ob.get("client"))
        return json.dumps(strip_outputs(c), sort_keys=True) if a and b else None

    def dedup_key(self, c):
        return json.dumps(sorted(s["t"] for s in c.get("mws") or []))

    def shrink(self, c):
        c = strip_outputs(c)
        for ops in fewer_ops(c.get("ops") or []):
            yield dict(c, ops=ops)
        if len(c.get("mws") or []) > 1:
            for mws in drop_one(c["mws"]):
                yield dict(c, mws=mws)
        # merge the highest session into a smaller system when it is unused
        used = {o.get("s", 0) for o in c.get("ops") or []}
        n = c.get("nsess", 1)
        if n > 1:
            for s in range(n):
                if s not in used:
                    ops = [dict(o, s=o["s"] - 1 if o["s"] > s else o["s"]) for o in c["ops"]]
                    yield dict(c, nsess=n - 1, ops=ops)
                    break

    def extra_coverage(self, cases, tier):
        if tier != "thorough":
            return {}
        return {"exhaustive_subspaces": [
            "quota N=1..3: every history of length 0..5 over {REQ,CLOSE}x{a,b,c} (one session)",
            "receive-side window 1..3: every history of length 0..8 over client EVENTx{x,y,z}",
            "send-side window 1..3: every history of length 0..8 over server EVENTx{x,y,z}",
        ], "exhaustive": False}

    def summarize(self, c):
        return {"mws": c.get("mws"), "nsess": c.get("nsess"), "n_ops": len(c.get("ops") or [])}

    def distribution(self, cases):
        d = {"cases": len(cases), "sessions": {}, "stack_sizes": {}, "kinds": {}}
        for c in cases:
            n = str(c.get("nsess"))
            d["sessions"][n] = d["sessions"].get(n, 0) + 1
            k = str(len(c.get("mws") or []))
            d["stack_sizes"][k] = d["stack_sizes"].get(k, 0) + 1
            for s in c.get("mws") or []:
                key = "%s=%s" % (s["t"], s.get("n"))
                d["kinds"][key] = d["kinds"].get(key, 0) + 1
        return count_ops(cases, d)


PROP = C18()
