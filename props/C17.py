import copy
import json
from propbase import Prop, COMMON_TRUSTED, drop_one
from coqterm import cbool, cZ, cnat, clist
from mw_common import (Broken, c_obs, c_desc, c_life_history, strip_outputs, simpler_msgs, count_ops, fewer_ops,
                       fewer_connections, count_life, unusual_created_at, is_life)

LIM_FIELDS = ("max_subscriptions", "max_filters", "max_limit", "max_subid_length", "max_event_tags",
              "max_content_length", "created_at_lower_limit", "created_at_upper_limit")


def _doc(c):
    d = c.get("doc")
    if d == "nil":
        return "DocNil"
    if d == "nolim":
        return "DocNoLim"
    l = c.get("lim") or {}
    return "(DocLim (mkLim %s))" % " ".join(cZ(l.get(k, 0)) for k in LIM_FIELDS)


class C17(Prop):
    id = "C17"
    coq_targets = ["theories/Properties/C17.vo"]
    check_vo = "theories/Check/C17Check.vo"
    check_module = "Moc.Check.C17Check"
    case_imports = ["Moc.Msg", "Moc.Mw", "Moc.MwCheck"]
    harness_bin = "core"
    harness_sub = "c17"
    sizes = {"quick": 3000, "thorough": 60000}
    gen_names = ("g_mw_", "g_nip11_outer_identity", "g_nip11_inner_identity", "g_nip11_chain", "g_quota_over")
    max_reports = 3
    rule = ("60% stacks of 1..5 of the ten stateless limit middlewares (every kind regularly outermost; limits 1..3, "
            "created_at limits 0/30/120/600 s), 40% BuildMiddlewareFromNIP11 documents (nil pointer, no limitation block, "
            "every subset of the seven limits, a few negative counts), each driven through the real NewSimpleMiddleware "
            "goroutines with 6..14 operations: client EVENT/REQ/COUNT/CLOSE/AUTH with 0..4 filters, per-filter limit "
            "absent or 0..4, subscription ids of 1..4 bytes, 0..4 tags, content of 0..4 ASCII bytes, 10 bytes, or 1..2 characters of 2..4 bytes each (limits count bytes), created_at "
            "at now +- limit +- {5,60} s, and in 12% of the events any int64 the implementation can represent: MinInt64, "
            "MinInt64+1, both sides of now-MaxInt64 (where an int64 difference wraps), -2^62, -2^53, now -+ 292 years +- 60 s "
            "(time.Duration saturation), year 1, -2^31-1, -1, 0, 1, 2^31-1, 2^31, 2^32, 2^53, 2^62, MaxInt64-62135596800 and beyond up to MaxInt64; all "
            "seven server message types in between; in a quarter of the cases the one middleware value serves up to three "
            "connections, two at a time, that begin and end (without tidying up) during the history, so that a later "
            "connection meets whatever an earlier one left; a case is non-trivial when at "
            "least one client message was forwarded and at least one was answered; the messages a client received are kept as handed over and must still read the same at the end of the history; "
            "distinct = distinct inputs")
    trusted_base = COMMON_TRUSTED + [
        "the harness's sentinel protocol (a reserved CLOSE that every middleware forwards, answered by a reserved NOTICE) "
        "to know that a message has been fully processed",
    ]
    assumptions = [
        "time: the model compares whole seconds; the harness keeps created_at at least 4 s away from every moving boundary",
        "created_at is any int64 (the wrap of time.Unix beyond MaxInt64 - 62135596800 was defect F12, repaired; its inputs "
        "are in corpus/C17/created_at_beyond_time_unix.jsonl and the generator draws from that range too)",
        "created_at limits below 2^63/10^9 s (beyond that time.Duration(x)*time.Second wraps); counts in the NIP-11 "
        "document non-negative (a negative count makes the constructor panic: modelled, not claimed)",
        "the matcher of the allow/deny filter is NewReqFiltersEventLimitMatcher (model of C02); events have no empty tag",
        "a filter without limit respects max_limit; max_content_length is in bytes",
        "free text of OK/CLOSED replies is not compared (id, accepted flag and machine readable prefix are)",
    ]
    signatures = {
        "nip11_no_limitation_block": lambda c: c.get("k") == "nip11" and c.get("doc") == "nolim",
        "created_at_beyond_time_unix": lambda c: any(
            ((o.get("c") or {}).get("e") or {}).get("ts", 0) > 9223371974719179007 for o in c.get("ops") or []),
    }

    def to_coq(self, I, c):
        try:
            h = c_life_history(I, c.get("ops") or [])
            obs = clist(c.get("obs") or [], lambda o: c_obs(I, o), "obs")
            built = cbool(c.get("built") == "ok")
            now = cZ(c.get("now", 0))
            n = cnat(c.get("nsess") or 1)
            if c["k"] == "stack":
                return "(CStack %s %s %s %s %s %s)" % (now, clist(c.get("mws") or [], lambda s: c_desc(I, s), "mwdesc"),
                                                     n, h, built, obs)
            return "(CNip11 %s %s %s %s %s %s)" % (now, _doc(c), n, h, built, obs)
        except Broken:
            return "CBroken"

    def _inputs(self, c):
        return json.dumps(strip_outputs(c), sort_keys=True)

    def nontrivial_key(self, c):
        fwd = rej = False
        for op, ob in zip(c.get("ops") or [], c.get("obs") or []):
            if op["d"] == "c":
                fwd = fwd or bool(ob.get("down"))
                rej = rej or bool(ob.get("client"))
        return self._inputs(c) if fwd and rej else None

    def dedup_key(self, c):
        return json.dumps([c.get("k"), c.get("doc")])

    def shrink(self, c):
        c = strip_outputs(c)
        if (c.get("nsess") or 1) > 1:
            yield from fewer_connections(c)
        for ops in fewer_ops(c.get("ops") or []):
            yield dict(c, ops=ops)
        if c["k"] == "stack" and len(c.get("mws") or []) > 1:
            for mws in drop_one(c["mws"]):
                yield dict(c, mws=mws)
        if c["k"] == "nip11" and c.get("lim"):
            for k, v in c["lim"].items():
                if v:
                    c2 = copy.deepcopy(c)
                    c2["lim"][k] = 0
                    yield c2
        for ops in simpler_msgs(c.get("ops") or []):
            yield dict(c, ops=ops)

    def summarize(self, c):
        return {"k": c.get("k"), "mws": c.get("mws"), "doc": c.get("doc"), "lim": c.get("lim"), "slots": c.get("nsess") or 1,
                "n_ops": len([o for o in c.get("ops") or [] if not is_life(o)]), "built": c.get("built")}

    def distribution(self, cases):
        d = {"stacks": 0, "nip11_docs": 0, "nip11_nil": 0, "nip11_no_limitation": 0, "nip11_subsets_seen": 0,
             "build_or_apply_panics": 0, "stack_sizes": {}, "kinds_outermost": {}}
        subsets = set()
        for c in cases:
            if c.get("built") != "ok":
                d["build_or_apply_panics"] += 1
            if c["k"] == "stack":
                d["stacks"] += 1
                n = str(len(c.get("mws") or []))
                d["stack_sizes"][n] = d["stack_sizes"].get(n, 0) + 1
                if c.get("mws"):
                    t = c["mws"][0]["t"]
                    d["kinds_outermost"][t] = d["kinds_outermost"].get(t, 0) + 1
            else:
                d["nip11_docs"] += 1
                if c.get("doc") == "nil":
                    d["nip11_nil"] += 1
                elif c.get("doc") == "nolim":
                    d["nip11_no_limitation"] += 1
                else:
                    l = c.get("lim") or {}
                    subsets.add(tuple(bool(l.get(k)) for k in LIM_FIELDS if k != "max_subid_length"))
        d["nip11_subsets_seen"] = len(subsets)
        d["cases_with_several_connections"] = sum(1 for c in cases if (c.get("nsess") or 1) > 1)
        count_life(cases, d)
        unusual_created_at(cases, d)
        return count_ops(cases, d)


PROP = C17()
