"""SYS: the relay that cmd/mocrelay assembles -- merge(cache, router, SQLite) under the Prometheus middleware --
as a composition of the component models (an extension, not one of the 20 given properties).
Cases come from harness/cmd/sys/sys.go (binary `sys`, sub-command sys)."""
import copy
import json
from propbase import Prop, COMMON_TRUSTED, drop_one
from coqterm import cbool, clist, cevent, cfilters, cZ

NOLIMIT = 18446744073709551615
FIELDS = ("ids", "authors", "kinds", "tags", "since", "until", "limit")


# ---------------------------------------------------------------------------
# printing (JSON shapes are those of C16)

def ievent(I, e):
    tab = I.__dict__.setdefault("evtab", {})
    k = json.dumps(e, sort_keys=True)
    n = tab.get(k)
    if n is None:
        term = cevent(I, e)
        n = "ev%d" % len(tab)
        tab[k] = n
        I.defs.append("Definition %s : event := %s." % (n, term))
    return n


def ievents(I, es):
    return clist(es or [], lambda e: ievent(I, e), "event")


def ccmsg(I, m):
    k = m["k"]
    if k == "event":
        return "(CEvent %s)" % ievent(I, m["e"])
    if k == "auth":
        return "(CAuth %s)" % ievent(I, m["e"])
    if k == "req":
        return "(CReq %s %s)" % (I.s(m.get("sub", "")), cfilters(I, m.get("fs") or []))
    if k == "count":
        return "(CCount %s %s)" % (I.s(m.get("sub", "")), cfilters(I, m.get("fs") or []))
    if k == "close":
        return "(CClose %s)" % I.s(m.get("sub", ""))
    raise ValueError("unknown client message kind %r" % k)


def csmsg(I, r):
    k = r["k"]
    if k == "ok":
        return "(SOk %s %s %s %s)" % (I.s(r["id"]), cbool(r["acc"]), I.s(r["prefix"]), I.s(r["msg"]))
    if k == "event":
        return "(SEvent %s %s)" % (I.s(r["sub"]), ievent(I, r["e"]))
    if k == "eose":
        return "(SEose %s)" % I.s(r["sub"])
    if k == "count":
        a = r.get("approx")
        return "(SCount %s %s %s)" % (I.s(r["sub"]), cZ(r["n"]), "(@None bool)" if a is None else "(Some %s)" % cbool(a))
    if k == "closed":
        return "(SClosed %s %s %s)" % (I.s(r["sub"]), I.s(r["prefix"]), I.s(r["msg"]))
    if k == "notice":
        return "(SNotice %s)" % I.s(r["msg"])
    if k == "auth":
        return "(SAuth %s)" % I.s(r["challenge"])
    raise ValueError("unknown server message kind %r" % k)


def cwin(I, w):
    return "(mkWin %s %s %s %s %s %s)" % (
        ccmsg(I, w["m"]), I.s(w["sent"]), ievents(I, w.get("sq")), cbool(bool(w.get("sqerr"))),
        ievents(I, w.get("list")), clist(w.get("obs") or [], lambda r: csmsg(I, r), "smsg"))


def strip_msg(m):
    k = m["k"]
    if k in ("event", "auth"):
        return {"k": k, "e": m["e"]}
    if k in ("req", "count"):
        return {"k": k, "sub": m.get("sub", ""), "fs": m.get("fs") or []}
    return {"k": k, "sub": m.get("sub", "")}


def inputs(c):
    return {"cap": c["cap"], "msgs": [strip_msg(m) for m in c.get("msgs") or []]}


def kind_class(k):
    if k in (0, 3) or 10000 <= k < 20000:
        return "replaceable"
    if 20000 <= k < 30000:
        return "ephemeral"
    if 30000 <= k < 40000:
        return "addressable"
    if k == 5:
        return "deletion"
    return "regular"


def shrink_filters(fs):
    if len(fs) > 1:
        for f2 in drop_one(fs):
            yield f2
    for i, f in enumerate(fs):
        for fld in FIELDS:
            if f.get(fld) is not None:
                f2 = copy.deepcopy(fs)
                f2[i][fld] = None
                yield f2
        tcs = f.get("tags")
        if tcs and len(tcs) > 1:
            for t2 in drop_one(tcs):
                f2 = copy.deepcopy(fs)
                f2[i]["tags"] = t2
                yield f2


class SYS(Prop):
    id = "SYS"
    coq_targets = ["theories/Properties/System.vo"]
    check_vo = "theories/Check/SystemCheck.vo"
    check_module = "Moc.Check.SystemCheck"
    case_imports = ["Moc.Msg", "Moc.SystemJudge"]
    harness_bin = "sys"
    harness_sub = "sys"
    sizes = {"quick": 1500, "thorough": 20000}
    max_reports = 1
    gen_names = ("handler.go", "g_merge_too_few", "g_eose_already", "g_eose_incomplete", "g_event_unsendable",
                 "g_ok_", "g_cnt_", "g_req_", "g_ev_", "g_router_buflen_bad", "g_sendifmatch", "g_trysend",
                 "g_recv_", "g_subs_", "g_prom_client_forward", "g_prom_server_forward", "g_prom_dispatch")
    rule = ("one connection through the REAL composition prometheus(fresh registry)(merge(cache(cap), router(100), "
            "sqlite(in-memory, one connection, EventBulkInsertNum=1, MaxLimit NoLimit))) built as cmd/mocrelay/main.go "
            "builds it; cap = 100 (30%) or 1..6; a gate-valid pool of 2..9 events (hex ids, 3 authors, kinds 1 / 0,3,10000 / "
            "30000 with d / 20000 / 5 with two-element e and a references, timestamps 0..6 with ties); 1..16 client messages: "
            "46% EVENT (re-offers are frequent: the pool is small), 32% REQ (sub s1/s2/'', 1..3 filters over "
            "ids/authors/kinds/#e#p#t#X/since/until, limit absent or 1..4), 7% COUNT, 10% CLOSE, 5% AUTH.  One message at a "
            "time; each is followed by a COUNT sentinel with a unique id whose merged reply closes the window; the SQLite child's "
            "own answer to a REQ is recorded by a pass-through tap between that child and the merge session (taken as given, "
            "checked against the relational model; a second identical query does not predict it: the SQL text follows the "
            "iteration order of the filter's tag map and SQLite breaks created_at ties at a limit differently); after an EVENT the harness waits for the background inserter (its log line per batch, the "
            "two-entry LRU predicted) and lists the cache; a session ends with a REQ/EVENT pair that flushes the router "
            "child's FIFO queue (the harness reads until every live copy of that event has come: one per open subscription it "
            "matches, the session's own subscriptions included; the number only tells the harness how long to read, what was "
            "owed is judged from the requests).  The interleaving of the three children is the Go scheduler's; "
            "the judge searches for a schedule of the composed model that yields the observed sequence (late live events "
            "may arrive in a later window) and, independently, checks the SYS_ statements on the observation.  "
            "Non-trivial: a session with a rejected (duplicate) OK, a REQ answered with at least one event, and a live "
            "event delivered after an EOSE; distinct = distinct JSON of the inputs")
    trusted_base = COMMON_TRUSTED + [
        "granularity of the composed model: one step = one critical section of the merge session or one atomic step of a "
        "child; that goroutines, unbuffered channels and the one-slot state channels realise exactly these steps is the Go "
        "memory model's (as C07/C08/C13)",
        "the single-connection router child of System.v is a specialisation written by hand from Router.v's pieces "
        "(reply_of, visit_loop, reorder); no refinement proof against the multi-connection transition system",
        "SQLite, mattn/go-sqlite3, database/sql, goqu: as C06/C16 (relational model validated by correspondence); the SQLite "
        "child's answer to a REQ is observed by a pass-through tap (harness/cmd/sys/sys.go sysTap: one goroutine, unbuffered, "
        "order preserving) between that child and the merge session; apart from this extra hop the composition is the one of "
        "cmd/mocrelay/main.go",
        "quiescence protocol of harness/cmd/sys/sys.go: COUNT sentinel per message, inserter log counting with a mirrored "
        "two-entry LRU, a marker event that flushes the router child's queue at the end of a session (the harness reads "
        "until all its live copies have arrived, with a 3 s fallback)",
    ]
    assumptions = [
        "one connection; client messages are fed one at a time (pipelined requests are covered by the theorems, which "
        "quantify over all schedules, but are not exercised by the correspondence run)",
        "events and filters are gate-valid (hex ids/pubkeys/signatures, no empty tag, decoder-producible filters, "
        "non-empty filter lists); ids are functional within a session",
        "SYS_req_stream is stated for a subscription id that is used by one REQ of the history (fresh id); completeness "
        "of the merged answer is NOT claimed (SYS_req_incomplete_example)",
        "the router queue (buflen 100) is never full in these sessions",
    ]

    def to_coq(self, I, c):
        if c.get("err"):
            return "CBroken"
        return "(CSys %s %s %s %s)" % (
            cZ(c["cap"]), cZ(NOLIMIT),
            clist(c.get("wins") or [], lambda w: cwin(I, w), "win"),
            clist(c.get("tail") or [], lambda r: csmsg(I, r), "smsg"))

    def dedup_key(self, c):
        return "sys"

    def nontrivial_key(self, c):
        if c.get("err"):
            return None
        rejected = answered = live = False
        for w in c.get("wins") or []:
            k = w["m"]["k"]
            seen_eose = False
            for r in w.get("obs") or []:
                if r["k"] == "ok" and not r["acc"]:
                    rejected = True
                if r["k"] == "eose":
                    seen_eose = True
                if r["k"] == "event":
                    if k == "req" and not seen_eose and r["sub"] == w["m"].get("sub", ""):
                        answered = True
                    else:
                        live = True
        if c.get("tail"):
            live = True
        if rejected and answered and live:
            return json.dumps(inputs(c), sort_keys=True)
        return None

    def summarize(self, c):
        def rep(r):
            if r["k"] == "event":
                return {"k": "event", "sub": r["sub"], "id": r["e"]["id"][:4]}
            return r

        def msg(m):
            if m["k"] in ("event", "auth"):
                return {"k": m["k"], "id": m["e"]["id"][:4], "kind": m["e"]["kind"], "ts": m["e"]["ts"]}
            return m

        ws = c.get("wins") or []
        return {"cap": c["cap"], "messages": len(c.get("msgs") or []),
                "windows": [{"m": msg(w["m"]), "sqlite_answer": [e["id"][:4] for e in w.get("sq") or []],
                             "obs": [rep(r) for r in (w.get("obs") or [])[:12]]} for w in ws[:4]],
                "tail": [rep(r) for r in c.get("tail") or []], "err": c.get("err", "")}

    def distribution(self, cases):
        d = {"sessions": len(cases), "sessions_with_err": 0, "capacity_100": 0, "capacity_small": 0,
             "messages": {"event": 0, "req": 0, "close": 0, "auth": 0, "count": 0},
             "events_by_class": {}, "ok_accepted": 0, "ok_rejected": 0,
             "req_events_before_eose": 0, "req_answers_nonempty": 0, "sqlite_answer_events": 0,
             "live_events_in_own_window": 0, "live_events_late": 0, "live_events_after_last_window": 0,
             "merged_eose": 0, "merged_count_replies": 0}
        for c in cases:
            if c.get("err"):
                d["sessions_with_err"] += 1
            d["capacity_100" if c["cap"] == 100 else "capacity_small"] += 1
            d["live_events_after_last_window"] += len(c.get("tail") or [])
            for w in c.get("wins") or []:
                m = w["m"]
                k = m["k"]
                d["messages"][k] += 1
                if k == "event":
                    cl = kind_class(m["e"]["kind"])
                    d["events_by_class"][cl] = d["events_by_class"].get(cl, 0) + 1
                d["sqlite_answer_events"] += len(w.get("sq") or [])
                seen_eose = False
                n_ans = 0
                for r in w.get("obs") or []:
                    rk = r["k"]
                    if rk == "ok":
                        d["ok_accepted" if r["acc"] else "ok_rejected"] += 1
                    elif rk == "eose":
                        seen_eose = True
                        d["merged_eose"] += 1
                    elif rk == "count":
                        d["merged_count_replies"] += 1
                    elif rk == "event":
                        if k == "req" and not seen_eose and r["sub"] == m.get("sub", ""):
                            n_ans += 1
                        elif k == "event" and r["e"]["id"] == m["e"]["id"]:
                            d["live_events_in_own_window"] += 1
                        else:
                            d["live_events_late"] += 1
                d["req_events_before_eose"] += n_ans
                d["req_answers_nonempty"] += n_ans > 0
        return d

    # -- shrinking: smaller inputs (the harness recomputes every observation)
    def shrink(self, c):
        c = inputs(c)
        msgs = c["msgs"]
        for k in range(len(msgs)):
            yield dict(c, msgs=msgs[:k])
        for m2 in drop_one(msgs):
            yield dict(c, msgs=m2)
        if 1 < c["cap"] < 100:
            yield dict(c, cap=c["cap"] - 1)
        for i, m in enumerate(msgs):
            if m["k"] in ("req", "count"):
                for fs2 in shrink_filters(m["fs"]):
                    c2 = copy.deepcopy(c)
                    c2["msgs"][i]["fs"] = fs2
                    yield c2
        seen = []
        for m in msgs:
            if m["k"] == "event" and m["e"]["id"] not in seen:
                seen.append(m["e"]["id"])
                e = m["e"]
                smaller = [dict(e, tags=t2) for t2 in drop_one(e["tags"])]
                if e.get("content"):
                    smaller.append(dict(e, content=""))
                for e2 in smaller:
                    c2 = copy.deepcopy(c)
                    for m2 in c2["msgs"]:
                        if m2["k"] == "event" and m2["e"]["id"] == e["id"]:
                            m2["e"] = copy.deepcopy(e2)
                    yield c2


PROP = SYS()
