import base64
import copy
import hashlib
import json
from propbase import Prop, COMMON_TRUSTED
from coqterm import cbool, clist, cpair, cZ, copt

KIND = {"EVENT": "KEvent", "REQ": "KReq", "CLOSE": "KClose", "AUTH": "KAuth", "COUNT": "KCount"}
# Verify is only looked at for EVENT; for every other frame the placeholder is "not authentic", so that a model
# (or an oracle) that consulted it for, say, AUTH would show up as a difference.
VERIFY = {"ok": "(VOk true)", "bad": "(VOk false)", "err": "VErr", "na": "(VOk false)", "panic": "VErr"}
DEFECT_CLASSES = ("f1_kind_range", "f3_html_escape", "f10_leading_space")


def forwardable(k):
    return bool(k["text"] and k["utf8"] and k["json"] and k["parse"] and k["valid"]
                and (k["parse"] != "EVENT" or k["verify"] == "ok"))


def cclass(I, idx, k, payload):
    parse = "(Some %s)" % KIND[k["parse"]] if k.get("parse") in KIND else "(@None cmsg_kind)"
    return "(mkFrame %s %s %s %s %s %s %s %s %s)" % (
        cZ(idx), cbool(k["text"]), cbool(k["utf8"]), cbool(k["json"]), parse, cbool(k["valid"]),
        VERIFY.get(k.get("verify"), "VErr"), payload, I.s(k.get("evid") or ""))


def citem(I, x):
    o = x["o"]
    if o == "scripted":
        return "(IScripted %s)" % cZ(x["k"])
    if o == "notice":
        return "(IOther (ONotice %s))" % I.s(x.get("a") or "")
    if o == "ok":
        return "(IOther (OOk %s %s))" % (I.s(x.get("a") or ""), cbool(x.get("acc")))
    if o == "closed":
        return "(IOther (OClosed %s))" % I.s(x.get("a") or "")
    if o == "binary":
        return "(IOther OBinary)"
    if o == "undecodable":
        return "(IOther OUndecodable)"
    return "(IOther OOtherMsg)"


def analysis(c):
    """Triage only (the verdict is the Coq oracle's): which frames were treated differently from what the
    harness expects, and whether everything else about the observation is as the property demands."""
    fs = c["frames"]
    exp = [i for i, f in enumerate(fs) if forwardable(f["exp"])]
    got = [r["f"] for r in c.get("recv") or []]
    mism = sorted(set(exp) ^ set(got))
    client = c.get("client") or []
    others = [x for x in client if x["o"] != "scripted"]
    scripted = [x["k"] for x in client if x["o"] == "scripted"]
    rest_ok = (all(a < b for a, b in zip(got, got[1:])) and all(g >= 0 for g in got)
               and all(r.get("same") for r in c.get("recv") or [])
               and len(others) == len(fs) - len(got)
               and all(x["o"] == "notice" for x in others)
               and scripted == (c.get("emitted") or [])
               and (not got or got[-1] == len(fs) - 1)
               and not c.get("notes"))
    return mism, rest_ok


def unusual(s):
    """a C0 control, DEL, a C1 control, or a format / non-character / private-use code point"""
    return any(ord(ch) < 0x20 or 0x7f <= ord(ch) <= 0x9f or ord(ch) in (0xad, 0x200b, 0x202e, 0x2028, 0x2029, 0xfeff, 0xfffd, 0xfffe)
               or ord(ch) >= 0xe0000 for ch in s)


def only_class(cls):
    def pred(c):
        mism, rest_ok = analysis(c)
        return bool(mism) and rest_ok and all(c["frames"][i]["cls"] == cls for i in mism if 0 <= i < len(c["frames"]))
    return pred


def strip(c):
    c = copy.deepcopy({k: v for k, v in c.items() if k in ("lockstep", "mux", "muxlog", "maxlen", "opts", "frames")})
    for f in c["frames"]:
        f.pop("obs", None)
    return c


class C12(Prop):
    id = "C12"
    coq_targets = ["theories/Properties/C12.vo", "theories/Properties/Admission.vo"]
    theorem_prefixes = ("C12_", "ADM_")
    check_vo = "theories/Check/C12Check.vo"
    check_module = "Moc.Check.C12Check"
    case_imports = ["Moc.Gate"]
    harness_bin = "gate"
    harness_sub = "c12"
    sizes = {"quick": 400, "thorough": 8000}
    max_reports = 4
    gen_names = ("g_gate_not_text", "g_gate_bad_json", "g_gate_parse_err", "g_gate_invalid", "g_gate_verify_err",
                 "g_gate_not_authentic", "g_gate_order", "g_gate_notice_fmts", "g_gate_write_type", "g_gate_write_order", "g_gate_untranslated",
                 "relay.go")
    rule = ("one case = one real WebSocket connection (coder/websocket client) to mocrelay.NewRelay(recording handler) behind "
            "httptest.NewServer, half of them mounted through ServeMux; RelayOption is SendTimeout 30 s with a ping every minute, "
            "or (7% each) SendTimeout 0, SendTimeout 0 and PingDuration 0, PingDuration 0 alone (0 = switched off), no option "
            "at all (the defaults: receive rate 10/s with burst 10, limit 100000 bytes; then a quarter of the valid frames are "
            "REQs of 40..60 KB with 600..880 ids); half of the ServeMux mounts have a Logger; 4%: SendTimeout 600 ms and a quiet 900 ms before "
            "the client's last frame (a write deadline is for one write, not for the connection); 4..15 frames ending with a valid CLOSE/REQ whose "
            "scripted reply is a sentinel; each frame is 50% a message that must be forwarded (REQ/COUNT with 1..3 valid "
            "filters, CLOSE, AUTH with an authentic or an altered event, EVENT signed by the harness over its own NIP-01 "
            "serialisation, the same genuine event again, insignificant inner/trailing white space) and 50% one that must draw "
            "exactly one rejection (binary frame, invalid UTF-8, non-JSON, JSON that is no client message, ill-typed members, "
            "a field breaking a NIP-01 constraint, events with one signed field / the id / the signature altered or the "
            "signature of another message, an altered copy of an event already accepted on this connection (same id, pubkey, "
            "signature), undecodable signatures or pubkeys); MaxMessageLength is 1 MiB or (40%) just above the longest client "
            "frame, and then half of the scripted NOTICEs are padded to the limit -1/0/+1/+2/+200 bytes; 9% of the cases contain one frame of a class that hits a defect known on the "
            "pinned tree (kind outside 0..65535, content with < > & U+2028 U+2029, white space before '['); the handler replies "
            "to about half of the messages with 1..3 scripted server messages of all seven types (Unicode, HTML characters); "
            "a quarter of the client messages of every class are sent fragmented (TEXT/BINARY frame with fin=0 per piece, 1..3 cuts anywhere "
            "in the payload including its ends and the inside of a multi-byte character, then an empty CONTINUATION frame with fin=1); "
            "subscription ids chosen by the client (20%) and the free strings of the handler's messages (25-40%: subscription id of "
            "EOSE/EVENT/COUNT/CLOSED, NOTICE text, OK/CLOSED message, AUTH challenge) carry unusual but legal characters (NUL and other "
            "C0 controls with and without a short JSON escape, DEL, C1 controls, soft hyphen, zero-width/bidi format characters, "
            "U+2028/9, BOM, U+FFFD, the non-character U+FFFE, non-printing and private-use code points beyond the BMP); "
            "60% of the cases run in lock-step (send, wait for the effect), 40% pipelined; a case is non-trivial when, final "
            "frame apart, at least one frame was forwarded and one rejected; distinct = distinct frame payload sequences")
    trusted_base = COMMON_TRUSTED + [
        "PARTIAL: the theorems are about the model of serveRead/serveReadLoop/serveWriteLoop (Gate.v: decision chain, order, "
        "totality); net/http, TCP, github.com/coder/websocket and the goroutine/channel plumbing of Relay.ServeHTTP are "
        "exercised by the harness on real connections, not proved",
        "the checks composed by the gate (utf8.Valid, json.Valid, ParseClientMsg, ValidClientMsg, Event.Verify) enter the model "
        "as observed outcomes; what they compute is the subject of C10, C11 and C01",
        "btcec BIP-340 signing and crypto/sha256 in the harness (events signed over the harness's own NIP-01 serialisation)",
        "decoding of the client's frames by the real UnmarshalJSON of the seven server message types, and the canonical "
        "rendering by which the harness recognises messages (harness/cmd/gate/c12.go)",
    ]
    assumptions = [
        "frames stay within MaxMessageLength (1 MiB configured) and the receive rate limit is out of the way (1e9/s)",
        "not generated: JSON null in place of a string/filter/event, since > until, labels written with JSON escapes, duplicate "
        "object members (C10/C11, DESIGN section 9)",
        "AUTH is not EVENT: an AUTH message with a non-authentic event is a well-formed valid client message and is expected "
        "to reach the handler (the code does not verify it either)",
    ]
    signatures = {
        "f1_kind_range": only_class("f1_kind_range"),
        "f3_html_escape": only_class("f3_html_escape"),
        "f10_leading_space": only_class("f10_leading_space"),
    }

    # -- Coq printing
    def to_coq(self, I, c):
        fs = []
        for i, f in enumerate(c["frames"]):
            obs = f.get("obs") or f["exp"]
            payload = "(@nil N)"
            if obs.get("parse") and not obs.get("valid"):
                payload = I.s(base64.b64decode(f["b64"]))   # only "invalid client msg: %s" quotes the payload
            fs.append("(mkCF %s %s %s %s)" % (
                cclass(I, i, obs, payload), cclass(I, i, f["exp"], payload),
                copt(f.get("sub"), I.s, "str"),
                clist([o["k"] for o in f.get("out") or []], cZ, "Z")))
        recv = clist(c.get("recv") or [], lambda r: cpair(cZ(r["f"]), cbool(r.get("same"))), "(Z * bool)%type")
        return "(CSess %s %s %s %s %s)" % (
            cbool(c.get("ran_lockstep")), clist(fs, None, "cframe"), recv,
            clist(c.get("emitted") or [], cZ, "Z"),
            clist(c.get("client") or [], lambda x: citem(I, x), "citem"))

    def _payloads(self, c):
        return hashlib.sha1(json.dumps([[f["bin"], f["b64"], f.get("frag") or []] for f in c["frames"]]).encode()).hexdigest()

    def nontrivial_key(self, c):
        n = len(c["frames"])
        got = set(r["f"] for r in c.get("recv") or [])
        body = set(range(n - 1))
        if body & got and body - got:
            return self._payloads(c)
        return None

    def dedup_key(self, c):
        mism, rest_ok = analysis(c)
        return json.dumps([sorted(set(c["frames"][i]["cls"] for i in mism if 0 <= i < len(c["frames"]))), rest_ok])

    def shrink(self, c):
        c = strip(c)
        fs = c["frames"]
        n = len(fs)
        # first try the case without the frames of the known-defect classes: whatever still fails is something else
        keep = [f for f in fs[:-1] if f["cls"] not in DEFECT_CLASSES]
        if len(keep) < n - 1:
            yield dict(c, frames=keep + fs[-1:])
        # the gate has no memory: most failures need one frame (plus the final one, which carries the sentinel)
        if n > 2:
            for i in range(n - 1):
                yield dict(c, frames=[fs[i], fs[-1]])
        if n > 3:
            h = (n - 1) // 2
            yield dict(c, frames=fs[:h] + fs[-1:])
            yield dict(c, frames=fs[h:])
        for i in range(n - 1):
            yield dict(c, frames=fs[:i] + fs[i + 1:])
        for i in range(n - 1):
            if fs[i].get("out"):
                c2 = copy.deepcopy(c)
                c2["frames"][i]["out"] = []
                yield c2
        # messages sent in one frame instead of fragments: all of them, then one at a time; then fewer cuts
        if any(f.get("frag") for f in fs):
            c2 = copy.deepcopy(c)
            for f in c2["frames"]:
                f.pop("frag", None)
            yield c2
        for i in range(n):
            if fs[i].get("frag"):
                c2 = copy.deepcopy(c)
                c2["frames"][i].pop("frag", None)
                yield c2
                if len(fs[i]["frag"]) > 1:
                    c2 = copy.deepcopy(c)
                    c2["frames"][i]["frag"] = fs[i]["frag"][:1]
                    yield c2
        # scripted replies one at a time
        for i in range(n - 1):
            outs = fs[i].get("out") or []
            if len(outs) > 1:
                for j in range(len(outs)):
                    c2 = copy.deepcopy(c)
                    c2["frames"][i]["out"] = outs[:j] + outs[j + 1:]
                    yield c2
        if c.get("mux"):
            yield dict(c, mux=False)
        if c.get("opts") and c.get("opts") not in (4, 5):
            yield dict(c, opts=0)
        if c.get("muxlog"):
            yield dict(c, muxlog=False)
        if 0 < (c.get("maxlen") or 0) < (1 << 20):
            yield dict(c, maxlen=1 << 20)

    def summarize(self, c):
        return {"lockstep": c.get("lockstep"), "mux": c.get("mux"), "opts": c.get("opts") or 0,
                "frames": [{"cls": f["cls"], "bin": f["bin"], "frag": f.get("frag") or [], "txt": f.get("txt", "")[:160],
                            "exp": f["exp"], "obs": f.get("obs"),
                            "out": [o["t"] for o in f.get("out") or []]} for f in c["frames"]],
                "recv": c.get("recv"), "emitted": c.get("emitted"), "client": c.get("client"), "notes": c.get("notes")}

    def distribution(self, cases):
        d = {"connections": len(cases), "limit_just_above_longest_frame": 0, "handler_messages_at_or_beyond_limit": 0, "lockstep": 0, "pipelined": 0, "lockstep_degraded_by_timeout": 0, "via_servemux": 0,
             "frames": 0, "frames_forwarded": 0, "rejections_seen": 0, "scripted_messages_emitted": 0,
             "frames_by_class": {}, "scripted_by_type": {}, "notices_by_text_prefix": {}, "cases_with_notes": 0,
             "messages_sent_fragmented": 0, "fragmented_forwarded": 0, "fragmented_with_an_empty_fragment": 0,
             "fragmented_by_class": {}, "client_subscription_ids_with_unusual_characters": 0,
             "scripted_with_unusual_characters_emitted": 0, "scripted_EVENT_with_unusual_subscription_id_emitted": 0}
        for c in cases:
            got = set(r["f"] for r in c.get("recv") or [])
            em = set(c.get("emitted") or [])
            for i, f in enumerate(c["frames"]):
                if f.get("frag"):
                    d["messages_sent_fragmented"] += 1
                    d["fragmented_by_class"][f["cls"]] = d["fragmented_by_class"].get(f["cls"], 0) + 1
                    if i in got:
                        d["fragmented_forwarded"] += 1
                    cuts = [0] + list(f["frag"]) + [len(base64.b64decode(f["b64"]))]
                    if any(a >= b for a, b in zip(cuts, cuts[1:])):
                        d["fragmented_with_an_empty_fragment"] += 1
                if f.get("sub") and unusual(f["sub"]):
                    d["client_subscription_ids_with_unusual_characters"] += 1
                for o in f.get("out") or []:
                    if o["k"] in em and any(unusual(o.get(x) or "") for x in ("a", "b")):
                        d["scripted_with_unusual_characters_emitted"] += 1
                        if o["t"] == "EVENT" and unusual(o.get("a") or ""):
                            d["scripted_EVENT_with_unusual_subscription_id_emitted"] += 1
            d["lockstep" if c.get("lockstep") else "pipelined"] += 1
            if c.get("lockstep") and not c.get("ran_lockstep"):
                d["lockstep_degraded_by_timeout"] += 1
            d["via_servemux"] += 1 if c.get("mux") else 0
            k = "relay_options_%d" % (c.get("opts") or 0)
            d[k] = d.get(k, 0) + 1
            ml = c.get("maxlen") or (1 << 20)
            if ml < (1 << 20):
                d["limit_just_above_longest_frame"] += 1
                d["handler_messages_at_or_beyond_limit"] += sum(1 for f in c["frames"] for o in f.get("out") or []
                                                                if len((o.get("a") or "").encode()) + 13 >= ml)
            d["frames"] += len(c["frames"])
            d["frames_forwarded"] += len(c.get("recv") or [])
            d["scripted_messages_emitted"] += len(c.get("emitted") or [])
            d["cases_with_notes"] += 1 if c.get("notes") else 0
            types = {}
            for f in c["frames"]:
                d["frames_by_class"][f["cls"]] = d["frames_by_class"].get(f["cls"], 0) + 1
                for o in f.get("out") or []:
                    types[o["k"]] = o["t"]
            for k in c.get("emitted") or []:
                t = types.get(k, "?")
                d["scripted_by_type"][t] = d["scripted_by_type"].get(t, 0) + 1
            for x in c.get("client") or []:
                if x["o"] != "scripted":
                    d["rejections_seen"] += 1
                    p = x["o"] + ":" + (x.get("a") or "").split(":")[0][:40] if x["o"] == "notice" else x["o"]
                    d["notices_by_text_prefix"][p] = d["notices_by_text_prefix"].get(p, 0) + 1
        return d


PROP = C12()
