import json
from propbase import Prop, COMMON_TRUSTED
import mergecommon as mc


class C09(Prop):
    id = "C09"
    coq_targets = ["theories/Properties/C09.vo"]
    check_vo = "theories/Check/C09Check.vo"
    check_module = "Moc.Check.C09Check"
    harness_bin = "core"
    harness_sub = "c09"
    case_imports = ["Moc.Match", "Moc.Merge", "Moc.MergeMulti"]
    sizes = {"quick": 2000, "thorough": 60000}
    gen_names = ("g_merge_too_few", "g_ok_not_ready", "g_count_not_ready", "g_ok_no_slot", "g_ok_setmsg_drop",
                 "g_ok_clear_done", "g_ok_ready_absent", "g_ok_msg_absent", "g_ok_is_accepted", "g_ok_any_rejected",
                 "g_cnt_no_slot", "g_cnt_set_drop", "g_cnt_clear_done", "g_cnt_ready_absent", "handler.go")
    rule = ("histories for the real NewMergeHandler with 2-4 (4%: 13-16) scripted children, one message in flight at a time: 1-5 "
            "EVENT/COUNT requests (ids from 3 event ids / 2 subscription ids, re-used one after the other), up to 4 in "
            "flight, every child answers every request once (FIFO per child and id) with random verdict, prefix, text "
            "resp. count 0..4 (8%: 2^63-1, 2^63, 2^63+10, 2^64-2, 2^64-1) and approximate flag, replies interleaved at random; some unsolicited replies, 8% cut short; "
            "18% of the steps are REQ traffic (client REQ / CLOSE, child EOSE) mostly under the id of an EVENT or COUNT "
            "in flight or of the COUNT id universe (a CLOSE or REQ must not disturb the aggregation); first, in every "
            "tier, 276 enumerated histories: one EVENT/COUNT, n=2,3, each reply order, a client CLOSE resp. REQ with "
            "the same id inserted at every position, with no / a finished / a pending subscription of that id; 40% of the "
            "random histories may re-use an id that is still in flight (the class of the repaired finding K1); "
            "a quarter of the single-session histories with 3 or 4 children run on a NESTED handler (the first 2 or 3 children "
            "wrapped in a merge handler of their own) and are judged as the flat handler is; "
            "in every tier 6 'late reader' histories: 20..40 EVENT/COUNT requests with ids of their own are submitted, then every child "
            "answers all of them from a goroutine of its own while the client does not read for 100 ms (every request "
            "must still get its merged reply, in the order of submission; one joint observation); "
            "joint observations: in half of the single-session random histories 60% of the adjacent messages of one child are emitted in "
            "one go, with no sentinel in between (the sentinel is itself a message that reaches the client), and observed "
            "jointly (MJoint, C09_joint_agreement_implies_oracle); in every tier 20 enumerated histories 'the same id "
            "submitted twice, identical answers, the last child emits both of its answers in one go' (two identical merged "
            "replies next to each other); "
            "one handler value serving several connections: 48 enumerated histories (2 sessions of the same NewMergeHandler "
            "result, 2 children, the same EVENT resp. COUNT id submitted on both, the four replies in all 24 orders, the "
            "children answering differently per session) in every tier, and n/8 more random histories with 2-3 sessions, each "
            "session with a history of its own from the same generator and the same id universes, interleaved at random; "
            "every session is judged on its own (product of session models, per-session oracle); non-trivial = an aggregated reply "
            "was produced from children that disagreed; distinct = distinct JSON of the inputs")
    trusted_base = COMMON_TRUSTED + [
        "the scripted-children driver harness/cmd/core/merge_driver.go (sentinel protocol: per-child FIFO through "
        "one forwarder and the single handleSend loop)",
        "atomicity of the critical sections of mergeHandlerSession (state passed through 1-slot channels) — Go "
        "memory model",
        "several sessions: a scripted child learns the session of a ServeNostr call from a context value that the merge "
        "handler hands down to its children",
    ]
    assumptions = [
        "child indices are in range (trace_ok); answers_in_order: every child answers each request once and answers "
        "requests carrying the same id in the order of their submission (its j-th reply for an id answers the j-th "
        "request with that id); the oracle theorem C09_model_satisfies_oracle needs trace_ok only",
        "'first rejecting child' = lowest child index (DESIGN.md section 9)",
    ]
    # finding K1 (same id in flight) is repaired: no signature is in use, such histories are judged like all others
    signatures = {}

    def to_coq(self, I, c):
        return mc.ccase(I, c)

    def nontrivial_key(self, c):
        # an aggregated reply built from children that disagreed
        verdicts, counts = {}, {}
        hit = False
        for st in c.get("steps") or []:
            if st["k"] != "child":
                continue
            m = st["m"]
            ss = st.get("s", 0)
            if m["t"] == "ok":
                verdicts.setdefault((ss, m.get("id", "")), set()).add(bool(m.get("acc")))
                if st.get("out"):
                    hit = hit or len(verdicts.pop((ss, m.get("id", "")), set())) > 1
            elif m["t"] == "count":
                counts.setdefault((ss, m.get("sub", "")), set()).add(m.get("c", 0))
                if st.get("out"):
                    hit = hit or len(counts.pop((ss, m.get("sub", "")), set())) > 1
        return json.dumps(mc.strip(c), sort_keys=True) if hit else None

    def dedup_key(self, c):
        return json.dumps(mc.strip(c), sort_keys=True)

    def shrink(self, c):
        return mc.shrink_steps(c)

    def summarize(self, c):
        return mc.summarize(c)

    def extra_coverage(self, cases, tier):
        if tier != "thorough":
            return {}
        return {"exhaustive_subspace": "n=2 with two EVENT ids in flight: all 24 reply orders x 16 verdict combinations; n=3 one EVENT: 6 orders x 8 verdicts; COUNT n=2,3 with counts from {0,1,2}: all orders x all combinations (612 histories), prepended to the random ones"}

    def distribution(self, cases):
        d = {"histories": len(cases), "children_2": 0, "children_3": 0, "children_4": 0, "steps": 0,
             "client_event": 0, "client_count": 0, "child_ok": 0, "child_count": 0, "merged_ok_accepting": 0,
             "merged_ok_rejecting": 0, "merged_count": 0, "histories_with_same_id_in_flight": 0,
             "histories_with_2_sessions": 0, "histories_with_3_sessions": 0,
             "histories_with_same_id_in_flight_on_two_sessions": 0, "failed_runs": 0,
             "histories_on_a_nested_handler": sum(1 for c in cases if c.get("nest")),
             "joined_child_messages": sum(1 for c in cases for st in c.get("steps") or [] if st.get("join"))}
        for c in cases:
            d["children_%d" % c["n"]] = d.get("children_%d" % c["n"], 0) + 1
            if c.get("fail"):
                d["failed_runs"] += 1
            if mc.same_id_in_flight(c):
                d["histories_with_same_id_in_flight"] += 1
            if mc.nsessions(c) > 1:
                key = "histories_with_%d_sessions" % mc.nsessions(c)
                d[key] = d.get(key, 0) + 1
                if mc.same_id_in_flight_across_sessions(c):
                    d["histories_with_same_id_in_flight_on_two_sessions"] += 1
            for st in c.get("steps") or []:
                d["steps"] += 1
                k = st["k"]
                if k == "event":
                    d["client_event"] += 1
                elif k == "count":
                    d["client_count"] += 1
                elif k == "child":
                    t = st["m"]["t"]
                    if t == "ok":
                        d["child_ok"] += 1
                    elif t == "count":
                        d["child_count"] += 1
                    for m in st.get("out") or []:
                        if m["t"] == "ok":
                            d["merged_ok_accepting" if m.get("acc") else "merged_ok_rejecting"] += 1
                        elif m["t"] == "count":
                            d["merged_count"] += 1
        return d


PROP = C09()
