import copy
import json
from propbase import Prop, COMMON_TRUSTED, drop_one
from coqterm import cbool, cZ, cnat

END = {"cancel": 0, "close": 1}
PEER = {"drain": 0, "stall": 1}
STORE = {"": 0, "busy": 1}


def _inputs(c):
    return {k: v for k, v in c.items() if k != "obs"}


def _ok(c):
    o = c.get("obs") or {}
    if c["k"] == "ws":
        return bool(o.get("cancelled")) and bool(o.get("closed")) and not o.get("panic")
    return (bool(o.get("returned")) and o.get("leak") == 0 and o.get("reg") == 0 and o.get("gconn") == 0
            and o.get("greq") == 0 and not o.get("panic")
            and (bool(o.get("fed")) or c.get("peer") == "stall" or c.get("store") == "busy"))


class C13(Prop):
    id = "C13"
    # after the fix: of F5 add "theories/Properties/C13Fixed.vo" here (and remove the _refuted block of C13.v)
    coq_targets = ["theories/Properties/C13.vo"]
    check_vo = "theories/Check/C13Check.vo"
    check_module = "Moc.Check.C13Check"
    harness_bin = "term"
    harness_sub = "c13"
    sizes = {"quick": 600, "thorough": 30000}
    widen_rounds = 1
    max_reports = 3
    widen_factor = 2
    gen_names = ("g_lock_nest", "g_lock_blocking_under_lock", "g_lock_classes", "g_lock_callbacks",
                 "g_write_deadline_guard", "g_ping_deadline_guard", "g_blocking_points", "g_chan_makes", "g_defers",
                 "g_spawns", "g_closes", "bp_kind")
    rule = ("sessions: composition drawn from 9 (default, cache, router, SQLite, merge(cache,router), "
            "merge(cache,router,SQLite) as in cmd/mocrelay, a 4-way merge, a nested merge, a middleware inside a merge) x 5 "
            "middleware stacks (none; Prometheus; max-subscriptions+logging; unique filters+max-filters+Prometheus; eight "
            "middlewares incl. Prometheus and logging), 20% the cmd/mocrelay composition; a history of 0..12 client messages "
            "(EVENT/REQ/CLOSE/COUNT over 3 subscription ids and the small event universe) is sent completely (the stored "
            "history is already cut); ending cancel with a draining peer 40%, cancel with a peer that stops reading before the "
            "last message 40%, inbound close with a draining peer 20%; the end comes immediately after the last message was "
            "handed over (60%) or after a 3 ms pause. About 4% of the sessions run against a busy store: compositions "
            "with the SQLite handler (alone, or the cmd/mocrelay merge) on a file-backed database with "
            "EventBulkInsertNum = 1 while a second database connection holds the write lock (BEGIN IMMEDIATE), an "
            "EVENT-heavy history cut after its T-th EVENT (T = 2 x EventBulkInsertNum + 2 mostly: one in the stalled "
            "insertion, the hand-over queue full, one hand-over waiting; sometimes fewer, rarely one more), ended by "
            "cancel with a draining or a stalled peer; in half of these cases the handler's pool has one connection, and in half a "
            "REQ follows the events (it waits for that connection); the lock is released once the ending has been observed. "
            "About 5%: a composition with the cache (capacity 32), 14..24 stored events, then a REQ matching all of them, the "
            "session ended while the answer is being delivered. About 6% of the "
            "sessions (compositions with a router) have two busy neighbours on the same handler for as long as they last: one "
            "session sending REQ/CLOSE of one subscription id over and over, one publishing, up to 4000 messages each, both "
            "reading; they are cancelled afterwards and must end too (lock-order and registry contention). "
            "WebSocket clause: (SendTimeout, PingDuration) from "
            "{100,300} ms x {0,20,1000} ms, 3 configurations in the quick tier (incl. ping disabled), all 6 in the thorough "
            "tier, plus two configurations with a receive rate limit (0.1/s, burst 2) that the client has used up, plus the corpus. Model side: the theorems predict 'terminates and releases everything' for every case of "
            "a well-formed composition, so model agreement on session cases = oracle acceptance (stated in Check/C13Check.v); "
            "on WebSocket cases the model's prediction is the guard generated from relay.go. distinct = distinct "
            "(composition, stack, history shape, ending, peer, settle)")
    trusted_base = COMMON_TRUSTED + [
        "lock acquisitions and blocking operations (Gen/GenLockOrder.v) are recognised by a syntactic and type-based walker over handler.go, data_structure.go and event_cache.go: interface calls resolve to the package's own implementations, external library calls other than Wait, Sleep and context-taking Read/Write/Ping are assumed neither to block nor to lock",
        "the process-network model (Proc.v) abstracts message contents, timers and panics; its tie to handler.go/relay.go/"
        "utils.go is the computed coverage obligation C13_blocking_points_covered over tables extracted syntactically "
        "(every select with its cases, bare send/receive, range over a channel, WaitGroup.Wait, helper calls, channel "
        "capacities, defers, go statements, close calls) plus the harness runs",
        "busy store: that BEGIN IMMEDIATE on a second connection stalls the bulk inserter (SQLITE_BUSY, busy timeout and "
        "back-off of bulkInsertWithRetry) for longer than the 3 s bound is sqlite3/go-sqlite3 behaviour, not checked",
        "goroutine accounting in the harness: runtime.Stack(all) filtered to stacks mentioning the mocrelay module, "
        "baseline taken before the session, 1 s of retries before a leak is declared; 3 s bound for 'returns promptly'",
        "coder/websocket, net/http, database/sql, mattn/go-sqlite3, the Prometheus client (Gather is the observation)",
    ]
    assumptions = [
        "PARTIAL: proved for the model: in every reachable state after cancellation no live process is stuck and the "
        "network can finish within total_meas steps; NOT proved: that Go's select, which picks uniformly among ready "
        "cases, eventually picks ctx.Done() (fairness of select is assumed; an adversarial select preferring other ready "
        "cases for ever is outside the theorem) and that it does so promptly (measured by the harness)",
        "Go runtime and scheduler, timers (time.Ticker, context.WithTimeout), database/sql and the WebSocket library are not "
        "modelled; conn.Read/Write/Ping and limiter.Wait are assumed to return once their context is done",
        "inbound close: proved from states in which the outermost reader is at its loop head (and for the cancellation of "
        "the component's derived context in general); draining of a pipeline that is in the middle of a message is "
        "exercised by the harness only",
        "handler bases and middleware bases return from ServeNostrStart/ClientMsg/ServerMsg without blocking on anything but "
        "the listed selects (true of every provided base: they return closed buffered channels)",
        "every merge has at least two children (NewMergeHandler panics otherwise)",
    ]
    signatures = {
        # F5: with ping disabled a positive send timeout is not applied to writes (the connection is
        # still torn down correctly once the peer is gone)
        "ping_disabled_no_write_deadline": lambda c: c.get("k") == "ws" and int(c.get("ping_ms", 1)) == 0
        and int(c.get("st_ms", 0)) > 0 and not (c.get("obs") or {}).get("cancelled")
        and bool((c.get("obs") or {}).get("closed")) and not (c.get("obs") or {}).get("panic"),
    }

    def to_coq(self, I, c):
        o = c.get("obs") or {}
        pan = cbool(bool(o.get("panic")))
        if c["k"] == "ws":
            return "(CWs %s %s %s %s %s)" % (cZ(c["st_ms"]), cZ(c["ping_ms"]), cbool(bool(o.get("cancelled"))),
                                             cbool(bool(o.get("closed"))), pan)
        return "(CSess %s %s %s %s %s %s %s %s %s %s %s %s %s %s)" % (
            cnat(c["comp"]), cnat(c["mw"]), cnat(len(c.get("hist") or [])), cnat(END.get(c["end"], 0)),
            cnat(PEER.get(c["peer"], 0)), cbool(bool(c.get("settle"))), cnat(STORE.get(c.get("store") or "", 2)),
            cbool(bool(o.get("fed"))),
            cbool(bool(o.get("returned"))), cnat(min(int(o.get("leak", 0)), 4000)), cnat(min(int(o.get("reg", 0)), 4000)),
            cZ(o.get("gconn", 0)), cZ(o.get("greq", 0)), pan)

    def _shape(self, c):
        if c["k"] == "ws":
            return ["ws", c["st_ms"], c["ping_ms"], bool(c.get("slow"))]
        return [c["comp"], c["mw"], [m["t"] for m in c.get("hist") or []], c["end"], c["peer"], bool(c.get("settle")),
                c.get("companion", 0), c.get("store") or "", bool(c.get("pool1"))]

    def nontrivial_key(self, c):
        # a session case says something when at least one message was in flight or answered
        if c["k"] == "sess" and not (c.get("hist") or []):
            return None
        return json.dumps(self._shape(c))

    def dedup_key(self, c):
        o = c.get("obs") or {}
        if c["k"] == "ws":
            return json.dumps(["ws", bool(o.get("cancelled")), bool(o.get("closed"))])
        return json.dumps([bool(o.get("returned")), o.get("leak", 0) > 0, o.get("reg", 0) > 0, o.get("gconn", 0) != 0,
                           o.get("greq", 0) != 0, bool(o.get("panic"))])

    def shrink(self, c):
        """big cuts first, few candidates: a failing session costs the full 2 s bound to re-run"""
        c = _inputs(c)
        if c["k"] == "ws":
            return
        hist = c.get("hist") or []
        n = len(hist)
        cands = []
        for keep in (1, 2, n // 2):
            if 0 < keep < n:
                cands.append(dict(c, hist=hist[n - keep:]))
        if n > 1:
            cands.append(dict(c, hist=hist[1:]))
        if c.get("peer") != "stall" and n > 0:
            cands.append(dict(c, hist=hist[:-1]))
        if c.get("mw"):
            cands.append(dict(c, mw=0))
        if c.get("store") == "busy":
            # non-EVENT messages do not fill the hand-over queue; a simpler composition; a free store
            ev = [m for m in hist if m["t"] == "EVENT"]
            if len(ev) < n:
                cands.append(dict(c, hist=ev))
            if c.get("comp") != 3:
                cands.append(dict(c, comp=3))
            c3 = dict(c)
            c3.pop("store")
            cands.append(c3)
        seen = set()
        for c2 in cands:
            k = json.dumps(c2, sort_keys=True)
            if k not in seen:
                seen.add(k)
                yield c2

    def summarize(self, c):
        c2 = copy.deepcopy(c)
        if c2.get("hist"):
            c2["hist"] = [m["t"] for m in c2["hist"]]
        return c2

    def distribution(self, cases):
        d = {"sessions": 0, "websocket": 0, "by_composition": {}, "by_stack": {}, "by_ending_peer": {},
             "history_lengths": {}, "settled": 0, "not_accepted_by_oracle": 0,
             "busy_store": 0, "busy_store_by_events_sent": {}, "busy_store_input_refused": 0}
        for c in cases:
            if c["k"] == "ws":
                d["websocket"] += 1
            else:
                d["sessions"] += 1
                d["by_composition"][str(c["comp"])] = d["by_composition"].get(str(c["comp"]), 0) + 1
                d["by_stack"][str(c["mw"])] = d["by_stack"].get(str(c["mw"]), 0) + 1
                k = "%s/%s" % (c["end"], c["peer"])
                d["by_ending_peer"][k] = d["by_ending_peer"].get(k, 0) + 1
                n = str(len(c.get("hist") or []))
                d["history_lengths"][n] = d["history_lengths"].get(n, 0) + 1
                d["settled"] += 1 if c.get("settle") else 0
                if c.get("companion"):
                    k2 = "stalled_companion" if c["companion"] == 1 else "busy_neighbours"
                    d[k2] = d.get(k2, 0) + 1
                if c.get("store") == "busy":
                    d["busy_store"] += 1
                    ne = str(sum(1 for m in c.get("hist") or [] if m["t"] == "EVENT"))
                    d["busy_store_by_events_sent"][ne] = d["busy_store_by_events_sent"].get(ne, 0) + 1
                    if not (c.get("obs") or {}).get("fed"):
                        d["busy_store_input_refused"] += 1
            if not _ok(c):
                d["not_accepted_by_oracle"] += 1
        return d

    def extra_coverage(self, cases, tier):
        return {"strength": "partial",
                "websocket_configurations": sorted({(c["st_ms"], c["ping_ms"]) for c in cases if c["k"] == "ws"})}


PROP = C13()
