import copy
import json
from propbase import Prop, COMMON_TRUSTED, drop_one
from coqterm import cbool, clist, cpair, cZ, copt

I64_MIN, I64_MAX = -2 ** 63, 2 ** 63 - 1


# ---- JSON text -> jv term (Http.v).  Numbers: an integer literal within int64 is JInt, every
# other number literal (fraction, exponent, out of range) is JNumOther.  Object members keep
# their order.
class _Num:
    def __init__(self, text, is_int):
        self.text, self.is_int = text, is_int


def parse_json(text):
    try:
        return True, json.loads(text, object_pairs_hook=lambda p: ("obj", p),
                                parse_int=lambda s: _Num(s, True), parse_float=lambda s: _Num(s, False),
                                parse_constant=lambda s: _Num(s, False))
    except (ValueError, RecursionError):
        return False, None


def cjv(I, v):
    if v is None:
        return "JNull"
    if v is True:
        return "(JBool true)"
    if v is False:
        return "(JBool false)"
    if isinstance(v, _Num):
        if v.is_int:
            z = int(v.text)
            if I64_MIN <= z <= I64_MAX:
                return "(JInt %s)" % cZ(z)
        return "JNumOther"
    if isinstance(v, str):
        return "(JStr %s)" % I.s(v)
    if isinstance(v, list):
        return "(JArr %s)" % clist(v, lambda x: cjv(I, x), "jv")
    if isinstance(v, tuple) and v[0] == "obj":
        return "(JObj %s)" % clist(v[1], lambda kv: cpair(I.s(kv[0]), cjv(I, kv[1])), "(str * jv)%type")
    raise ValueError("unexpected JSON value %r" % (v,))


def cjson_opt(I, text):
    """option jv of a JSON text (None when absent or not valid JSON)"""
    if text is None:
        return "(@None jv)"
    ok, v = parse_json(text)
    if not ok:
        return "(@None jv)"
    return "(Some %s)" % cjv(I, v)


# ---- documents
def ckind(k):
    return "(mkKind %s %s)" % (cZ(k["from"]), cZ(k["to"]))


def ckinds(ks):
    return copt(ks, lambda l: clist(l, lambda k: copt(k, ckind, "kind"), "(option kind)"), "(list (option kind))")


def coptint(x):
    return copt(x, cZ, "Z")


def cstrs(I, l):
    return copt(l, lambda xs: clist(xs, I.s, "str"), "(list str)")


def clim(l):
    return "(mkLim %s %s %s %s %s %s %s %s %s %s %s %s)" % (
        cZ(l["max_message_length"]), cZ(l["max_subscriptions"]), cZ(l["max_filters"]), cZ(l["max_limit"]),
        cZ(l["max_subid_length"]), cZ(l["max_event_tags"]), cZ(l["max_content_length"]), cZ(l["min_pow_difficulty"]),
        cbool(l["auth_required"]), cbool(l["payment_required"]), cZ(l["created_at_lower_limit"]),
        cZ(l["created_at_upper_limit"]))


def cret(r):
    return "(mkRet %s %s %s)" % (ckinds(r.get("kinds")), coptint(r.get("time")), coptint(r.get("count")))


def cfee(I, f):
    return "(mkFee %s %s %s %s)" % (ckinds(f.get("kinds")), cZ(f["amount"]), I.s(f.get("unit", "")), coptint(f.get("period")))


def cfeelist(I, l):
    return copt(l, lambda xs: clist(xs, lambda f: copt(f, lambda g: cfee(I, g), "fee"), "(option fee)"), "(list (option fee))")


def cfees(I, f):
    return "(mkFees %s %s %s)" % (cfeelist(I, f.get("admission")), cfeelist(I, f.get("subscription")),
                                  cfeelist(I, f.get("publication")))


def cdoc(I, d):
    return "(mkNip11 %s %s %s %s %s %s %s %s %s %s %s %s %s %s %s %s)" % (
        I.s(d.get("name", "")), I.s(d.get("description", "")), I.s(d.get("pubkey", "")), I.s(d.get("contact", "")),
        copt(d.get("supported_nips"), lambda l: clist(l, cZ, "Z"), "(list Z)"),
        I.s(d.get("software", "")), I.s(d.get("version", "")),
        copt(d.get("limitation"), clim, "limitation"), copt(d.get("retention"), cret, "retention"),
        cstrs(I, d.get("relay_countries")), cstrs(I, d.get("language_tags")), cstrs(I, d.get("tags")),
        I.s(d.get("posting_policy", "")), I.s(d.get("payments_url", "")),
        copt(d.get("fees"), lambda f: cfees(I, f), "fees"), I.s(d.get("icon", "")))


def cobs(I, o):
    o = o or {}
    return "(mkObs %s %s %s %s %s %s %s)" % (
        cbool(o.get("relay", False)), cbool(o.get("default", False)), cZ(o.get("status", -1)),
        clist(o.get("ct") or [], I.s, "str"), clist(o.get("acao") or [], I.s, "str"),
        I.s(o.get("body", "")), cjson_opt(I, o.get("body", "")))


def first(vals):
    return (vals or [""])[0]


NJ = "application/nostr+json"


class C20(Prop):
    id = "C20"
    coq_targets = ["theories/Properties/C20.vo"]
    check_vo = "theories/Check/C20Check.vo"
    check_module = "Moc.Check.C20Check"
    case_imports = ["Moc.Http"]
    harness_bin = "core"
    harness_sub = "c20"
    sizes = {"quick": 6000, "thorough": 80000}
    gen_names = ("g_mux_route", "g_kind_single", "g_kind_pair_len_bad", "g_nip11_bad_accept", "g_nip11_headers",
                 "g_nip11_tags", "server.go", "nip11.go", "GenHttp")
    rule = ("55% httptest requests against the real ServeMux: Upgrade in {absent, empty value, websocket, WebSocket, h2c, "
            "empty then websocket, two values, a blank} x Accept in {absent, application/nostr+json, the same with "
            "parameters, with a leading / trailing blank, in another case, as the second value, as the first of two values, "
            "inside a comma list, application/json, */*, empty} x {with, without} NIP-11 document x {with, without} default "
            "handler x an optional `Connection: Upgrade` x GET/POST/OPTIONS; 10% direct calls of NIP11.ServeHTTP; 6% of the requests for a document are repeated 150 times while four goroutines "
            "keep requesting another document from a NIP11 value of their own, and another such request is served inside every "
            "Header/WriteHeader call of the response writer (the answer must stay the same); 20% random "
            "documents (every optional block absent / empty / filled, nil elements, kinds as single numbers and pairs incl. "
            "From = To, reversed and negative, ints incl. the int64 extremes, strings with HTML characters, quotes, percent signs (100% free, %20, %s%d%v, %%), "
            "non-ASCII, U+2028) through json.Marshal and json.Unmarshal; 10% kind ranges through Marshal/Unmarshal; 5% "
            "Unmarshal of Nip11Kind from hand-written JSON (wrong lengths, wrong element types, fractions, out of range "
            "numbers, strings, null, objects).  A routing case is non-trivial when its destination differs from the one "
            "obtained by ignoring the Upgrade header or by matching Accept on a prefix (i.e. it separates the code from "
            "its plausible mutants) or when it returns a document; a document case when the document has at least one "
            "empty-but-not-nil slice or nil element; distinct = distinct inputs")
    trusted_base = COMMON_TRUSTED + [
        "encoding/json (JSON text <-> value; struct decoding by tags), net/http and httptest (header canonicalisation, "
        "ResponseRecorder); the JSON value of a body is obtained with python's json module in props/C20.py",
        "coder/websocket.Accept (only its being reached is observed, through the relay's logger)",
    ]
    assumptions = [
        "header values are what http.Header.Get returns (the first value of the header, \"\" when absent): a request with "
        "`Upgrade:` present but empty, or with application/nostr+json as a later Accept value, is routed by the first value",
        "with no NIP-11 document configured the mux answers `{}` without the two headers; only JSON validity is asserted "
        "there (DESIGN.md section 9)",
        "strings of a document are valid UTF-8 (json.Marshal replaces invalid bytes by U+FFFD, which does not round-trip)",
        "mux.Relay is configured (a nil Relay with an Upgrade header is a nil dereference)",
    ]

    def to_coq(self, I, c):
        k = c["k"]
        if k == "route":
            cfg = "(mkCfg %s %s)" % (copt(c.get("doc"), lambda d: cdoc(I, d), "nip11"), cbool(c.get("has_default", False)))
            return "(CRoute %s %s %s %s)" % (clist(c.get("upgrade") or [], I.s, "str"),
                                             clist(c.get("accept") or [], I.s, "str"), cfg, cobs(I, c.get("obs")))
        if k == "direct":
            return "(CDirect %s %s %s)" % (clist(c.get("accept") or [], I.s, "str"), cdoc(I, c.get("doc") or {}),
                                           cobs(I, c.get("obs")))
        if k == "doc":
            return "(CDoc %s %s %s)" % (cdoc(I, c.get("doc") or {}), cjson_opt(I, c.get("marshal")),
                                        copt(c.get("rt"), lambda d: cdoc(I, d), "nip11"))
        if k == "kind":
            return "(CKind %s %s %s)" % (ckind(c["kind"]), cjson_opt(I, c.get("marshal")),
                                         copt(c.get("kind_rt"), ckind, "kind"))
        ok, v = parse_json(c.get("text", ""))
        if not ok:
            # not JSON at all: outside the model; a case that claims nothing
            return "(CKindDec (JInt 0%Z) (Some (mkKind 0%Z 0%Z)))"
        return "(CKindDec %s %s)" % (cjv(I, v), copt(c.get("kind_rt"), ckind, "kind"))

    def nontrivial_key(self, c):
        k = c["k"]
        inp = {x: c.get(x) for x in ("k", "upgrade", "accept", "doc", "has_default", "connection", "kind", "text", "method", "extra", "prior", "busy")}
        if k in ("route", "direct"):
            u, a = first(c.get("upgrade")), first(c.get("accept"))
            separates = (c.get("upgrade") and u == "") or (c.get("connection") and not u) or \
                        (a != NJ and NJ in " ".join(c.get("accept") or []).lower().replace("application/nostr+json", NJ)) or \
                        (u != "" and a == NJ)
            doc = u == "" and a == NJ and c.get("doc") is not None
            return json.dumps(inp, sort_keys=True) if (separates or doc) else None
        if k == "doc":
            s = json.dumps(c.get("doc"))
            return json.dumps(inp, sort_keys=True) if ("[]" in s or "null" in s) else None
        return json.dumps(inp, sort_keys=True)

    def dedup_key(self, c):
        if c["k"] == "route":
            return json.dumps(["route", bool(first(c.get("upgrade"))), first(c.get("accept")) == NJ,
                               c.get("doc") is not None, c.get("has_default", False)])
        return c["k"]

    def summarize(self, c):
        s = json.dumps(c)
        return c if len(s) < 1500 else {"k": c["k"], "truncated": s[:1500]}

    def shrink(self, c):
        c = {k: v for k, v in c.items() if k not in ("obs", "marshal", "rt", "kind_rt")}
        if c["k"] in ("route", "direct"):
            if c["k"] == "route" and c.get("doc") is not None:
                yield dict(c, doc=None)
            for fld in ("upgrade", "accept"):
                vals = c.get(fld) or []
                if c.get(fld) is not None:
                    yield dict(c, **{fld: None})
                if len(vals) > 1:
                    for v2 in drop_one(vals):
                        yield dict(c, **{fld: v2})
            if c.get("connection"):
                yield dict(c, connection=False)
            if c.get("prior"):
                yield dict(c, prior=None)
            if c.get("busy"):
                yield dict(c, busy=None)
            if c.get("extra"):
                yield dict(c, extra=None)
                for e2 in drop_one(c["extra"]):
                    yield dict(c, extra=e2)
            if c.get("method", "GET") != "GET":
                yield dict(c, method="GET")
            if c["k"] == "route" and c.get("has_default"):
                yield dict(c, has_default=False)
        if c["k"] in ("route", "direct", "doc") and c.get("doc"):
            d = c["doc"]
            for key, val in d.items():
                if val in ("", None):
                    continue
                d2 = dict(d)
                d2[key] = "" if isinstance(val, str) else None
                yield dict(c, doc=d2)
            for key in ("supported_nips", "relay_countries", "language_tags", "tags"):
                if d.get(key) and len(d[key]) > 1:
                    for l in drop_one(d[key]):
                        yield dict(c, doc=dict(d, **{key: l}))
            for blk in ("retention", "fees", "limitation"):
                b = d.get(blk)
                if not b:
                    continue
                for key, val in b.items():
                    if val in (None, 0, False, ""):
                        continue
                    b2 = dict(b)
                    b2[key] = None if isinstance(val, list) or key in ("time", "count") else (False if val is True else 0)
                    yield dict(c, doc=dict(d, **{blk: b2}))
                    if isinstance(val, list) and len(val) > 1:
                        for l in drop_one(val):
                            yield dict(c, doc=dict(d, **{blk: dict(b, **{key: l})}))
                    if isinstance(val, list):
                        for i, el in enumerate(val):
                            if isinstance(el, dict) and "amount" in el:
                                for k2, v2 in el.items():
                                    if v2 in (None, 0, ""):
                                        continue
                                    el2 = dict(el)
                                    el2[k2] = None if isinstance(v2, list) or k2 == "period" else ("" if isinstance(v2, str) else 0)
                                    yield dict(c, doc=dict(d, **{blk: dict(b, **{key: val[:i] + [el2] + val[i + 1:]})}))
                                    if isinstance(v2, list) and len(v2) > 1:
                                        for l in drop_one(v2):
                                            el3 = dict(el, **{k2: l})
                                            yield dict(c, doc=dict(d, **{blk: dict(b, **{key: val[:i] + [el3] + val[i + 1:]})}))

    def distribution(self, cases):
        d = {"route": 0, "direct": 0, "doc": 0, "kind": 0, "kinddec": 0, "to_relay": 0, "to_default": 0, "to_document": 0,
             "to_empty_object": 0, "to_greeting": 0, "kind_single": 0, "kind_pair": 0}
        for c in cases:
            d[c["k"]] = d.get(c["k"], 0) + 1
            if c["k"] == "route":
                o = c.get("obs") or {}
                if o.get("relay"):
                    d["to_relay"] += 1
                elif o.get("default"):
                    d["to_default"] += 1
                elif NJ in (o.get("ct") or []):
                    d["to_document"] += 1
                elif o.get("body") == "{}":
                    d["to_empty_object"] += 1
                else:
                    d["to_greeting"] += 1
            if c["k"] == "kind":
                d["kind_single" if c["kind"]["from"] == c["kind"]["to"] else "kind_pair"] += 1
        return d


PROP = C20()
