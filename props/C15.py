"""C15 - shared stores are race-free and linearizable under concurrent sessions (group lin)."""
import json
from propbase import Prop, COMMON_TRUSTED
from coqterm import cbool, cZ, clist, cevent, cfilters
import cachecommon as cc


class C15(Prop):
    id = "C15"
    coq_targets = ["theories/Properties/C15.vo"]
    check_vo = "theories/Check/C15Check.vo"
    check_module = "Moc.Check.C15Check"
    harness_bin = "lin"
    harness_sub = "c15"
    build_flags = ("-race",)
    # concurrent histories do not replay deterministically: the replay file carries the recorded
    # history and --replay re-judges it (the harness echoes it)
    can_shrink = False
    sizes = {"quick": 4000, "thorough": 60000}
    widen_rounds = 1
    widen_factor = 1
    gen_names = ("g_lock_nest", "g_lock_blocking_under_lock", "g_lock_classes", "g_lock_callbacks",
                 "g_lock_table", "g_lock_flags", "g_lock_calls", "g_lock_callers", "g_lock_outside",
                 "g_add_skip_ephemeral", "g_event_type", "event_cache.go", "data_structure.go",
                 "g_created_key_lt", "g_add_keep_old", "g_over_cap", "g_is_kind5", "g_del_is_kind5",
                 "g_del_other_author", "g_k5_tag_short", "g_k5_tag_name", "g_full_scan", "g_index_over_limit",
                 "g_add_blocked")
    rule = ("concurrent histories against ONE real EventCache built with -race: a sequential prefix of 0..3 insertions, "
            "then 2..8 goroutines released behind a channel barrier plus a spin barrier, each performing 1..3 operations "
            "(58% Add, 32% Find with 1-2 filters of which 3/8 match everything, 10% Len), at most 10 operations per "
            "history; 6% of the histories instead run 2..4 concurrent RouterHandler sessions (REQ, EVENT, CLOSE, leave) plus a registry walker over the nested safeMaps, with no recorded operations (race detector only); 30% of the histories go through concurrent CacheHandler sessions (ServeNostr: EVENT/OK, REQ/EVENT*/"
            "EOSE) sharing the store; events from a pool of 4..12 RELATED events (2-3 versions of one addressable address, "
            "two versions of a replaceable one, regular events of two authors, deletion requests referencing them by id "
            "and by address, 40% of the pools with a request that names an earlier request (itself naming two things) first and a further target after "
            "it, a quarter of the regular events with one single-letter tag twice under a value nobody else carries followed by "
            "a further tag, 15% of the pools with created_at values at the ends of int64, "
            "an occasional ephemeral event, re-offered duplicates), capacity 1..4; schedule noise "
            "(Gosched, spinning, 1us sleep) before the invocation stamp or between the stamp and the call; every operation "
            "carries inv/resp stamps of one atomic clock; the process runs under GORACE=halt_on_error=1 and a stopped "
            "child (race report, runtime fatal error, 30 s watchdog) becomes a case with `race` set. Non-trivial: two "
            "operations of different goroutines overlap in time and one of them is an insertion that was accepted; "
            "distinct = distinct (inputs, stamps order, results)")
    trusted_base = COMMON_TRUSTED + [
        "lock acquisitions and blocking operations (Gen/GenLockOrder.v) are recognised by a syntactic and type-based walker over handler.go, data_structure.go and event_cache.go: interface calls resolve to the package's own implementations, external library calls other than Wait, Sleep and context-taking Read/Write/Ping are assumed neither to block nor to lock",
        "PARTIAL: Go memory model and sync.RWMutex semantics (a critical section of the code behaves like the Read/Write "
        "steps of Lin.v under the lock); the race detector over the sampled schedules is supporting evidence only",
        "no access to the store's private maps outside the methods listed in the lock table: checked syntactically for the "
        "root package by the translator (g_lock_outside), not by the type checker",
        "the lock table is extracted syntactically (go/ast): aliasing of receiver state through local variables other than "
        "the patterns listed in gen/anchors_lin.go is not tracked",
        "the linearizability checker of Check/C15Check.v (Wing-Gong search with greedy placement of matching queries) is "
        "trusted as an oracle; it is not proved complete",
    ]
    assumptions = [
        "ids are functional in a history; events are never modified after insertion (Find walks its private result tree "
        "after the lock is released and reads only that tree and immutable events)",
        "sequential facts about query answers (capacity bound, one event per address, closedness under retained deletion "
        "requests) are premises of C15_find_invariants_every_history, to be discharged by the C04/C05 theorems",
    ]

    def to_coq(self, I, c):
        names = cc.define_pool(I, c["pool"])

        def ev(i):
            if i in names:
                return names[i]
            # an id the pool does not know: cannot come from the store; keep it visible to the oracle
            return cevent(I, {"id": i, "pk": "?", "ts": 0, "kind": 1, "tags": []})

        def op(o):
            if o["k"] == "add":
                x = "(XAdd %s %s)" % (ev(o["e"]), cbool(o.get("added", False)))
            elif o["k"] == "find":
                x = "(XFind %s %s)" % (cfilters(I, o["fs"]), clist(o.get("out") or [], ev, "event"))
            else:
                x = "(XLen %s)" % cZ(o.get("n", 0))
            return "(mkTop %s %s %s %s %s)" % (cZ(o["t"]), cZ(o.get("inv", 0)), cZ(o.get("resp", 0)), x,
                                                cbool(bool(o.get("panic"))))

        return "(CLin %s %s %s)" % (cZ(c["cap"]), clist(c["ops"], op, "top"), cbool(bool(c.get("race"))))

    def nontrivial_key(self, c):
        ops = c["ops"]
        ok = False
        for a in ops:
            for b in ops:
                if a["t"] != b["t"] and a["t"] > 0 and b["t"] > 0 and a["k"] == "add" and a.get("added") \
                        and not (a["resp"] < b["inv"] or b["resp"] < a["inv"]):
                    ok = True
        if not ok:
            return None
        return self.dedup_key(c)

    def dedup_key(self, c):
        order = sorted(range(len(c["ops"])), key=lambda i: c["ops"][i].get("inv", 0))
        key = {"cap": c["cap"], "pool": c["pool"], "race": bool(c.get("race")),
               "ops": [[o["t"], o["k"], o.get("e"), o.get("fs"), o.get("added"), o.get("out"), o.get("n"),
                        order.index(i), sorted(range(len(c["ops"])), key=lambda j: c["ops"][j].get("resp", 0)).index(i)]
                       for i, o in enumerate(c["ops"])]}
        return json.dumps(key, sort_keys=True)

    def summarize(self, c):
        return {"cap": c["cap"], "mode": c.get("mode"), "race": (c.get("race") or "")[:600],
                "ops": [{k: o.get(k) for k in ("t", "k", "e", "inv", "resp", "added", "out", "n") if o.get(k) not in (None, [])}
                        for o in c["ops"]]}

    def distribution(self, cases):
        d = {"histories": len(cases), "operations": 0, "adds": 0, "finds": 0, "lens": 0, "session_mode": 0,
             "overlapping_pairs_of_different_goroutines": 0, "histories_with_overlap": 0, "adds_accepted": 0,
             "adds_rejected": 0, "nonempty_find_answers": 0, "goroutines_hist": {}, "capacity_hist": {},
             "stopped_children": 0, "router_mode_histories_safemap_under_race_detector": 0, "histories_with_eviction_or_deletion_visible": 0}
        for c in cases:
            ops = c["ops"]
            d["operations"] += len(ops)
            d["session_mode"] += c.get("mode") == "session"
            d["router_mode_histories_safemap_under_race_detector"] += c.get("mode") == "router"
            d["stopped_children"] += bool(c.get("race"))
            d["capacity_hist"][str(c["cap"])] = d["capacity_hist"].get(str(c["cap"]), 0) + 1
            nt = len({o["t"] for o in ops if o["t"] > 0})
            d["goroutines_hist"][str(nt)] = d["goroutines_hist"].get(str(nt), 0) + 1
            h = 0
            for i, a in enumerate(ops):
                d["adds"] += a["k"] == "add"
                d["finds"] += a["k"] == "find"
                d["lens"] += a["k"] == "len"
                if a["k"] == "add":
                    d["adds_accepted" if a.get("added") else "adds_rejected"] += 1
                if a["k"] == "find" and a.get("out"):
                    d["nonempty_find_answers"] += 1
                for b in ops[i + 1:]:
                    if a["t"] != b["t"] and a["t"] > 0 and b["t"] > 0 and not (a["resp"] < b["inv"] or b["resp"] < a["inv"]):
                        h += 1
            d["overlapping_pairs_of_different_goroutines"] += h
            d["histories_with_overlap"] += h > 0
            acc = sum(1 for o in ops if o["k"] == "add" and o.get("added")
                      and not (20000 <= c["pool"][o["e"]]["kind"] < 30000))
            if acc > c["cap"]:
                d["histories_with_eviction_or_deletion_visible"] += 1
        return d


PROP = C15()
