"""C16: the storage-backed handlers (CacheHandler with Dump/Restore, SQLiteHandler) answer a session
request by request.  Cases come from harness/cmd/sql/c16.go + c16sql.go (binary `sql`, sub-command c16)."""
import copy
import json
from propbase import Prop, COMMON_TRUSTED, drop_one
from coqterm import cbool, clist, cpair, cevent, cfilters, cZ

NOLIMIT = 18446744073709551615
FIELDS = ("ids", "authors", "kinds", "tags", "since", "until", "limit")


# ---------------------------------------------------------------------------
# printing

def ievent(I, e):
    """events recur many times in a case (messages, every answer, every listing): bind each once per shard"""
    tab = I.__dict__.setdefault("evtab", {})
    k = json.dumps(e, sort_keys=True)
    n = tab.get(k)
    if n is None:
        term = cevent(I, e)
        n = "ev%d" % len(tab)
        tab[k] = n
        I.defs.append("Definition %s : event := %s." % (n, term))
    return n


def ievents(I, es):
    return clist(es or [], lambda e: ievent(I, e), "event")


def ccmsg(I, m):
    k = m["k"]
    if k == "event":
        return "(CEvent %s)" % ievent(I, m["e"])
    if k == "auth":
        return "(CAuth %s)" % ievent(I, m["e"])
    if k == "req":
        return "(CReq %s %s)" % (I.s(m.get("sub", "")), cfilters(I, m.get("fs") or []))
    if k == "count":
        return "(CCount %s %s)" % (I.s(m.get("sub", "")), cfilters(I, m.get("fs") or []))
    if k == "close":
        return "(CClose %s)" % I.s(m.get("sub", ""))
    raise ValueError("unknown client message kind %r" % k)


def csmsg(I, r):
    k = r["k"]
    if k == "ok":
        return "(SOk %s %s %s %s)" % (I.s(r["id"]), cbool(r["acc"]), I.s(r["prefix"]), I.s(r["msg"]))
    if k == "event":
        return "(SEvent %s %s)" % (I.s(r["sub"]), ievent(I, r["e"]))
    if k == "eose":
        return "(SEose %s)" % I.s(r["sub"])
    if k == "count":
        a = r.get("approx")
        return "(SCount %s %s %s)" % (I.s(r["sub"]), cZ(r["n"]), "(@None bool)" if a is None else "(Some %s)" % cbool(a))
    if k == "closed":
        return "(SClosed %s %s %s)" % (I.s(r["sub"]), I.s(r["prefix"]), I.s(r["msg"]))
    if k == "notice":
        return "(SNotice %s)" % I.s(r["msg"])
    if k == "auth":
        return "(SAuth %s)" % I.s(r["challenge"])
    raise ValueError("unknown server message kind %r" % k)


# ---------------------------------------------------------------------------
# inputs of a case (what a replay re-runs)

def strip_msg(m):
    k = m["k"]
    if k in ("event", "auth"):
        return {"k": k, "e": m["e"]}
    if k in ("req", "count"):
        return {"k": k, "sub": m.get("sub", ""), "fs": m.get("fs") or []}
    return {"k": k, "sub": m.get("sub", "")}


def inputs(c):
    t = c["t"]
    if t == "bigdump":
        return {"t": t, "cap": c["cap"], "n": c["n"], "tie": c["tie"]}
    if t == "cache":
        return {"t": t, "cap": c["cap"], "msgs": [strip_msg(m) for m in c["msgs"] if not m.get("sentinel")]}
    if t == "sqlite":
        return {"t": t, "ml": c["ml"], "msgs": [strip_msg(m) for m in c["msgs"] if not m.get("sentinel")]}
    return {"t": t, "cap": c["cap"], "hist": c["hist"], "qs": [{"fs": q["fs"]} for q in c.get("qs") or []]}


def kind_class(k):
    if k in (0, 3) or 10000 <= k < 20000:
        return "replaceable"
    if 20000 <= k < 30000:
        return "ephemeral"
    if 30000 <= k < 40000:
        return "addressable"
    if k == 5:
        return "deletion"
    return "regular"


def shrink_filters(fs, keep_one=True):
    """smaller filter lists"""
    if len(fs) > 1 or not keep_one:
        for f2 in drop_one(fs):
            yield f2
    for i, f in enumerate(fs):
        for fld in FIELDS:
            if f.get(fld) is not None:
                f2 = copy.deepcopy(fs)
                f2[i][fld] = None
                yield f2
        tcs = f.get("tags")
        if tcs and len(tcs) > 1:       # never an empty list of tag conditions
            for t2 in drop_one(tcs):
                f2 = copy.deepcopy(fs)
                f2[i]["tags"] = t2
                yield f2


def map_events(events, fn):
    """apply fn to every distinct event (by id) consistently, one variant per change: ids stay functional"""
    seen = []
    for e in events:
        if e["id"] not in seen:
            seen.append(e["id"])
    for eid in seen:
        base = next(e for e in events if e["id"] == eid)
        for e2 in fn(base):
            yield eid, e2


def smaller_event(e):
    for t2 in drop_one(e["tags"]):
        yield dict(e, tags=t2)
    if e.get("content"):
        yield dict(e, content="")


class C16(Prop):
    id = "C16"
    coq_targets = ["theories/Properties/C16.vo", "theories/Properties/System.vo"]
    theorem_prefixes = ("C16_", "SYS_")
    check_vo = "theories/Check/C16Check.vo"
    check_module = "Moc.Check.C16Check"
    case_imports = ["Moc.Msg", "Moc.Handlers"]
    harness_bin = "sql"
    harness_sub = "c16"
    sizes = {"quick": 2500, "thorough": 18000}
    max_reports = 1
    gen_names = ("g_event_type", "g_created_key_lt", "g_add_keep_old", "g_over_cap", "g_add_skip_ephemeral",
                 "g_add_blocked", "g_is_kind5", "g_del_is_kind5", "g_del_other_author", "g_k5_tag_short",
                 "g_k5_tag_name", "g_full_scan", "g_index_over_limit", "g_done", "handler.go", "event_cache.go")
    rule = ("case i: i mod 5 in {0,1} a cache session, {2,3} a dump/restore case, 4 a SQLite session.  "
            "Cache session: capacity 1..6 (100 in one of three), a pool of 4..14 events (3 authors, ids e0..eN, kinds "
            "1/0/3/10000/30000/30001/20000/5, timestamps 0..6 with ties, ordinary tags incl. one-element and 3-element "
            "ones, d tags absent / ['d'] / twice, deletion requests with e references to non-ephemeral pool events "
            "before or after them incl. themselves, a references to addressable addresses, 3-element tags, ['e'], "
            "unknown ids; contents with NUL, astral characters, U+2028/9, quotes), 0..24 messages: 50% EVENT (12% a "
            "re-offer), 28% REQ (sub s1/s2/'', 1..3 filters over ids/authors/kinds/#t#p#d#e#a/since/until/limit 0..3; 30% of them one filter with a single "
            "id/author/kind of an event already offered plus a second condition, 30% of the rest an earlier REQ again with one "
            "condition fewer per filter: an answer must not depend on what was asked before), "
            "8% COUNT, 7% CLOSE, 7% AUTH; after every message a COUNT sentinel (part of the recorded session) closes "
            "the reply window, and after every EVENT the match-everything listing of the store is taken.  "
            "Dump/restore: 0..30 events drawn with repetition from such a pool are added, the store is listed, dumped "
            "(the JSON is decoded independently of the relay's decoder), restored into a fresh handler, and 4 filter "
            "lists are asked of both.  SQLite session: gate-valid pool of 2..10 events (hex ids, 3 authors, kinds "
            "1/0/3/10000/30000 with d/20000/5 with two-element e/a references), a quarter of the events with two different values under one tag letter, 0..20 messages 50% EVENT, 30% REQ (a "
            "fifth of them: both values of a tag letter with limit 1..3) "
            "(limit absent or 1..4), 20% COUNT/CLOSE/AUTH, EventBulkInsertNum=1, MaxLimit NoLimit (85%) or 1000; before "
            "a REQ that follows an EVENT a sync EVENT is sent and the database polled until it is stored.  "
            "Non-trivial: a cache session with a rejected OK, a non-empty REQ answer and a listing that lost an event "
            "(replacement, deletion or eviction); a dump whose listing is non-empty and shorter than the number of "
            "distinct events added and with a query answer that is non-empty and a proper part of the listing; a "
            "SQLite session in which a REQ returned an event.  distinct = distinct JSON of the inputs")
    trusted_base = COMMON_TRUSTED + [
        "SQLite, mattn/go-sqlite3, database/sql and goqu's SQL generation: the statements and the generated query are "
        "modelled as relational algebra by hand; their texts are pinned (Gen/GenSql.v g_sql_text_*) and the model is "
        "validated against the real database by the correspondence run only",
        "xxHash32 (event keys) and MD5 (tag hashes) are injective on the strings of a history (no_collision): the model "
        "keys rows by the hash pre-images",
    ]
    assumptions = [
        "ids are functional (one event per id) within a session / history",
        "every tag of an event is non-empty and no filter carries an empty (non-nil) tag map: the cache's index path "
        "panics on those (outside the statement)",
        "SQLite part: every EVENT sent is in the database before the next REQ (the harness sends a sync event and polls "
        "the database; the inserter goroutine is FIFO); limit 0, empty filter lists and deletion tags with more than "
        "two elements are excluded here because they are C06's findings; events and filters are gate-valid",
        "the JSON round trip of Dump/Restore is exercised by the harness only (encoding/json on the way out, the "
        "relay's Event.UnmarshalJSON on the way in); it is proved in C10",
        "goroutine scheduling: one connection, one reader; the reply window of a message is closed by the reply to a "
        "COUNT sentinel sent right after it (SimpleHandler serves one message at a time)",
    ]

    # -- Coq printing
    def to_coq(self, I, c):
        if c.get("err"):
            return "CBroken"
        t = c["t"]
        if t == "cache":
            return "(CCache %s %s %s %s)" % (
                cZ(c["cap"]),
                clist(c["msgs"], lambda m: ccmsg(I, m), "cmsg"),
                clist(c["replies"], lambda r: csmsg(I, r), "smsg"),
                clist(c.get("lists") or [], lambda l: ievents(I, l), "(list event)"))
        if t == "dump":
            qs = clist(c.get("qs") or [],
                       lambda q: cpair(cpair(cfilters(I, q["fs"]), ievents(I, q.get("out1"))), ievents(I, q.get("out2"))),
                       "(list rfilter * list event * list event)%type")
            return "(CDump %s %s %s %s %s %s)" % (
                cZ(c["cap"]), ievents(I, c["hist"]), ievents(I, c.get("listing")), ievents(I, c.get("dumped")),
                ievents(I, c.get("restored")), qs)
        if t == "bigdump":
            strs = lambda l: clist(l or [], I.s, "str")
            return "(CBigDump %s %s %s)" % (
                strs(c.get("listing")), strs(c.get("restored")),
                clist(c.get("qs") or [], lambda q: cpair(strs(q.get("out1")), strs(q.get("out2"))),
                      "(list str * list str)%type"))
        if t == "sqlite":
            return "(CSqlite %s %s %s)" % (
                cZ(c["ml"]),
                clist(c["msgs"], lambda m: ccmsg(I, m), "cmsg"),
                clist(c["replies"], lambda r: csmsg(I, r), "smsg"))
        raise ValueError("unknown case type %r" % t)

    # -- bookkeeping
    def dedup_key(self, c):
        return c["t"]

    def nontrivial_key(self, c):
        if c.get("err"):
            return None
        t = c["t"]
        if t == "bigdump":
            return json.dumps(inputs(c), sort_keys=True) if len(c.get("listing") or []) >= 1000 else None
        if t == "cache":
            rejected = any(r["k"] == "ok" and not r["acc"] for r in c["replies"])
            answered = any(r["k"] == "event" for r in c["replies"])
            if rejected and answered and self._lost(c) > 0:
                return json.dumps(inputs(c), sort_keys=True)
            return None
        if t == "dump":
            n = len(c.get("listing") or [])
            distinct = len({e["id"] for e in c["hist"]})
            part = any(0 < len(q.get("out1") or []) < n for q in c.get("qs") or [])
            if 0 < n < distinct and part:
                return json.dumps(inputs(c), sort_keys=True)
            return None
        if any(r["k"] == "event" for r in c["replies"]):
            return json.dumps(inputs(c), sort_keys=True)
        return None

    @staticmethod
    def _lost(c):
        """number of EVENT steps after which an event listed before is no longer listed"""
        n, prev = 0, set()
        for l in c.get("lists") or []:
            cur = {e["id"] for e in l}
            if prev - cur:
                n += 1
            prev = cur
        return n

    def summarize(self, c):
        t = c["t"]
        if t == "bigdump":
            return {"t": t, "cap": c["cap"], "n": c["n"], "tie": c["tie"], "listed": len(c.get("listing") or []),
                    "restored": len(c.get("restored") or []), "queries": len(c.get("qs") or []), "err": c.get("err", "")}
        if t == "dump":
            return {"t": t, "cap": c["cap"], "hist": [e["id"] for e in c["hist"]],
                    "listing": [e["id"] for e in c.get("listing") or []],
                    "restored": [e["id"] for e in c.get("restored") or []],
                    "queries": [{"fs": q["fs"], "out1": [e["id"] for e in q.get("out1") or []],
                                 "out2": [e["id"] for e in q.get("out2") or []]} for q in (c.get("qs") or [])[:2]],
                    "err": c.get("err", "")}

        def msg(m):
            if m["k"] in ("event", "auth"):
                return {"k": m["k"], "e": m["e"]}
            return {k: v for k, v in m.items() if k != "sentinel"}

        def rep(r):
            if r["k"] == "event":
                return {"k": "event", "sub": r["sub"], "id": r["e"]["id"]}
            return r

        ms = [m for m in c["msgs"] if not m.get("sentinel")]
        out = {"t": t, "messages": [msg(m) for m in ms[:5]], "total_messages": len(ms),
               "replies": [rep(r) for r in c["replies"] if not (r["k"] == "count" and r["sub"].startswith("\x01end-"))][:10],
               "err": c.get("err", "")}
        if t == "cache":
            out["cap"] = c["cap"]
            out["listings"] = [[e["id"] for e in l] for l in (c.get("lists") or [])[:5]]
        else:
            out["ml"] = c["ml"]
        return out

    def distribution(self, cases):
        d = {"cases": len(cases), "by_type": {}, "cases_with_err": 0,
             "messages": {"event": 0, "req": 0, "close": 0, "auth": 0, "count": 0, "count_sentinels": 0,
                          "sqlite_sync_events": 0},
             "events_by_class": {},
             "cache": {"ok_accepted": 0, "ok_rejected": 0, "ok_rejected_duplicate_prefix": 0, "req_answers": 0,
                       "req_answers_nonempty": 0, "events_returned": 0, "listings": 0, "listings_that_lost_an_event": 0,
                       "capacity_hist": {}},
             "sqlite": {"ok_accepted": 0, "ok_rejected": 0, "req_answers": 0, "req_answers_nonempty": 0,
                        "events_returned": 0, "closed_or_notice": 0, "maxlimit_1000": 0},
             "dump": {"hist_events": 0, "listing_events": 0, "dumped_events": 0, "empty_dumps": 0,
                      "restored_equals_listing": 0, "displaced": 0, "queries": 0, "query_answers_nonempty": 0,
                      "query_answers_equal": 0}}
        for c in cases:
            t = c["t"]
            d["by_type"][t] = d["by_type"].get(t, 0) + 1
            if c.get("err"):
                d["cases_with_err"] += 1
            if t == "bigdump":
                d.setdefault("bigdump", {"stores": 0, "events_listed": 0})
                d["bigdump"]["stores"] += 1
                d["bigdump"]["events_listed"] += len(c.get("listing") or [])
                continue
            if t == "dump":
                dd = d["dump"]
                dd["hist_events"] += len(c["hist"])
                dd["listing_events"] += len(c.get("listing") or [])
                dd["dumped_events"] += len(c.get("dumped") or [])
                dd["empty_dumps"] += not c.get("dumped")
                dd["restored_equals_listing"] += (c.get("restored") or []) == (c.get("listing") or [])
                dd["displaced"] += len(c.get("listing") or []) < len({e["id"] for e in c["hist"]})
                for q in c.get("qs") or []:
                    dd["queries"] += 1
                    dd["query_answers_nonempty"] += bool(q.get("out1"))
                    dd["query_answers_equal"] += (q.get("out1") or []) == (q.get("out2") or [])
                continue
            dt = d[t]
            for m in c["msgs"]:
                if m.get("sentinel"):
                    d["messages"]["count_sentinels" if m["k"] == "count" else "sqlite_sync_events"] += 1
                    continue
                d["messages"][m["k"]] += 1
                if m["k"] == "event":
                    cl = kind_class(m["e"]["kind"])
                    d["events_by_class"][cl] = d["events_by_class"].get(cl, 0) + 1
            run = 0
            for r in c["replies"]:
                k = r["k"]
                if k == "ok":
                    if r["acc"]:
                        dt["ok_accepted"] += 1
                    else:
                        dt["ok_rejected"] += 1
                        if t == "cache" and r["prefix"] == "duplicate: ":
                            dt["ok_rejected_duplicate_prefix"] += 1
                elif k == "event":
                    dt["events_returned"] += 1
                    run += 1
                elif k == "eose":
                    dt["req_answers"] += 1
                    dt["req_answers_nonempty"] += run > 0
                    run = 0
                elif k in ("closed", "notice") and t == "sqlite":
                    dt["closed_or_notice"] += 1
            if t == "cache":
                dt["capacity_hist"][str(c["cap"])] = dt["capacity_hist"].get(str(c["cap"]), 0) + 1
                dt["listings"] += len(c.get("lists") or [])
                dt["listings_that_lost_an_event"] += self._lost(c)
            else:
                dt["maxlimit_1000"] += c["ml"] == 1000
        return d

    # -- shrinking: smaller inputs (the harness recomputes sentinels and observations)
    def shrink(self, c):
        c = inputs(c)
        if c["t"] == "bigdump":
            if c["n"] > 1001:
                yield dict(c, n=1001 + (c["n"] - 1001) // 2, cap=max(c["cap"], c["n"]))
            return
        if c["t"] == "dump":
            yield from self._shrink_dump(c)
        else:
            yield from self._shrink_session(c)

    def _shrink_session(self, c):
        msgs = c["msgs"]
        for k in range(len(msgs)):                       # shortest failing prefix first
            yield dict(c, msgs=msgs[:k])
        for m2 in drop_one(msgs):
            yield dict(c, msgs=m2)
        if c["t"] == "cache" and c["cap"] > 1:
            yield dict(c, cap=c["cap"] - 1)
        if c["t"] == "sqlite" and c["ml"] != NOLIMIT:
            yield dict(c, ml=NOLIMIT)
        for i, m in enumerate(msgs):
            if m["k"] in ("req", "count"):
                for fs2 in shrink_filters(m["fs"]):
                    c2 = copy.deepcopy(c)
                    c2["msgs"][i]["fs"] = fs2
                    yield c2
        evs = [m["e"] for m in msgs if m["k"] == "event"]
        for eid, e2 in map_events(evs, smaller_event):
            c2 = copy.deepcopy(c)
            for m in c2["msgs"]:
                if m["k"] == "event" and m["e"]["id"] == eid:
                    m["e"] = copy.deepcopy(e2)
            yield c2

    def _shrink_dump(self, c):
        hist, qs = c["hist"], c["qs"]
        for k in range(len(hist)):
            yield dict(c, hist=hist[:k])
        for h2 in drop_one(hist):
            yield dict(c, hist=h2)
        for q2 in drop_one(qs):
            yield dict(c, qs=q2)
        if c["cap"] > 1:
            yield dict(c, cap=c["cap"] - 1)
        for i, q in enumerate(qs):
            for fs2 in shrink_filters(q["fs"]):
                c2 = copy.deepcopy(c)
                c2["qs"][i]["fs"] = fs2
                yield c2
        for eid, e2 in map_events(hist, smaller_event):
            c2 = copy.deepcopy(c)
            c2["hist"] = [copy.deepcopy(e2) if e["id"] == eid else e for e in c2["hist"]]
            yield c2


PROP = C16()
