import copy
import json
from propbase import Prop, COMMON_TRUSTED, drop_one
from coqterm import cbool, clist, cpair, cZ

CL = {"EVENT": "CEvent", "REQ": "CReq", "CLOSE": "CClose", "AUTH": "CAuth", "COUNT": "CCount", "OTHER": "COther"}
SV = {"EOSE": "SEose", "EVENT": "SEvent", "NOTICE": "SNotice", "OK": "SOk", "AUTH": "SAuth", "COUNT": "SCount",
      "CLOSED": "SClosed", "OTHER": "SOther"}


def cwhat(I, m):
    t = m["t"]
    if t == "EVENT":
        return "(CEvent %s)" % cZ(m.get("kind", 0))
    if t in ("REQ", "CLOSE", "COUNT"):
        return "(%s %s)" % (CL[t], I.s(m.get("sub", "")))
    return CL.get(t, "COther")


def swhat(I, m):
    t = m["t"]
    if t in ("EOSE", "EVENT", "COUNT", "CLOSED"):
        return "(%s %s)" % (SV[t], I.s(m.get("sub", "")))
    return SV.get(t, "SOther")


def cmsg(I, m):
    return "(mkCM %s %s)" % (cwhat(I, m), cZ(m["uid"]))


def smsg(I, m):
    return "(mkSM %s %s)" % (swhat(I, m), cZ(m["uid"]))


def cstep(I, s):
    if s["op"] == "start":
        return "(Start %s)" % cZ(s["s"])
    if s["op"] == "end":
        return "(End %s)" % cZ(s["s"])
    if s["op"] == "c":
        return "(Client %s %s)" % (cZ(s["s"]), cmsg(I, s["m"]))
    return "(Server %s %s)" % (cZ(s["s"]), smsg(I, s["m"]))


def ckv(I, l):
    return clist(l or [], lambda kv: cpair(I.s(kv["l"]), cZ(kv["v"])), "(str * Z)%type")


def csnap(I, o):
    return "(mkSnap %s %s %s %s %s)" % (cZ(o["conn"]), cZ(o["req"]), ckv(I, o.get("recv")), ckv(I, o.get("kind")),
                                        ckv(I, o.get("send")))


def features(c):
    """what the history exercises (computed from the script alone)"""
    open_, f = {}, set()
    ws = c.get("via") == "ws"
    if ws:
        f.add("through_relay_servehttp")
    hdr = {}          # live session -> X-Request-Id of its upgrade request
    kinds = set()
    for g in (c.get("groups") or []):
        if len(g) > 1:
            f.add("concurrent_group")
        for s in g:
            sid = s["s"]
            if s["op"] == "start":
                open_[sid] = set()
                if ws and s.get("hdr"):
                    if s["hdr"] in hdr.values():
                        f.add("live_sessions_with_equal_request_id_header")
                        if any(open_.get(o) for o, h in hdr.items() if h == s["hdr"]):
                            f.add("equal_request_id_header_while_subscriptions_open")
                    hdr[sid] = s["hdr"]
            elif s["op"] == "end":
                if open_.get(sid):
                    f.add("end_with_open")
                open_.pop(sid, None)
                hdr.pop(sid, None)
            elif s["op"] == "dead":
                f.add("dead_on_arrival")
            else:
                m = s["m"]
                subs = open_.setdefault(sid, set())
                t, sub = m["t"], m.get("sub", "")
                if s["op"] == "c" and t == "REQ":
                    f.add("req_again" if sub in subs else "req_new")
                    subs.add(sub)
                elif s["op"] == "c" and t == "CLOSE":
                    f.add("close_open" if sub in subs else "close_unknown")
                    subs.discard(sub)
                elif s["op"] == "s" and t == "CLOSED":
                    f.add("closed_open" if sub in subs else "closed_unknown")
                    subs.discard(sub)
                elif s["op"] == "s" and t == "EOSE" and sub in subs:
                    f.add("eose_open")
                elif t == "OTHER":
                    f.add("undefined_type")
                if s["op"] == "c" and t == "EVENT":
                    k = int(m.get("kind", 0))
                    if not 0 <= k <= 65535:
                        f.add("kind_outside_0_65535")
                    if any(k2 != k and (k2 - k) % 65536 == 0 for k2 in kinds):
                        f.add("kinds_congruent_modulo_65536")
                    kinds.add(k)
    if len(open_) > 1:
        pass
    return f


class C19(Prop):
    id = "C19"
    coq_targets = ["theories/Properties/C19.vo"]
    check_vo = "theories/Check/C19Check.vo"
    check_module = "Moc.Check.C19Check"
    case_imports = ["Moc.Prom"]
    harness_bin = "prom"
    harness_sub = "c19"
    build_flags = ("-race",)   # own binary (cmd/prom); a data race makes the harness exit 66
    sizes = {"quick": 1500, "thorough": 20000}
    gen_names = ("g_prom_", "prometheus.go", "GenProm")
    rule = ("thorough tier: first one long-running history (25 sessions submit 1100 events of 1100 different kinds in 44 rounds, "
            "end, and a later session submits the first and the last kind again: no per-kind counter may have been dropped); "
            "histories of 1..8 sessions (4..40 groups of steps, 15% of the groups hold 2..5 steps on distinct sessions that are "
            "injected concurrently) through the real NewPrometheusMiddleware with a fresh registry per case: start, end "
            "(inner handler returns / context cancelled / recv channel closed), client messages REQ CLOSE EVENT COUNT AUTH "
            "and an unknown type, server messages CLOSED EOSE EVENT OK NOTICE COUNT AUTH and an unknown type, subscription "
            "ids from {a, b, c, the empty string, two 65-byte ids with a common 64-byte prefix}, kinds from {0,1,7,30023,-1} (62%) and {65535, 65536, 65537, 131073, -65535, 2^32, 2^32+1, 2^63-1, "
            "-2^63} (kinds outside 0..65535 that agree with a smaller member modulo 2^16 or 2^32, and the ends of int64); "
            "Registry.Gather() after every group; both sides of the "
            "middleware recorded.  One tenth more histories use the transport 'ws': the sessions (2..5) are WebSocket connections "
            "on the loopback interface served by the real Relay.ServeHTTP in front of the middleware, so that the session context "
            "is the one the relay builds from the upgrade request; every start carries an X-Request-Id header from {none, r1, r1, "
            "r2} (live sessions with equal headers are common); client messages REQ CLOSE COUNT (what the relay's reader "
            "passes without signed events), server messages of every defined type; ends: inner handler returns / context "
            "cancelled / client drops the connection; these cases run one at a time in worker processes (a panic in a "
            "goroutine of the middleware is recorded as an unclean case).  A case is non-trivial when its script exercises at least three of: repeated REQ of an "
            "open id, CLOSE of an open id, CLOSE of an unknown id, CLOSED of an open id, CLOSED of an unknown id, EOSE for "
            "an open id, a session ending with open subscriptions, an unknown message type, a concurrent group, a kind outside "
            "0..65535, two kinds congruent modulo 65536, the transport ws, live sessions with equal X-Request-Id headers (with "
            "subscriptions open); "
            "distinct = distinct scripts")
    trusted_base = COMMON_TRUSTED + [
        "prometheus client_golang (Registry.Gather is the observation; counters and gauges are atomic)",
        "step granularity: one call of the middleware base per step; the six counters own disjoint state and each update is "
        "atomic (reqCounter under its mutex: g_prom_locks, C19_req_counter_locked), so finer interleavings add no states",
        "uuid.NewString() yields a fresh session key per session (a session id is live at most once at a time)",
        "transport ws: coder/websocket client, net/http/httptest server on the loopback interface; over the wire a message "
        "is identified by type and subscription id (one message per session in flight)",
    ]
    assumptions = [
        "well-formed histories: a session's steps lie between its Start and its End (what NewSimpleMiddleware guarantees: "
        "ServeNostrEnd is deferred behind both pump goroutines)",
        "quiescent points: the registry is read when every injected message has been seen on the far side of the middleware",
    ]

    def to_coq(self, I, c):
        def expand(g):
            out = []
            for s in g:
                if s["op"] == "dead":      # a session that starts with a cancelled context: Start; End
                    out += [dict(s, op="start"), dict(s, op="end")]
                else:
                    out.append(s)
            return out
        groups = clist(c.get("groups") or [], lambda g: clist(expand(g), lambda s: cstep(I, s), "pstep"), "(list pstep)")
        obs = clist(c.get("obs") or [], lambda o: csnap(I, o), "snap")
        inner = clist(c.get("inner") or [],
                      lambda v: cpair(cZ(v["s"]), clist(v.get("ms") or [], lambda m: cmsg(I, m), "pcmsg")),
                      "(Z * list pcmsg)%type")
        outer = clist(c.get("outer") or [],
                      lambda v: cpair(cZ(v["s"]), clist(v.get("ms") or [], lambda m: smsg(I, m), "psmsg")),
                      "(Z * list psmsg)%type")
        return "(Case %s %s %s %s %s)" % (groups, obs, inner, outer, cbool(c.get("clean", False)))

    def nontrivial_key(self, c):
        if len(features(c)) >= 3:
            return json.dumps([c.get("via") or "", c.get("groups")], sort_keys=True)
        return None

    def dedup_key(self, c):
        return json.dumps(sorted(features(c)))

    def summarize(self, c):
        return {"via": c.get("via") or "handler API", "notes": c.get("notes"), "groups": (c.get("groups") or [])[:12], "obs_last": (c.get("obs") or [None])[-1], "clean": c.get("clean")}

    def shrink(self, c):
        groups = c.get("groups") or []
        base = {"groups": groups}
        if c.get("via"):
            # a simpler transport first, then everything below with the transport kept
            yield {"groups": [[{k: v for k, v in s.items() if k != "hdr"} for s in g] for g in groups]}
            for inner in self.shrink({"groups": groups}):
                yield dict(inner, via=c["via"])
            for i, g in enumerate(groups):
                for j, s in enumerate(g):
                    if s.get("hdr"):
                        c2 = copy.deepcopy(base)
                        c2["via"] = c["via"]
                        del c2["groups"][i][j]["hdr"]
                        yield c2
            return
        # drop chunks of groups, large chunks first (the harness re-normalises: steps of sessions
        # whose start was dropped vanish)
        n = len(groups)
        k = n // 2
        while k >= 2:
            for i in range(0, n, k):
                yield {"groups": groups[:i] + groups[i + k:]}
            k //= 2
        # drop all steps of one session
        sids = sorted({s["s"] for g in groups for s in g})
        if len(sids) > 1:
            for sid in sids:
                yield {"groups": [[s for s in g if s["s"] != sid] for g in groups]}
        for gs in drop_one(groups):
            yield {"groups": gs}
        # drop one step of a group / split a group into singletons
        for i, g in enumerate(groups):
            if len(g) > 1:
                yield {"groups": groups[:i] + [[s] for s in g] + groups[i + 1:]}
                for g2 in drop_one(g):
                    yield {"groups": groups[:i] + [g2] + groups[i + 1:]}
        # simplify end modes
        for i, g in enumerate(groups):
            for j, s in enumerate(g):
                if s["op"] == "end" and s.get("how") != "quit":
                    c2 = copy.deepcopy(base)
                    c2["groups"][i][j]["how"] = "quit"
                    yield c2

    def distribution(self, cases):
        d = {"groups": 0, "steps": 0, "concurrent_groups": 0, "start": 0, "end": 0, "client": 0, "server": 0,
             "sessions": 0, "unclean": 0, "dead_on_arrival": 0, "histories_through_relay_servehttp": 0}
        feats = {}
        for c in cases:
            d["groups"] += len(c.get("groups") or [])
            d["unclean"] += 0 if c.get("clean") else 1
            d["histories_through_relay_servehttp"] += 1 if c.get("via") == "ws" else 0
            d["sessions"] += len(c.get("inner") or [])
            for g in (c.get("groups") or []):
                d["steps"] += len(g)
                d["concurrent_groups"] += 1 if len(g) > 1 else 0
                for s in g:
                    d[{"start": "start", "end": "end", "c": "client", "s": "server", "dead": "dead_on_arrival"}[s["op"]]] += 1
            for f in features(c):
                feats[f] = feats.get(f, 0) + 1
        d["cases_exercising"] = feats
        return d


PROP = C19()
