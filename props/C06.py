import copy
import json
from propbase import Prop, COMMON_TRUSTED, drop_one
from coqterm import cbool, clist, cpair, cevent, cfilters, cZ

NOLIMIT = 18446744073709551615

SQL_TRUSTED = COMMON_TRUSTED + [
    "SQLite, mattn/go-sqlite3, database/sql and goqu's SQL generation: the statements and the generated query are "
    "modelled as relational algebra by hand; their texts are pinned (Gen/GenSql.v g_sql_text_*) and the model is "
    "validated against the real database by the correspondence run only",
    "xxHash32 (event keys) and MD5 (tag hashes) are injective on the strings of a history (no_collision): the model "
    "keys rows by the hash pre-images",
]


def ievent(I, e):
    """events recur many times in a case (history, every answer): bind each once"""
    tab = I.__dict__.setdefault("evtab", {})
    k = json.dumps(e, sort_keys=True)
    n = tab.get(k)
    if n is None:
        term = cevent(I, e)
        n = "ev%d" % len(tab)
        tab[k] = n
        I.defs.append("Definition %s : event := %s." % (n, term))
    return n


def ievents(I, es):
    return clist(es, lambda e: ievent(I, e), "event")


def cqres(I, q):
    if q.get("err"):
        return "QErr"
    return "(QOk %s)" % ievents(I, q.get("out") or [])


def all_events(c):
    return [e for st in c["steps"] for e in st["b"]]


def is_k5_ref(t, names=("e", "a")):
    return len(t) >= 1 and t[0] in names


def sig_limit0(c):
    return any(f.get("limit") == 0 for st in c["steps"] for q in st["q"] for f in q["fs"])


def sig_k5_long_tag(c):
    return any(e["kind"] == 5 and any(is_k5_ref(t) and len(t) > 2 for t in e["tags"]) for e in all_events(c))


class C06(Prop):
    id = "C06"
    coq_targets = ["theories/Properties/C06.vo"]
    check_vo = "theories/Check/C06Check.vo"
    check_module = "Moc.Check.C06Check"
    case_imports = ["Moc.Sql", "Moc.SqlSpec", "Moc.SqlCheckBase"]
    harness_bin = "sql"
    harness_sub = "c06"
    sizes = {"quick": 700, "thorough": 14000}
    max_reports = 2
    gen_names = ("g_sql_", "g_event_type", "handler/sqlite/")
    rule = ("batch histories: 0..30 events drawn with repetition from a pool of 2..12 distinct events (3 authors; "
            "regular kind 1, replaceable 0/3/10000, addressable 30000 with d in {'', a, b} or without d, ephemeral "
            "20000, deletion requests with 1..4-element e/a tags referencing pool members before or after them, of "
            "the same or another author; Unicode contents incl. NUL, astral, U+2028; timestamps 0..6 with ties, a few "
            "beyond 2^32), split into random batches; after every batch the match-all filter and 3 random filter lists "
            "(1..3 filters; ids/authors/kinds/#e/#p/#t/#X present, empty or absent; since/until 0..7; limit none/0/1/2/3+; "
            "overlapping copies); maxLimit NoLimit / 1000 / 1..4; 12% of the functional-id cases go through the public "
            "SQLiteHandler with EventBulkInsertNum=1.  A case is non-trivial when its history contains a replacement "
            "(two versions of one address), a deletion request that hides a stored event, and a limited filter that "
            "cuts a non-empty answer; distinct = distinct JSON of the inputs")
    trusted_base = SQL_TRUSTED
    assumptions = [
        "events and filters are gate-valid (lower-case 64/64/128 hex, non-empty first tag element, single-letter "
        "filter tag names, limit >= 0), ids are functional, the filter list is non-empty, maxLimit > 0",
        "a-references to replaceable events and upper-case hex e-references are outside the statement (DESIGN.md 9)",
        "no hash collision (xxHash32 pairs, MD5) among the strings of the history",
        "the order among events of equal created_at is SQLite's and is not compared; 'limit' is read as the effective "
        "limit min(filter limit, MaxLimit) and the merged answer as its MaxLimit newest events (any choice among "
        "equally new ones); the oracle decides exactly this statement (C06_oracle_exact), also when a small maxLimit "
        "cuts the merged answer",
    ]
    signatures = {
        "sqlite_limit0_returns_all": sig_limit0,
        "sqlite_kind5_tag_with_extra_elements_ignored": sig_k5_long_tag,
    }

    # -- Coq printing
    def to_coq(self, I, c):
        if c.get("panic"):
            return "CBroken"
        steps = []
        for st in c["steps"]:
            qs = clist(st["q"], lambda q: cpair(cfilters(I, q["fs"]), cqres(I, q)), "(list rfilter * qres)%type")
            steps.append(cpair(ievents(I, st["b"]), qs))
        return "(CHist %s %s)" % (cZ(c["ml"]), clist(steps, None, "step"))

    # -- bookkeeping
    def _inputs(self, c):
        return {"via": c.get("via", "direct"), "ml": c["ml"],
                "steps": [{"b": st["b"], "q": [{"fs": q["fs"]} for q in st["q"]]} for st in c["steps"]]}

    def dedup_key(self, c):
        # one report per defect class
        return json.dumps([sig_limit0(c), sig_k5_long_tag(c)])

    def nontrivial_key(self, c):
        evs = all_events(c)
        addr = {}
        repl = False
        for e in evs:
            if e["kind"] in (0, 3, 10000, 30000):
                d = next((t[1] if len(t) > 1 else "" for t in e["tags"] if t and t[0] == "d"), None)
                k = (e["kind"], e["pk"], d)
                if k in addr and addr[k] != e["id"]:
                    repl = True
                addr.setdefault(k, e["id"])
        ids = {e["id"] for e in evs}
        dele = any(e["kind"] == 5 and any(len(t) >= 2 and t[0] == "e" and t[1] in ids for t in e["tags"]) for e in evs)
        cut = any(f.get("limit") is not None and 0 < f["limit"] == len(q.get("out") or [])
                  for st in c["steps"] for q in st["q"] for f in q["fs"][:1] if len(q["fs"]) == 1)
        if repl and dele and cut:
            return json.dumps(self._inputs(c), sort_keys=True)
        return None

    def summarize(self, c):
        return {"via": c.get("via"), "ml": c["ml"], "batches": [len(st["b"]) for st in c["steps"]],
                "queries": sum(len(st["q"]) for st in c["steps"]),
                "first_batch": c["steps"][0]["b"][:2] if c["steps"] else []}

    def distribution(self, cases):
        d = {"histories": len(cases), "via_handler": 0, "events": 0, "batches": 0, "queries": 0, "filters": 0,
             "limit0_filters": 0, "limit1_filters": 0, "empty_list_conditions": 0, "two_tag_conditions": 0,
             "kind5_events": 0, "kind5_tags_with_extra_elements": 0, "replaceable": 0, "addressable": 0,
             "addressable_without_d": 0, "ephemeral": 0, "regular": 0, "answers_nonempty": 0, "answers_error": 0,
             "small_maxlimit": 0}
        for c in cases:
            d["via_handler"] += c.get("via") == "handler"
            d["small_maxlimit"] += c["ml"] < 1000
            for st in c["steps"]:
                d["batches"] += 1
                for e in st["b"]:
                    d["events"] += 1
                    k = e["kind"]
                    if k == 5:
                        d["kind5_events"] += 1
                        d["kind5_tags_with_extra_elements"] += sum(1 for t in e["tags"] if is_k5_ref(t) and len(t) > 2)
                    elif k in (0, 3, 10000):
                        d["replaceable"] += 1
                    elif k == 30000:
                        d["addressable"] += 1
                        d["addressable_without_d"] += not any(t and t[0] == "d" for t in e["tags"])
                    elif k == 20000:
                        d["ephemeral"] += 1
                    else:
                        d["regular"] += 1
                for q in st["q"]:
                    d["queries"] += 1
                    d["answers_nonempty"] += bool(q.get("out"))
                    d["answers_error"] += bool(q.get("err"))
                    for f in q["fs"]:
                        d["filters"] += 1
                        d["limit0_filters"] += f.get("limit") == 0
                        d["limit1_filters"] += f.get("limit") == 1
                        d["empty_list_conditions"] += any(f.get(k) == [] for k in ("ids", "authors", "kinds")) or any(
                            tc["v"] == [] for tc in f.get("tags") or [])
                        d["two_tag_conditions"] += len(f.get("tags") or []) >= 2
        return d

    # -- shrinking: smaller inputs (observations are recomputed by the harness).
    # Every round is evaluated in full by the engine, so each round offers
    # few candidates, the most aggressive kind that still applies first.
    def shrink(self, c):
        c = self._inputs(c)
        steps = c["steps"]
        nq = sum(len(st["q"]) for st in steps)
        out = []
        if nq > 1:
            qsteps = [i for i, st in enumerate(steps) if st["q"]]
            if len(qsteps) > 1:
                # keep the queries of one step (and the history up to it), shortest history first
                for i in qsteps:
                    c2 = copy.deepcopy(c)
                    for k, s2 in enumerate(c2["steps"]):
                        if k != i:
                            s2["q"] = []
                    c2["steps"] = c2["steps"][:i + 1]
                    yield c2
                return
            # keep one query of the only step that has any
            i = qsteps[0]
            for j in range(len(steps[i]["q"])):
                c2 = copy.deepcopy(c)
                c2["steps"][i]["q"] = [c2["steps"][i]["q"][j]]
                c2["steps"] = c2["steps"][:i + 1]
                yield c2
            return
        if c["via"] == "handler":
            yield dict(copy.deepcopy(c), via="direct")
        if c["ml"] != NOLIMIT:
            yield dict(copy.deepcopy(c), ml=NOLIMIT)
        if len(steps) > 1:
            # one batch
            c2 = copy.deepcopy(c)
            c2["steps"] = [{"b": [e for st in steps for e in st["b"]], "q": steps[-1]["q"]}]
            yield c2
            for i in range(len(steps) - 1):
                c2 = copy.deepcopy(c)
                a, b = c2["steps"][i], c2["steps"][i + 1]
                c2["steps"][i:i + 2] = [{"b": a["b"] + b["b"], "q": b["q"]}]
                yield c2
        # drop events: halves first, then single ones
        for i, st in enumerate(steps):
            n = len(st["b"])
            if n >= 4:
                for lo, hi in ((0, n // 2), (n // 2, n)):
                    c2 = copy.deepcopy(c)
                    c2["steps"][i]["b"] = st["b"][:lo] + st["b"][hi:]
                    yield c2
            for b in drop_one(st["b"]):
                c2 = copy.deepcopy(c)
                c2["steps"][i]["b"] = b
                yield c2
        for i, st in enumerate(steps):
            for j, q in enumerate(st["q"]):
                if len(q["fs"]) > 1:
                    for fs in drop_one(q["fs"]):
                        c2 = copy.deepcopy(c)
                        c2["steps"][i]["q"][j]["fs"] = fs
                        yield c2
                for k, f in enumerate(q["fs"]):
                    for fld in ("ids", "authors", "kinds", "tags", "since", "until", "limit"):
                        if f.get(fld) is not None:
                            c2 = copy.deepcopy(c)
                            c2["steps"][i]["q"][j]["fs"][k][fld] = None
                            yield c2
        # simplify events; an edit is applied to every copy of the event (ids stay functional)
        seen = set()
        for st in steps:
            for e in st["b"]:
                if e["id"] in seen:
                    continue
                seen.add(e["id"])
                edits = [dict(e, tags=t) for t in drop_one(e["tags"])]
                edits += [dict(e, tags=e["tags"][:ti] + [t[:-1]] + e["tags"][ti + 1:])
                          for ti, t in enumerate(e["tags"]) if len(t) > 2]
                if e.get("content"):
                    edits.append(dict(e, content=""))
                for e2 in edits:
                    c2 = copy.deepcopy(c)
                    for s2 in c2["steps"]:
                        s2["b"] = [e2 if x["id"] == e["id"] and x == e else x for x in s2["b"]]
                    yield c2


PROP = C06()
