import copy
import json
from propbase import Prop, COMMON_TRUSTED, drop_one
from coqterm import cbool, clist, cpair, cevent, cfilters, cZ, cnat, copt

FLUSH_PK = "~zpk"


def _cev(I, e):
    """events recur in every copy: bind each distinct one once per shard file"""
    tab = getattr(I, "c07_events", None)
    if tab is None:
        tab = {}
        I.c07_events = tab
    k = json.dumps(e, sort_keys=True)
    n = tab.get(k)
    if n is None:
        n = "ev%d" % len(tab)
        tab[k] = n
        I.defs.append("Definition %s : event := %s." % (n, cevent(I, e)))
    return n


def _cop(I, h):
    o = h["o"]
    if o == "req":
        return "(OReq %s %s)" % (I.s(h.get("sub", "")), cfilters(I, h.get("fs") or []))
    if o == "close":
        return "(OClose %s)" % I.s(h.get("sub", ""))
    if o == "count":
        return "(OCount %s)" % I.s(h.get("sub", ""))
    if o == "event":
        return "(OEvent %s)" % _cev(I, h["e"])
    if o == "disc":
        return "ODisc"
    raise ValueError(o)


def _cdop(I, h):
    if h["o"] == "pause":
        return "(DPause %s %s)" % (cnat(h["c"]), cZ(h["b"]))
    if h["o"] == "resume":
        return "(DResume %s %s)" % (cnat(h["c"]), cZ(h["b"]))
    if h["o"] == "open":
        return "(DOpen %s %s)" % (cnat(h["c"]), cZ(h["b"]))
    # p: handed over while the client was not reading, the reply (if any) read only after it resumed
    ctor = "DPend" if h.get("p") else "DCut" if h.get("x") else "DO"
    return "(%s %s %s %s %s)" % (ctor, cnat(h["c"]), _cop(I, h), cZ(h["b"]), copt(h.get("d"), cZ, "Z"))


def _cmsg(I, m):
    t = m["t"]
    if t == "eose":
        x = "(XEose %s)" % I.s(m.get("sub", ""))
    elif t == "ok":
        x = "(XOk %s %s %s)" % (I.s(m.get("id", "")), cbool(m.get("acc", False)), cbool(m.get("msg", "") == ""))
    elif t == "count":
        x = "(XCount %s %s)" % (I.s(m.get("sub", "")), cZ(m.get("n", 0)))
    elif t == "event":
        x = "(XEvent %s %s)" % (I.s(m.get("sub", "")), _cev(I, m["e"]))
    else:
        x = "XOther"
    return cpair(x, cZ(m["s"]))


def _inputs(c):
    return {k: c[k] for k in ("k", "buf", "nc", "script", "scripts", "readers", "peer", "seed", "idx", "n", "input") if k in c}


def _deliveries(c):
    n = cross = 0
    pubs = {}
    for h in c.get("hops") or []:
        if h["o"] == "event":
            pubs[h["e"]["id"]] = h["c"]
    for x, out in enumerate(c.get("outs") or []):
        for m in out:
            if m["t"] == "event" and m["e"]["pk"] != FLUSH_PK:
                n += 1
                if pubs.get(m["e"]["id"]) != x:
                    cross += 1
    return n, cross


class C07(Prop):
    id = "C07"
    coq_targets = ["theories/Properties/C07.vo", "theories/LockOrderProofs.vo"]
    check_vo = "theories/Check/C07Check.vo"
    check_module = "Moc.Check.C07Check"
    case_imports = ["Moc.Match", "Moc.Router", "Moc.RouterSpec"]
    harness_bin = "router"
    harness_sub = "c07"
    build_flags = ("-race",)
    sizes = {"quick": 750, "thorough": 8000}
    widen_factor = 2
    coqchk = True
    gen_names = ("g_lock_nest", "g_lock_blocking_under_lock", "g_lock_callbacks",
                 "g_router_buflen_bad", "g_trysend_cases", "g_trysend_has_default", "g_sendifmatch_method",
                 "g_sendifmatch_trysend", "g_recv_req_shape", "g_recv_event_shape", "g_recv_close_shape",
                 "g_serve_defers_unsuball", "g_serve_queue_cap_is_buflen", "g_subs_subscribe_calls",
                 "g_subs_unsubscribe_calls", "g_subs_unsuball_calls", "g_subs_publish_calls", "g_safemap_locks",
                 "RouterHandler", "subscribers.", "safeMap", "trySendCtx", "SendIfMatch")
    rule = ("the handler's context carries nothing about the peer (50%), an http.Request with the same RemoteAddr for every "
            "connection (30%: a relay on a unix socket or behind a proxy) or with distinct ip:port addresses (20%); "
            "45% deterministic scripts (2..5 connections on one RouterHandler, buflen 1..3, 8..31 client operations "
            "REQ/EVENT/CLOSE/COUNT/disconnect/pause-reader/resume-reader executed one at a time, about 7% of them "
            "followed by an immediate disconnect without waiting for the reply, a paused reader that disconnects "
            "mostly does so without reading what is pending; a connection whose reader is paused still sends: 30% of "
            "the operations drawn for it are handed to the relay without waiting for the reply (hop flag p, Coq DPend; "
            "REQ/EVENT/COUNT, or CLOSE whose acknowledging COUNT is then the operation in flight), at most one per "
            "pause because the session takes nothing more until its reply is read; the reply is awaited and stamped "
            "when the reader resumes and stays missing when the client leaves without reading; subscription ids "
            "from {a, b, c, the empty string} shared by all connections, filters from the C02 universe incl. match-all and limits, every "
            "publication with its own id), 15% deterministic connection-churn scripts (same executor; a weighted "
            "random walk over the same operations plus 'open': 2..5 connections exist from the start, 1..3 more "
            "connect to the same router later, typically after subscribers that had stopped reading have left with "
            "their deliveries unread; 30% of its REQs and 8% of its EVENTs are sent by a subscriber that has stopped "
            "reading, if there is one without an operation in flight), 40% concurrent histories (2..8 connections, buflen 1..4, each client "
            "issuing 4..17 operations at its own pace, readers fast / jittery / bursty / stalled; half of the stalled "
            "subscribers and 20% of the other clients end their script by stopping to read and sending one more "
            "message (70% REQ, 20% EVENT, 10% COUNT) whose reply is read only in the final phase or never, half of "
            "the latter resume and publish up to two more events; 30% of them with a "
            "second generation: stalled subscribers leave when the first generation's scripts are over and 1..3 new "
            "connections connect and run scripts of their own); every case ends "
            "with a flush (sentinel publications until every open connection has received one) and a reading of the "
            "registry hooks; binary built with -race, a race report or a panic ends the child process and is "
            "recorded as a crash case; non-trivial = at least one live event reached a connection other than its "
            "publisher; distinct = distinct input scripts")
    trusted_base = COMMON_TRUSTED + [
        "PARTIAL: the model's atomicity (each labelled step is one critical section of safeMap's RWMutex or one "
        "channel operation) is tied to the source only by the extracted lock table g_safemap_locks and the call "
        "shapes in GenRouter.v; that the Go scheduler, sync.RWMutex and channels realise these atomic steps and "
        "their interleaving semantics is trusted (Go memory model)",
        "the concurrent layer samples schedules (with the race detector on); it is evidence, not proof",
        "the harness's global clock (atomic counter) and its placement around channel operations",
    ]
    assumptions = [
        "events have no empty tag (admission gate, C11); otherwise Match panics inside Publish",
        "a disconnect while an operation is in flight is modelled as a cancellation of the session's context: the "
        "operation's registry work is completed (router.recv is not interruptible), its reply is handed over or given "
        "up, then ServeNostr returns; the forwarder goroutine stops when ServeNostr returns (in the code it may hand "
        "over what is still queued a little longer, if the client keeps reading); the client sends nothing after its "
        "disconnect",
        "Go's writer preference of RWMutex is not modelled (it only removes schedules)",
        "an operation handed over by a client that is not reading: the script goes on when the goroutine of that "
        "session is seen parked below ServeNostr in a goroutine dump (bounded wait; scheduling aid of the "
        "deterministic layer only, nothing is recorded); should it be held up all the same, the model is also tried "
        "with the registry work of one such operation done just before the k-th later operation instead of at once",
        "a reply that does not arrive within 10 s, or a flush that does not get through within 40 rounds and 3 s, is recorded as missing",
    ]

    def to_coq(self, I, c):
        if c["k"] == "crash":
            return "(CCrash %s)" % cbool(c.get("race", False))
        ops = clist([_cdop(I, h) for h in c.get("hops") or []], None, "dop")
        outs = clist([clist([_cmsg(I, m) for m in out], None, "(xmsg * Z)%type") for out in c.get("outs") or []],
                     None, "(list (xmsg * Z))")
        drained = clist(c.get("drained") or [], cbool, "bool")
        return "(CHist %s %s %s %s %s %s %s)" % (cbool(c["k"] == "det"), cZ(c["buf"]), ops, outs, drained,
                                                cZ(c.get("reg_end", 0)), cZ(c.get("subs_end", 0)))

    def nontrivial_key(self, c):
        if c["k"] == "crash":
            return None
        n, cross = _deliveries(c)
        if cross > 0:
            return json.dumps(_inputs(c), sort_keys=True)
        return None

    def dedup_key(self, c):
        return c["k"]

    def summarize(self, c):
        if c["k"] == "crash":
            return {"k": "crash", "race": c.get("race"), "msg": (c.get("msg") or "")[:400]}
        n, cross = _deliveries(c)
        return {"k": c["k"], "buf": c["buf"], "nc": c["nc"], "operations": len(c.get("hops") or []),
                "sent_while_not_reading": sum(1 for h in c.get("hops") or [] if h.get("p")),
                "messages_received": sum(len(o) for o in c.get("outs") or []), "live_deliveries": n,
                "cross_connection_deliveries": cross, "reg_end": c.get("reg_end"), "subs_end": c.get("subs_end")}

    def shrink(self, c):
        """chunked delta debugging on the scripts; a round costs a harness run, so few candidates"""
        if c["k"] == "crash":
            return
        c = _inputs(c)
        out = []

        def chunks(xs):
            n = len(xs)
            size = n // 2
            while size >= 1:
                for a in range(0, n, size):
                    yield xs[:a] + xs[a + size:]
                if size == 1:
                    break
                size //= 2

        if c["k"] == "det":
            for sc in chunks(c.get("script") or []):
                out.append(dict(c, script=sc))
            for i, op in enumerate(c.get("script") or []):
                if op["o"] == "req":
                    if len(op.get("fs") or []) > 1:
                        for fs in drop_one(op["fs"]):
                            c2 = copy.deepcopy(c)
                            c2["script"][i]["fs"] = fs
                            out.append(c2)
                    for j, f in enumerate(op.get("fs") or []):
                        if any(f.get(fld) is not None for fld in ("ids", "authors", "kinds", "tags", "since", "until")):
                            c2 = copy.deepcopy(c)
                            for fld in ("ids", "authors", "kinds", "tags", "since", "until"):
                                c2["script"][i]["fs"][j][fld] = None
                            out.append(c2)
        else:
            scripts = c.get("scripts") or []
            for x in range(len(scripts)):
                if scripts[x]:
                    c2 = copy.deepcopy(c)
                    c2["scripts"][x] = []
                    out.append(c2)
            for x in range(len(scripts)):
                for sc in chunks(scripts[x]):
                    c2 = copy.deepcopy(c)
                    c2["scripts"][x] = sc
                    out.append(c2)
        seen = set()
        n = 0
        for c2 in out:
            k = json.dumps(c2, sort_keys=True)
            if k in seen:
                continue
            seen.add(k)
            yield c2
            n += 1
            if n >= 48:
                return

    def distribution(self, cases):
        d = {"det": 0, "conc": 0, "crash": 0, "operations": 0, "live_deliveries": 0, "cross_connection_deliveries": 0,
             "pauses": 0, "disconnects": 0, "disconnects_in_flight": 0, "replies_given_up": 0, "closes": 0,
             "re_reqs_of_an_open_id": 0, "same_sub_id_on_two_connections": 0,
             "stalled_or_slow_readers": 0, "flush_publications": 0, "stuck": 0,
             "late_connections": 0, "late_connections_after_somebody_left": 0, "stalled_disconnects": 0,
             "stalled_disconnects_with_publications_unread": 0, "late_connection_after_such_a_disconnect": 0,
             "conc_with_second_generation": 0,
             "sent_while_not_reading": 0, "sent_while_not_reading_req": 0, "sent_while_not_reading_event": 0,
             "sent_while_not_reading_count": 0, "sent_while_not_reading_reply_read_after_resume": 0,
             "sent_while_not_reading_reply_never_read": 0,
             "publications_of_others_while_a_req_was_in_flight_unread": 0,
             "copies_received_for_a_req_whose_eose_was_still_unread_at_publication": 0}
        for c in cases:
            d[c["k"]] = d.get(c["k"], 0) + 1
            if c["k"] == "crash":
                continue
            n, cross = _deliveries(c)
            d["live_deliveries"] += n
            d["cross_connection_deliveries"] += cross
            d["stuck"] += 1 if c.get("stuck") else 0
            open_ids = {}
            left = 0
            stale = 0
            last_pause = {}
            pubs_at = []
            second = False
            hops = c.get("hops") or []
            for h in hops:
                if not h.get("p"):
                    continue
                d["sent_while_not_reading"] += 1
                d["sent_while_not_reading_" + h["o"]] = d.get("sent_while_not_reading_" + h["o"], 0) + 1
                if h.get("d") is None:
                    d["sent_while_not_reading_reply_never_read"] += 1
                else:
                    d["sent_while_not_reading_reply_read_after_resume"] += 1
                if h["o"] != "req":
                    continue
                end = h["d"] if h.get("d") is not None else min(
                    [k["b"] for k in hops if k["o"] == "disc" and k["c"] == h["c"] and k["b"] > h["b"]] or [1 << 62])
                ids = set()
                for k in hops:
                    if k["o"] == "event" and k["c"] != h["c"] and h["b"] < k["b"] < end and k["e"]["pk"] != FLUSH_PK:
                        d["publications_of_others_while_a_req_was_in_flight_unread"] += 1
                        ids.add(k["e"]["id"])
                out = (c.get("outs") or [])[h["c"]] if h["c"] < len(c.get("outs") or []) else []
                d["copies_received_for_a_req_whose_eose_was_still_unread_at_publication"] += sum(
                    1 for m in out if m["t"] == "event" and m.get("sub") == h.get("sub") and m["e"]["id"] in ids)
            for h in hops:
                o = h["o"]
                if o == "open":
                    d["late_connections"] += 1
                    second = True
                    if left:
                        d["late_connections_after_somebody_left"] += 1
                    if stale:
                        d["late_connection_after_such_a_disconnect"] += 1
                    continue
                d["operations"] += 1
                if o == "pause":
                    last_pause[h["c"]] = h["b"]
                elif o == "resume":
                    last_pause.pop(h["c"], None)
                elif o == "event" and h["e"]["pk"] != FLUSH_PK:
                    pubs_at.append((h["c"], h["b"]))
                elif o == "disc":
                    left += 1
                    if h.get("st"):
                        d["stalled_disconnects"] += 1
                        since = last_pause.get(h["c"], 0 if c["k"] == "conc" else None)
                        if since is not None and any(pc != h["c"] and since < pb < h["b"] for pc, pb in pubs_at):
                            d["stalled_disconnects_with_publications_unread"] += 1
                            stale += 1
                if h.get("x"):
                    d["disconnects_in_flight"] += 1
                    if o != "close" and h.get("d") is None:
                        d["replies_given_up"] += 1
                if o == "pause":
                    d["pauses"] += 1
                elif o == "disc":
                    d["disconnects"] += 1
                    open_ids[h["c"]] = set()
                elif o == "close":
                    d["closes"] += 1
                    open_ids.setdefault(h["c"], set()).discard(h.get("sub"))
                elif o == "req":
                    s = open_ids.setdefault(h["c"], set())
                    if h.get("sub") in s:
                        d["re_reqs_of_an_open_id"] += 1
                    if any(h.get("sub") in t for x, t in open_ids.items() if x != h["c"]):
                        d["same_sub_id_on_two_connections"] += 1
                    s.add(h.get("sub"))
                elif o == "event" and h["e"]["pk"] == FLUSH_PK:
                    d["flush_publications"] += 1
            d["stalled_or_slow_readers"] += sum(1 for r in c.get("readers") or [] if r.get("mode"))
            if second and c["k"] == "conc":
                d["conc_with_second_generation"] += 1
        return d


PROP = C07()
