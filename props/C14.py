import copy
import json
from propbase import Prop, drop_one
from coqterm import cbool, clist, cpair, cfilters, cZ
from C06 import SQL_TRUSTED, ievents, cqres


def cqlist(I, qs):
    return clist(qs or [], lambda q: cqres(I, q), "qres")


class C14(Prop):
    id = "C14"
    coq_targets = ["theories/Properties/C14.vo"]
    check_vo = "theories/Check/C14Check.vo"
    check_module = "Moc.Check.C14Check"
    case_imports = ["Moc.Sql", "Moc.SqlSpec", "Moc.SqlCheckBase"]
    harness_bin = "sql"
    harness_sub = "c14"
    sizes = {"quick": 150, "thorough": 3000}
    gen_names = ("g_sql_", "g_event_type", "handler/sqlite/")
    rule = ("one case in 40 is a big-batch fault case: a batch of 101..135 distinct events of all classes (after at most "
            "one small earlier batch) with the fault injected at a sample of nine driver-call indices (begin, a "
            "prepare, the first exec, the middle, two positions in the last quarter, the last two execs, commit) and "
            "two fixed filter lists.  Of the others, 55% fault cases: 0..2 earlier batches, then a batch of 1..5 events (same generator as C06: all classes, "
            "replacements, deletion requests, duplicates) run through the real insertEvents over a fault-injecting "
            "database/sql driver failing the k-th driver call for EVERY k of the batch (begin, 5 prepares, each exec, "
            "commit); after each failure, after the retry, after a clean run and after inserting the batch twice a fixed "
            "set of 3 limit-free filter lists is queried.  45% reopen cases: 1..6 batches on a file-backed database in "
            "a per-run temp directory, closed and reopened before a batch with probability 60%, next to the same "
            "history without restarts; a quarter of the batches go through one lifetime of a SQLiteHandler (bulk size 50, no "
            "timer: a session submits the events and gets its OKs, the handler's context is cancelled, the final insertion is "
            "awaited with a sentinel event) instead of insertEvents directly; in 20% of them the file already holds its hash seed when the relay first opens "
            "it (0 in half of those, else 1, 2^32-1 or random): every open must report that seed.  A case is non-trivial when the batch changes an answer (fault) or a restart is "
            "followed by a replacement or a deletion that changes an answer (reopen); distinct = distinct input JSON")
    trusted_base = SQL_TRUSTED + [
        "SQLite's transaction contract (a rolled-back transaction leaves no trace): assumed in the model "
        "(insert_batch_faulty), exercised by fault enumeration only",
        "the fault-injecting driver wrapper of the harness (harness/cmd/sql/c14.go)",
    ]
    assumptions = [
        "PARTIAL: atomicity is SQLite's; idempotence, retry and restart-stability are theorems about the relational "
        "model; all four are exercised on the real code for every driver-call index of every generated batch",
        "ids determine timestamps among stored rows and batch events (id_ts_compat; what functional ids give)",
        "a failed COMMIT is injected as rollback + error (the driver wrapper never leaves a transaction open)",
    ]
    signatures = {}

    def to_coq(self, I, c):
        if c.get("panic"):
            return "CBroken"
        qs = clist(c["qs"], lambda fs: cfilters(I, fs), "(list rfilter)")
        if c["k"] == "bigfault":
            return "(CFaultAt %s %s %s %s %s %s %s %s %s %s)" % (
                clist(c.get("pre") or [], lambda b: ievents(I, b), "(list event)"),
                ievents(I, c.get("b") or []), cZ(c["ncalls"]), qs,
                cqlist(I, c.get("before")), clist(c.get("ks") or [], cZ, "Z"),
                clist(c.get("fault") or [], lambda l: cqlist(I, l), "(list qres)"),
                clist(c.get("retry") or [], lambda l: cqlist(I, l), "(list qres)"),
                cqlist(I, c.get("clean")), cqlist(I, c.get("twice")))
        if c["k"] == "fault":
            return "(CFault %s %s %s %s %s %s %s %s %s)" % (
                clist(c.get("pre") or [], lambda b: ievents(I, b), "(list event)"),
                ievents(I, c.get("b") or []), cZ(c["ncalls"]), qs,
                cqlist(I, c.get("before")),
                clist(c.get("fault") or [], lambda l: cqlist(I, l), "(list qres)"),
                clist(c.get("retry") or [], lambda l: cqlist(I, l), "(list qres)"),
                cqlist(I, c.get("clean")), cqlist(I, c.get("twice")))
        steps = clist(c.get("steps") or [],
                      lambda st: "(%s, %s, %s, %s)" % (cbool(st["re"]), ievents(I, st["b"]), cqlist(I, st.get("got")),
                                                        cqlist(I, st.get("ref"))), "rstep")
        return "(CReopen %s %s %s)" % (qs, clist(c.get("seeds") or [], cZ, "Z"), steps)

    def _inputs(self, c):
        if c["k"] in ("fault", "bigfault"):
            return {"k": c["k"], "qs": c["qs"], "pre": c.get("pre") or [], "b": c.get("b") or []}
        d = {"k": "reopen", "qs": c["qs"],
             "steps": [dict({"re": st["re"], "b": st["b"]}, **({"via": st["via"]} if st.get("via") else {}))
                       for st in c.get("steps") or []]}
        if c.get("preset") is not None:
            d["preset"] = c["preset"]
        return d

    def nontrivial_key(self, c):
        def ids(q):
            return sorted(e["id"] for e in q.get("out") or [])
        if c["k"] in ("fault", "bigfault"):
            if c.get("before") and c.get("clean") and [ids(q) for q in c["before"]] != [ids(q) for q in c["clean"]]:
                return json.dumps(self._inputs(c), sort_keys=True)
            return None
        prev = None
        for st in c.get("steps") or []:
            cur = [ids(q) for q in st.get("got") or []]
            if st["re"] and prev is not None and cur != prev and any(set(p) - set(q) for p, q in zip(prev, cur)):
                return json.dumps(self._inputs(c), sort_keys=True)
            prev = cur
        return None

    def summarize(self, c):
        if c["k"] in ("fault", "bigfault"):
            return {"k": c["k"], "pre": [len(b) for b in c.get("pre") or []], "batch": len(c.get("b") or []),
                    "driver_calls": c.get("ncalls"), "fault_positions": c.get("ks") or "all"}
        return {"k": "reopen", "steps": [(st["re"], len(st["b"])) for st in c.get("steps") or []],
                "preset": c.get("preset"), "seeds": c.get("seeds")}

    def distribution(self, cases):
        d = {"fault_cases": 0, "big_batch_fault_cases": 0, "fault_positions": 0, "reopen_cases": 0, "reopens": 0, "batches": 0, "events": 0,
             "queries_answered": 0, "harness_failures": 0}
        for c in cases:
            d["harness_failures"] += bool(c.get("panic"))
            if c["k"] in ("fault", "bigfault"):
                npos = len(c.get("ks") or []) if c["k"] == "bigfault" else (c.get("ncalls") or 0)
                d["fault_cases"] += 1
                d["big_batch_fault_cases"] += c["k"] == "bigfault"
                d["fault_positions"] += npos
                d["batches"] += 1 + len(c.get("pre") or [])
                d["events"] += len(c.get("b") or []) + sum(len(b) for b in c.get("pre") or [])
                d["queries_answered"] += len(c["qs"]) * (3 + 2 * npos)
            else:
                d["reopen_cases"] += 1
                for st in c.get("steps") or []:
                    d["reopens"] += bool(st["re"])
                    d["batches"] += 1
                    d["events"] += len(st["b"])
                    d["queries_answered"] += 2 * len(c["qs"])
        return d

    def shrink(self, c):
        c = self._inputs(c)
        for qs in drop_one(c["qs"]):
            if qs:
                yield dict(copy.deepcopy(c), qs=qs)
        if c["k"] in ("fault", "bigfault"):
            for pre in drop_one(c["pre"]):
                yield dict(copy.deepcopy(c), pre=pre)
            for i, b in enumerate(c["pre"]):
                for b2 in drop_one(b):
                    c2 = copy.deepcopy(c)
                    c2["pre"][i] = b2
                    yield c2
            n = len(c["b"])
            if n > 24:
                # a big batch: drop runs of events; few candidates per round, because every one of them costs
                # nine fresh databases and several seconds of evaluation in one shard
                for parts in (2, 4):
                    w = max(1, n // parts)
                    for lo in range(0, n, w):
                        yield dict(copy.deepcopy(c), b=c["b"][:lo] + c["b"][lo + w:])
                if c["k"] == "bigfault" and n <= 40:
                    # the same batch with every fault position
                    yield dict(copy.deepcopy(c), k="fault")
            else:
                if c["k"] == "bigfault":
                    yield dict(copy.deepcopy(c), k="fault")
                for b in drop_one(c["b"]):
                    yield dict(copy.deepcopy(c), b=b)
        else:
            for steps in drop_one(c["steps"]):
                yield dict(copy.deepcopy(c), steps=steps)
            for i, st in enumerate(c["steps"]):
                for b2 in drop_one(st["b"]):
                    c2 = copy.deepcopy(c)
                    c2["steps"][i]["b"] = b2
                    yield c2
                if st["re"] and sum(1 for s in c["steps"] if s["re"]) > 1:
                    c2 = copy.deepcopy(c)
                    c2["steps"][i]["re"] = False
                    yield c2


PROP = C14()
