import json
from propbase import Prop, COMMON_TRUSTED
from coqterm import cbool, clist
from codeccommon import (cjv, cjv_opt, cwval, cobs, cobs_opt, WTY, jv_shrinks, drop_keys, deep)


def _outcome(c):
    if c["k"] == "seq":
        os_ = [_outcome(s) for s in c.get("steps") or []]
        for o in ("panic", "accepted"):
            if o in os_:
                return o
        return "rejected"
    if c["k"] == "raw":
        return "panic" if c.get("pan") else ("accepted" if c.get("acc") else "rejected")
    o = c.get("o1") or {}
    return {"val": "accepted", "err": "rejected", "panic": "panic"}.get(o.get("r"), "?")


def _text_is_input(c):
    """dec/parse cases whose text is not a print of the JSON value [j] (invalid UTF-8 inside
    strings, which encoding/json's tokenizer has already replaced in [j]): the bytes are the input"""
    return c["k"] in ("dec", "parse") and (c.get("cls") or "").startswith("raw:utf8") and bool(c.get("text"))


def _text_shrinks(c, drop):
    """byte-level deletions of the text of a case (halves, quarters, ... single bytes)"""
    b = bytes.fromhex(c["text"])
    base = drop_keys(c, drop)
    n = len(b)
    step = max(n // 2, 1)
    while step >= 1:
        for i in range(0, n, step):
            yield dict(base, text=(b[:i] + b[i + step:]).hex())
        if step == 1:
            break
        step //= 2


# ---- coarse shrinking: blank every scalar at once (hex strings of 64/128 digits stay) ------------

def _hexlike(h):
    """trace form of a string (hex of its bytes): is the string itself 64 or 128 lower-case hex digits?"""
    if len(h) not in (128, 256):
        return False
    try:
        t = bytes.fromhex(h)
    except ValueError:
        return False
    return all(c in b"0123456789abcdef" for c in t)


def _jv_leaves(j, path=(), top=True):
    if isinstance(j, list):
        for i, x in enumerate(j):
            if top and i == 0:
                continue            # the label
            yield from _jv_leaves(x, path + (i,), False)
    elif isinstance(j, dict) and "o" in j:
        for i, kv in enumerate(j["o"]):
            yield from _jv_leaves(kv[1], path + (i,), False)
    else:
        yield path


def _jv_blank(j, keep=None, path=(), top=True):
    if isinstance(j, list):
        return [x if (top and i == 0) else _jv_blank(x, keep, path + (i,), False) for i, x in enumerate(j)]
    if isinstance(j, dict) and "o" in j:
        return {"o": [[kv[0], _jv_blank(kv[1], keep, path + (i,), False)] for i, kv in enumerate(j["o"])]}
    if path == keep:
        return j
    if isinstance(j, dict) and "s" in j:
        return j if _hexlike(j["s"]) else {"s": ""}
    if isinstance(j, dict) and ("i" in j or "f" in j):
        return {"i": [False, "0"]}
    return j


_X_EV = (("content", ""), ("sig", ""), ("pk", ""), ("id", ""), ("ts", 0), ("kind", 0), ("tags", []))
_X_TOP = (("sub", ""), ("msg", ""), ("id", ""))
_X_F = ("ids", "authors", "kinds", "tags", "since", "until", "limit")


def _x_leaves(v):
    if isinstance(v.get("e"), dict):
        for f, _ in _X_EV:
            yield ("e", f)
    for f, _ in _X_TOP:
        yield (f,)
    for i, f in enumerate(v.get("fs") or []):
        if isinstance(f, dict):
            for fld in _X_F:
                yield ("fs", i, fld)
    if isinstance(v.get("f"), dict):
        for fld in _X_F:
            yield ("f", fld)


def _x_blank(v, keep=None):
    v = deep(v)
    e = v.get("e")
    if isinstance(e, dict):
        for f, z in _X_EV:
            if ("e", f) != keep and not (isinstance(e.get(f), str) and _hexlike(e[f])) and not (f == "tags" and e.get(f) is None):
                e[f] = deep(z)
    for f, z in _X_TOP:
        if (f,) != keep and isinstance(v.get(f), str) and not _hexlike(v[f]):
            v[f] = z
    for i, f in enumerate(v.get("fs") or []):
        if isinstance(f, dict):
            for fld in _X_F:
                if ("fs", i, fld) != keep:
                    f[fld] = None
    if isinstance(v.get("f"), dict):
        for fld in _X_F:
            if ("f", fld) != keep:
                v["f"][fld] = None
    return v


def _blanks(c, limit=40):
    """coarse shrinks of one dec / parse / enc case: everything blank, then everything but one leaf"""
    if c["k"] in ("dec", "parse") and c.get("j") is not None and not _text_is_input(c):
        base = drop_keys(c, ("text", "o1", "o2", "enc", "len"))
        j = c["j"]
        b = _jv_blank(j)
        if b != j:
            yield dict(base, j=b)
            for n, p in enumerate(_jv_leaves(j)):
                if n >= limit:
                    break
                b2 = _jv_blank(j, p)
                if b2 != j and b2 != b:
                    yield dict(base, j=b2)
    elif c["k"] == "enc":
        base = {"k": "enc", "cls": c.get("cls", "")}
        v = c["v"]
        b = _x_blank(v)
        if b != v:
            yield dict(base, v=b)
            for n, p in enumerate(_x_leaves(v)):
                if n >= limit:
                    break
                b2 = _x_blank(v, p)
                if b2 != v and b2 != b:
                    yield dict(base, v=b2)


def cl_utf8(c):
    return (c.get("cls") or "").startswith("raw:utf8")


def _event_of(step):
    """the event a step's accepted value carries, if any (enc: the value marshalled)"""
    if step["k"] == "enc":
        v = step.get("v")
    else:
        v = (step.get("o1") or {}).get("v")
    return (v or {}).get("e")


class C10(Prop):
    id = "C10"
    coq_targets = ["theories/Properties/C10.vo", "theories/Properties/C10Text.vo"]
    theorem_prefixes = ("C10_", "C10T_")
    check_vo = "theories/Check/C10Check.vo"
    check_module = "Moc.Check.C10Check"
    case_imports = ["Moc.Json", "Moc.CodecMsg", "Moc.Codec"]
    harness_bin = "core"
    harness_sub = "c10"
    sizes = {"quick": 9000, "thorough": 150000}
    max_reports = 3
    gen_names = ("g_cevent_", "g_creq_", "g_cclose_", "g_cauth_", "g_ccount_", "g_seose_", "g_sevent_", "g_snotice_",
                 "g_sok_", "g_sauth_", "g_scount_", "g_sclosed_", "g_event_nfields_bad", "g_fkey_", "g_MsgLabel",
                 "g_MachineReadablePrefix", "g_client_msg_regexp", "message.go")
    rule = ("50% JSON values generated per Go target type (event, filter, 5 client, 7 server messages; right shape with 0-2 "
            "point mutations: wrong type, dropped/extra/duplicated/null element or member, upper-cased key, swapped label; "
            "members shuffled; numbers from small integers, int64/uint64 boundaries, -0, 400-digit, fractional/exponent "
            "forms; strings with quotes, controls, multi-byte and astral characters), printed with random insignificant white "
            "space and \\u escapes and fed to json.Unmarshal on the typed target or to ParseClientMsg (8% with leading "
            "white space, 4% with an escaped label), then Marshal and decode again (6% of these "
            "texts with invalid UTF-8 injected, see below); 20% Go values built directly (70% "
            "well-formed, 30% with nil slices/pointers, un-normalised reasons, illegal tag names; 15% of the since/until/limit and "
            "some created_at beyond 2^53 or at the ends of int64), Marshal then Unmarshal; in the value histories every "
            "value's own MarshalJSON is first called directly and the returned bytes are kept: they must be unchanged after "
            "all the other encodings; "
            "20% malformed texts (random bytes, truncations, byte mutations, nesting depth 50..100000, 400-digit numbers, "
            "invalid UTF-8: a quarter of them messages of any type printed with a raw non-UTF-8 byte sequence -- lone 0xff, "
            "lead byte alone, truncated form, encoded surrogate, > U+10FFFF, over-long form, lone continuation -- at a random "
            "position of 15/35/70% of their strings and member names, with and without escapes elsewhere) under recover(): "
            "the ones that still are shallow valid JSON are compared in full, the others only for 'no panic' and "
            "'rejected'; 10% histories of 2-4 related inputs run one after the other inside one case and one process (half "
            "Go values Marshal->Unmarshal, half texts decode->Marshal->decode): a base and variants that repeat it, change "
            "one field / one scalar leaf, get a point mutation, or carry the same payload under a kindred message type; "
            "every step is judged by itself by model and oracle.  Event ids, public keys and signatures are 64/64/128 fresh "
            "hex digits in 40% of the events (never shared between cases; kept by most variants inside a history); "
            "-replay runs every case of a multi-case file in a process of its own.  Non-trivial = a text (of a step) was "
            "accepted or the case is a malformed text; distinct = distinct input.")
    trusted_base = COMMON_TRUSTED + [
        "encoding/json's text layer (tokenising, string unescaping and UTF-8 coercion, white space, depth limit) and regexp: "
        "the model starts from the generic JSON value; the harness reads texts back with encoding/json's own tokenizer",
    ]
    assumptions = [
        "strings of well-formed values are valid UTF-8 (json.Marshal replaces invalid bytes by U+FFFD; generated values are valid UTF-8)",
        "the bare text null (a no-op by Go's Unmarshaler convention) is not claimed (DESIGN.md section 9)",
        "Go map iteration order is irrelevant: filters are compared with their tag maps as maps, objects as maps",
        "the codec is modelled as a function of its input alone; histories (k=seq) test exactly that: process-wide state "
        "shared by the steps of one case makes a step fail; state shared between different cases of one generation run "
        "is not looked for (event ids are fresh per case)",
    ]

    def to_coq(self, I, c):
        k = c["k"]
        if k == "seq":
            return "(CSeq %s)" % clist(c.get("steps") or [], lambda s: self.to_coq(I, s), "case")
        if k == "dec":
            return "(CDec %s %s %s %s %s)" % (WTY[c["ty"]], cjv(I, c.get("j")), cobs(I, c["o1"]),
                                             cjv_opt(I, c.get("enc"), "enc" in c), cobs_opt(I, c.get("o2")))
        if k == "parse":
            return "(CParse %s %s %s %s %s %s)" % (cbool(c.get("lead", False)), cbool(c.get("esc", False)),
                                                  cjv(I, c.get("j")), cobs(I, c["o1"]),
                                                  cjv_opt(I, c.get("enc"), "enc" in c), cobs_opt(I, c.get("o2")))
        if k == "enc":
            return "(CEnc %s %s %s)" % (cwval(I, c["v"]), cjv_opt(I, c.get("enc"), "enc" in c), cobs(I, c["o1"]))
        return "(CRaw %s %s)" % (cbool(c.get("acc", False)), cbool(c.get("pan", False)))

    def _input(self, c):
        if c["k"] == "seq":
            return {"k": "seq", "steps": [self._input(s) for s in c.get("steps") or []]}
        if c["k"] == "enc":
            return {"k": "enc", "v": c["v"]}
        if c["k"] == "raw":
            return {"k": "raw", "ty": c.get("ty"), "text": c.get("text")}
        if _text_is_input(c):
            return {"k": c["k"], "ty": c.get("ty"), "text": c.get("text")}
        return {"k": c["k"], "ty": c.get("ty"), "lead": c.get("lead", False), "esc": c.get("esc", False), "j": c.get("j")}

    def nontrivial_key(self, c):
        if _outcome(c) == "accepted" or c["cls"].startswith("raw:"):
            return json.dumps(self._input(c), sort_keys=True)
        return None

    def dedup_key(self, c):
        if c["k"] == "seq":
            return json.dumps(["seq", c.get("cls"), sorted(set((s["k"], s.get("ty") or (s.get("v") or {}).get("t") or "")
                                                               for s in c.get("steps") or []))])
        return json.dumps([c["k"], c.get("ty"), _outcome(c)])

    def summarize(self, c):
        c = dict(c)
        if len(c.get("text") or "") > 600:
            c["text"] = c["text"][:600] + "..."
        return c

    def shrink(self, c):
        k = c["k"]
        if k == "seq":
            steps = c.get("steps") or []
            base = {"k": "seq", "cls": c.get("cls", "")}
            # one step alone (no longer a history), then without one step, then a smaller step
            if len(steps) > 1:
                for s in steps:
                    yield s
                if len(steps) > 2:
                    for i in range(len(steps)):
                        for j in range(i + 1, len(steps)):
                            yield dict(base, steps=[steps[i], steps[j]])
                for i in range(len(steps)):
                    yield dict(base, steps=steps[:i] + steps[i + 1:])
            elif len(steps) == 1:
                yield steps[0]
            # every step blank at once, then one step blank, then one step blank but for one leaf
            firsts = [next(_blanks(s), None) for s in steps]
            if any(f is not None for f in firsts):
                yield dict(base, steps=[f if f is not None else s for f, s in zip(firsts, steps)])
            if len(steps) > 1:
                for i, s in enumerate(steps):
                    for n, s2 in enumerate(_blanks(s, limit=24 // len(steps))):
                        yield dict(base, steps=steps[:i] + [s2] + steps[i + 1:])
            per = max(100 // max(len(steps), 1), 10)
            self._in_seq = True
            try:
                for i, s in enumerate(steps):
                    for n, s2 in enumerate(self.shrink(s)):
                        if n >= per:
                            break
                        yield dict(base, steps=steps[:i] + [s2] + steps[i + 1:])
            finally:
                self._in_seq = False
            return
        if _text_is_input(c):
            if not c["text"].startswith("rep:"):
                yield from _text_shrinks(c, ("j", "o1", "o2", "enc", "len", "lead", "esc"))
            return
        if k in ("dec", "parse", "enc") and not getattr(self, "_in_seq", False):
            yield from _blanks(c, limit=20)
        if k in ("dec", "parse"):
            base = drop_keys(c, ("text", "o1", "o2", "enc", "len"))
            for j in jv_shrinks(c.get("j")):
                yield dict(base, j=j)
            if c.get("lead"):
                yield dict(base, lead=False)
            if c.get("esc"):
                yield dict(base, esc=False)
        elif k == "raw":
            t = c.get("text") or ""
            if t.startswith("rep:"):
                f = t.split(":")
                n = int(f[1])
                for m in (n // 2, n - 1):
                    if 0 < m < n:
                        yield dict(drop_keys(c, ("acc", "pan", "len")), text=":".join([f[0], str(m)] + f[2:]))
                return
            yield from _text_shrinks(c, ("acc", "pan", "len"))
        elif k == "enc":
            v = c["v"]
            base = {"k": "enc", "cls": c.get("cls", "")}
            if v.get("fs"):
                for i in range(len(v["fs"])):
                    v2 = deep(v)
                    del v2["fs"][i]
                    yield dict(base, v=v2)
            for key in ("e", "f"):
                o = v.get(key)
                if isinstance(o, dict):
                    for fld, val in o.items():
                        if isinstance(val, list) and val:
                            for i in range(len(val)):
                                v2 = deep(v)
                                del v2[key][fld][i]
                                yield dict(base, v=v2)
                        elif val is not None and fld in ("ids", "authors", "kinds", "tags", "since", "until", "limit") and key == "f":
                            v2 = deep(v)
                            v2[key][fld] = None
                            yield dict(base, v=v2)
            for i, f in enumerate(v.get("fs") or []):
                if isinstance(f, dict):
                    for fld, val in f.items():
                        if val is not None:
                            v2 = deep(v)
                            v2["fs"][i][fld] = None
                            yield dict(base, v=v2)
            # scalars: strings to the empty string, numbers to 0
            e = v.get("e")
            if isinstance(e, dict):
                for fld in ("content", "sig", "pk", "id"):
                    if e.get(fld):
                        v2 = deep(v)
                        v2["e"][fld] = ""
                        yield dict(base, v=v2)
                for fld in ("ts", "kind"):
                    if e.get(fld):
                        v2 = deep(v)
                        v2["e"][fld] = 0
                        yield dict(base, v=v2)
            for fld in ("sub", "msg", "id"):
                if v.get(fld):
                    yield dict(base, v=dict(deep(v), **{fld: ""}))

    def distribution(self, cases):
        d = {"by_kind": {}, "by_class": {}, "outcome": {}, "malformed_inputs": 0, "malformed_not_json": 0,
             "texts_accepted": 0, "texts_total": 0, "leading_ws_texts": 0, "escaped_label_texts": 0,
             "values_wellformed": 0, "values_other": 0, "max_text_len": 0,
             "invalid_utf8_texts": 0, "invalid_utf8_texts_accepted": 0,
             "histories": 0, "history_steps": 0, "history_step_by_kind": {}, "history_step_by_change": {},
             "histories_reusing_an_event_id_with_other_fields_changed": 0,
             "events_with_64_hex_id": 0}
        for c in cases:
            k = c["k"]
            if k == "seq":
                steps = c.get("steps") or []
                d["histories"] += 1
                d["history_steps"] += len(steps)
                seen = {}
                reuse = False
                for s in steps:
                    d["history_step_by_kind"][s["k"]] = d["history_step_by_kind"].get(s["k"], 0) + 1
                    ch = s.get("cls", "")
                    d["history_step_by_change"][ch] = d["history_step_by_change"].get(ch, 0) + 1
                    e = _event_of(s)
                    if e and len(e.get("id", "")) == 128:   # hex of 64 bytes
                        d["events_with_64_hex_id"] += 1
                        body = json.dumps(e, sort_keys=True)
                        if seen.setdefault(e["id"], body) != body:
                            reuse = True
                if reuse:
                    d["histories_reusing_an_event_id_with_other_fields_changed"] += 1
            else:
                e = _event_of(c) if k in ("dec", "parse", "enc") else None
                if e and len(e.get("id", "")) == 128:
                    d["events_with_64_hex_id"] += 1
            if cl_utf8(c):
                d["invalid_utf8_texts"] += 1
                if _outcome(c) == "accepted":
                    d["invalid_utf8_texts_accepted"] += 1
            d["by_kind"][k] = d["by_kind"].get(k, 0) + 1
            cl = c.get("cls", "")
            d["by_class"][cl] = d["by_class"].get(cl, 0) + 1
            o = k + ":" + _outcome(c)
            d["outcome"][o] = d["outcome"].get(o, 0) + 1
            if cl.startswith("raw:"):
                d["malformed_inputs"] += 1
            if k == "raw":
                d["malformed_not_json"] += 1
            if k in ("dec", "parse", "raw"):
                d["texts_total"] += 1
                if _outcome(c) == "accepted":
                    d["texts_accepted"] += 1
            if c.get("lead"):
                d["leading_ws_texts"] += 1
            if c.get("esc"):
                d["escaped_label_texts"] += 1
            if cl == "value:wf":
                d["values_wellformed"] += 1
            if cl == "value:other":
                d["values_other"] += 1
            d["max_text_len"] = max(d["max_text_len"], c.get("len", 0))
        d["share_accepted"] = round(d["texts_accepted"] / max(d["texts_total"], 1), 3)
        return d


PROP = C10()
