import json
from propbase import Prop, COMMON_TRUSTED
from coqterm import cbool
from codeccommon import (cjv, cjv_opt, cwval, cobs, cobs_opt, WTY, jv_shrinks, drop_keys, deep)


def _outcome(c):
    if c["k"] == "raw":
        return "panic" if c.get("pan") else ("accepted" if c.get("acc") else "rejected")
    o = c.get("o1") or {}
    return {"val": "accepted", "err": "rejected", "panic": "panic"}.get(o.get("r"), "?")


class C10(Prop):
    id = "C10"
    coq_targets = ["theories/Properties/C10.vo"]
    check_vo = "theories/Check/C10Check.vo"
    check_module = "Moc.Check.C10Check"
    case_imports = ["Moc.Json", "Moc.CodecMsg", "Moc.Codec"]
    harness_bin = "core"
    harness_sub = "c10"
    sizes = {"quick": 9000, "thorough": 150000}
    max_reports = 3
    gen_names = ("g_cevent_", "g_creq_", "g_cclose_", "g_cauth_", "g_ccount_", "g_seose_", "g_sevent_", "g_snotice_",
                 "g_sok_", "g_sauth_", "g_scount_", "g_sclosed_", "g_event_nfields_bad", "g_fkey_", "g_MsgLabel",
                 "g_MachineReadablePrefix", "g_client_msg_regexp", "message.go")
    rule = ("55% JSON values generated per Go target type (event, filter, 5 client, 7 server messages; right shape with 0-2 "
            "point mutations: wrong type, dropped/extra/duplicated/null element or member, upper-cased key, swapped label; "
            "members shuffled; numbers from small integers, int64/uint64 boundaries, -0, 400-digit, fractional/exponent "
            "forms; strings with quotes, controls, multi-byte and astral characters), printed with random insignificant white "
            "space and \\u escapes and fed to json.Unmarshal on the typed target or to ParseClientMsg (8% with leading "
            "white space, 4% with an escaped label), then Marshal and decode again; 20% Go values built directly (70% "
            "well-formed, 30% with nil slices/pointers, un-normalised reasons, illegal tag names), Marshal then Unmarshal; "
            "25% malformed texts (random bytes, truncations, byte mutations, nesting depth 50..100000, 400-digit numbers, "
            "invalid UTF-8) under recover(): the ones that still are shallow valid JSON are compared in full, the others "
            "only for 'no panic' and 'rejected'.  Non-trivial = the text was accepted or the case is a malformed text; "
            "distinct = distinct input.")
    trusted_base = COMMON_TRUSTED + [
        "encoding/json's text layer (tokenising, string unescaping and UTF-8 coercion, white space, depth limit) and regexp: "
        "the model starts from the generic JSON value; the harness reads texts back with encoding/json's own tokenizer",
    ]
    assumptions = [
        "strings of well-formed values are valid UTF-8 (json.Marshal replaces invalid bytes by U+FFFD; generated values are valid UTF-8)",
        "the bare text null (a no-op by Go's Unmarshaler convention) is not claimed (DESIGN.md section 9)",
        "Go map iteration order is irrelevant: filters are compared with their tag maps as maps, objects as maps",
    ]

    def to_coq(self, I, c):
        k = c["k"]
        if k == "dec":
            return "(CDec %s %s %s %s %s)" % (WTY[c["ty"]], cjv(I, c.get("j")), cobs(I, c["o1"]),
                                             cjv_opt(I, c.get("enc"), "enc" in c), cobs_opt(I, c.get("o2")))
        if k == "parse":
            return "(CParse %s %s %s %s %s %s)" % (cbool(c.get("lead", False)), cbool(c.get("esc", False)),
                                                  cjv(I, c.get("j")), cobs(I, c["o1"]),
                                                  cjv_opt(I, c.get("enc"), "enc" in c), cobs_opt(I, c.get("o2")))
        if k == "enc":
            return "(CEnc %s %s %s)" % (cwval(I, c["v"]), cjv_opt(I, c.get("enc"), "enc" in c), cobs(I, c["o1"]))
        return "(CRaw %s %s)" % (cbool(c.get("acc", False)), cbool(c.get("pan", False)))

    def _input(self, c):
        if c["k"] == "enc":
            return {"k": "enc", "v": c["v"]}
        if c["k"] == "raw":
            return {"k": "raw", "ty": c.get("ty"), "text": c.get("text")}
        return {"k": c["k"], "ty": c.get("ty"), "lead": c.get("lead", False), "esc": c.get("esc", False), "j": c.get("j")}

    def nontrivial_key(self, c):
        if _outcome(c) == "accepted" or c["cls"].startswith("raw:"):
            return json.dumps(self._input(c), sort_keys=True)
        return None

    def dedup_key(self, c):
        return json.dumps([c["k"], c.get("ty"), _outcome(c)])

    def summarize(self, c):
        c = dict(c)
        if len(c.get("text") or "") > 600:
            c["text"] = c["text"][:600] + "..."
        return c

    def shrink(self, c):
        k = c["k"]
        if k in ("dec", "parse"):
            base = drop_keys(c, ("text", "o1", "o2", "enc", "len"))
            for j in jv_shrinks(c.get("j")):
                yield dict(base, j=j)
            if c.get("lead"):
                yield dict(base, lead=False)
            if c.get("esc"):
                yield dict(base, esc=False)
        elif k == "raw":
            t = c.get("text") or ""
            if t.startswith("rep:"):
                f = t.split(":")
                n = int(f[1])
                for m in (n // 2, n - 1):
                    if 0 < m < n:
                        yield dict(drop_keys(c, ("acc", "pan", "len")), text=":".join([f[0], str(m)] + f[2:]))
                return
            b = bytes.fromhex(t)
            base = drop_keys(c, ("acc", "pan", "len"))
            n = len(b)
            step = max(n // 2, 1)
            while step >= 1:
                for i in range(0, n, step):
                    yield dict(base, text=(b[:i] + b[i + step:]).hex())
                if step == 1:
                    break
                step //= 2
        elif k == "enc":
            v = c["v"]
            base = {"k": "enc", "cls": c.get("cls", "")}
            if v.get("fs"):
                for i in range(len(v["fs"])):
                    v2 = deep(v)
                    del v2["fs"][i]
                    yield dict(base, v=v2)
            for key in ("e", "f"):
                o = v.get(key)
                if isinstance(o, dict):
                    for fld, val in o.items():
                        if isinstance(val, list) and val:
                            for i in range(len(val)):
                                v2 = deep(v)
                                del v2[key][fld][i]
                                yield dict(base, v=v2)
                        elif val is not None and fld in ("ids", "authors", "kinds", "tags", "since", "until", "limit") and key == "f":
                            v2 = deep(v)
                            v2[key][fld] = None
                            yield dict(base, v=v2)
            for i, f in enumerate(v.get("fs") or []):
                if isinstance(f, dict):
                    for fld, val in f.items():
                        if val is not None:
                            v2 = deep(v)
                            v2["fs"][i][fld] = None
                            yield dict(base, v=v2)

    def distribution(self, cases):
        d = {"by_kind": {}, "by_class": {}, "outcome": {}, "malformed_inputs": 0, "malformed_not_json": 0,
             "texts_accepted": 0, "texts_total": 0, "leading_ws_texts": 0, "escaped_label_texts": 0,
             "values_wellformed": 0, "values_other": 0, "max_text_len": 0}
        for c in cases:
            k = c["k"]
            d["by_kind"][k] = d["by_kind"].get(k, 0) + 1
            cl = c.get("cls", "")
            d["by_class"][cl] = d["by_class"].get(cl, 0) + 1
            o = k + ":" + _outcome(c)
            d["outcome"][o] = d["outcome"].get(o, 0) + 1
            if cl.startswith("raw:"):
                d["malformed_inputs"] += 1
            if k == "raw":
                d["malformed_not_json"] += 1
            if k in ("dec", "parse", "raw"):
                d["texts_total"] += 1
                if _outcome(c) == "accepted":
                    d["texts_accepted"] += 1
            if c.get("lead"):
                d["leading_ws_texts"] += 1
            if c.get("esc"):
                d["escaped_label_texts"] += 1
            if cl == "value:wf":
                d["values_wellformed"] += 1
            if cl == "value:other":
                d["values_other"] += 1
            d["max_text_len"] = max(d["max_text_len"], c.get("len", 0))
        d["share_accepted"] = round(d["texts_accepted"] / max(d["texts_total"], 1), 3)
        return d


PROP = C10()
