import copy
import json
from propbase import Prop, COMMON_TRUSTED, drop_one
from coqterm import cbool, clist, cpair, cevent, cfilters, cevents


def _has_empty_list(f):
    for k in ("ids", "authors", "kinds"):
        if f.get(k) == []:
            return True
    for tc in f.get("tags") or []:
        if tc["v"] == []:
            return True
    return False


class C02(Prop):
    id = "C02"
    coq_targets = ["theories/Properties/C02.vo"]
    check_vo = "theories/Check/C02Check.vo"
    check_module = "Moc.Check.C02Check"
    harness_bin = "core"
    harness_sub = "c02"
    sizes = {"quick": 6000, "thorough": 500000}
    gen_names = ("g_since_reject", "g_until_reject", "g_ids_reject", "g_kinds_reject", "g_authors_reject",
                 "g_tags_reject", "g_tag_has_value", "g_done", "event_matcher.go")
    rule = ("70% (event, filter list) pairs, 30% (filter list, event sequence) runs of the limit-counting matcher, "
            "drawn from a small universe (3 ids, 3 authors, 5 kinds, 5 tag names, 4 values incl. empty, timestamps 0..6 "
            "with since/until 0..7, and in 6% of the draws a created_at / since / until at the ends of int64: MinInt64, "
            "MinInt64+1, -9e18, -10, -1, 2^31, 2^32, 9e18, both sides of MaxInt64-62135596800, MaxInt64-1, MaxInt64; with the same chance a kind outside 0..65535 that agrees with a kind of the universe modulo 2^16 "
            "or 2^32, and twice as often an event tag whose multi-letter name begins with a filter key: title, emoji, proxy, alt, ee) so that present/absent/empty conditions, boundary timestamps and second-occurrence "
            "tags all occur; a case is non-trivial when at least one filter matches and at least one does not (pairs) or "
            "when Done flips during the run (sequences); distinct = distinct JSON of the case")
    trusted_base = COMMON_TRUSTED
    assumptions = [
        "events have no empty tag (admission gate, C11); filters are ones the decoder can produce (tag map keys distinct)",
        "Go map semantics (membership, len) as modelled by association lists with distinct keys",
    ]

    def to_coq(self, I, c):
        # "mod": the matchers rewrote the filter values they were given.  There is no such observation in the
        # model; the case is printed with an answer no matcher can give (the list verdict, resp. the initial Done,
        # negated), so that model and oracle both reject it.
        mod = bool(c.get("mod"))
        if c["k"] == "match":
            per = c.get("per") or []
            anyv = bool(c["any"])
            if mod:
                anyv = not any(per)
            return "(CMatch %s %s %s %s)" % (cevent(I, c["e"]), cfilters(I, c["fs"]),
                                            clist(per, cbool, "bool"), cbool(anyv))
        return "(CSeq %s %s %s %s)" % (cfilters(I, c["fs"]), cevents(I, c.get("es") or []),
                                       cbool(bool(c["done0"]) != mod),
                                       clist(c.get("steps") or [], lambda s: cpair(cbool(s[0]), cbool(s[1])),
                                             "(bool * bool)%type"))

    def nontrivial_key(self, c):
        if c["k"] == "match":
            per = c.get("per") or []
            if True in per and False in per:
                return json.dumps([c["e"], c["fs"]], sort_keys=True)
            return None
        steps = c.get("steps") or []
        dn = [c["done0"]] + [s[1] for s in steps]
        if any(a != b for a, b in zip(dn, dn[1:])):
            return json.dumps([c["fs"], c.get("es")], sort_keys=True)
        return None

    def shrink(self, c):
        c = {k: v for k, v in c.items() if k not in ("per", "any", "done0", "steps", "mod")}
        if len(c.get("es") or []) > 200:
            return      # the long run is replayed as it is (thousands of one-event-fewer candidates would cost hours)
        for fs in drop_one(c["fs"]):
            yield dict(c, fs=fs)
        if c["k"] == "seq":
            for es in drop_one(c.get("es") or []):
                yield dict(c, es=es)
        evs = [("e", None)] if c["k"] == "match" else [("es", i) for i in range(len(c.get("es") or []))]
        for key, i in evs:
            e = c["e"] if i is None else c["es"][i]
            for tags in drop_one(e["tags"]):
                e2 = dict(e, tags=tags)
                c2 = copy.deepcopy(c)
                if i is None:
                    c2["e"] = e2
                else:
                    c2["es"][i] = e2
                yield c2
        for j, f in enumerate(c["fs"]):
            for fld in ("ids", "authors", "kinds", "tags", "since", "until", "limit"):
                if f.get(fld) is not None:
                    c2 = copy.deepcopy(c)
                    c2["fs"][j][fld] = None
                    yield c2
                    if isinstance(f[fld], list) and len(f[fld]) > 1:
                        for l in drop_one(f[fld]):
                            c3 = copy.deepcopy(c)
                            c3["fs"][j][fld] = l
                            yield c3

    def distribution(self, cases):
        d = {"pairs": 0, "sequences": 0, "filters": 0, "filters_with_empty_list": 0, "filter_matches": 0,
             "filter_nonmatches": 0, "sequence_steps": 0, "done_true_observations": 0}
        for c in cases:
            d["filters"] += len(c["fs"])
            d["filters_with_empty_list"] += sum(1 for f in c["fs"] if _has_empty_list(f))
            if c["k"] == "match":
                d["pairs"] += 1
                per = c.get("per") or []
                d["filter_matches"] += per.count(True)
                d["filter_nonmatches"] += per.count(False)
            else:
                d["sequences"] += 1
                st = c.get("steps") or []
                d["sequence_steps"] += len(st)
                d["done_true_observations"] += sum(1 for s in st if s[1])
        return d


PROP = C02()
