import json
from propbase import Prop, COMMON_TRUSTED
import mergecommon as mc


class C08(Prop):
    id = "C08"
    coq_targets = ["theories/Properties/C08.vo"]
    check_vo = "theories/Check/C08Check.vo"
    check_module = "Moc.Check.C08Check"
    harness_bin = "core"
    harness_sub = "c08"
    case_imports = ["Moc.Match", "Moc.Merge", "Moc.MergeMulti"]
    sizes = {"quick": 1500, "thorough": 40000}
    gen_names = ("g_merge_too_few", "g_eose_already", "g_eose_incomplete", "g_event_unsendable",
                 "g_req_seteose_absent", "g_req_alleose_missing", "g_req_alleose_delete",
                 "g_ev_all_eose", "g_ev_child_eose", "g_ev_has_last", "g_ev_older_first", "g_ev_ts_decreased",
                 "g_ev_seen_reject", "g_ev_done", "g_ev_nomatch", "g_done", "handler.go")
    rule = ("histories for the real NewMergeHandler with 2-4 scripted children, one message in flight at a time "
            "(sentinel-NOTICE quiescence protocol): per REQ every child gets a script 'stored events (sorted, "
            "sometimes not; duplicates across children from a pool of 3-8 events with timestamps 0..4, 4% at the ends of int64), EOSE "
            "(sometimes never, sometimes twice), live events'; scripts are interleaved at random with each other and "
            "with client CLOSE, a second subscription, re-issued REQs, NOTICE/CLOSED and a little EVENT/OK traffic; 40% of "
            "the child messages that directly follow a client message are emitted while the broadcast of that client message "
            "has reached only the children before that child (the session has taken the message, the child has not seen it); "
            "n/15 histories 'every child but the last has answered, the client sends CLOSE (or the REQ again), the last "
            "child's answer overtakes the broadcast'; "
            "filters: 1-2, mostly wide, limit 0..4 in 60%; in every tier 24 histories with many children (31, 32, 33, 63, 64, 65, "
            "66, 70 children: one REQ, every child but one sends 'sometimes an event, EOSE' in random order, the remaining "
            "child — the first, the last, a random one — answers last, then a live event); in every tier 4 histories with very "
            "many stored events of ONE created_at (130, 520, 1030, 2060 distinct events from child 0, its EOSE, then six of them "
            "again from child 1 — the first three, the middle one, the last, a random one — and its EOSE: every repeat is to be dropped); n/10 more histories in which ONE "
            "handler value serves 2-3 sessions, each with a history of its own from the same generator (same subscription "
            "ids, overlapping event pools), interleaved at random and judged session by session; non-trivial = the merged EOSE was emitted and before it at "
            "least one event was forwarded and one dropped; distinct = distinct JSON of the inputs")
    trusted_base = COMMON_TRUSTED + [
        "the scripted-children driver harness/cmd/core/merge_driver.go (sentinel protocol: per-child FIFO through "
        "one forwarder and the single handleSend loop)",
        "atomicity of the critical sections of mergeHandlerSession (state passed through 1-slot channels) — Go "
        "memory model; the unbuffered plumbing between them is C13's",
        "several sessions: a scripted child learns the session of a ServeNostr call from a context value that the merge "
        "handler hands down to its children",
    ]
    assumptions = [
        "child indices are in range, events carry no empty tag, REQ filter lists are non-nil and decoder-producible "
        "(trace_ok); the per-window theorems need nothing else",
        "a child's EOSE/EVENT inside a REQ window is read as that child's answer to the window's REQ (wf_trace: the id is "
        "not re-issued before its merged EOSE, a child sends EOSE once per REQ and after it)",
    ]

    def to_coq(self, I, c):
        return mc.ccase(I, c)

    def nontrivial_key(self, c):
        # per session: the merged EOSE was emitted, and before it one event was forwarded and one dropped
        eose, fwd, drop = set(), set(), set()
        for st in c.get("steps") or []:
            if st["k"] != "child":
                continue
            ss = st.get("s", 0)
            t = st["m"]["t"]
            out = st.get("out") or []
            if t == "eose" and out:
                eose.add(ss)
            if t == "event" and ss not in eose:
                if out:
                    fwd.add(ss)
                else:
                    drop.add(ss)
        if eose & fwd & drop:
            return json.dumps(mc.strip(c), sort_keys=True)
        return None

    def dedup_key(self, c):
        return json.dumps(mc.strip(c), sort_keys=True)

    def shrink(self, c):
        return mc.shrink_steps(c)

    def summarize(self, c):
        return mc.summarize(c)

    def extra_coverage(self, cases, tier):
        if tier != "thorough":
            return {}
        return {"exhaustive_subspace": "all interleavings of 6 pairs of child scripts (<= 7 messages, 2 children, one REQ with limit 2): 120 histories, prepended to the random ones"}

    def distribution(self, cases):
        d = {"histories": len(cases), "children_2": 0, "children_3": 0, "children_4": 0, "steps": 0,
             "client_req": 0, "client_close": 0, "child_eose": 0, "merged_eose": 0, "child_event": 0,
             "events_forwarded": 0, "events_dropped": 0, "histories_with_31_or_more_children": 0,
             "histories_with_65_or_more_children": 0, "histories_with_over_1024_events_of_one_timestamp": 0, "histories_with_2_sessions": 0, "histories_with_3_sessions": 0,
             "failed_runs": 0, "child_messages_overtaking_a_client_broadcast": 0, "of_which_after_a_close": 0}
        for c in cases:
            prev = None
            for st in c.get("steps") or []:
                if st.get("early_ran"):
                    d["child_messages_overtaking_a_client_broadcast"] += 1
                    if prev and prev["k"] == "close":
                        d["of_which_after_a_close"] += 1
                prev = st
            d["children_%d" % c["n"]] = d.get("children_%d" % c["n"], 0) + 1
            if c.get("fail"):
                d["failed_runs"] += 1
            if c["n"] >= 31:
                d["histories_with_31_or_more_children"] += 1
            ev_steps = [st for st in (c.get("steps") or []) if st["k"] == "child" and st["m"]["t"] == "event"]
            if len(ev_steps) > 1024 and len(set(st["m"]["e"]["ts"] for st in ev_steps)) == 1:
                d["histories_with_over_1024_events_of_one_timestamp"] += 1
            if c["n"] >= 65:
                d["histories_with_65_or_more_children"] += 1
            if mc.nsessions(c) > 1:
                key = "histories_with_%d_sessions" % mc.nsessions(c)
                d[key] = d.get(key, 0) + 1
            for st in c.get("steps") or []:
                d["steps"] += 1
                k = st["k"]
                if k == "req":
                    d["client_req"] += 1
                elif k == "close":
                    d["client_close"] += 1
                elif k == "child":
                    t = st["m"]["t"]
                    out = st.get("out") or []
                    if t == "eose":
                        d["child_eose"] += 1
                        d["merged_eose"] += len(out)
                    elif t == "event":
                        d["child_event"] += 1
                        if out:
                            d["events_forwarded"] += 1
                        else:
                            d["events_dropped"] += 1
        return d


PROP = C08()
