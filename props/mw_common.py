"""Printing helpers shared by props/C17.py and props/C18.py (group mw):
harness JSON of messages, operations, observations and middleware
descriptions as Gallina terms over Msg.v / Mw.v / MwCheck.v."""
import copy
from coqterm import cbool, cZ, clist, copt, cpair, cevent, cfilters

KINDS = {
    "max_subs": "MaxSubs", "max_filters": "MaxFilters", "max_limit": "MaxLimit", "max_subid": "MaxSubIDLen",
    "max_event_tags": "MaxEventTags", "max_content": "MaxContentLen", "created_lower": "CreatedLower",
    "created_upper": "CreatedUpper", "recv_unique": "RecvUnique", "send_unique": "SendUnique",
}
CLIENT_TYPES = ("EVENT", "REQ", "CLOSE", "AUTH", "COUNT")
SERVER_TYPES = ("EOSE", "EVENT", "NOTICE", "OK", "AUTH", "COUNT", "CLOSED")


class Broken(Exception):
    pass


def c_cmsg(I, m):
    t = m["t"]
    if t == "EVENT":
        return "(CEvent %s)" % cevent(I, m["e"])
    if t == "AUTH":
        return "(CAuth %s)" % cevent(I, m["e"])
    if t == "REQ":
        return "(CReq %s %s)" % (I.s(m.get("sub", "")), cfilters(I, m.get("fs") or []))
    if t == "COUNT":
        return "(CCount %s %s)" % (I.s(m.get("sub", "")), cfilters(I, m.get("fs") or []))
    if t == "CLOSE":
        return "(CClose %s)" % I.s(m.get("sub", ""))
    raise Broken(t)


def c_smsg(I, m):
    t = m["t"]
    if t == "EOSE":
        return "(SEose %s)" % I.s(m.get("sub", ""))
    if t == "EVENT":
        return "(SEvent %s %s)" % (I.s(m.get("sub", "")), cevent(I, m["e"]))
    if t == "NOTICE":
        return "(SNotice %s)" % I.s(m.get("msg", ""))
    if t == "OK":
        return "(SOk %s %s %s %s)" % (I.s(m.get("id", "")), cbool(m.get("acc", False)), I.s(m.get("prefix", "")),
                                      I.s(m.get("msg", "")))
    if t == "AUTH":
        return "(SAuth %s)" % I.s(m.get("msg", ""))
    if t == "COUNT":
        return "(SCount %s %s %s)" % (I.s(m.get("sub", "")), cZ(m.get("count", 0)), copt(m.get("approx"), cbool, "bool"))
    if t == "CLOSED":
        return "(SClosed %s %s %s)" % (I.s(m.get("sub", "")), I.s(m.get("prefix", "")), I.s(m.get("msg", "")))
    raise Broken(t)


def c_op(I, op):
    if op["d"] == "c":
        return "(OClient %s)" % c_cmsg(I, op["c"])
    return "(OServer %s)" % c_smsg(I, op["m"])


def c_obs(I, ob):
    if ob.get("timeout"):
        raise Broken("timeout")
    return cpair(clist(ob.get("down") or [], lambda m: c_cmsg(I, m), "cmsg"),
                 clist(ob.get("client") or [], lambda m: c_smsg(I, m), "smsg"))


def c_desc(I, s):
    t = s["t"]
    if t in KINDS:
        return "(DK (%s %s))" % (KINDS[t], cZ(s.get("n", 0)))
    if t == "created_window":
        return "(DK (CreatedWindow %s %s))" % (cZ(s.get("from", 0)), cZ(s.get("to", 0)))
    if t == "allow":
        return "(DAllow %s)" % cfilters(I, s.get("fs") or [])
    if t == "deny":
        return "(DDeny %s)" % cfilters(I, s.get("fs") or [])
    raise Broken(t)


def strip_outputs(c):
    """inputs only: drop what the harness recomputes"""
    c = copy.deepcopy(c)
    for k in ("now", "built", "obs"):
        c.pop(k, None)
    return c


def simpler_msgs(ops):
    """yield op lists in which one message is made smaller"""
    for i, op in enumerate(ops):
        m = op.get("c") if op["d"] == "c" else op.get("m")
        if not m:
            continue
        key = "c" if op["d"] == "c" else "m"
        if m.get("fs"):
            for j in range(len(m["fs"])):
                o2 = copy.deepcopy(ops)
                del o2[i][key]["fs"][j]
                yield o2
            for j, f in enumerate(m["fs"]):
                for fld in ("ids", "authors", "kinds", "tags", "since", "until", "limit"):
                    if f.get(fld) is not None:
                        o2 = copy.deepcopy(ops)
                        o2[i][key]["fs"][j][fld] = None
                        yield o2
        e = m.get("e")
        if e:
            if e.get("tags"):
                for j in range(len(e["tags"])):
                    o2 = copy.deepcopy(ops)
                    del o2[i][key]["e"]["tags"][j]
                    yield o2
            if e.get("content"):
                o2 = copy.deepcopy(ops)
                o2[i][key]["e"]["content"] = e["content"][:-1]
                yield o2


def fewer_ops(ops):
    """smaller operation lists, big cuts first (nothing, halves, then one by one)"""
    n = len(ops)
    if n == 0:
        return
    yield []
    if n > 3:
        yield ops[:n // 2]
        yield ops[n // 2:]
        q = max(n // 4, 1)
        for i in range(0, n, q):
            yield ops[:i] + ops[i + q:]
    for i in range(n):
        yield ops[:i] + ops[i + 1:]


def op_label(op):
    return ("c:" + op["c"]["t"]) if op["d"] == "c" else ("s:" + op["m"]["t"])


def count_ops(cases, d):
    for c in cases:
        for op, ob in zip(c.get("ops") or [], c.get("obs") or []):
            lab = op_label(op)
            d["ops_" + lab] = d.get("ops_" + lab, 0) + 1
            if ob.get("timeout"):
                d["timeouts"] = d.get("timeouts", 0) + 1
            if op["d"] == "c":
                if ob.get("down"):
                    d["client_msgs_forwarded"] = d.get("client_msgs_forwarded", 0) + 1
                if ob.get("client"):
                    d["client_msgs_answered"] = d.get("client_msgs_answered", 0) + 1
            else:
                if ob.get("client"):
                    d["server_msgs_delivered"] = d.get("server_msgs_delivered", 0) + 1
                else:
                    d["server_msgs_dropped"] = d.get("server_msgs_dropped", 0) + 1
    return d
