"""Printing helpers shared by props/C17.py and props/C18.py (group mw):
harness JSON of messages, operations, observations and middleware
descriptions as Gallina terms over Msg.v / Mw.v / MwCheck.v."""
import copy
from coqterm import cbool, cZ, cnat, clist, copt, cpair, cevent, cfilters

KINDS = {
    "max_subs": "MaxSubs", "max_filters": "MaxFilters", "max_limit": "MaxLimit", "max_subid": "MaxSubIDLen",
    "max_event_tags": "MaxEventTags", "max_content": "MaxContentLen", "created_lower": "CreatedLower",
    "created_upper": "CreatedUpper", "recv_unique": "RecvUnique", "send_unique": "SendUnique",
}
CLIENT_TYPES = ("EVENT", "REQ", "CLOSE", "AUTH", "COUNT")
SERVER_TYPES = ("EOSE", "EVENT", "NOTICE", "OK", "AUTH", "COUNT", "CLOSED")


class Broken(Exception):
    pass


def c_cmsg(I, m):
    t = m["t"]
    if t == "EVENT":
        return "(CEvent %s)" % cevent(I, m["e"])
    if t == "AUTH":
        return "(CAuth %s)" % cevent(I, m["e"])
    if t == "REQ":
        return "(CReq %s %s)" % (I.s(m.get("sub", "")), cfilters(I, m.get("fs") or []))
    if t == "COUNT":
        return "(CCount %s %s)" % (I.s(m.get("sub", "")), cfilters(I, m.get("fs") or []))
    if t == "CLOSE":
        return "(CClose %s)" % I.s(m.get("sub", ""))
    raise Broken(t)


def c_smsg(I, m):
    t = m["t"]
    if t == "EOSE":
        return "(SEose %s)" % I.s(m.get("sub", ""))
    if t == "EVENT":
        return "(SEvent %s %s)" % (I.s(m.get("sub", "")), cevent(I, m["e"]))
    if t == "NOTICE":
        return "(SNotice %s)" % I.s(m.get("msg", ""))
    if t == "OK":
        return "(SOk %s %s %s %s)" % (I.s(m.get("id", "")), cbool(m.get("acc", False)), I.s(m.get("prefix", "")),
                                      I.s(m.get("msg", "")))
    if t == "AUTH":
        return "(SAuth %s)" % I.s(m.get("msg", ""))
    if t == "COUNT":
        return "(SCount %s %s %s)" % (I.s(m.get("sub", "")), cZ(m.get("count", 0)), copt(m.get("approx"), cbool, "bool"))
    if t == "CLOSED":
        return "(SClosed %s %s %s)" % (I.s(m.get("sub", "")), I.s(m.get("prefix", "")), I.s(m.get("msg", "")))
    raise Broken(t)


def c_op(I, op):
    if op["d"] == "c":
        return "(OClient %s)" % c_cmsg(I, op["c"])
    if op["d"] == "s":
        return "(OServer %s)" % c_smsg(I, op["m"])
    raise Broken(op["d"])


def is_life(op):
    return op["d"] in ("start", "end")


def c_lop(I, op):
    """an operation of a history in which connections come and go"""
    if op["d"] == "start":
        return "LStart"
    if op["d"] == "end":
        return "LEnd"
    return "(LOp %s)" % c_op(I, op)


def c_life_history(I, ops):
    return clist(ops, lambda o: cpair(cnat(o.get("s", 0)), c_lop(I, o)), "(nat * lop)%type")


def c_obs(I, ob):
    if ob.get("timeout"):
        raise Broken("timeout")
    return cpair(clist(ob.get("down") or [], lambda m: c_cmsg(I, m), "cmsg"),
                 clist(ob.get("client") or [], lambda m: c_smsg(I, m), "smsg"))


def c_desc(I, s):
    t = s["t"]
    if t in KINDS:
        return "(DK (%s %s))" % (KINDS[t], cZ(s.get("n", 0)))
    if t == "created_window":
        return "(DK (CreatedWindow %s %s))" % (cZ(s.get("from", 0)), cZ(s.get("to", 0)))
    if t == "allow":
        return "(DAllow %s)" % cfilters(I, s.get("fs") or [])
    if t == "deny":
        return "(DDeny %s)" % cfilters(I, s.get("fs") or [])
    raise Broken(t)


def strip_outputs(c):
    """inputs only: drop what the harness recomputes"""
    c = copy.deepcopy(c)
    for k in ("now", "built", "obs"):
        c.pop(k, None)
    return c


def simpler_msgs(ops):
    """yield op lists in which one message is made smaller"""
    for i, op in enumerate(ops):
        m = op.get("c") if op["d"] == "c" else op.get("m")
        if not m:
            continue
        key = "c" if op["d"] == "c" else "m"
        e = m.get("e")
        if e and e.get("org"):
            # an unusual created_at -> the plain one (the run's clock)
            o2 = copy.deepcopy(ops)
            o2[i][key]["e"]["org"] = ""
            o2[i][key]["e"]["dts"] = 0
            yield o2
        if e and e.get("kind") not in (None, 1):
            o2 = copy.deepcopy(ops)
            o2[i][key]["e"]["kind"] = 1
            yield o2
        if m.get("fs"):
            for j in range(len(m["fs"])):
                o2 = copy.deepcopy(ops)
                del o2[i][key]["fs"][j]
                yield o2
            for j, f in enumerate(m["fs"]):
                for fld in ("ids", "authors", "kinds", "tags", "since", "until", "limit"):
                    if f.get(fld) is not None:
                        o2 = copy.deepcopy(ops)
                        o2[i][key]["fs"][j][fld] = None
                        yield o2
        e = m.get("e")
        if e:
            if e.get("tags"):
                for j in range(len(e["tags"])):
                    o2 = copy.deepcopy(ops)
                    del o2[i][key]["e"]["tags"][j]
                    yield o2
            if e.get("content"):
                o2 = copy.deepcopy(ops)
                o2[i][key]["e"]["content"] = e["content"][:-1]
                yield o2


def fewer_ops(ops):
    """smaller operation lists, big cuts first (nothing, halves, then one by one)"""
    n = len(ops)
    if n == 0:
        return
    yield []
    if n > 3:
        yield ops[:n // 2]
        yield ops[n // 2:]
        q = max(n // 4, 1)
        for i in range(0, n, q):
            yield ops[:i] + ops[i + q:]
    for i in range(n):
        yield ops[:i] + ops[i + 1:]


def op_label(op):
    if is_life(op):
        return "life:" + op["d"]
    return ("c:" + op["c"]["t"]) if op["d"] == "c" else ("s:" + op["m"]["t"])


def life_stats(c):
    """connections of a case: how many began, how many began after another one of the
    same middleware value had ended, how many of those after one that ended with state
    (a forwarded REQ not closed, an EVENT seen) -- the shapes a leak between
    connections needs"""
    began = after_end = after_dirty_end = 0
    dirty = {}            # slot -> the live connection has state
    ended = dirty_ended = False
    for op, ob in zip(c.get("ops") or [], c.get("obs") or []):
        s = op.get("s", 0)
        if op["d"] == "start":
            began += 1
            after_end += 1 if ended else 0
            after_dirty_end += 1 if dirty_ended else 0
            dirty[s] = False
        elif op["d"] == "end":
            if s in dirty:
                ended = True
                dirty_ended = dirty_ended or dirty.pop(s)
        elif s in dirty:
            if op["d"] == "c" and op["c"]["t"] in ("REQ", "EVENT") and ob.get("down"):
                dirty[s] = True
            if op["d"] == "s" and op["m"]["t"] == "EVENT":
                dirty[s] = True
    return began, after_end, after_dirty_end


def count_life(cases, d):
    d.setdefault("connections_begun", 0)
    d.setdefault("connections_begun_after_another_ended", 0)
    d.setdefault("connections_begun_after_another_ended_with_state", 0)
    d.setdefault("cases_with_a_connection_after_one_ended_with_state", 0)
    for c in cases:
        a, b, e = life_stats(c)
        d["connections_begun"] += a
        d["connections_begun_after_another_ended"] += b
        d["connections_begun_after_another_ended_with_state"] += e
        d["cases_with_a_connection_after_one_ended_with_state"] += 1 if e else 0
    return d


def unusual_created_at(cases, d):
    """EVENT messages by the origin of their created_at"""
    for c in cases:
        for op in c.get("ops") or []:
            m = op.get("c") or op.get("m") or {}
            e = m.get("e")
            if e and e.get("org"):
                k = "created_at_" + e["org"]
                d[k] = d.get(k, 0) + 1
            elif e and abs(e.get("dts", 0)) > 10 ** 9:
                d["created_at_saturating_duration"] = d.get("created_at_saturating_duration", 0) + 1
    return d


def fewer_connections(c):
    """smaller life cycles: drop a connection with all its operations; drop an end (the
    connection stays); renumber when the highest slot is unused"""
    ops = c.get("ops") or []
    n = c.get("nsess", 1) or 1
    for s in range(n):
        keep = [o for o in ops if o.get("s", 0) != s]
        if len(keep) < len(ops):
            yield dict(c, ops=keep)
    for i, o in enumerate(ops):
        if o["d"] == "end":
            yield dict(c, ops=ops[:i] + ops[i + 1:])
    used = {o.get("s", 0) for o in ops}
    if n > 1:
        for s in range(n):
            if s not in used:
                yield dict(c, nsess=n - 1, ops=[dict(o, s=o["s"] - 1 if o.get("s", 0) > s else o.get("s", 0)) for o in ops])
                break


def count_ops(cases, d):
    for c in cases:
        for op, ob in zip(c.get("ops") or [], c.get("obs") or []):
            lab = op_label(op)
            d["ops_" + lab] = d.get("ops_" + lab, 0) + 1
            if ob.get("timeout"):
                d["timeouts"] = d.get("timeouts", 0) + 1
            if is_life(op):
                continue
            if op["d"] == "c":
                if ob.get("down"):
                    d["client_msgs_forwarded"] = d.get("client_msgs_forwarded", 0) + 1
                if ob.get("client"):
                    d["client_msgs_answered"] = d.get("client_msgs_answered", 0) + 1
            else:
                if ob.get("client"):
                    d["server_msgs_delivered"] = d.get("server_msgs_delivered", 0) + 1
                else:
                    d["server_msgs_dropped"] = d.get("server_msgs_dropped", 0) + 1
    return d
