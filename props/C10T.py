"""C10T: the text <-> value layer under C10 (an extension, not one of the 20 given properties).

The byte-level model of Go's encoding/json / unicode/utf8 / the label regexp (coq/theories/JsonText.v) is
compared with the real libraries and with the repository's ParseClientMsg / UnmarshalJSON on generated
byte strings.  Cases come from harness/cmd/core/c10text.go (binary `core`, sub-command c10text)."""
import json
import sys
from propbase import Prop, COMMON_TRUSTED
from coqterm import cbool
from codeccommon import cjv, cobs, WTY, drop_keys


def _text_term(I, t):
    if t.startswith("rep:"):
        f = t.split(":")
        return "(rep_text (%d)%%N %s %s %s %s %s)" % (int(f[1]), I.s(bytes.fromhex(f[2])), I.s(bytes.fromhex(f[3])),
                                                     I.s(bytes.fromhex(f[4])), I.s(bytes.fromhex(f[5])),
                                                     I.s(bytes.fromhex(f[6])))
    b = bytes.fromhex(t)
    if len(b) <= 2:
        # short literals need their type
        return "(%s : str)" % I.s(b)
    return I.s(b)


sys.setrecursionlimit(max(sys.getrecursionlimit(), 20000))  # values nested up to depth 320 are printed recursively

PCLS = {"val": "PcVal", "nomatch": "PcNoMatch", "unknown": "PcUnknown", "fail": "PcFail", "panic": "PcPanic"}


def _family(c):
    return c.get("cls", "").split(":")[0]


class C10T(Prop):
    id = "C10T"
    coq_targets = ["theories/Properties/C10Text.vo"]
    check_vo = "theories/Check/C10TextCheck.vo"
    check_module = "Moc.Check.C10TextCheck"
    case_imports = ["Moc.Json", "Moc.CodecMsg", "Moc.Codec", "Moc.JsonText"]
    theorem_prefixes = ("C10T_",)
    harness_bin = "core"
    harness_sub = "c10text"
    sizes = {"quick": 20000, "thorough": 200000}
    max_reports = 3
    gen_names = ("g_client_msg_regexp", "g_MsgLabel", "message.go")
    rule = ("about 8% fixed lists run once per run (structural near misses, number spellings, escape sequences incl. lone and "
            "paired surrogates, invalid and boundary UTF-8 sequences, label-pattern texts); of the rest 50% texts printed from "
            "random JSON values -- 45% generic values (depth <= 5, strings with quotes, controls, DEL, < > &, U+2028/9, 2/3/4-byte "
            "characters at the encoding boundaries, numbers from small integers, int64/uint64 boundaries, -0, 30..60-digit "
            "integers, fraction/exponent spellings; duplicate and non-ASCII member names), 55% message shapes of the 14 wire "
            "types with 0-2 point mutations and shuffled members -- printed with random white space (0/10/40/80% per gap), "
            "random \\u escapes (0/5/30/100% per character, upper/lower-case hex, surrogate pairs for astral characters, \\/ and "
            "short escapes), 15-20% with leading white space, 8% with an escaped label; 50% malformed texts: arbitrary bytes from "
            "a JSON-ish alphabet, truncations, 1-2 byte substitutions/deletions/insertions/bit flips of valid texts, invalid "
            "UTF-8 inside and outside strings, escape fragments, control characters in strings, number near-misses, structural "
            "near-misses, literals (NaN, Infinity, True), comments, BOM, \\f \\v NBSP U+2028 as white space, label-pattern texts, "
            "nesting 1..300 balanced and unbalanced; up to 6 texts per run at the nesting limit (9999..10002 open containers). "
            "Each fragment is placed bare or inside a CLOSE/NOTICE/REQ/COUNT frame.  corpus/C10T holds the texts on which "
            "the nine model mutants differed, the nesting limit on both sides and one harness regression.  Observed per text: "
            "json.Valid, utf8.Valid, Unmarshal into RawMessage, the Decoder+UseNumber value through maps and through the "
            "Token stream, json.Marshal of that value (compared byte for byte with the model's printer when it holds no "
            "fraction/exponent number), the label pattern's capture, ParseClientMsg (class and value) and json.Unmarshal "
            "into one of the 14 Go types.  Non-trivial = accepted by json.Valid, or from the malformed stream / fixed "
            "lists / corpus; distinct = distinct bytes and target type.")
    trusted_base = COMMON_TRUSTED + [
        "compositionality of encoding/json on sub-values: the decoders of message.go re-parse json.RawMessage slices of the "
        "text; the model parses once and hands sub-values of the AST on (checked end-to-end by ParseClientMsg / Unmarshal on "
        "the bytes in every case)",
        "the label pattern is compiled a second time inside the harness to observe its capture; the source's pattern text is "
        "pinned by the regenerated constant g_client_msg_regexp and ParseClientMsg's own outcome class is compared as well",
    ]
    assumptions = [
        "print/parse round trip: strings and member names of the value are valid UTF-8 and nesting <= 10000 (text_ok)",
        "NFrac stands for every number literal with a fraction or exponent; the printer writes the representative 1.5",
        "the nesting limit itself is compared on a few texts per run only (accept/reject, no value); values are compared up to depth 320",
    ]

    def to_coq(self, I, c):
        if c["dec"] == "val":
            ast = "(Some %s)" % cjv(I, c["ast"]) if "ast" in c else "(@None jv)"
            tok = "(Some %s)" % cjv(I, c["tok"]) if "tok" in c else "(@None jv)"
            dec = "(DVal %s %s)" % (ast, tok)
        elif c["dec"] == "err":
            dec = "DErr"
        else:
            dec = "DPanic"
        mar = "(@None str)" if c.get("mar") is None else "(Some (%s : str))" % I.s(bytes.fromhex(c["mar"]))
        lab = "(@None str)" if c.get("lab") is None else "(Some (%s : str))" % I.s(bytes.fromhex(c["lab"]))
        return "(CText %s %s %s %s %s %s %s %s %s %s %s)" % (
            _text_term(I, c["text"]), cbool(c["jvalid"]), cbool(c["uvalid"]), cbool(c["raw"]), dec, mar, lab,
            PCLS[c["pcls"]], cobs(I, c["pobs"]), WTY[c["ty"]], cobs(I, c["dobs"]))

    def nontrivial_key(self, c):
        if c["jvalid"] or _family(c) in ("mal", "fixed", "limit", "corpus"):
            return c["text"] + "/" + c["ty"]
        return None

    def dedup_key(self, c):
        return json.dumps([_family(c), c["jvalid"], c["pcls"], c["dobs"]["r"]])

    def summarize(self, c):
        c = dict(c)
        for k in ("text",):
            if len(c.get(k) or "") > 600:
                c[k] = c[k][:600] + "..."
        return c

    def shrink(self, c):
        t = c.get("text") or ""
        base = {"cls": c.get("cls", ""), "ty": c.get("ty", "event")}
        if t.startswith("rep:"):
            f = t.split(":")
            n = int(f[1])
            for m in (n // 2, n - 1):
                if 0 < m < n:
                    yield dict(base, text=":".join([f[0], str(m)] + f[2:]))
            return
        b = bytes.fromhex(t)
        n = len(b)
        step = max(n // 2, 1)
        while step >= 1:
            for i in range(0, n, step):
                yield dict(base, text=(b[:i] + b[i + step:]).hex())
            if step == 1:
                break
            step //= 2

    def distribution(self, cases):
        d = {"by_class": {}, "by_family": {}, "json_valid": 0, "utf8_valid": 0, "json_valid_not_utf8": 0,
             "values_compared": 0, "marshal_outputs_compared": 0, "values_with_duplicate_members": 0, "parse_client_msg": {}, "typed_unmarshal": {},
             "label_matched": 0, "max_text_len": 0, "mean_text_len": 0, "nesting_limit_texts": 0}
        tot = 0
        for c in cases:
            cl = c.get("cls", "")
            d["by_class"][cl] = d["by_class"].get(cl, 0) + 1
            fam = _family(c) + (":accepted" if c["jvalid"] else ":rejected")
            d["by_family"][fam] = d["by_family"].get(fam, 0) + 1
            d["json_valid"] += 1 if c["jvalid"] else 0
            d["utf8_valid"] += 1 if c["uvalid"] else 0
            d["json_valid_not_utf8"] += 1 if (c["jvalid"] and not c["uvalid"]) else 0
            if c.get("mar") is not None:
                d["marshal_outputs_compared"] += 1
            if "tok" in c:
                d["values_compared"] += 1
                if json.dumps(c["tok"], sort_keys=True) != json.dumps(c.get("ast"), sort_keys=True) and _has_dup(c["tok"]):
                    d["values_with_duplicate_members"] += 1
            d["parse_client_msg"][c["pcls"]] = d["parse_client_msg"].get(c["pcls"], 0) + 1
            r = c["dobs"]["r"]
            d["typed_unmarshal"][r] = d["typed_unmarshal"].get(r, 0) + 1
            if c.get("lab") is not None:
                d["label_matched"] += 1
            d["max_text_len"] = max(d["max_text_len"], c.get("len", 0))
            tot += c.get("len", 0) if c.get("len", 0) < 5000 else 0
            if cl.startswith("limit"):
                d["nesting_limit_texts"] += 1
        d["mean_text_len"] = round(tot / max(len(cases), 1), 1)
        return d


def _has_dup(j):
    if isinstance(j, list):
        return any(_has_dup(x) for x in j)
    if isinstance(j, dict) and "o" in j:
        ks = [k for k, _ in j["o"]]
        return len(set(ks)) != len(ks) or any(_has_dup(v) for _, v in j["o"])
    return False


PROP = C10T()
