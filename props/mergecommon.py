"""Shared by props/C08.py and props/C09.py: printing a merge-handler history
(harness/cmd/core/merge_driver.go's JSON) as a Gallina term of type
Check.CnnCheck.case, shrinking, and the known-finding signature."""
import copy
from coqterm import cbool, clist, cpair, cevent, cfilters, cZ, cnat, copt


def cmsg(I, m):
    t = m["t"]
    if t == "eose":
        return "(SEose %s)" % I.s(m.get("sub", ""))
    if t == "event":
        return "(SEvent %s %s)" % (I.s(m.get("sub", "")), cevent(I, m["e"]))
    if t == "ok":
        return "(SOk (mkOk %s %s %s %s))" % (I.s(m.get("id", "")), cbool(m.get("acc", False)),
                                             I.s(m.get("p", "")), I.s(m.get("msg", "")))
    if t == "count":
        return "(SCount (mkCnt %s %s %s))" % (I.s(m.get("sub", "")), cZ(m.get("c", 0)),
                                             copt(m.get("approx"), cbool, "bool"))
    if t == "notice":
        return "(SNotice %s)" % I.s(m.get("msg", ""))
    if t == "closed":
        return "(SClosed %s %s %s)" % (I.s(m.get("sub", "")), I.s(m.get("p", "")), I.s(m.get("msg", "")))
    # a message kind the model does not know: printed as a notice that matches nothing
    return "(SNotice %s)" % I.s("\x01unknown " + t)


def cinput(I, st):
    k = st["k"]
    if k == "req":
        return "(CReq %s %s)" % (I.s(st.get("sub", "")), cfilters(I, st.get("fs") or []))
    if k == "close":
        return "(CClose %s)" % I.s(st.get("sub", ""))
    if k == "event":
        return "(CEvent %s)" % I.s(st.get("id", ""))
    if k == "count":
        return "(CCount %s)" % I.s(st.get("sub", ""))
    if k == "child":
        return "(Child %s %s)" % (cnat(st.get("i", 0)), cmsg(I, st["m"]))
    raise ValueError("unknown step kind " + k)


def nsessions(c):
    return max(1, int(c.get("sessions") or 1))


def ccase(I, c):
    if nsessions(c) > 1:      # several sessions of one handler value: every step with its session
        steps = clist(c.get("steps") or [],
                      lambda st: cpair(cnat(st.get("s", 0)),
                                       cpair(cinput(I, st), clist(st.get("out") or [], lambda m: cmsg(I, m), "smsg"))),
                      "(nat * (input * list smsg))%type")
        return "(MMulti %s %s %s %s)" % (cnat(c["n"]), cbool(bool(c.get("fail"))), cnat(nsessions(c)), steps)
    steps_all = c.get("steps") or []
    blk = int(c.get("block") or 0)
    if 0 < blk < len(steps_all):
        # the block: every child's messages in their order, child after child (the merged replies depend on the
        # per-child order only), one joint observation
        groups = join_groups(steps_all[:blk])
        groups.append(sorted(steps_all[blk:], key=lambda st: st.get("i", 0)))
    else:
        groups = join_groups(steps_all)   # (the driver joins steps in single-session cases only)
    if any(len(g) > 1 for g in groups):
        # runs of child messages emitted with no sentinel in between: groups of inputs with one joint observation
        gs = clist(groups,
                   lambda g: cpair(clist(g, lambda st: cinput(I, st), "input"),
                                   clist([m for st in g for m in st.get("out") or []], lambda m: cmsg(I, m), "smsg")),
                   "(list input * list smsg)%type")
        return "(MJoint %s %s %s)" % (cnat(c["n"]), cbool(bool(c.get("fail"))), gs)
    steps = clist(c.get("steps") or [],
                  lambda st: cpair(cinput(I, st), clist(st.get("out") or [], lambda m: cmsg(I, m), "smsg")),
                  "(input * list smsg)%type")
    return "(MCase %s %s %s)" % (cnat(c["n"]), cbool(bool(c.get("fail"))), steps)


def join_groups(steps):
    """the rule of merge_driver.go: a child step with `join` (and without `early`) runs together with the next
    step when that is a child step of the same child and session without `early`"""
    groups, i = [], 0
    while i < len(steps):
        g = [steps[i]]
        while (steps[i]["k"] == "child" and steps[i].get("join") and not steps[i].get("early") and i + 1 < len(steps)
               and steps[i + 1]["k"] == "child" and not steps[i + 1].get("early")
               and steps[i + 1].get("i", 0) == steps[i].get("i", 0) and steps[i + 1].get("s", 0) == steps[i].get("s", 0)
               and steps[i + 1].get("m") is not None):
            i += 1
            g.append(steps[i])
        groups.append(g)
        i += 1
    return groups


def strip(c):
    c = copy.deepcopy(c)
    c.pop("fail", None)
    for st in c.get("steps") or []:
        st.pop("out", None)
        st.pop("early_ran", None)
    return c


def shrink_steps(c):
    """smaller inputs: drop a block of steps, drop one step, drop a filter, blank a filter field"""
    c = strip(c)
    if c.get("block"):      # (only the whole case is replayed: dropping steps would move the block)
        return
    if c.get("nest"):       # the flat handler first; fewer children only for the flat handler
        c2 = dict(c)
        c2.pop("nest")
        yield c2
    steps = c.get("steps") or []
    n = len(steps)
    size = n // 2
    while size >= 2:
        for a in range(0, n - size + 1, size):
            yield dict(c, steps=steps[:a] + steps[a + size:])
        size //= 2
    for i in range(n):
        yield dict(c, steps=steps[:i] + steps[i + 1:])
    k = nsessions(c)
    if k > 1:           # one session fewer: its steps go, higher session numbers move down
        for ss in range(k):
            st2 = []
            for st in steps:
                j = st.get("s", 0)
                if j == ss:
                    continue
                st = dict(st)
                st.pop("s", None)
                j2 = j - 1 if j > ss else j
                if j2 > 0:
                    st["s"] = j2
                st2.append(st)
            c2 = dict(c, steps=st2)
            c2.pop("sessions", None)
            if k - 1 > 1:
                c2["sessions"] = k - 1
            yield c2
    if c["n"] > 2 and not c.get("nest"):      # one child fewer: its messages go, higher indices move down
        for ch in range(c["n"]):
            st2 = []
            for st in steps:
                if st["k"] == "child":
                    i = st.get("i", 0)
                    if i == ch:
                        continue
                    if i > ch:
                        st = dict(st, i=i - 1)
                st2.append(st)
            yield dict(c, n=c["n"] - 1, steps=st2)
    for i, st in enumerate(steps):
        if st["k"] == "req":
            fs = st.get("fs") or []
            if len(fs) > 1:
                for j in range(len(fs)):
                    c2 = copy.deepcopy(c)
                    c2["steps"][i]["fs"] = fs[:j] + fs[j + 1:]
                    yield c2
            for j, f in enumerate(fs):
                for fld in ("ids", "authors", "kinds", "tags", "since", "until", "limit"):
                    if f.get(fld) is not None:
                        c2 = copy.deepcopy(c)
                        c2["steps"][i]["fs"][j][fld] = None
                        yield c2
        if st["k"] == "child" and st["m"]["t"] == "event" and st["m"]["e"].get("tags"):
            c2 = copy.deepcopy(c)
            c2["steps"][i]["m"]["e"]["tags"] = []
            yield c2
        if st["k"] == "child" and st["m"]["t"] == "ok" and (st["m"].get("p") or st["m"].get("msg")):
            c2 = copy.deepcopy(c)
            c2["steps"][i]["m"]["p"] = ""
            c2["steps"][i]["m"]["msg"] = ""
            yield c2


def _in_flight_scan(c, across):
    """across=False: a request (EVENT id / COUNT subscription id) is submitted while an earlier
    request with the same id OF THE SAME SESSION has not yet been answered by every child.
    across=True: ... while a request with the same id of ANOTHER session of the handler is
    still unanswered."""
    n = c["n"]
    pend = {}   # (session, kind, id) -> list of sets of children that replied, oldest first
    for st in c.get("steps") or []:
        k = st["k"]
        ss = st.get("s", 0)
        if k in ("event", "count"):
            rid = st.get("id", "") if k == "event" else st.get("sub", "")
            if across:
                if any(q for (s2, k2, id2), q in pend.items() if s2 != ss and k2 == k and id2 == rid):
                    return True
            q = pend.setdefault((ss, k, rid), [])
            if q and not across:
                return True
            q.append(set())
        elif k == "child" and st["m"]["t"] in ("ok", "count"):
            m = st["m"]
            key = (ss, "event", m.get("id", "")) if m["t"] == "ok" else (ss, "count", m.get("sub", ""))
            q = pend.get(key) or []
            i = st.get("i", 0)
            for s in q:
                if i not in s:
                    s.add(i)
                    if len(s) >= n:
                        q.remove(s)
                    break
    return False


def same_id_in_flight(c):
    """Signature of finding K1: a request (EVENT id / COUNT subscription id) is
    submitted while an earlier request with the same id (of the same session) has
    not yet been answered by every child."""
    return _in_flight_scan(c, False)


def same_id_in_flight_across_sessions(c):
    """Two sessions of one handler have a request with the same id in flight at the same time."""
    return nsessions(c) > 1 and _in_flight_scan(c, True)


def summarize(c):
    def sm(m):
        t = m["t"]
        if t == "event":
            return "EVENT %s %s@%d" % (m.get("sub", ""), m["e"]["id"], m["e"]["ts"])
        if t == "eose":
            return "EOSE %s" % m.get("sub", "")
        if t == "ok":
            return "OK %s %s %r" % (m.get("id", ""), m.get("acc", False), m.get("p", "") + m.get("msg", ""))
        if t == "count":
            return "COUNT %s %d" % (m.get("sub", ""), m.get("c", 0))
        return t.upper()

    out = []
    multi = nsessions(c) > 1
    for st in c.get("steps") or []:
        k = st["k"]
        if multi:
            out.append(None)
        if k == "child":
            head = "child%d: %s" % (st.get("i", 0), sm(st["m"]))
        elif k == "event":
            head = "client: EVENT %s" % st.get("id", "")
        elif k == "req":
            head = "client: REQ %s (%d filters)" % (st.get("sub", ""), len(st.get("fs") or []))
        else:
            head = "client: %s %s" % (k.upper(), st.get("sub", ""))
        line = head + "  ->  " + (", ".join(sm(m) for m in st.get("out") or []) or "-")
        if multi:
            out[-1] = "[session %d] %s" % (st.get("s", 0), line)
        else:
            out.append(line)
    res = {"n": c["n"], "fail": c.get("fail", ""), "history": out}
    if multi:
        res["sessions"] = nsessions(c)
    return res
