"""Shared by props/C08.py and props/C09.py: printing a merge-handler history
(harness/cmd/core/merge_driver.go's JSON) as a Gallina term of type
Check.CnnCheck.case, shrinking, and the known-finding signature."""
import copy
from coqterm import cbool, clist, cpair, cevent, cfilters, cZ, cnat, copt


def cmsg(I, m):
    t = m["t"]
    if t == "eose":
        return "(SEose %s)" % I.s(m.get("sub", ""))
    if t == "event":
        return "(SEvent %s %s)" % (I.s(m.get("sub", "")), cevent(I, m["e"]))
    if t == "ok":
        return "(SOk (mkOk %s %s %s %s))" % (I.s(m.get("id", "")), cbool(m.get("acc", False)),
                                             I.s(m.get("p", "")), I.s(m.get("msg", "")))
    if t == "count":
        return "(SCount (mkCnt %s %s %s))" % (I.s(m.get("sub", "")), cZ(m.get("c", 0)),
                                             copt(m.get("approx"), cbool, "bool"))
    if t == "notice":
        return "(SNotice %s)" % I.s(m.get("msg", ""))
    if t == "closed":
        return "(SClosed %s %s %s)" % (I.s(m.get("sub", "")), I.s(m.get("p", "")), I.s(m.get("msg", "")))
    # a message kind the model does not know: printed as a notice that matches nothing
    return "(SNotice %s)" % I.s("\x01unknown " + t)


def cinput(I, st):
    k = st["k"]
    if k == "req":
        return "(CReq %s %s)" % (I.s(st.get("sub", "")), cfilters(I, st.get("fs") or []))
    if k == "close":
        return "(CClose %s)" % I.s(st.get("sub", ""))
    if k == "event":
        return "(CEvent %s)" % I.s(st.get("id", ""))
    if k == "count":
        return "(CCount %s)" % I.s(st.get("sub", ""))
    if k == "child":
        return "(Child %s %s)" % (cnat(st.get("i", 0)), cmsg(I, st["m"]))
    raise ValueError("unknown step kind " + k)


def ccase(I, c):
    steps = clist(c.get("steps") or [],
                  lambda st: cpair(cinput(I, st), clist(st.get("out") or [], lambda m: cmsg(I, m), "smsg")),
                  "(input * list smsg)%type")
    return "(MCase %s %s %s)" % (cnat(c["n"]), cbool(bool(c.get("fail"))), steps)


def strip(c):
    c = copy.deepcopy(c)
    c.pop("fail", None)
    for st in c.get("steps") or []:
        st.pop("out", None)
    return c


def shrink_steps(c):
    """smaller inputs: drop a block of steps, drop one step, drop a filter, blank a filter field"""
    c = strip(c)
    steps = c.get("steps") or []
    n = len(steps)
    size = n // 2
    while size >= 2:
        for a in range(0, n - size + 1, size):
            yield dict(c, steps=steps[:a] + steps[a + size:])
        size //= 2
    for i in range(n):
        yield dict(c, steps=steps[:i] + steps[i + 1:])
    if c["n"] > 2:      # one child fewer: its messages go, higher indices move down
        for ch in range(c["n"]):
            st2 = []
            for st in steps:
                if st["k"] == "child":
                    i = st.get("i", 0)
                    if i == ch:
                        continue
                    if i > ch:
                        st = dict(st, i=i - 1)
                st2.append(st)
            yield dict(c, n=c["n"] - 1, steps=st2)
    for i, st in enumerate(steps):
        if st["k"] == "req":
            fs = st.get("fs") or []
            if len(fs) > 1:
                for j in range(len(fs)):
                    c2 = copy.deepcopy(c)
                    c2["steps"][i]["fs"] = fs[:j] + fs[j + 1:]
                    yield c2
            for j, f in enumerate(fs):
                for fld in ("ids", "authors", "kinds", "tags", "since", "until", "limit"):
                    if f.get(fld) is not None:
                        c2 = copy.deepcopy(c)
                        c2["steps"][i]["fs"][j][fld] = None
                        yield c2
        if st["k"] == "child" and st["m"]["t"] == "event" and st["m"]["e"].get("tags"):
            c2 = copy.deepcopy(c)
            c2["steps"][i]["m"]["e"]["tags"] = []
            yield c2
        if st["k"] == "child" and st["m"]["t"] == "ok" and (st["m"].get("p") or st["m"].get("msg")):
            c2 = copy.deepcopy(c)
            c2["steps"][i]["m"]["p"] = ""
            c2["steps"][i]["m"]["msg"] = ""
            yield c2


def same_id_in_flight(c):
    """Signature of finding K1: a request (EVENT id / COUNT subscription id) is
    submitted while an earlier request with the same id has not yet been
    answered by every child."""
    n = c["n"]
    pend = {}   # (kind, id) -> list of sets of children that replied, oldest first
    for st in c.get("steps") or []:
        k = st["k"]
        if k in ("event", "count"):
            key = (k, st.get("id", "") if k == "event" else st.get("sub", ""))
            q = pend.setdefault(key, [])
            if q:
                return True
            q.append(set())
        elif k == "child" and st["m"]["t"] in ("ok", "count"):
            m = st["m"]
            key = ("event", m.get("id", "")) if m["t"] == "ok" else ("count", m.get("sub", ""))
            q = pend.get(key) or []
            i = st.get("i", 0)
            for s in q:
                if i not in s:
                    s.add(i)
                    if len(s) >= n:
                        q.remove(s)
                    break
    return False


def summarize(c):
    def sm(m):
        t = m["t"]
        if t == "event":
            return "EVENT %s %s@%d" % (m.get("sub", ""), m["e"]["id"], m["e"]["ts"])
        if t == "eose":
            return "EOSE %s" % m.get("sub", "")
        if t == "ok":
            return "OK %s %s %r" % (m.get("id", ""), m.get("acc", False), m.get("p", "") + m.get("msg", ""))
        if t == "count":
            return "COUNT %s %d" % (m.get("sub", ""), m.get("c", 0))
        return t.upper()

    out = []
    for st in c.get("steps") or []:
        k = st["k"]
        if k == "child":
            head = "child%d: %s" % (st.get("i", 0), sm(st["m"]))
        elif k == "event":
            head = "client: EVENT %s" % st.get("id", "")
        elif k == "req":
            head = "client: REQ %s (%d filters)" % (st.get("sub", ""), len(st.get("fs") or []))
        else:
            head = "client: %s %s" % (k.upper(), st.get("sub", ""))
        out.append(head + "  ->  " + (", ".join(sm(m) for m in st.get("out") or []) or "-"))
    return {"n": c["n"], "fail": c.get("fail", ""), "history": out}
