"""Shared by props/C10.py and props/C11.py: printing the harness' JSON values
(jv, wire values with every nil kept, observations) as Gallina terms of
Json.v / CodecMsg.v, and generic shrinking of a jv."""
import copy
from coqterm import cbool, cZ, clist, copt


def hx(I, h):
    return I.s(bytes.fromhex(h))


# ---- jv ----------------------------------------------------------------------

def cjv(I, j):
    if j is None:
        return "JNull"
    if j is True:
        return "(JBool true)"
    if j is False:
        return "(JBool false)"
    if isinstance(j, list):
        return "(JArr %s)" % clist(j, lambda x: cjv(I, x), "jv")
    if "i" in j:
        neg, mag = j["i"]
        return "(JNum (NInt %s (%s)%%N))" % (cbool(neg), mag or "0")
    if "f" in j:
        return "(JNum NFrac)"
    if "s" in j:
        return "(JStr %s)" % hx(I, j["s"])
    if "o" in j:
        return "(JObj %s)" % clist(j["o"], lambda kv: "(%s, %s)" % (hx(I, kv[0]), cjv(I, kv[1])), "(str * jv)%type")
    raise ValueError("bad jv %r" % (j,))


def cjv_opt(I, j, present):
    if not present:
        return "(@None jv)"
    return "(Some %s)" % cjv(I, j)


# ---- wire values -------------------------------------------------------------

def cstrs(I, l):
    return clist(l, lambda h: hx(I, h), "str")


def cgevent(I, e):
    def tag(t):
        return copt(t, lambda l: cstrs(I, l), "(list str)")
    tags = copt(e.get("tags"), lambda l: clist(l, tag, "gtag"), "(list gtag)")
    return "(mkGEvent %s %s %s %s %s %s %s)" % (hx(I, e["id"]), hx(I, e["pk"]), cZ(e["ts"]), cZ(e["kind"]), tags,
                                                hx(I, e["content"]), hx(I, e["sig"]))


def cgevent_opt(I, e):
    return copt(e, lambda x: cgevent(I, x), "gevent")


def cgfilter(I, f):
    def strs(l):
        return cstrs(I, l)

    def tags(l):
        return clist(l, lambda tc: "(%s, %s)" % (hx(I, tc["k"]), copt(tc.get("v"), strs, "(list str)")),
                     "(str * option (list str))%type")
    return "(mkGFilter %s %s %s %s %s %s %s)" % (
        copt(f.get("ids"), strs, "(list str)"), copt(f.get("authors"), strs, "(list str)"),
        copt(f.get("kinds"), lambda l: clist(l, cZ, "Z"), "(list Z)"),
        copt(f.get("tags"), tags, "(list (str * option (list str)))"),
        copt(f.get("since"), cZ, "Z"), copt(f.get("until"), cZ, "Z"), copt(f.get("limit"), cZ, "Z"))


def cgfilters(I, fs):
    return clist(fs or [], lambda f: copt(f, lambda x: cgfilter(I, x), "gfilter"), "(option gfilter)")


def ccmsg(I, v):
    t = v["t"]
    if t == "cevent":
        return "(CEvent %s)" % cgevent_opt(I, v.get("e"))
    if t == "creq":
        return "(CReq %s %s)" % (hx(I, v["sub"]), cgfilters(I, v.get("fs")))
    if t == "cclose":
        return "(CClose %s)" % hx(I, v["sub"])
    if t == "cauth":
        return "(CAuth %s)" % cgevent_opt(I, v.get("e"))
    if t == "ccount":
        return "(CCount %s %s)" % (hx(I, v["sub"]), cgfilters(I, v.get("fs")))
    raise ValueError(t)


def cwval(I, v):
    t = v["t"]
    if t == "event":
        return "(WEvent %s)" % cgevent(I, v["e"])
    if t == "filter":
        return "(WFilter %s)" % cgfilter(I, v["f"])
    if t.startswith("c"):
        return "(WC %s)" % ccmsg(I, v)
    if t == "seose":
        return "(WS (SEose %s))" % hx(I, v["sub"])
    if t == "sevent":
        return "(WS (SEvent %s %s))" % (hx(I, v["sub"]), cgevent_opt(I, v.get("e")))
    if t == "snotice":
        return "(WS (SNotice %s))" % hx(I, v["msg"])
    if t == "sok":
        return "(WS (SOk %s %s %s %s))" % (hx(I, v["id"]), cbool(v["acc"]), hx(I, v["msg"]), hx(I, v["pfx"]))
    if t == "sauth":
        return "(WS (SAuth %s))" % hx(I, v["msg"])
    if t == "scount":
        return "(WS (SCount %s (%s)%%N %s))" % (hx(I, v["sub"]), v["count"] or "0",
                                               copt(v.get("approx"), cbool, "bool"))
    if t == "sclosed":
        return "(WS (SClosed %s %s %s))" % (hx(I, v["sub"]), hx(I, v["msg"]), hx(I, v["pfx"]))
    raise ValueError(t)


WTY = {"event": "TEvent", "filter": "TFilter", "cevent": "TCEvent", "creq": "TCReq", "cclose": "TCClose",
       "cauth": "TCAuth", "ccount": "TCCount", "seose": "TSEose", "sevent": "TSEvent", "snotice": "TSNotice",
       "sok": "TSOk", "sauth": "TSAuth", "scount": "TSCount", "sclosed": "TSClosed"}


def cobs(I, o):
    if o["r"] == "val":
        return "(Val %s)" % cwval(I, o["v"])
    if o["r"] == "err":
        return "(@Err wval)"
    return "(@Panic wval)"


def cobs_opt(I, o):
    if o is None:
        return "(@None (res wval))"
    return "(Some %s)" % cobs(I, o)


# ---- shrinking a jv ------------------------------------------------------------

def jv_shrinks(j):
    """Yield smaller variants of a jv (one local change each)."""
    if isinstance(j, list):
        for i in range(len(j)):
            yield j[:i] + j[i + 1:]
        for i in range(len(j)):
            for s in jv_shrinks(j[i]):
                yield j[:i] + [s] + j[i + 1:]
    elif isinstance(j, dict) and "o" in j:
        m = j["o"]
        for i in range(len(m)):
            yield {"o": m[:i] + m[i + 1:]}
        for i in range(len(m)):
            for s in jv_shrinks(m[i][1]):
                yield {"o": m[:i] + [[m[i][0], s]] + m[i + 1:]}
    elif isinstance(j, dict) and "s" in j:
        h = j["s"]
        if len(h) > 0:
            yield {"s": ""}
        if len(h) > 2:
            yield {"s": h[:2]}
        if len(h) > 4:
            yield {"s": h[:len(h) // 4 * 2]}
    elif isinstance(j, dict) and "i" in j:
        if j["i"] != [False, "0"]:
            yield {"i": [False, "0"]}
    elif isinstance(j, dict) and "f" in j:
        yield {"i": [False, "0"]}


def text_of_hex(h):
    if h.startswith("rep:"):
        return None
    return bytes.fromhex(h)


def drop_keys(c, keys):
    return {k: v for k, v in c.items() if k not in keys}


def deep(c):
    return copy.deepcopy(c)
