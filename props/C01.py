import json
import os
from propbase import Prop, COMMON_TRUSTED
from coqterm import cbool, clist, cZ, copt

ROOT = os.path.dirname(os.path.dirname(os.path.abspath(__file__)))

# the five characters encoding/json escapes and NIP-01 does not
F3_BYTES = [b"<", b">", b"&", b"\xe2\x80\xa8", b"\xe2\x80\xa9"]


def _b(h):
    return bytes.fromhex(h or "")


def _fix_is_recorded():
    """C01Fixed.v (the tree uses the hand-written serializer) is a proof target once the F3 repair is
    recorded as fixed in known_findings.json (or when C01_FIXED=1 is set, for scratch runs)."""
    if os.environ.get("C01_FIXED") == "1":
        return True
    try:
        fs = json.load(open(os.path.join(ROOT, "known_findings.json"))).get("findings", [])
    except Exception:
        return False
    return any(f.get("id") == "F3" and f.get("kind") == "fixed" for f in fs)


def _strings(e):
    yield _b(e["pk"])
    yield _b(e["content"])
    for t in e["tags"]:
        for v in t:
            yield _b(v)


def _short(h, n=96):
    return h if len(h) <= n else h[:n] + "...(%d bytes)" % (len(h) // 2)


def _verdict(c):
    """Verify()'s answer; when the copy of the event that went through the relay's JSON decoder is judged differently,
    a value that is no answer at all (10 + the copy's answer): model and oracle both reject it"""
    r2 = c.get("res2")
    return c["res"] if r2 is None or r2 == c["res"] else 10 + r2


class C01(Prop):
    id = "C01"
    check_vo = "theories/Check/C01Check.vo"
    check_module = "Moc.Check.C01Check"
    harness_bin = "core"
    harness_sub = "c01"
    sizes = {"quick": 10500, "thorough": 150000}
    widen_factor = 1
    gen_names = ("g_serialize_uses_json_marshal", "g_verify_id_reject", "g_ser_layout", "g_ser_esc_short",
                 "g_ser_esc_is_ctl", "g_ser_ctl_prefix", "g_ser_hex_digits", "g_ser_tags_block_is_reference",
                 "g_ser_table", "Event.Serialize", "Event.Verify", "appendNIP01String")
    rule = ("each base event is signed by the harness with a fresh btcec key over SHA-256 of NIP-01 canonical bytes "
            "produced by the harness's own encoder (not Serialize); content and tag values come from weighted classes "
            "(ASCII, < > &, U+2028/U+2029 and neighbours, every C0 control, DEL/C1, 2-/3-/4-byte UTF-8, "
            "U+D7FF/U+E000/U+FFFD/U+10FFFF, runs of quotes and backslashes, the literal text backslash-u-2028, mixtures, empty), "
            "kinds uniform in 0..65535 or at class boundaries or outside the range, created_at negative/0/2^31/2^53/2^63-1/min/random, "
            "tag shapes none/empty value/empty tag/1..6 elements/15..55 tags; each base event is followed by 4..11 alterations "
            "(other content, tag value changed or dropped, kind, created_at, pubkey of another key, arbitrary pubkey text, valid signature "
            "of another message, valid signature under another key, single-bit flips of the decoded id/pubkey/sig and of the content, "
            "single-bit flips of the hex text, upper-casing of hex letters, truncation, a pubkey bit flipped or replaced by arbitrary text "
            "(also 64 hex digits that are no curve point) with the id recomputed so that only the key check can refuse it); "
            "created_at also 2^e+d (e in 53..62, |d|<=3, either sign) and its alteration to a neighbouring value above or below; a content "
            "class of genuine U+FFFD and its neighbours; every fourth group is a sequence case: 2..5 events over one or two signed "
            "events (the event itself, possibly repeated, alterations after which Verify returns early or with an error, arbitrary "
            "alterations, in any order) verified one after the other in one process, each element judged as a single event is; "
            "30% of the sequences are then verified again all at the same time, 300 times each by one goroutine per event, and "
            "an event's verdict is the first that differed from its sequential one, if any did; "
            "every event whose strings are valid UTF-8 is also written as JSON by encoding/json, read back by Event.UnmarshalJSON and "
            "verified again: the decoded copy must be judged as the original is; "
            "before every case the real Verify runs once on a fixed good event so that a case's observation depends on the case alone; thorough adds the exhaustive sweep: every "
            "Unicode scalar value once, 4096 per event content; a case is one event or one sequence of events; non-trivial = distinct (alteration, event) resp. distinct sequence of them")
    trusted_base = COMMON_TRUSTED + [
        "crypto/sha256 and btcec BIP-340 (schnorr.ParsePubKey/ParseSignature/Verify/Sign) as oracles: H, PK, SG, V are Section "
        "variables of the model; the correspondence instantiates them by tables the harness computes directly",
        "the harness's canonical encoder c01Canon (cross-checked against Ser.canonical inside Coq on every case)",
    ]
    assumptions = [
        "tags is a non-nil list of non-nil lists (what UnmarshalJSON produces and Valid demands); the null branches of Serialize are not modelled",
        "SHA-256 and BIP-340 are uninterpreted: tamper theorems exhibit a collision instead of assuming there is none; "
        "that a changed pubkey/signature is rejected is validated by correspondence (fresh keys, bit flips), not proved",
        "hex-case changes of id/sig denote the same bytes and leave Verify's verdict unchanged (DESIGN.md section 9); "
        "they are asserted to be refused by Valid()",
    ]

    @property
    def coq_targets(self):
        t = ["theories/Properties/C01.vo"]
        if _fix_is_recorded():
            t.append("theories/Properties/C01Fixed.vo")
        return t

    def harness_extra(self, tier):
        return ["exhaustive"] if tier == "thorough" else []

    # ---- printing
    def to_coq(self, I, c):
        if c.get("seq"):
            return "(Seq %s)" % clist(c["seq"], lambda x: self._obs(I, x), "obs")
        return "(One %s)" % self._obs(I, c)

    def _obs(self, I, c):
        e = c["e"]

        def s(h):
            return I.s(_b(h))

        ev = "(mkEvent %s %s %s %s %s %s %s)" % (
            s(e["id"]), s(e["pk"]), cZ(e["ts"]), cZ(e["kind"]),
            clist(e["tags"], lambda t: clist(t, s, "str"), "tag"), s(e["content"]), s(e["sig"]))
        ser = "(@None str)" if c.get("sererr") else "(Some %s)" % s(c["ser"])
        return "(mkObs %s %s %s %s %s %s %s %s %s %s %s %s %s %s)" % (
            ev, ser, s(c.get("hser")), s(c.get("canon")), s(c.get("hcanon")),
            copt(c.get("idb"), s, "str"), copt(c.get("pkb"), s, "str"), copt(c.get("sgb"), s, "str"),
            cbool(c["pkok"]), cbool(c["sgok"]), cbool(c["v"]), cZ(_verdict(c)), cbool(c["valid"]), cZ(c["expect"]))

    # ---- bookkeeping
    def nontrivial_key(self, c):
        if c.get("seq"):
            return json.dumps([[x["r"]["alt"], x["e"]] for x in c["seq"]], sort_keys=True)
        return json.dumps([c["r"]["alt"], c["e"]], sort_keys=True)

    def dedup_key(self, c):
        if c.get("seq"):
            return "seq:" + ",".join(x["r"]["alt"] for x in c["seq"])
        return c["r"]["alt"]

    def summarize(self, c):
        if c.get("seq"):
            return {"seq": [self.summarize(x) for x in c["seq"]]}
        r = dict(c["r"], content=_short(c["r"]["content"]), val=_short(c["r"].get("val", "")))
        e = dict(c["e"], content=_short(c["e"]["content"]))
        if len(json.dumps(r["tags"])) > 600:
            r["tags"] = "(%d tags)" % len(r["tags"])
            e["tags"] = r["tags"]
        return {"r": r, "e": e, "ser": _short(c.get("ser", "")), "canon": _short(c.get("canon", "")),
                "res": c["res"], "valid": c["valid"], "expect": c["expect"]}

    def shrink(self, c):
        """Smaller recipes, the most aggressive first; at most ~50 per round (every candidate is
        re-run on the implementation and re-judged inside Coq)."""
        if c.get("seq"):
            return self._shrink_seq(c)
        r = c["r"]
        cands = []

        def out(**kw):
            cands.append({"r": dict(r, **kw)})

        def chars(b):
            try:
                return [ch.encode("utf-8") for ch in b.decode("utf-8")]
            except UnicodeDecodeError:
                return [bytes([x]) for x in b]

        if r["alt"] != "none":
            out(alt="none", n=0, val="")
        if r["tags"]:
            out(tags=[])
        for fld in ("content", "val"):
            if r.get(fld):
                out(**{fld: ""})
        if r["tags"] and len(r["tags"]) > 1:
            h = len(r["tags"]) // 2
            out(tags=r["tags"][:h])
            out(tags=r["tags"][h:])
        for fld in ("content", "val"):
            ch = chars(_b(r.get(fld)))
            n = len(ch)
            if n > 1:
                out(**{fld: b"".join(ch[:n // 2]).hex()})
                out(**{fld: b"".join(ch[n // 2:]).hex()})
        if r["ts"] != 0:
            out(ts=0)
        if r["kind"] != 1:
            out(kind=1)
        if r.get("n"):
            out(n=0)
        for i in range(min(len(r["tags"]), 8)):
            out(tags=r["tags"][:i] + r["tags"][i + 1:])
        k = 0
        for i, t in enumerate(r["tags"]):
            for j in range(len(t)):
                if k >= 12:
                    break
                k += 1
                out(tags=r["tags"][:i] + [t[:j] + t[j + 1:]] + r["tags"][i + 1:])
                if t[j]:
                    out(tags=r["tags"][:i] + [t[:j] + [""] + t[j + 1:]] + r["tags"][i + 1:])
        for fld in ("content", "val"):
            ch = chars(_b(r.get(fld)))
            if 1 < len(ch) <= 12:
                for i in range(len(ch)):
                    out(**{fld: b"".join(ch[:i] + ch[i + 1:]).hex()})
        # inside tag values: halves, then single characters
        k = 0
        for i, t in enumerate(r["tags"]):
            for j in range(len(t)):
                ch = chars(_b(t[j]))
                n = len(ch)
                if n < 2 or k >= 6:
                    continue
                k += 1

                def put(v):
                    out(tags=r["tags"][:i] + [t[:j] + [v] + t[j + 1:]] + r["tags"][i + 1:])
                put(b"".join(ch[:n // 2]).hex())
                put(b"".join(ch[n // 2:]).hex())
                if n <= 8:
                    for x in range(n):
                        put(b"".join(ch[:x] + ch[x + 1:]).hex())
        return cands[:64]

    def _shrink_seq(self, c):
        """A sequence: one element alone (a single-event case), the sequence without one element,
        then the recipes of the elements made smaller one at a time."""
        seq = [{"r": x["r"]} for x in c["seq"]]
        conc = bool(c.get("conc"))
        cands = []
        if conc:
            cands.append({"seq": seq})           # the same events one after the other only
        else:
            for x in seq:
                cands.append({"r": x["r"]})
        if len(seq) > 2:
            for i in range(len(seq)):
                for j in range(i + 1, len(seq)):
                    cands.append({"seq": [seq[i], seq[j]], "conc": conc})
        if len(seq) > 1:
            for i in range(len(seq)):
                cands.append({"seq": seq[:i] + seq[i + 1:], "conc": conc})
        per = max(4, 40 // max(len(seq), 1))
        for i, x in enumerate(seq):
            for y in self.shrink(x)[:per]:
                cands.append({"seq": seq[:i] + [y] + seq[i + 1:], "conc": conc})
        return cands[:100]

    def _flat(self, cases):
        for c in cases:
            if c.get("seq"):
                for x in c["seq"]:
                    yield x
            else:
                yield c

    def distribution(self, cases):
        d = self._distribution(list(self._flat(cases)))
        seqs = [c["seq"] for c in cases if c.get("seq")]
        d["single_event_cases"] = len(cases) - len(seqs)
        d["sequence_cases"] = len(seqs)
        d["sequence_events"] = sum(len(q) for q in seqs)
        d["sequences_by_length"] = {}
        for q in seqs:
            d["sequences_by_length"][str(len(q))] = d["sequences_by_length"].get(str(len(q)), 0) + 1
        # an unaltered signed event verified right after a verification that ended in an error / in false
        d["sequences_good_event_after_verify_error"] = sum(
            1 for q in seqs if any(a["res"] >= 2 and b["expect"] in (1, 2) for a, b in zip(q, q[1:])))
        d["sequences_good_event_after_verify_false"] = sum(
            1 for q in seqs if any(a["res"] == 0 and b["expect"] in (1, 2) for a, b in zip(q, q[1:])))
        d["sequences_same_event_twice"] = sum(
            1 for q in seqs if any(q[i]["e"] == q[j]["e"] for i in range(len(q)) for j in range(i + 1, len(q))))
        return d

    def _distribution(self, cases):
        d = {"base_events": 0, "alterations": 0, "sweep_events": 0, "by_alteration": {}, "by_content_class": {},
             "verify_true": 0, "verify_false": 0, "verify_error": 0, "verify_panic": 0,
             "expect_authentic": 0, "expect_not": 0, "expect_same_bytes_other_case": 0,
             "events_with_a_character_json_escapes_differently": 0, "events_with_c0_control": 0,
             "events_with_4byte_utf8": 0, "events_not_utf8": 0, "serialize_not_canonical": 0,
             "events_with_u_fffd": 0, "events_created_at_beyond_2_53": 0, "events_created_at_negative": 0,
             "verify_error_with_matching_id": 0}
        for c in cases:
            if b"\xef\xbf\xbd" in _b(c["e"]["content"]) or any(b"\xef\xbf\xbd" in _b(v) for t in c["e"]["tags"] for v in t):
                d["events_with_u_fffd"] += 1
            if abs(c["e"]["ts"]) > 2 ** 53:
                d["events_created_at_beyond_2_53"] += 1
            if c["e"]["ts"] < 0:
                d["events_created_at_negative"] += 1
            if c["res"] == 2 and c.get("idb") is not None and c.get("idb") == c.get("hser"):
                d["verify_error_with_matching_id"] += 1
            a = c["r"]["alt"]
            d["by_alteration"][a] = d["by_alteration"].get(a, 0) + 1
            if a == "none":
                d["base_events"] += 1
                k = c["r"].get("cls", "")
                d["by_content_class"][k] = d["by_content_class"].get(k, 0) + 1
                if k == "sweep":
                    d["sweep_events"] += 1
            else:
                d["alterations"] += 1
            d[["verify_false", "verify_true", "verify_error", "verify_panic"][c["res"]]] += 1
            d[["expect_not", "expect_authentic", "expect_same_bytes_other_case"][c["expect"]]] += 1
            if c.get("canon"):
                d["serialize_not_canonical"] += 1
            ss = list(_strings(c["e"]))
            if any(x in s for s in ss for x in F3_BYTES):
                d["events_with_a_character_json_escapes_differently"] += 1
            if any(ch < 0x20 for s in ss for ch in s):
                d["events_with_c0_control"] += 1
            if any(ch >= 0xf0 for s in ss for ch in s):
                d["events_with_4byte_utf8"] += 1
            try:
                for s in ss:
                    s.decode("utf-8")
            except UnicodeDecodeError:
                d["events_not_utf8"] += 1
        return d

    def extra_coverage(self, cases, tier):
        seen = set()
        for c in self._flat(cases):
            if c["r"].get("cls") == "sweep" and c["r"]["alt"] == "none":
                try:
                    seen.update(_b(c["e"]["content"]).decode("utf-8"))
                except UnicodeDecodeError:
                    pass
        total = 0x110000 - 0x800
        if not seen:
            return {}
        return {"exhaustive": len(seen) == total,
                "exhaustive_over": "single Unicode scalar values in event content: %d of %d distinct scalar values appeared "
                                   "(each once, 4096 per signed event), Serialize() compared with the model and with the canonical form, "
                                   "Verify() required to answer true" % (len(seen), total)}

    signatures = {
        # F3: Serialize goes through json.Marshal, which escapes < > & U+2028 U+2029
        "F3_json_marshal_escaping": lambda c: not c.get("seq") and c["r"]["alt"] in ("none", "case_id", "case_sig", "case_all", "txt_id", "txt_sig")
        and any(x in s for s in _strings(c["e"]) for x in F3_BYTES),
    }


PROP = C01()
