import json
from propbase import Prop, COMMON_TRUSTED
from coqterm import cbool, cZ, copt
from codeccommon import cjv, ccmsg, hx, jv_shrinks, drop_keys, deep

PK0 = "0" * 63 + "1"

# The defects this check found on the original tree — F1 validKind `||`, F2 validNaddr cutting with
# strings.Split, F10 label pattern anchored at '[' — are repaired in /repo (fix: commits 8f1f086,
# 8ebb19d, 3dc8984).  Properties/C11.v states the full theorems against the regenerated guards; a
# regression breaks g_valid_kind_spec / naddr_split_is_3 / lead_ws_is_allowed in ValidTheorems.v and
# the minimal inputs in corpus/C11/defects.jsonl fail the oracle again.  The predicates below
# recognise the three classes (dedup of reports, signatures for known_findings.json).


def _walk_ints(j, out):
    """collect (neg, mag) of every integer literal in a jv"""
    if isinstance(j, list):
        for x in j:
            _walk_ints(x, out)
    elif isinstance(j, dict):
        if "i" in j:
            out.append(j["i"])
        elif "o" in j:
            for _, v in j["o"]:
                _walk_ints(v, out)


def _walk_strs(j, out):
    if isinstance(j, list):
        for x in j:
            _walk_strs(x, out)
    elif isinstance(j, dict):
        if "s" in j:
            out.append(bytes.fromhex(j["s"]))
        elif "o" in j:
            for _, v in j["o"]:
                _walk_strs(v, out)


def _kinds_of_value(v):
    out = []
    if not v:
        return out
    if v.get("e"):
        out.append(v["e"]["kind"])
    for f in v.get("fs") or []:
        if f and f.get("kinds"):
            out += f["kinds"]
    return out


def _naddrs_of_value(v):
    out = []
    if not v:
        return out
    for f in v.get("fs") or []:
        for tc in (f or {}).get("tags") or []:
            if bytes.fromhex(tc["k"]) == b"a":
                out += [bytes.fromhex(h) for h in tc.get("v") or []]
    return out


def _kind_out_of_range(c):
    """F1: a kind outside 0..65535 is judged valid"""
    if not c.get("valid"):
        return False
    if c["k"] == "kind":
        return not (0 <= c["kind"] <= 65535)
    ks = list(_kinds_of_value(c.get("v")))
    for s in _naddrs_of_value(c.get("v")) + ([bytes.fromhex(c["s"])] if c["k"] == "naddr" else []):
        head = s.split(b":")[0]
        try:
            ks.append(int(head.decode("ascii")))
        except Exception:
            pass
    return any(not (0 <= k <= 65535) for k in ks)


def _colon_in_d(c):
    """F2: an address whose d part contains ':' is judged invalid"""
    if c.get("valid"):
        return False
    ss = []
    if c["k"] == "naddr":
        ss = [bytes.fromhex(c["s"])]
    elif c["k"] == "valid":
        ss = _naddrs_of_value(c.get("v"))
    else:
        _walk_strs(c.get("j"), ss)
    return any(s.count(b":") >= 3 for s in ss)


def _leading_ws(c):
    """F10: white space before the opening bracket makes ParseClientMsg fail"""
    return c["k"] == "admit" and bool(c.get("lead")) and not c.get("parsed")


class C11(Prop):
    id = "C11"
    coq_targets = ["theories/Properties/C11.vo"]
    check_vo = "theories/Check/C11Check.vo"
    check_module = "Moc.Check.C11Check"
    case_imports = ["Moc.Json", "Moc.CodecMsg", "Moc.Codec", "Moc.Valid"]
    harness_bin = "core"
    harness_sub = "c11"
    sizes = {"quick": 6000, "thorough": 200000}
    max_reports = 4
    gen_names = ("g_valid_", "g_hex_", "g_event_valid", "g_cevent_", "g_creq_", "g_cclose_", "g_cauth_", "g_ccount_",
                 "g_filter_", "g_naddr_", "g_fkey_", "g_event_nfields_bad", "g_MsgLabel", "g_client_msg_regexp",
                 "message.go", "utils.go")
    rule = ("70% client-message texts: a well-formed message of one of the five types (every optional part present or "
            "absent independently; ids/pubkeys/signatures from lowercase hex; kinds at 0, 65535 and class boundaries; "
            "negative and maximal timestamps; #a values kind:pubkey:d with d empty, plain, and containing ':'), 62% of them "
            "with one corruption (wrong JSON type, null in place, hex length -1/+1, one upper-case hex digit, non-hex or "
            "multi-byte character, kind -1/65536/70000, fractional/exponent/overflowing numbers, negative since/until/limit, "
            "since>until, missing/extra/upper-cased event member, unknown filter key, #ee and other bad tag keys, empty tag, "
            "empty tag name, non-string tag element, arity -1/+1, unknown label, malformed address), members shuffled, "
            "random insignificant white space and \\u escapes; 12% of the uncorrupted ones with white space before the "
            "opening bracket (class wf:leading-ws); 15% message values built directly (nil Tags, nil tag, nil pointers, "
            "invalid UTF-8 and multi-byte bytes in hex fields, kind and address variants) through ValidClientMsg; 10% "
            "address strings through validNaddr; 5% kinds through validKind.  The oracle decides well-formedness from "
            "the JSON value itself; non-trivial = judged valid, or well-formed by the oracle; distinct = distinct input.")
    trusted_base = COMMON_TRUSTED + [
        "encoding/json's text layer and regexp (the model starts from the generic JSON value plus two token-level facts: "
        "white space before the first token, label spelled with an escape)",
    ]
    assumptions = [
        "since <= until is part of the well-formedness hypothesis (the code rejects such filters; the property's list neither demands nor forbids them)",
        "JSON null in place of a value, duplicate members and labels spelled with escapes are not claimed either way",
        "an address kind may be written with a sign or leading zeros (strconv.ParseInt accepts them); the specification accepts the same numerals",
    ]
    signatures = {
        "F1_kind_out_of_range_judged_valid": _kind_out_of_range,
        "F2_address_d_with_colon_rejected": _colon_in_d,
        "F10_leading_whitespace_rejected": _leading_ws,
    }

    def to_coq(self, I, c):
        k = c["k"]
        if k == "admit":
            v = c.get("v")
            return "(CAdmit %s %s %s %s %s %s %s)" % (
                cbool(c.get("lead", False)), cbool(c.get("esc", False)), cjv(I, c.get("j")),
                cbool(c["parsed"]), cbool(c["valid"]), cbool(c.get("pan", False)),
                copt(v, lambda x: ccmsg(I, x), "cmsg"))
        if k == "admit-raw":
            return "(CAdmitRaw %s %s)" % (cbool(c["parsed"]), cbool(c.get("pan", False)))
        if k == "valid":
            return "(CValid %s %s %s)" % (ccmsg(I, c["v"]), cbool(c["valid"]), cbool(c.get("pan", False)))
        if k == "naddr":
            return "(CNaddr %s %s %s)" % (hx(I, c["s"]), cbool(c["valid"]), cbool(c.get("pan", False)))
        return "(CKind %s %s)" % (cZ(c["kind"]), cbool(c["valid"]))

    def _input(self, c):
        k = c["k"]
        if k == "admit":
            return {"k": k, "lead": c.get("lead", False), "esc": c.get("esc", False), "j": c.get("j")}
        if k == "valid":
            return {"k": k, "v": c["v"]}
        if k == "naddr":
            return {"k": k, "s": c["s"]}
        if k == "kind":
            return {"k": k, "kind": c["kind"]}
        return {"k": k, "text": c.get("text")}

    def nontrivial_key(self, c):
        if c.get("valid") or c.get("cls", "").startswith("wf"):
            return json.dumps(self._input(c), sort_keys=True)
        return None

    def dedup_key(self, c):
        for name, pred in self.signatures.items():
            try:
                if pred(c):
                    return name
            except Exception:
                pass
        # otherwise: one report per (stream, generator class, verdict pair)
        return json.dumps([c["k"], c.get("cls", "").split(":")[0:2], bool(c.get("parsed")), bool(c.get("valid"))])

    def shrink(self, c):
        k = c["k"]
        if k == "admit":
            base = drop_keys(c, ("text", "parsed", "valid", "pan", "v"))
            for j in jv_shrinks(c.get("j")):
                yield dict(base, j=j)
        elif k == "valid":
            v = c["v"]
            base = {"k": "valid", "cls": c.get("cls", "")}
            fs = v.get("fs") or []
            if len(fs) > 1:
                for i in range(len(fs)):
                    v2 = deep(v)
                    del v2["fs"][i]
                    yield dict(base, v=v2)
            for i, f in enumerate(fs):
                if isinstance(f, dict):
                    for fld, val in f.items():
                        if val is not None:
                            v2 = deep(v)
                            v2["fs"][i][fld] = None
                            yield dict(base, v=v2)
                            if isinstance(val, list) and len(val) > 1:
                                for n in range(len(val)):
                                    v3 = deep(v)
                                    del v3["fs"][i][fld][n]
                                    yield dict(base, v=v3)
            e = v.get("e")
            if isinstance(e, dict) and e.get("tags"):
                for i in range(len(e["tags"])):
                    v2 = deep(v)
                    del v2["e"]["tags"][i]
                    yield dict(base, v=v2)
        elif k == "naddr":
            b = bytes.fromhex(c["s"])
            base = {"k": "naddr", "cls": c.get("cls", "")}
            parts = b.split(b":")
            if len(parts) >= 3 and parts[1] != PK0.encode():
                yield dict(base, s=b":".join([parts[0], PK0.encode()] + parts[2:]).hex())
            if len(parts) > 4:
                yield dict(base, s=b":".join(parts[:-1]).hex())
            if len(parts) >= 3 and len(parts[-1]) > 1:
                yield dict(base, s=b":".join(parts[:-1] + [parts[-1][:1]]).hex())

    def summarize(self, c):
        c = dict(c)
        if c.get("text"):
            try:
                c["text_utf8"] = bytes.fromhex(c["text"]).decode("utf-8", "replace")[:400]
            except Exception:
                pass
        return c

    def distribution(self, cases):
        d = {"by_kind": {}, "by_class": {}, "texts": 0, "texts_parsed": 0, "texts_parsed_and_valid": 0,
             "wellformed_texts": 0, "wellformed_texts_leading_ws": 0, "corrupted_texts": 0, "corrupted_texts_accepted": 0,
             "values": 0, "values_valid": 0, "addresses": 0, "addresses_valid": 0, "kinds_probed": 0,
             "by_label_parsed": {}, "panics": 0}
        for c in cases:
            k = c["k"]
            cl = c.get("cls", "")
            d["by_kind"][k] = d["by_kind"].get(k, 0) + 1
            d["by_class"][cl] = d["by_class"].get(cl, 0) + 1
            if c.get("pan"):
                d["panics"] += 1
            if k in ("admit", "admit-raw"):
                d["texts"] += 1
                if c.get("parsed"):
                    d["texts_parsed"] += 1
                    t = (c.get("v") or {}).get("t", "?")
                    d["by_label_parsed"][t] = d["by_label_parsed"].get(t, 0) + 1
                if c.get("parsed") and c.get("valid"):
                    d["texts_parsed_and_valid"] += 1
                if cl.startswith("wf"):
                    d["wellformed_texts"] += 1
                    if cl == "wf:leading-ws":
                        d["wellformed_texts_leading_ws"] += 1
                if cl.startswith("corrupt:"):
                    d["corrupted_texts"] += 1
                    if c.get("parsed") and c.get("valid"):
                        d["corrupted_texts_accepted"] += 1
            elif k == "valid":
                d["values"] += 1
                d["values_valid"] += 1 if c.get("valid") else 0
            elif k == "naddr":
                d["addresses"] += 1
                d["addresses_valid"] += 1 if c.get("valid") else 0
            elif k == "kind":
                d["kinds_probed"] += 1
        d["share_accepted"] = round(d["texts_parsed_and_valid"] / max(d["texts"], 1), 3)
        return d


PROP = C11()
