#!/usr/bin/env python3
"""Writes the prompts for one round of seeding agents: tools/mkseedprompts.py <dir> <round-word>
One prompt per property (<dir>/Cnn.prompt) built from the property text only (properties.jsonl) plus the
one-line summaries of the changes earlier rounds produced (first line of seeded/*/notes.txt)."""
import glob
import json
import os
import sys

ROOT = os.path.dirname(os.path.dirname(os.path.abspath(__file__)))
out, word = sys.argv[1], sys.argv[2]
EXTRA = sys.argv[3] if len(sys.argv) > 3 else ""
os.makedirs(out, exist_ok=True)
for line in open(os.path.join(ROOT, "properties.jsonl")):
    p = json.loads(line)
    pid = p["id"]
    wt = "%s/%s" % (out, pid)
    prior = []
    for d in sorted(glob.glob(os.path.join(ROOT, "seeded", pid + "-*"))):
        n = os.path.join(d, "notes.txt")
        if os.path.exists(n):
            for l in open(n):
                l = l.strip()
                if l:
                    prior.append("- " + l[:160])
                    break
    txt = f"""You are given a Go repository (a Nostr relay library, module github.com/high-moctane/mocrelay) checked out as a scratch git worktree at {wt}. Work ONLY inside that directory (and {wt}-out for your outputs); do not read or write anything under /verif or /repo, and do not look at other directories under {out}. There is no network; run Go with: export GOFLAGS=-mod=mod GOPROXY=off GOSUMDB=off GOTOOLCHAIN=local

Here is a semantic property that the code is supposed to satisfy:

{pid} — {p['title']}

{p['statement']}

Quantified over: {p['quantifier']['text']}


Task: produce up to THREE different, realistic changes (bugs a maintainer could plausibly introduce in a refactoring or "optimisation") to the repository's non-test Go code, each of which BREAKS the property while the code still compiles and the EXISTING test suite still passes unchanged (`go build ./... && go test -count=1 ./...` in the worktree). Prefer changes that need something specific to manifest — a particular multi-step sequence of operations, an unusual input or boundary value, a particular interleaving, or two cooperating sites that each look fine alone — not changes that ordinary use would expose at once. Do not edit any *_test.go file and do not touch files named verif_export.go. Keep each change small (a few lines).

For EACH change k = 1, 2, 3 deliver, in {wt}-out/k/:
  - patch.diff : `git diff` of the change against the worktree's HEAD (must apply with `git apply` at the repository root);
  - demo_test.go (or a small main program) : a demonstration that FAILS with the change applied and PASSES without it, showing the property being violated through the library's public API or package-internal test (say where the file has to be placed and how to run it, e.g. copy to the repository root as zz_demo_test.go and `go test -run TestDemo ./...`);
  - notes.txt : FIRST LINE a one-line summary of the change; then which clause of the property breaks, what is needed for the violation to manifest, and the exact commands you ran with their outcome (suite passes with the change; demo fails with it and passes without it).
Verify all of that yourself before finishing, and leave the worktree clean (git checkout -- . ; remove untracked files) at the end. One test of the existing suite (TestEventCreatedAtMiddleware) is timing-sensitive and can fail on a loaded machine regardless of your change: if it is the only failure, re-run. Your final message: one paragraph per change (what it is, what it needs to manifest), plus the paths.


This is a {word} round. Do not use `git stash` (it is shared between worktrees): use `git apply` / `git apply -R` with your saved patch files. {EXTRA}Changes of the following kinds were already produced for this property by earlier rounds; do NOT repeat them or minor variants of them — find different mechanisms, in different functions or files where possible:
""" + "\n".join(prior) + "\n"
    open(os.path.join(out, pid + ".prompt"), "w").write(txt)
print("prompts written to", out)
