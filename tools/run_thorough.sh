#!/bin/sh
# Runs the thorough tier of the given properties one after the other and logs exit code and wall time.
# usage: tools/run_thorough.sh C01 C02 ...   (log: work/thorough.log)
cd "$(dirname "$0")/.."
mkdir -p work
for p in "$@"; do
  t0=$(date +%s)
  ./check "$p" --tier thorough > "work/thorough_$p.out" 2>&1
  rc=$?
  t1=$(date +%s)
  echo "$p exit=$rc wall=$((t1 - t0))s $(grep -c '^VIOLATION' work/thorough_$p.out) violation lines; $(tail -1 work/thorough_$p.out)" >> work/thorough.log
done
