#!/usr/bin/env python3
"""Imports and runs the second-wave seeded changes found under /tmp/seed2/<prop>-out/<k>.
usage: tools/seedwave.py C01 C02 ...   (log appended to work/seedwave.log)"""
import os
import subprocess
import sys

ROOT = os.path.dirname(os.path.dirname(os.path.abspath(__file__)))
sys.path.insert(0, os.path.join(ROOT, "tools"))
import seedtest  # noqa: E402

DEMO_DIR = {"C06": "handler/sqlite", "C14": "handler/sqlite", "C19": "middleware/prometheus",
            ("C13", 2): "handler/sqlite", ("C16", 3): "handler/sqlite"}


def log(s):
    with open(os.path.join(ROOT, "work", "seedwave.log"), "a") as f:
        f.write(s + "\n")


for p in sys.argv[1:]:
    for k in (1, 2, 3):
        src = "/tmp/seed2/%s-out/%d" % (p, k)
        if not os.path.exists(os.path.join(src, "patch.diff")):
            continue
        sid = "%s-w%d" % (p, k)
        dd = DEMO_DIR.get((p, k)) or DEMO_DIR.get(p) or "."
        try:
            seedtest.do_import(src, sid, p, dd)
            import json
            m = json.load(open(os.path.join(ROOT, "seeded", sid, "meta.json")))
            log("%s imported %s" % (sid, json.dumps(m["confirmed"])[:160]))
        except Exception as e:
            log("%s import failed: %s" % (sid, e))
    subprocess.run(["git", "-C", "/repo", "worktree", "remove", "--force", "/tmp/seed2/" + p])
    for k in (1, 2, 3):
        sid = "%s-w%d" % (p, k)
        if os.path.exists(os.path.join(ROOT, "seeded", sid, "meta.json")):
            try:
                res = seedtest.do_run(sid)
                for c, r in res.items():
                    log("%s %s exit %s %s %ss" % (sid, c, r["exit"], [l[:120] for l in r["lines"]][:2], r["wall_s"]))
            except Exception as e:
                log("%s run failed: %s" % (sid, e))
