#!/usr/bin/env python3
"""Imports and runs the second-wave seeded changes found under /tmp/seed2/<prop>-out/<k>.
usage: tools/seedwave.py C01 C02 ...   (log appended to work/seedwave.log)"""
import os
import subprocess
import sys

ROOT = os.path.dirname(os.path.dirname(os.path.abspath(__file__)))
sys.path.insert(0, os.path.join(ROOT, "tools"))
import seedtest  # noqa: E402

import re

SRC = "/tmp/seed2"
TAG = "w"
args = sys.argv[1:]
while args and args[0].startswith("--"):
    if args[0] == "--src":
        SRC = args[1]
    elif args[0] == "--tag":
        TAG = args[1]
    args = args[2:]


def demo_dir(src):
    """where the demo belongs: decided by its package clause"""
    for f in sorted(os.listdir(src)):
        if f.endswith(".go"):
            m = re.search(r"^package\s+(\w+)", open(os.path.join(src, f)).read(), re.M)
            pkg = m.group(1) if m else ""
            if pkg.startswith("sqlite"):
                return "handler/sqlite"
            if pkg.startswith("prometheus"):
                return "middleware/prometheus"
            return "."
    return "."


def log(s):
    with open(os.path.join(ROOT, "work", "seedwave.log"), "a") as f:
        f.write(s + "\n")


for p in args:
    for k in (1, 2, 3):
        src = "%s/%s-out/%d" % (SRC, p, k)
        if not os.path.exists(os.path.join(src, "patch.diff")):
            continue
        sid = "%s-%s%d" % (p, TAG, k)
        dd = demo_dir(src)
        try:
            seedtest.do_import(src, sid, p, dd)
            import json
            m = json.load(open(os.path.join(ROOT, "seeded", sid, "meta.json")))
            log("%s imported %s" % (sid, json.dumps(m["confirmed"])[:160]))
        except Exception as e:
            log("%s import failed: %s" % (sid, e))
    subprocess.run(["git", "-C", "/repo", "worktree", "remove", "--force", SRC + "/" + p])
    for k in (1, 2, 3):
        sid = "%s-%s%d" % (p, TAG, k)
        if os.path.exists(os.path.join(ROOT, "seeded", sid, "meta.json")):
            try:
                res = seedtest.do_run(sid)
                for c, r in res.items():
                    log("%s %s exit %s %s %ss" % (sid, c, r["exit"], [l[:120] for l in r["lines"]][:2], r["wall_s"]))
            except Exception as e:
                log("%s run failed: %s" % (sid, e))
