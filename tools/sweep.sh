#!/bin/sh
# Runs the quick tier of the given properties with several seeds; logs exit code, wall time and any VIOLATION line.
# usage: tools/sweep.sh "1 2 3" C01 C02 ...    (log: work/sweep.log)
cd "$(dirname "$0")/.."
mkdir -p work
seeds="$1"; shift
for s in $seeds; do
  for p in "$@"; do
    t0=$(date +%s)
    VERIF_SEED=$s ./check "$p" --tier quick > "work/sweep_$p.out" 2>&1
    rc=$?
    t1=$(date +%s)
    echo "seed=$s $p exit=$rc wall=$((t1 - t0))s $(grep '^VIOLATION\|^KNOWN' work/sweep_$p.out | head -2 | tr '\n' ' ')" >> work/sweep.log
  done
done
