#!/bin/sh
# usage: tools/seedwave.sh C07 [demo_dir]   -- imports /tmp/seed2/C07-out/{1,2,3} as C07-w1.. and runs the check against each
cd "$(dirname "$0")/.."
p="$1"; dd="${2:-.}"
for k in 1 2 3; do
  if [ -f "/tmp/seed2/$p-out/$k/patch.diff" ]; then
    python3 tools/seedtest.py import "/tmp/seed2/$p-out/$k" "$p-w$k" "$p" "$dd" 2>&1 | tail -1 | cut -c1-160 >> work/seedwave.log
  fi
done
git -C /repo worktree remove --force "/tmp/seed2/$p" 2>/dev/null
for k in 1 2 3; do
  if [ -f "seeded/$p-w$k/meta.json" ]; then
    python3 tools/seedtest.py run "$p-w$k" 2>&1 | grep -v '^\[check\]' | tail -1 | cut -c1-260 >> work/seedwave.log
  fi
done
