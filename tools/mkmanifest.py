#!/usr/bin/env python3
"""Regenerates MANIFEST.json from tools/claims.json (what each claimed check says) and properties.jsonl."""
import json
import os
ROOT = os.path.dirname(os.path.dirname(os.path.abspath(__file__)))
props = [json.loads(l) for l in open(os.path.join(ROOT, "properties.jsonl"))]
claims = json.load(open(os.path.join(ROOT, "tools", "claims.json")))
na_reasons = json.load(open(os.path.join(ROOT, "tools", "not_applicable.json"))) if os.path.exists(os.path.join(ROOT, "tools", "not_applicable.json")) else {}
checks, na = [], []
for p in props:
    i = p["id"]
    if i in claims:
        c = claims[i]
        checks.append({"property_id": i, "quick_cmd": "./check %s --tier quick" % i,
                       "thorough_cmd": "./check %s --tier thorough" % i,
                       "evidence_file": "/verif/evidence/%s.json" % i,
                       "replay_cmd_template": "./check %s --replay {path}" % i,
                       "engine": "coq-proof+correspondence",
                       "level_claimed": {"category": "proof", "text": c["level"], "design_ref": "DESIGN.md section " + c["ref"]},
                       "level_note": c["note"], "technique": c["tech"]})
    else:
        na.append({"property_id": i, "reason": na_reasons.get(i, "check under construction in this session (model and theorems planned in DESIGN.md section 4); not claimed until its check exists and passes on the unchanged tree")})
m = {"version": 1, "setup_cmd": "./setup.sh",
     "hooks": {"guard": "verif", "enable": "go build -tags verif (harness module with replace => /repo)",
               "baseline_off_cmd": "cd /repo && GOFLAGS=-mod=mod GOPROXY=off GOTOOLCHAIN=local go test -vet=off -count=1 ./...",
               "source_commits": ["de39150", "fae4b01"], "add_only": True},
     "engines": [{"name": "coq-proof+correspondence", "path": "/verif/check",
                  "serves_properties": [c["property_id"] for c in checks],
                  "kind_free_text": "Coq 8.16.1 theories (coq/theories) proved with full .vo builds; guards regenerated from /repo by gen/; Go harnesses run the real code and the observations are judged inside Coq by vm_compute (model equality and specification oracle)"},
                 {"name": "system-composition", "path": "/verif/check SYS", "serves_properties": ["C07", "C08", "C09", "C16", "C19"],
                  "kind_free_text": "extra correspondence run (./check SYS) of the relay that cmd/mocrelay assembles against the composed Coq model System.v; not registered as a property check; its SYS_* theorems are built and counted with C16"},
                 {"name": "json-text-model", "path": "/verif/check C10T", "serves_properties": ["C10", "C11", "C12"],
                  "kind_free_text": "extra correspondence run (./check C10T) of the byte-level JSON parser/printer model JsonText.v against Go's encoding/json, utf8.Valid and the label regexp; not registered as a property check; its C10T_* theorems are built and counted with C10"}],
     "checks": checks, "not_applicable": na,
     "notes": "All checks go through ./check (lib/engine.py). VERIF_SEED and VERIF_TIER are honoured. DESIGN.md section 10 describes the system as built. Extra engine (not one of the 20 properties): ./check SYS drives the composed relay of cmd/mocrelay (merge(cache, router, SQLite) + Prometheus) on one connection against System.v (evidence/SYS.json); the ADM_* theorems (gate instantiated with the codec/validator/serializer models) are built and counted with C12. ./check C10T compares the byte-level JSON model (JsonText.v; C10T_* theorems built and counted with C10) with Go's encoding/json, utf8 and regexp on generated and malformed texts (evidence/C10T.json)."}
json.dump(m, open(os.path.join(ROOT, "MANIFEST.json"), "w"), indent=1)
print("claimed:", [c["property_id"] for c in checks])
