#!/usr/bin/env python3
"""Prints the markdown table of seeded changes and check verdicts from seeded/*/meta.json,
and substitutes it for the SEEDTABLE marker / previous table in DESIGN.md."""
import json
import os
import re
ROOT = os.path.dirname(os.path.dirname(os.path.abspath(__file__)))
rows = []
for sid in sorted(os.listdir(os.path.join(ROOT, "seeded"))):
    mp = os.path.join(ROOT, "seeded", sid, "meta.json")
    if not os.path.exists(mp):
        continue
    m = json.load(open(mp))
    notes = (m.get("needs_to_manifest") or "").strip().splitlines()
    what = ""
    for l in notes:
        l = l.strip()
        if len(l) > 40 and not l.lower().startswith(("notes", "#", "=", "what it is", "what changed", "file:", "files:")):
            what = l.lstrip("-* ")
            break
    what = (what or (notes[0] if notes else ""))[:140].replace("|", "/")
    res = []
    for chk, r in (m.get("check_results") or {}).items():
        lines = r.get("lines") or []
        vio = [l for l in lines if l.startswith("VIOLATION")]
        if not vio:
            verdict = "MISSED (exit %s)" % r.get("exit")
        elif all("no-failing-input-found" in l for l in vio):
            verdict = "VIOLATION, no-failing-input-found"
        else:
            verdict = "VIOLATION with concrete replay"
        res.append("%s: %s" % (chk, verdict))
    if m.get("applies_to"):
        res.append("(pre-K1 tree)")
    rows.append("| %s | %s | %s |" % (sid, what, "; ".join(res) or "not run"))
table = "| seeded change | what it does (first line of its notes) | verdict of the check(s) |\n|---|---|---|\n" + "\n".join(rows)
p = os.path.join(ROOT, "DESIGN.md")
s = open(p).read()
if "SEEDTABLE" in s:
    s = s.replace("SEEDTABLE", "<!-- seedtable -->\n" + table + "\n<!-- /seedtable -->")
else:
    new = "<!-- seedtable -->\n" + table + "\n<!-- /seedtable -->"
    s = re.sub(r"<!-- seedtable -->.*?<!-- /seedtable -->", lambda m: new, s, flags=re.S)
open(p, "w").write(s)
print(table)
