#!/usr/bin/env python3
"""Statement coverage of /repo's packages achieved by the harness runs of the quick tiers.

Builds every harness binary with `go build -cover -coverpkg=github.com/high-moctane/mocrelay/...`,
runs each property's harness sub-command with the quick-tier size, merges the coverage data and
prints per-function coverage (functions below 100% first).  Writes work/coverage_func.txt.
This is a measurement of the correspondence generators, not a check.
"""
import importlib
import os
import shutil
import subprocess
import sys

ROOT = os.path.dirname(os.path.dirname(os.path.abspath(__file__)))
sys.path.insert(0, os.path.join(ROOT, "lib"))
sys.path.insert(0, os.path.join(ROOT, "props"))
ENV = dict(os.environ, GOFLAGS="-mod=mod", GOPROXY="off", GOSUMDB="off", GOTOOLCHAIN="local")
TMP = "/var/tmp/coord/cov"
PROPS = ["C%02d" % i for i in range(1, 21)] + ["SYS"]


def main():
    shutil.rmtree(TMP, ignore_errors=True)
    os.makedirs(TMP + "/data", exist_ok=True)
    os.makedirs(TMP + "/bin", exist_ok=True)
    # Go instruments only packages of the main module, so the harness is built inside a scratch
    # copy of /repo (imports rewritten), where the relay's packages ARE the main module.
    hdir = os.path.join(TMP, "repo")
    subprocess.run(["rsync", "-a", "--exclude", ".git", "/repo/", hdir + "/"], check=True)
    vh = os.path.join(hdir, "verifharness")
    subprocess.run(["rsync", "-a", "--exclude", "go.mod", "--exclude", "go.sum", os.path.join(ROOT, "harness") + "/", vh + "/"], check=True)
    for dp, _, fs in os.walk(vh):
        for f in fs:
            if f.endswith(".go"):
                q = os.path.join(dp, f)
                t = open(q).read().replace('"verif/harness/common"', '"github.com/high-moctane/mocrelay/verifharness/common"')
                open(q, "w").write(t)
    built = {}
    for pid in PROPS:
        try:
            prop = importlib.import_module(pid).PROP
        except Exception as e:
            print("skip", pid, e)
            continue
        b = prop.harness_bin
        if b not in built:
            flags = [f for f in getattr(prop, "build_flags", ()) if f != "-race"]
            cmd = ["go", "build", "-tags", "verif", "-cover"] + flags + \
                  ["-o", os.path.join(TMP, "bin", b), "./verifharness/cmd/" + b]
            r = subprocess.run(cmd, cwd=hdir, env=ENV, stdout=subprocess.PIPE, stderr=subprocess.STDOUT, text=True)
            built[b] = r.returncode == 0
            if r.returncode != 0:
                print("build failed", b, r.stdout[-500:])
        if not built[b]:
            continue
        n = min(prop.sizes["quick"], 3000)
        out = os.path.join(TMP, "trace_%s.jsonl" % pid)
        cmd = [os.path.join(TMP, "bin", b), prop.harness_sub, "-seed", "1", "-n", str(n), "-out", out] + prop.harness_extra("quick")
        env = dict(ENV, GOCOVERDIR=TMP + "/data")
        r = subprocess.run(cmd, env=env, stdout=subprocess.PIPE, stderr=subprocess.STDOUT, text=True, timeout=1800)
        print(pid, b, prop.harness_sub, "rc", r.returncode, flush=True)
    txt = os.path.join(TMP, "cov.txt")
    subprocess.run(["go", "tool", "covdata", "textfmt", "-i=" + TMP + "/data", "-o", txt], env=ENV, check=True)
    r = subprocess.run(["go", "tool", "cover", "-func=" + txt], cwd=hdir, env=ENV, stdout=subprocess.PIPE, text=True)
    lines = [l for l in r.stdout.splitlines() if l.strip()]
    os.makedirs(os.path.join(ROOT, "work"), exist_ok=True)
    open(os.path.join(ROOT, "work", "coverage_func.txt"), "w").write(r.stdout)
    low = []
    for l in lines:
        parts = l.split()
        try:
            pct = float(parts[-1].rstrip("%"))
        except ValueError:
            continue
        if pct < 100.0 and "verif_export" not in l and "cmd/mocrelay" not in l and "verifharness" not in l:
            low.append((pct, l))
    low.sort()
    for pct, l in low:
        print(l)
    print(lines[-1])


if __name__ == "__main__":
    main()
