#!/usr/bin/env python3
"""Confirm seeded changes and run the checks against them in scratch worktrees.

usage: tools/seedtest.py import /tmp/seed/C03-out/1 C03-1 C03     # confirm + store under seeded/C03-1
       tools/seedtest.py run C03-1 [CHECK ...]                    # run checks (default: meta's property) against it
       tools/seedtest.py runall                                   # every seeded change against its property's check
Each run uses VERIF_REPO=<scratch worktree> VERIF_WORK=seed-<id>; the worktree is removed afterwards.
"""
import json
import os
import shutil
import subprocess
import sys
import time

ROOT = os.path.dirname(os.path.dirname(os.path.abspath(__file__)))
SEEDED = os.path.join(ROOT, "seeded")
ENV = dict(os.environ, GOFLAGS="-mod=mod", GOPROXY="off", GOSUMDB="off", GOTOOLCHAIN="local")


def sh(cmd, cwd=None, env=None, timeout=3000):
    p = subprocess.run(cmd, cwd=cwd, env=env or ENV, stdout=subprocess.PIPE, stderr=subprocess.STDOUT, text=True,
                       timeout=timeout, shell=isinstance(cmd, str))
    return p.returncode, p.stdout


def mk_worktree(name):
    wt = "/var/tmp/coord/%s" % name
    sh(["git", "-C", "/repo", "worktree", "remove", "--force", wt])
    shutil.rmtree(wt, ignore_errors=True)
    os.makedirs("/var/tmp/coord", exist_ok=True)
    rc, out = sh(["git", "-C", "/repo", "worktree", "add", "--detach", wt, "HEAD"])
    assert rc == 0, out
    return wt


def rm_worktree(wt):
    sh(["git", "-C", "/repo", "worktree", "remove", "--force", wt])
    shutil.rmtree(wt, ignore_errors=True)


def demo_file(d):
    for f in sorted(os.listdir(d)):
        if f.endswith(".go"):
            return f
    return None


def run_demo(wt, d, meta):
    """Returns (rc, tail)."""
    f = demo_file(d)
    dest_dir = os.path.join(wt, meta.get("demo_dir", "."))
    dest = os.path.join(dest_dir, "zz_demo_test.go" if f.endswith("_test.go") else f)
    shutil.copyfile(os.path.join(d, f), dest)
    cmd = meta.get("demo_cmd") or "go test -count=1 -run TestDemo ./%s" % meta.get("demo_dir", ".")
    rc, out = sh(cmd, cwd=wt, timeout=1200)
    os.unlink(dest)
    return rc, out[-1500:]


def do_import(src, sid, prop, demo_dir=".", demo_cmd=None):
    dst = os.path.join(SEEDED, sid)
    os.makedirs(dst, exist_ok=True)
    for f in os.listdir(src):
        shutil.copyfile(os.path.join(src, f), os.path.join(dst, f))
    meta = {"id": sid, "property": prop, "demo_dir": demo_dir}
    if demo_cmd:
        meta["demo_cmd"] = demo_cmd
    wt = mk_worktree("imp-" + sid)
    try:
        # without the change: suite passes, demo passes
        rc0, out0 = run_demo(wt, dst, meta)
        rc, out = sh(["git", "apply", os.path.join(dst, "patch.diff")], cwd=wt)
        assert rc == 0, "patch does not apply: " + out
        rcb, outb = sh("go build ./... && go test -count=1 ./...", cwd=wt)
        rc1, out1 = run_demo(wt, dst, meta)
        meta["confirmed"] = {
            "demo_passes_without_change": rc0 == 0,
            "suite_passes_with_change": rcb == 0,
            "demo_fails_with_change": rc1 != 0,
            "commands": ["git apply patch.diff", "go build ./... && go test -count=1 ./...",
                         meta.get("demo_cmd") or "go test -count=1 -run TestDemo ./%s (demo copied as zz_demo_test.go)" % demo_dir],
        }
        if rcb != 0:
            meta["confirmed"]["suite_output"] = outb[-800:]
    finally:
        rm_worktree(wt)
    notes = os.path.join(dst, "notes.txt")
    if os.path.exists(notes):
        meta["needs_to_manifest"] = open(notes).read()[:1500]
    json.dump(meta, open(os.path.join(dst, "meta.json"), "w"), indent=1)
    print(sid, json.dumps(meta["confirmed"]))


def do_run(sid, checks=None):
    d = os.path.join(SEEDED, sid)
    meta = json.load(open(os.path.join(d, "meta.json")))
    checks = checks or [meta["property"]]
    wt = mk_worktree("run-" + sid)
    res = {}
    try:
        rc, out = sh(["git", "apply", os.path.join(d, "patch.diff")], cwd=wt)
        assert rc == 0, out
        for c in checks:
            t0 = time.time()
            env = dict(ENV, VERIF_REPO=wt, VERIF_WORK="seed-" + sid)
            rc, out = sh(["./check", c], cwd=ROOT, env=env, timeout=3000)
            vio = [l for l in out.splitlines() if l.startswith("VIOLATION") or l.startswith("KNOWN-FINDING")]
            res[c] = {"exit": rc, "lines": vio, "wall_s": round(time.time() - t0, 1)}
            print(sid, c, "exit", rc, vio[:2], "%.0fs" % (time.time() - t0), flush=True)
            if rc not in (0, 1):
                print(out[-1500:])
    finally:
        rm_worktree(wt)
        shutil.rmtree(os.path.join(ROOT, "work", "seed-" + sid), ignore_errors=True)
    if os.environ.get("SEEDTEST_NOMETA"):      # a robustness run with another seed: the table keeps the default seed's verdict
        return res
    meta.setdefault("check_results", {}).update(res)
    json.dump(meta, open(os.path.join(d, "meta.json"), "w"), indent=1)
    return res


if __name__ == "__main__":
    if sys.argv[1] == "import":
        do_import(sys.argv[2], sys.argv[3], sys.argv[4], *(sys.argv[5:7]))
    elif sys.argv[1] == "run":
        do_run(sys.argv[2], sys.argv[3:] or None)
    elif sys.argv[1] == "runall":
        for sid in sorted(os.listdir(SEEDED)):
            if os.path.exists(os.path.join(SEEDED, sid, "meta.json")):
                do_run(sid)
