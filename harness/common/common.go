// Package common: deterministic PRNG, JSON shapes shared by all harness
// sub-commands, and small generators for events and filters.
package common

import (
	"bufio"
	"encoding/json"
	"fmt"
	"math"
	"os"
	"reflect"
	"strconv"
	"strings"

	"github.com/high-moctane/mocrelay"
)

// ---- PRNG (splitmix64): every random choice of a run derives from one seed.
type Rand struct{ s uint64 }

func NewRand(seed uint64) *Rand { return &Rand{s: seed*0x9E3779B97F4A7C15 + 0x1234567} }

func (r *Rand) U64() uint64 {
	r.s += 0x9E3779B97F4A7C15
	z := r.s
	z = (z ^ (z >> 30)) * 0xBF58476D1CE4E5B9
	z = (z ^ (z >> 27)) * 0x94D049BB133111EB
	return z ^ (z >> 31)
}
func (r *Rand) Intn(n int) int {
	if n <= 0 {
		return 0
	}
	return int(r.U64() % uint64(n))
}
func (r *Rand) Bool() bool          { return r.U64()&1 == 1 }
func (r *Rand) Chance(p int) bool   { return r.Intn(100) < p } // p percent
func Pick[T any](r *Rand, xs []T) T { return xs[r.Intn(len(xs))] }

// Fork derives an independent stream (so that case i does not depend on how
// many draws case i-1 made).
func (r *Rand) Fork(i uint64) *Rand { return NewRand(r.s ^ (i+1)*0xD6E8FEB86659FD93) }

// ---- JSON shapes
type JEvent struct {
	ID      string     `json:"id"`
	PK      string     `json:"pk"`
	TS      int64      `json:"ts"`
	Kind    int64      `json:"kind"`
	Tags    [][]string `json:"tags"`
	Content string     `json:"content"`
	Sig     string     `json:"sig"`
}

type JTagCond struct {
	Name string   `json:"n"`
	Vals []string `json:"v"`
}

type JFilter struct {
	IDs     *[]string   `json:"ids"`
	Authors *[]string   `json:"authors"`
	Kinds   *[]int64    `json:"kinds"`
	Tags    *[]JTagCond `json:"tags"`
	Since   *int64      `json:"since"`
	Until   *int64      `json:"until"`
	Limit   *int64      `json:"limit"`
}

func (j JEvent) ToEvent() *mocrelay.Event {
	tags := make([]mocrelay.Tag, len(j.Tags))
	for i, t := range j.Tags {
		tags[i] = mocrelay.Tag(append([]string{}, t...))
	}
	return &mocrelay.Event{ID: j.ID, Pubkey: j.PK, CreatedAt: j.TS, Kind: j.Kind, Tags: tags, Content: j.Content, Sig: j.Sig}
}

func FromEvent(e *mocrelay.Event) JEvent {
	tags := make([][]string, len(e.Tags))
	for i, t := range e.Tags {
		tags[i] = append([]string{}, t...)
	}
	return JEvent{e.ID, e.Pubkey, e.CreatedAt, e.Kind, tags, e.Content, e.Sig}
}

func (j JFilter) ToFilter() *mocrelay.ReqFilter {
	// (integers of its own: nothing the implementation does to the filter reaches the recorded case)
	f := &mocrelay.ReqFilter{}
	if j.Since != nil {
		f.Since = Ptr(*j.Since)
	}
	if j.Until != nil {
		f.Until = Ptr(*j.Until)
	}
	if j.Limit != nil {
		f.Limit = Ptr(*j.Limit)
	}
	if j.IDs != nil {
		f.IDs = append([]string{}, (*j.IDs)...)
	}
	if j.Authors != nil {
		f.Authors = append([]string{}, (*j.Authors)...)
	}
	if j.Kinds != nil {
		f.Kinds = append([]int64{}, (*j.Kinds)...)
	}
	if j.Tags != nil {
		f.Tags = map[string][]string{}
		for _, tc := range *j.Tags {
			f.Tags[tc.Name] = append([]string{}, tc.Vals...)
		}
	}
	return f
}

// FiltersIntact: fs, made from js by ToFilters and handed to the implementation since, still says what js says
// (a matcher, a store or a validator is given filters to read, not to rewrite: the caller may use them again)
func FiltersIntact(fs []*mocrelay.ReqFilter, js []JFilter) bool {
	if len(fs) != len(js) {
		return false
	}
	for i := range fs {
		if fs[i] == nil || !reflect.DeepEqual(fs[i], js[i].ToFilter()) {
			return false
		}
	}
	return true
}

func ToFilters(js []JFilter) []*mocrelay.ReqFilter {
	fs := make([]*mocrelay.ReqFilter, len(js))
	for i, j := range js {
		fs[i] = j.ToFilter()
	}
	return fs
}

// ---- output
type Out struct {
	w *bufio.Writer
	f *os.File
	N int
}

func NewOut(path string) *Out {
	f, err := os.Create(path)
	if err != nil {
		panic(err)
	}
	return &Out{w: bufio.NewWriterSize(f, 1<<20), f: f}
}
func (o *Out) Emit(v any) {
	b, err := json.Marshal(v)
	if err != nil {
		panic(err)
	}
	o.w.Write(b)
	o.w.WriteByte('\n')
	o.N++
}
func (o *Out) Close() { o.w.Flush(); o.f.Close() }

// ReadLines reads a JSONL file of cases into raw messages (replay mode).
func ReadLines(path string) []json.RawMessage {
	f, err := os.Open(path)
	if err != nil {
		panic(err)
	}
	defer f.Close()
	var out []json.RawMessage
	sc := bufio.NewScanner(f)
	sc.Buffer(make([]byte, 1<<20), 1<<28)
	for sc.Scan() {
		if len(sc.Bytes()) == 0 {
			continue
		}
		out = append(out, append(json.RawMessage{}, sc.Bytes()...))
	}
	return out
}

func Ptr[T any](v T) *T { return &v }

// ---- generators over small universes
type Universe struct {
	IDs, PKs, TagNames, TagVals []string
	Kinds                       []int64
	TSMax                       int64
	// Extreme: percentage chance that a created_at / since / until is drawn from the
	// ends of int64 instead of 0..TSMax
	Extreme int
}

// ExtremeTS are created_at values at which int64 arithmetic on timestamps misbehaves
// (x+1, a-b, time.Unix(x, 0)) when it is not written with care.
var ExtremeTS = []int64{math.MinInt64, math.MinInt64 + 1, -9000000000000000000, -10, -1,
	1 << 31, 1 << 32, 9000000000000000000, 9223371974719179007, 9223371974719179008, math.MaxInt64 - 1, math.MaxInt64}

func (u Universe) ts(r *Rand, span int64) int64 {
	if u.Extreme > 0 && r.Chance(u.Extreme) {
		return Pick(r, ExtremeTS)
	}
	return int64(r.Intn(int(span)))
}

var Small = Universe{
	IDs:      []string{"i1", "i2", "i3"},
	PKs:      []string{"pa", "pb", "pc"},
	TagNames: []string{"e", "p", "a", "t", "X"},
	TagVals:  []string{"", "v1", "v2", "i1"},
	Kinds:    []int64{0, 1, 5, 10000, 30000},
	TSMax:    6,
}

// OddKinds are kinds outside 0..65535 that agree with a kind of the small universe modulo 2^16 or 2^32
// (the decoders accept any int64; a comparison through a narrower type confuses them)
var OddKinds = []int64{65536, 65537, 65541, -65535, -65536, 1 << 32, 1<<32 + 1, 75536, 95536}

// LongTagNames start with a letter that is a tag name of the small universe
var LongTagNames = []string{"title", "emoji", "proxy", "alt", "expiration", "ee"}

func (u Universe) Event(r *Rand, idx int) JEvent {
	e := JEvent{
		ID:   Pick(r, u.IDs),
		PK:   Pick(r, u.PKs),
		TS:   u.ts(r, u.TSMax+1),
		Kind: Pick(r, u.Kinds),
		Tags: [][]string{},
	}
	if u.Extreme > 0 && r.Chance(u.Extreme) {
		e.Kind = Pick(r, OddKinds)
	}
	if u.Extreme > 0 && r.Chance(u.Extreme) {
		e.PK = strings.ToUpper(e.PK) // strings are compared as they are: "PA" is not "pa"
	}
	if idx >= 0 {
		e.ID = "id" + strconv.Itoa(idx)
	}
	nt := r.Intn(5)
	for i := 0; i < nt; i++ {
		t := []string{Pick(r, u.TagNames)}
		if u.Extreme > 0 && r.Chance(2*u.Extreme) {
			t[0] = Pick(r, LongTagNames)
		}
		switch r.Intn(6) {
		case 0: // one-element tag
		case 1:
			t = append(t, Pick(r, u.TagVals), "extra")
		default:
			t = append(t, Pick(r, u.TagVals))
		}
		e.Tags = append(e.Tags, t)
	}
	return e
}

func subset(r *Rand, xs []string, allowEmpty bool) []string {
	out := []string{}
	for _, x := range xs {
		if r.Chance(45) {
			out = append(out, x)
		}
	}
	if len(out) == 0 && !allowEmpty {
		out = append(out, Pick(r, xs))
	}
	if r.Chance(10) && len(out) > 0 { // duplicate entry
		out = append(out, out[0])
	}
	return out
}

// Filter draws a filter: each condition absent / empty / non-empty.
func (u Universe) Filter(r *Rand, sel int) JFilter {
	var f JFilter
	// sel = percentage chance that each condition is present
	if r.Chance(sel) {
		f.IDs = Ptr(subset(r, u.IDs, r.Chance(15)))
	}
	if r.Chance(sel) {
		f.Authors = Ptr(subset(r, u.PKs, r.Chance(15)))
		if u.Extreme > 0 && len(*f.Authors) > 0 && r.Chance(2*u.Extreme) {
			(*f.Authors)[0] = strings.ToUpper((*f.Authors)[0])
		}
	}
	if r.Chance(sel) {
		ks := []int64{}
		for _, k := range u.Kinds {
			if r.Chance(45) {
				ks = append(ks, k)
			}
		}
		if u.Extreme > 0 && r.Chance(u.Extreme) {
			ks = append(ks, Pick(r, OddKinds))
		}
		if len(ks) > 1 && r.Chance(15) { // a repeated member, not adjacent to its first occurrence
			ks = append(ks, ks[0])
		}
		f.Kinds = &ks
	}
	if r.Chance(sel) {
		tcs := []JTagCond{}
		names := append([]string{}, u.TagNames...)
		n := 1 + r.Intn(2)
		for i := 0; i < n && len(names) > 0; i++ {
			k := r.Intn(len(names))
			tcs = append(tcs, JTagCond{names[k], subset(r, u.TagVals, r.Chance(10))})
			names = append(names[:k], names[k+1:]...)
		}
		f.Tags = &tcs
	}
	if r.Chance(sel) {
		f.Since = Ptr(u.ts(r, u.TSMax+2))
	}
	if r.Chance(sel) {
		f.Until = Ptr(u.ts(r, u.TSMax+2))
	}
	if r.Chance(50) {
		f.Limit = Ptr(int64(r.Intn(4)))
	}
	return f
}

func Fatalf(f string, a ...any) {
	fmt.Fprintf(os.Stderr, f+"\n", a...)
	os.Exit(2)
}

// Relax returns a copy of fs in which every filter with at least two of the conditions ids / authors /
// kinds / tags has lost one of them (a query that is answered from a superset of what the original
// query looked at: reading must not have changed what is there).
func Relax(r *Rand, fs []JFilter) []JFilter {
	out := make([]JFilter, len(fs))
	for i, f := range fs {
		var present []int
		if f.IDs != nil {
			present = append(present, 0)
		}
		if f.Authors != nil {
			present = append(present, 1)
		}
		if f.Kinds != nil {
			present = append(present, 2)
		}
		if f.Tags != nil {
			present = append(present, 3)
		}
		if len(present) >= 2 {
			switch present[r.Intn(len(present))] {
			case 0:
				f.IDs = nil
			case 1:
				f.Authors = nil
			case 2:
				f.Kinds = nil
			case 3:
				f.Tags = nil
			}
		}
		out[i] = f
	}
	return out
}
