package main

// C13 — sessions terminate and release everything when the peer goes away.
//
// Two kinds of cases.
//
// k = "sess": a handler composition (comp) wrapped in a middleware stack (mw) is served over plain
// channels.  The client sends the history hist (all of it: the history is stored already cut), the
// peer drains the outbound channel (peer = "drain") or stops reading just before the last message of
// the history is handed over (peer = "stall"), then the session is ended by cancelling its context
// (end = "cancel") or by closing the inbound channel (end = "close", draining peer only), either
// immediately (settle = false: the last message is still being processed) or after a short pause.
// Observed: did ServeNostr return within the bound, how many goroutines that run mocrelay code are
// left over compared with the baseline taken before the session, how many connections are left in the
// router registry, the values of the connection and subscription gauges.
//
// k = "ws": a real Relay behind httptest, a handler that floods 64 KiB notices, a WebSocket client
// that never reads.  Observed: was the handler's session context cancelled within
// SendTimeout + slack.
//
// store = "busy" (session cases whose composition contains the SQLite handler): the handler runs on a
// file-backed database (in a directory of its own under os.MkdirTemp, removed afterwards) with
// EventBulkInsertNum = 1, and a second database connection holds the write lock (BEGIN IMMEDIATE) from
// before the session starts until its ending has been observed: the bulk inserter is stalled in its
// first insertion, the hand-over queue (2 x EventBulkInsertNum) fills up, and the session is ended
// (by cancellation) while the hand-over of a further EVENT is waiting.  The lock is released as soon as
// the observation "returned / did not return within the bound" has been made, so that nothing of a
// stuck session outlives its case.
//
// companion = 2: two further sessions on the same handler run for as long as the session under test
// lasts, one sending REQ/CLOSE for one subscription id over and over (each CLOSE empties its
// subscription set), one publishing events, both reading whatever they are sent (up to 4000 messages
// each); they are cancelled after the session under test has ended and must end as well.
//
// Nothing that depends on timing is written out except these yes/no observations; the bounds are
// generous (3 s to return, 1 s of retries before a goroutine counts as leaked, send timeout + 2.5 s for the drop).

import (
	"context"
	"database/sql"
	"encoding/json"
	"fmt"
	"io"
	"log/slog"
	"net/http/httptest"
	"os"
	"path/filepath"
	"runtime"
	"strings"
	"sync"
	"time"

	"github.com/coder/websocket"
	"github.com/high-moctane/mocrelay"
	mocsqlite "github.com/high-moctane/mocrelay/handler/sqlite"
	mocprom "github.com/high-moctane/mocrelay/middleware/prometheus"
	_ "github.com/mattn/go-sqlite3"
	"github.com/prometheus/client_golang/prometheus"

	"verif/harness/common"
)

type c13Msg struct {
	T   string           `json:"t"` // EVENT REQ CLOSE COUNT
	Ev  *common.JEvent   `json:"ev,omitempty"`
	Sub string           `json:"sub,omitempty"`
	Fs  []common.JFilter `json:"fs,omitempty"`
}

type c13Obs struct {
	Fed       bool   `json:"fed"`      // every message of the history was accepted by the session
	Returned  bool   `json:"returned"` // ServeNostr returned within the bound
	Leak      int    `json:"leak"`     // goroutines running mocrelay code beyond the baseline
	Reg       int    `json:"reg"`      // connections left in the router registry
	GConn     int    `json:"gconn"`    // mocrelay_connection_count afterwards (0 before)
	GReq      int    `json:"greq"`     // mocrelay_req_count afterwards (0 before)
	Panic     string `json:"panic"`
	Cancelled bool   `json:"cancelled"` // ws: session context cancelled in time
	Closed    bool   `json:"closed"`    // ws: after the client went away ServeHTTP returned (Relay.Wait came back)
}

type c13Case struct {
	K      string   `json:"k"`
	Comp   int      `json:"comp"`
	Mw     int      `json:"mw"`
	Hist   []c13Msg `json:"hist"`
	End    string   `json:"end"`
	Peer   string   `json:"peer"`
	Settle bool     `json:"settle"`
	// Companion > 0: a second session on the same handler subscribes to everything and then stops
	// reading while this session runs (its router queue fills up); both must end and release everything
	Companion int `json:"companion,omitempty"`
	// Store = "busy": another writer holds the SQLite database for the whole session (see above)
	Store string `json:"store,omitempty"`
	// Pool1 (busy store): the handler's database pool has a single connection
	Pool1 bool `json:"pool1,omitempty"`
	// Slow (ws): receive rate 0.1/s with burst 2, and the client sends three messages before it stops reading
	Slow   bool   `json:"slow,omitempty"`
	StMs   int    `json:"st_ms"`
	PingMs int    `json:"ping_ms"`
	Obs    c13Obs `json:"obs"`
}

const (
	c13NComp       = 9
	c13NMw         = 5
	c13ReturnBound = 3 * time.Second
	c13LeakRetry   = 1000 * time.Millisecond
	c13FeedBound   = 2 * time.Second
	c13WsSlack     = 2500 * time.Millisecond
)

func c13ToClient(m c13Msg) mocrelay.ClientMsg {
	switch m.T {
	case "EVENT":
		return &mocrelay.ClientEventMsg{Event: m.Ev.ToEvent()}
	case "REQ":
		return &mocrelay.ClientReqMsg{SubscriptionID: m.Sub, ReqFilters: common.ToFilters(m.Fs)}
	case "COUNT":
		return &mocrelay.ClientCountMsg{SubscriptionID: m.Sub, ReqFilters: common.ToFilters(m.Fs)}
	default:
		return &mocrelay.ClientCloseMsg{SubscriptionID: m.Sub}
	}
}

// ---- compositions ----------------------------------------------------------

type c13Built struct {
	h       mocrelay.Handler
	routers []*mocrelay.RouterHandler
	reg     *prometheus.Registry
	cleanup func()
	unlock  func() // store = "busy": lets the other writer go (idempotent); nil otherwise
}

const c13BusyBulkNum = 1 // EventBulkInsertNum of the busy store: the hand-over queue holds 2

// c13SqliteBusy: the SQLite handler on a file-backed database that another connection keeps
// write-locked.  Every wait is bounded; the directory is removed by the cleanup.
// c13Pool1: the busy store's pool has one connection (set from the case before the composition is built)
var c13Pool1 bool

func c13SqliteBusy(b *c13Built, cleanups *[]func()) mocrelay.Handler {
	dir, err := os.MkdirTemp("", "verif-c13-")
	if err != nil {
		panic(err)
	}
	path := filepath.Join(dir, "store.db")
	db, err := sql.Open("sqlite3", path)
	if err != nil {
		os.RemoveAll(dir)
		panic(err)
	}
	if c13Pool1 {
		db.SetMaxOpenConns(1) // the usual setting for SQLite: queries then wait for the connection the insertion holds
	}
	hctx, hcancel := context.WithCancel(context.Background())
	var db2 *sql.DB
	var locker *sql.Conn
	released := false
	unlock := func() {
		if released {
			return
		}
		released = true
		if locker != nil {
			c, cancel := context.WithTimeout(context.Background(), 2*time.Second)
			locker.ExecContext(c, "ROLLBACK")
			cancel()
		}
	}
	*cleanups = append(*cleanups, func() {
		unlock()
		hcancel()
		deadline := time.Now().Add(2 * time.Second)
		for time.Now().Before(deadline) && c13CountGoroutines("sqlite.(*simpleSQLiteHandler).serveBulkInsert") > 0 {
			time.Sleep(2 * time.Millisecond)
		}
		if locker != nil {
			locker.Close()
		}
		if db2 != nil {
			db2.Close()
		}
		db.Close()
		os.RemoveAll(dir)
	})
	h, err := mocsqlite.NewSQLiteHandler(hctx, db, &mocsqlite.SQLiteHandlerOption{
		EventBulkInsertNum: c13BusyBulkNum, EventBulkInsertDur: 0, MaxLimit: mocsqlite.NoLimit})
	if err != nil {
		panic(err)
	}
	// the other writer
	db2, err = sql.Open("sqlite3", path)
	if err != nil {
		panic(err)
	}
	c, cancel := context.WithTimeout(context.Background(), 5*time.Second)
	defer cancel()
	locker, err = db2.Conn(c)
	if err != nil {
		panic(err)
	}
	if _, err := locker.ExecContext(c, "BEGIN IMMEDIATE"); err != nil {
		panic(err)
	}
	b.unlock = unlock
	return h
}

func c13Sqlite(cleanups *[]func()) mocrelay.Handler {
	db, err := sql.Open("sqlite3", ":memory:")
	if err != nil {
		panic(err)
	}
	db.SetMaxOpenConns(1)
	hctx, hcancel := context.WithCancel(context.Background())
	h, err := mocsqlite.NewSQLiteHandler(hctx, db, &mocsqlite.SQLiteHandlerOption{
		EventBulkInsertNum: 2, EventBulkInsertDur: 0, MaxLimit: mocsqlite.NoLimit})
	if err != nil {
		panic(err)
	}
	*cleanups = append(*cleanups, func() {
		hcancel()
		// the bulk-insert goroutine flushes and returns; give it a moment before closing the db
		deadline := time.Now().Add(2 * time.Second)
		for time.Now().Before(deadline) && c13CountGoroutines("sqlite.(*simpleSQLiteHandler).serveBulkInsert") > 0 {
			time.Sleep(2 * time.Millisecond)
		}
		db.Close()
	})
	return h
}

func c13Build(comp, mw int, store string) (b *c13Built) {
	b = &c13Built{}
	var cleanups []func()
	b.cleanup = func() {
		for _, f := range cleanups {
			f()
		}
	}
	defer func() {
		// a construction that fails half-way releases what it has taken
		if r := recover(); r != nil {
			b.cleanup()
			panic(r)
		}
	}()
	sqlite := func() mocrelay.Handler {
		if store == "busy" {
			return c13SqliteBusy(b, &cleanups)
		}
		return c13Sqlite(&cleanups)
	}
	router := func() mocrelay.Handler {
		r := mocrelay.NewRouterHandler(4)
		b.routers = append(b.routers, r)
		return r
	}
	var h mocrelay.Handler
	switch comp {
	case 0:
		h = mocrelay.NewDefaultHandler()
	case 1:
		h = mocrelay.NewCacheHandler(32)
	case 2:
		h = router()
	case 3:
		h = sqlite()
	case 4:
		h = mocrelay.NewMergeHandler(mocrelay.NewCacheHandler(32), router())
	case 5: // as in cmd/mocrelay/main.go
		h = mocrelay.NewMergeHandler(mocrelay.NewCacheHandler(32), router(), sqlite())
	case 6:
		h = mocrelay.NewMergeHandler(mocrelay.NewDefaultHandler(), mocrelay.NewCacheHandler(32), router(), router())
	case 7: // nested merge
		h = mocrelay.NewMergeHandler(mocrelay.NewMergeHandler(mocrelay.NewCacheHandler(32), router()), router())
	default: // a middleware inside a merge
		h = mocrelay.NewMergeHandler(mocrelay.NewMaxSubscriptionsMiddleware(2)(mocrelay.NewCacheHandler(32)), router())
	}
	discard := slog.New(slog.NewTextHandler(io.Discard, nil))
	prom := func(h mocrelay.Handler) mocrelay.Handler {
		b.reg = prometheus.NewRegistry()
		return mocprom.NewPrometheusMiddleware(b.reg)(h)
	}
	switch mw {
	case 0:
	case 1: // as in cmd/mocrelay/main.go
		h = prom(h)
	case 2:
		h = mocrelay.NewMaxSubscriptionsMiddleware(2)(h)
		h = mocrelay.NewLoggingMiddleware(discard)(h)
	case 3:
		h = mocrelay.NewSendEventUniqueFilterMiddleware(4)(h)
		h = mocrelay.NewRecvEventUniqueFilterMiddleware(4)(h)
		h = mocrelay.NewMaxReqFiltersMiddleware(2)(h)
		h = prom(h)
	default:
		h = mocrelay.NewMaxSubscriptionsMiddleware(1)(h)
		h = mocrelay.NewMaxLimitMiddleware(3)(h)
		h = mocrelay.NewMaxSubIDLengthMiddleware(3)(h)
		h = mocrelay.NewMaxEventTagsMiddleware(2)(h)
		h = mocrelay.NewMaxContentLengthMiddleware(4)(h)
		h = mocrelay.NewSendEventUniqueFilterMiddleware(2)(h)
		h = prom(h)
		h = mocrelay.NewLoggingMiddleware(discard)(h)
	}
	b.h = h
	return b
}

// ---- goroutine accounting --------------------------------------------------

// c13CountGoroutines counts the goroutines whose stack mentions needle.
func c13CountGoroutines(needle string) int {
	buf := make([]byte, 1<<20)
	for {
		n := runtime.Stack(buf, true)
		if n < len(buf) {
			buf = buf[:n]
			break
		}
		buf = make([]byte, 2*len(buf))
	}
	cnt := 0
	for _, g := range strings.Split(string(buf), "\n\n") {
		if strings.Contains(g, needle) {
			cnt++
		}
	}
	return cnt
}

const c13Needle = "github.com/high-moctane/mocrelay"

func c13Gauges(reg *prometheus.Registry) (conn, req int) {
	if reg == nil {
		return 0, 0
	}
	mfs, err := reg.Gather()
	if err != nil {
		return -999, -999
	}
	for _, mf := range mfs {
		switch mf.GetName() {
		case "mocrelay_connection_count":
			for _, m := range mf.GetMetric() {
				conn += int(m.GetGauge().GetValue())
			}
		case "mocrelay_req_count":
			for _, m := range mf.GetMetric() {
				req += int(m.GetGauge().GetValue())
			}
		}
	}
	return
}

// ---- one session -----------------------------------------------------------

func c13RunSession(c *c13Case) {
	c.Obs = c13Obs{}
	defer func() {
		if r := recover(); r != nil {
			c.Obs.Panic = fmt.Sprint(r)
		}
	}()
	c13Pool1 = c.Pool1
	b := c13Build(c.Comp%c13NComp, c.Mw%c13NMw, c.Store)
	defer b.cleanup()
	// let the handler's own goroutines (SQLite bulk insert) start before the baseline is taken
	time.Sleep(time.Millisecond)
	base := c13CountGoroutines(c13Needle)

	ctx, cancel := context.WithCancel(context.Background())
	defer cancel()
	recv := make(chan mocrelay.ClientMsg)
	send := make(chan mocrelay.ServerMsg)
	done := make(chan struct{})
	var panicked string
	go func() {
		defer close(done)
		defer func() {
			if r := recover(); r != nil {
				panicked = fmt.Sprint(r)
			}
		}()
		b.h.ServeNostr(ctx, send, recv)
	}()

	stopDrain := make(chan struct{})
	drainDone := make(chan struct{})
	go func() {
		defer close(drainDone)
		for {
			select {
			case <-send:
			case <-stopDrain:
				return
			}
		}
	}()
	drainStopped := false
	stop := func() {
		if !drainStopped {
			drainStopped = true
			close(stopDrain)
			<-drainDone
		}
	}
	defer stop()

	// the stalled companion session
	var ccancel context.CancelFunc
	var cdone chan struct{}
	if c.Companion == 1 {
		var cctx context.Context
		cctx, ccancel = context.WithCancel(context.Background())
		defer ccancel()
		crecv := make(chan mocrelay.ClientMsg)
		csend := make(chan mocrelay.ServerMsg)
		cdone = make(chan struct{})
		go func() {
			defer close(cdone)
			defer func() { recover() }()
			b.h.ServeNostr(cctx, csend, crecv)
		}()
		t := time.NewTimer(c13FeedBound)
		select {
		case crecv <- &mocrelay.ClientReqMsg{SubscriptionID: "cmp", ReqFilters: []*mocrelay.ReqFilter{{}}}:
		case <-t.C:
		}
		t.Stop()
		// read until the subscription is answered (EOSE or CLOSED), then never again
		t = time.NewTimer(c13FeedBound)
	waitEOSE:
		for {
			select {
			case m := <-csend:
				switch m.(type) {
				case *mocrelay.ServerEOSEMsg, *mocrelay.ServerClosedMsg:
					break waitEOSE
				}
			case <-t.C:
				break waitEOSE
			}
		}
		t.Stop()
	}

	// Companion == 2: two busy neighbours on the same handler for as long as this session lasts, one
	// opening and closing a subscription over and over, one publishing; both read everything they are sent
	var churnCancel context.CancelFunc
	var churnDone []chan struct{}
	if c.Companion == 2 {
		var chctx context.Context
		chctx, churnCancel = context.WithCancel(context.Background())
		defer churnCancel()
		for role := 0; role < 2; role++ {
			hrecv := make(chan mocrelay.ClientMsg)
			hsend := make(chan mocrelay.ServerMsg)
			hdone := make(chan struct{})
			fdone := make(chan struct{})
			churnDone = append(churnDone, hdone, fdone)
			go func() {
				defer close(hdone)
				defer func() { recover() }()
				b.h.ServeNostr(chctx, hsend, hrecv)
			}()
			go func() { // reader
				for {
					select {
					case <-hsend:
					case <-hdone:
						return
					}
				}
			}()
			go func(role int) { // feeder
				defer close(fdone)
				for i := 0; i < 4000; i++ {
					var m mocrelay.ClientMsg
					switch {
					case role == 0 && i%2 == 0:
						m = &mocrelay.ClientReqMsg{SubscriptionID: "churn", ReqFilters: []*mocrelay.ReqFilter{{}}}
					case role == 0:
						m = &mocrelay.ClientCloseMsg{SubscriptionID: "churn"}
					default:
						e := common.JEvent{ID: "churn" + fmt.Sprint(i%4), PK: "pa", TS: int64(i % 4), Kind: 1, Tags: [][]string{}}
						m = &mocrelay.ClientEventMsg{Event: e.ToEvent()}
					}
					select {
					case hrecv <- m:
					case <-chctx.Done():
						return
					case <-hdone:
						return
					}
				}
				<-chctx.Done()
			}(role)
		}
	}

	stall := c.Peer == "stall"
	fed := true
	for i, m := range c.Hist {
		if stall && i == len(c.Hist)-1 {
			// the peer stops reading; the replies to the last message find nobody
			time.Sleep(2 * time.Millisecond)
			stop()
		}
		t := time.NewTimer(c13FeedBound)
		select {
		case recv <- c13ToClient(m):
		case <-done:
			fed = false
		case <-t.C:
			fed = false
		}
		t.Stop()
		if !fed {
			break
		}
	}
	if stall && len(c.Hist) == 0 {
		stop()
	}
	c.Obs.Fed = fed
	if c.Settle || stall {
		time.Sleep(3 * time.Millisecond)
	}

	if c.End == "close" {
		close(recv)
	} else {
		cancel()
	}
	t := time.NewTimer(c13ReturnBound)
	select {
	case <-done:
		c.Obs.Returned = true
	case <-t.C:
	}
	t.Stop()
	stop()
	if b.unlock != nil {
		// the observation is made: the other writer lets go, whatever is stuck behind the store gets free
		b.unlock()
	}
	c.Obs.Panic = panicked
	if c.Companion == 2 {
		// the neighbours worked while this session ended; now they are cancelled and must end too
		time.Sleep(5 * time.Millisecond)
		churnCancel()
		deadline := time.Now().Add(c13ReturnBound)
		for _, d := range churnDone {
			select {
			case <-d:
			case <-time.After(time.Until(deadline)):
				c.Obs.Returned = false
			}
		}
	}
	if c.Companion == 1 {
		ccancel()
		t := time.NewTimer(c13ReturnBound)
		select {
		case <-cdone:
		case <-t.C:
			c.Obs.Returned = false // the stalled companion did not end on cancel
		}
		t.Stop()
	}

	// everything the session started must be gone; retry before declaring a leak
	deadline := time.Now().Add(c13LeakRetry)
	leak, reg := 0, 0
	for {
		leak = c13CountGoroutines(c13Needle) - base
		if !c.Obs.Returned {
			// the serving goroutine itself is still there; it is reported by returned=false
		}
		reg = c13RegSize(b.routers)
		if (leak <= 0 && reg == 0) || time.Now().After(deadline) {
			break
		}
		time.Sleep(3 * time.Millisecond)
	}
	if leak < 0 {
		leak = 0
	}
	c.Obs.Leak = leak
	c.Obs.Reg = reg
	c.Obs.GConn, c.Obs.GReq = c13Gauges(b.reg)
	if !c.Obs.Returned {
		// unblock whatever is left so that it does not disturb the following cases
		cancel()
	}
}

// c13RegSize reads the routers' registry sizes.  The read takes the registry's read lock; when a
// stuck publisher holds it and a writer waits, the read would block for ever, so it is bounded and a
// registry that cannot be read counts as not released.
func c13RegSize(routers []*mocrelay.RouterHandler) int {
	res := make(chan int, 1)
	go func() {
		n := 0
		for _, r := range routers {
			n += mocrelay.VerifRouterRegistrySize(r)
		}
		res <- n
	}()
	t := time.NewTimer(time.Second)
	defer t.Stop()
	select {
	case n := <-res:
		return n
	case <-t.C:
		return 999
	}
}

// ---- the WebSocket clause --------------------------------------------------

func c13RunWS(c *c13Case) {
	c.Obs = c13Obs{}
	defer func() {
		if r := recover(); r != nil {
			c.Obs.Panic = fmt.Sprint(r)
		}
	}()
	st := time.Duration(c.StMs) * time.Millisecond
	ended := make(chan struct{})
	var once sync.Once
	big := mocrelay.NewServerNoticeMsg(strings.Repeat("x", 64<<10))
	h := mocrelay.HandlerFunc(func(ctx context.Context, send chan<- mocrelay.ServerMsg, recv <-chan mocrelay.ClientMsg) error {
		defer once.Do(func() { close(ended) })
		for {
			select {
			case <-ctx.Done():
				return ctx.Err()
			case send <- big:
			case <-recv: // what the client says is taken and ignored
			}
		}
	})
	opt := mocrelay.NewDefaultRelayOption()
	opt.SendTimeout = st
	opt.PingDuration = time.Duration(c.PingMs) * time.Millisecond
	if c.Slow {
		opt.RecvRateLimitRate, opt.RecvRateLimitBurst = 0.1, 2
	}
	relay := mocrelay.NewRelay(h, opt)
	// the option value stays the caller's: it is reused for something else after NewRelay
	opt.SendTimeout, opt.PingDuration = 0, 0
	srv := httptest.NewServer(relay)

	dctx, dcancel := context.WithTimeout(context.Background(), 5*time.Second)
	defer dcancel()
	conn, _, err := websocket.Dial(dctx, "ws"+strings.TrimPrefix(srv.URL, "http"), nil)
	if err != nil {
		c.Obs.Panic = "dial: " + err.Error()
		go srv.Close()
		return
	}
	if c.Slow {
		// three messages at once: the burst of two is used up, the relay's reader waits 10 s for its next slot
		for k := 0; k < 3; k++ {
			wctx, wcancel := context.WithTimeout(context.Background(), time.Second)
			conn.Write(wctx, websocket.MessageText, []byte(`["CLOSE","x"]`))
			wcancel()
		}
	}
	// the client never reads
	t := time.NewTimer(st + c13WsSlack)
	select {
	case <-ended:
		c.Obs.Cancelled = true
	case <-t.C:
	}
	t.Stop()
	conn.CloseNow()
	// the peer is gone: the connection's goroutines must all finish and ServeHTTP must return.
	// Nothing here may block the harness: a stuck connection is an observation.
	closed := make(chan struct{})
	go func() {
		select {
		case <-ended:
		case <-time.After(3 * time.Second):
		}
		srv.CloseClientConnections()
		relay.Wait()
		close(closed)
	}()
	select {
	case <-closed:
		c.Obs.Closed = true
	case <-time.After(5 * time.Second):
	}
	go srv.Close() // waits for outstanding requests; must not hold up the run
}

// ---- generation ------------------------------------------------------------

var c13Subs = []string{"s1", "s2", "s3"}

func c13GenMsg(r *common.Rand, i int) c13Msg {
	u := common.Small
	switch r.Intn(10) {
	case 0, 1, 2, 3:
		e := u.Event(r, r.Intn(6))
		e.Kind = common.Pick(r, []int64{1, 1, 0, 5, 10000, 30000})
		if len(e.Tags) == 0 {
			e.Tags = [][]string{{"t", "v1"}}
		}
		return c13Msg{T: "EVENT", Ev: &e}
	case 4, 5, 6:
		n := 1 + r.Intn(2)
		fs := make([]common.JFilter, n)
		for j := range fs {
			fs[j] = u.Filter(r, 20)
		}
		return c13Msg{T: "REQ", Sub: common.Pick(r, c13Subs), Fs: fs}
	case 7, 8:
		return c13Msg{T: "CLOSE", Sub: common.Pick(r, c13Subs)}
	default:
		return c13Msg{T: "COUNT", Sub: common.Pick(r, c13Subs), Fs: []common.JFilter{u.Filter(r, 20)}}
	}
}

func c13GenSession(r *common.Rand, idx int) c13Case {
	c := c13Case{K: "sess"}
	// the composition of cmd/mocrelay (5 with stack 1) gets a larger share
	if r.Chance(20) {
		c.Comp, c.Mw = 5, 1
	} else {
		c.Comp, c.Mw = r.Intn(c13NComp), r.Intn(c13NMw)
	}
	n := r.Intn(13)
	if r.Chance(25) {
		n = r.Intn(3)
	}
	c.Hist = make([]c13Msg, n)
	for i := range c.Hist {
		c.Hist[i] = c13GenMsg(r, i)
	}
	switch r.Intn(5) {
	case 0, 1:
		c.End, c.Peer = "cancel", "drain"
	case 2, 3:
		c.End, c.Peer = "cancel", "stall"
	default:
		c.End, c.Peer = "close", "drain"
	}
	c.Settle = r.Chance(40)
	if r.Chance(8) {
		// a stalled second session on the same handler while this one publishes more events than
		// any per-subscriber buffer holds
		c.Comp = common.Pick(r, []int{2, 4, 5, 6, 7, 8})
		c.Companion = 1
		c.Hist = nil
		for i := 0; i < 7+r.Intn(4); i++ {
			e := common.Small.Event(r, 100+i)
			e.Kind = 1
			e.Tags = [][]string{{"t", "v1"}}
			c.Hist = append(c.Hist, c13Msg{T: "EVENT", Ev: &e})
		}
		c.End, c.Peer = common.Pick(r, []string{"cancel", "close"}), "drain"
	} else if r.Chance(5) {
		c13GenBusy(r, &c)
	} else if r.Chance(5) {
		c13GenBigAnswer(r, &c)
	} else if r.Chance(7) {
		// two busy neighbours (one opening and closing a subscription, one publishing) on a composition with a router
		c.Comp = common.Pick(r, []int{2, 4, 5, 6, 7, 8})
		c.Companion = 2
	}
	return c
}

// c13GenBusy: the SQLite store is busy (another writer holds it) during the session.  The history is
// EVENT-heavy and cut right after its T-th EVENT, T mostly 2 x EventBulkInsertNum + 2: one EVENT in
// the stalled insertion, the queue full, and the hand-over of the last one waiting when the session
// is cancelled; sometimes fewer (nothing waits) and rarely one more (it cannot even be handed to the
// session: back-pressure, costs the feed bound).  The peer drains or has stopped reading.
func c13GenBusy(r *common.Rand, c *c13Case) {
	c.Store = "busy"
	c.Comp = common.Pick(r, []int{3, 3, 5})
	c.Companion = 0
	full := 2*c13BusyBulkNum + 2
	target := full
	switch k := r.Intn(100); {
	case k < 8:
		target = full - 1
	case k < 15:
		target = 1 + r.Intn(full-2)
	case k < 19:
		target = full + 1
	}
	c.Hist = nil
	for n, i := 0, 0; n < target && i < 24; i++ {
		m := c13GenMsg(r, i)
		if m.T != "EVENT" && r.Chance(70) {
			continue
		}
		if m.T == "EVENT" {
			// well-formed as the admission gate guarantees (hex id / pubkey / sig): the SQLite handler
			// silently skips anything else, and then nothing ever reaches the store; distinct ids
			m.Ev.ID = fmt.Sprintf("%064x", 200+n)
			m.Ev.PK = fmt.Sprintf("%064x", 0xa0+r.Intn(3))
			m.Ev.Sig = fmt.Sprintf("%0128x", 1)
			m.Ev.Kind = common.Pick(r, []int64{1, 1, 1, 0, 10000, 30000})
			m.Ev.Tags = [][]string{{common.Pick(r, []string{"t", "d"}), "v1"}}
			n++
		}
		c.Hist = append(c.Hist, m)
	}
	c.Pool1 = r.Bool()
	if r.Chance(50) {
		// and a query on top: with a pool of one it waits for the connection that the stalled insertion holds
		c.Hist = append(c.Hist, c13Msg{T: "REQ", Sub: "a", Fs: []common.JFilter{{}}})
	}
	c.End = "cancel"
	c.Peer = common.Pick(r, []string{"drain", "drain", "stall"})
}

// c13GenBigAnswer: a composition with the cache, 14..24 stored events, then a REQ that matches them all; the
// session ends while the answer is being delivered (the peer stops reading before the REQ, or the end comes
// right after the REQ was handed over)
func c13GenBigAnswer(r *common.Rand, c *c13Case) {
	c.Comp = common.Pick(r, []int{1, 4, 5, 6, 7, 8})
	c.Companion, c.Store = 0, ""
	c.Hist = nil
	for i, n := 0, 14+r.Intn(11); i < n; i++ {
		e := common.JEvent{ID: fmt.Sprintf("%064x", 500+i), PK: fmt.Sprintf("%064x", 0xa0+r.Intn(3)), TS: int64(i % 5), Kind: 1,
			Tags: [][]string{}, Sig: fmt.Sprintf("%0128x", 1)}
		c.Hist = append(c.Hist, c13Msg{T: "EVENT", Ev: &e})
	}
	c.Hist = append(c.Hist, c13Msg{T: "REQ", Sub: "a", Fs: []common.JFilter{{}}})
	c.End = "cancel"
	c.Peer = common.Pick(r, []string{"stall", "stall", "drain"})
	c.Settle = c.Peer == "stall" && r.Bool()
}

var c13WsConfigs = [][2]int{{100, 0}, {100, 20}, {300, 1000}, {300, 0}, {100, 1000}, {300, 20}}

func c13RunAll(cs []c13Case, out *common.Out) {
	// WebSocket cases first and concurrently: they must not overlap the goroutine accounting
	var wg sync.WaitGroup
	for i := range cs {
		if cs[i].K == "ws" {
			wg.Add(1)
			go func(c *c13Case) { defer wg.Done(); c13RunWS(c) }(&cs[i])
		}
	}
	wg.Wait()
	// wait until nothing of them is left
	deadline := time.Now().Add(5 * time.Second)
	for time.Now().Before(deadline) && c13CountGoroutines(c13Needle) > 0 {
		time.Sleep(5 * time.Millisecond)
	}
	for i := range cs {
		if cs[i].K != "ws" {
			c13RunSession(&cs[i])
		}
	}
	for i := range cs {
		if cs[i].Hist == nil {
			cs[i].Hist = []c13Msg{}
		}
		out.Emit(cs[i])
	}
}

func init() {
	subcmds["c13"] = func(seed uint64, n int, out *common.Out, replay string) {
		var cs []c13Case
		if replay != "" {
			for _, raw := range common.ReadLines(replay) {
				var c c13Case
				if err := json.Unmarshal(raw, &c); err != nil {
					common.Fatalf("bad case: %v", err)
				}
				cs = append(cs, c)
			}
			c13RunAll(cs, out)
			return
		}
		root := common.NewRand(seed)
		// n sessions; the WebSocket clause with 3 configurations (all 6 when n is large)
		nws := 3
		if n >= 2000 {
			nws = 6
		}
		for i := 0; i < nws; i++ {
			cs = append(cs, c13Case{K: "ws", StMs: c13WsConfigs[i][0], PingMs: c13WsConfigs[i][1]})
		}
		// the same with a receive rate limit the client has used up (the reader is waiting for its next slot)
		cs = append(cs, c13Case{K: "ws", StMs: 100, PingMs: 0, Slow: true}, c13Case{K: "ws", StMs: 300, PingMs: 1000, Slow: true})
		for i := 0; i < n; i++ {
			cs = append(cs, c13GenSession(root.Fork(uint64(i)), i))
		}
		c13RunAll(cs, out)
	}
}
