package main

import (
	"bytes"
	"fmt"
	"strconv"

	"github.com/high-moctane/mocrelay"
	"verif/harness/common"
)

// C16, large stores: dump/restore of a cache holding a thousand or more events
// with many created_at ties.  Only ids are recorded; the Coq side judges the
// observation alone (both caches must answer identically), since evaluating the
// list-based model on thousands of events would dominate the run.

type c16BigQ struct {
	Fs   []common.JFilter `json:"fs"`
	Out1 []string         `json:"out1"`
	Out2 []string         `json:"out2"`
}

type c16BigCase struct {
	T        string    `json:"t"`
	Cap      int       `json:"cap"`
	N        int       `json:"n"`
	Tie      int       `json:"tie"`
	Listing  []string  `json:"listing"`
	Restored []string  `json:"restored"`
	Qs       []c16BigQ `json:"qs"`
	Err      string    `json:"err"`
}

func c16BigIDs(es []*mocrelay.Event) []string {
	out := make([]string, len(es))
	for i, e := range es {
		out[i] = e.ID
	}
	return out
}

func c16RunBigDump(capacity, n, tie int) (c c16BigCase) {
	c = c16BigCase{T: "bigdump", Cap: capacity, N: n, Tie: tie, Listing: []string{}, Restored: []string{}, Qs: []c16BigQ{}}
	defer func() {
		if r := recover(); r != nil {
			c.Err = fmt.Sprint("panic: ", r)
		}
	}()
	if tie < 1 {
		tie = 1
	}
	h := mocrelay.NewCacheHandler(capacity)
	for i := 0; i < n; i++ {
		ev := &mocrelay.Event{ID: "b" + strconv.Itoa(i), Pubkey: "p" + strconv.Itoa(i%3), CreatedAt: int64(i / tie),
			Kind: 1, Tags: []mocrelay.Tag{{"t", strconv.Itoa(i % 4)}}, Content: "c", Sig: "s"}
		mocrelay.VerifCacheOf(h).Add(ev)
	}
	all := []*mocrelay.ReqFilter{{}}
	c.Listing = c16BigIDs(mocrelay.VerifCacheOf(h).Find(all))
	var buf bytes.Buffer
	if err := h.Dump(&buf); err != nil {
		c.Err = "Dump: " + err.Error()
		return
	}
	h2 := mocrelay.NewCacheHandler(capacity)
	if err := h2.Restore(bytes.NewReader(buf.Bytes())); err != nil {
		c.Err = "Restore: " + err.Error()
		return
	}
	c.Restored = c16BigIDs(mocrelay.VerifCacheOf(h2).Find(all))
	// windows around every multiple of 500 positions from the newest end, where paging bugs live
	for _, pos := range []int{500, 1000, 1500, 2000} {
		if pos >= len(c.Listing) {
			continue
		}
		ts := int64((n - 1 - pos) / tie)
		fs := []common.JFilter{{Since: common.Ptr(ts), Until: common.Ptr(ts)}}
		q := c16BigQ{Fs: fs}
		q.Out1 = c16BigIDs(mocrelay.VerifCacheOf(h).Find(common.ToFilters(fs)))
		q.Out2 = c16BigIDs(mocrelay.VerifCacheOf(h2).Find(common.ToFilters(fs)))
		c.Qs = append(c.Qs, q)
	}
	fs := []common.JFilter{{Authors: common.Ptr([]string{"p1"}), Limit: common.Ptr(int64(700))}}
	q := c16BigQ{Fs: fs}
	q.Out1 = c16BigIDs(mocrelay.VerifCacheOf(h).Find(common.ToFilters(fs)))
	q.Out2 = c16BigIDs(mocrelay.VerifCacheOf(h2).Find(common.ToFilters(fs)))
	c.Qs = append(c.Qs, q)
	for i := range c.Qs {
		if c.Qs[i].Out1 == nil {
			c.Qs[i].Out1 = []string{}
		}
		if c.Qs[i].Out2 == nil {
			c.Qs[i].Out2 = []string{}
		}
	}
	return
}

func c16GenBigDump(r *common.Rand) (int, int, int) {
	n := 990 + r.Intn(1200)
	capacity := n + r.Intn(50)
	if r.Chance(25) {
		capacity = n - r.Intn(60) // with evictions
	}
	return capacity, n, 2 + r.Intn(6)
}
