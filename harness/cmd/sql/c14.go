package main

import (
	"context"
	"database/sql"
	"database/sql/driver"
	"encoding/json"
	"errors"
	"fmt"
	"log/slog"
	"os"
	"path/filepath"
	"sync"
	"time"

	"github.com/high-moctane/mocrelay"
	"github.com/high-moctane/mocrelay/handler/sqlite"
	sqlite3 "github.com/mattn/go-sqlite3"
	"verif/harness/common"
)

// C14: atomicity / idempotence of insertEvents under injected driver faults,
// and close/reopen of file-backed databases.

// ---------------------------------------------------------------------------
// fault-injecting database/sql driver around the real sqlite3 driver.
// While armed it counts the driver calls a batch makes (begin, each prepare,
// each statement execution, commit) and fails the one with index failAt.

var errInjected = errors.New("injected fault")

type faultCtl struct {
	mu     sync.Mutex
	armed  bool
	count  int
	failAt int // -1: count only
}

var fctl faultCtl

// hit registers one driver call; true = this call must fail.
func (f *faultCtl) hit() bool {
	f.mu.Lock()
	defer f.mu.Unlock()
	if !f.armed {
		return false
	}
	i := f.count
	f.count++
	return i == f.failAt
}

func (f *faultCtl) arm(failAt int) {
	f.mu.Lock()
	f.armed, f.count, f.failAt = true, 0, failAt
	f.mu.Unlock()
}

func (f *faultCtl) disarm() int {
	f.mu.Lock()
	defer f.mu.Unlock()
	f.armed = false
	return f.count
}

type fDriver struct{ inner driver.Driver }

func (d fDriver) Open(name string) (driver.Conn, error) {
	c, err := d.inner.Open(name)
	if err != nil {
		return nil, err
	}
	return &fConn{c}, nil
}

type fConn struct{ c driver.Conn }

func (c *fConn) Prepare(q string) (driver.Stmt, error) {
	return c.PrepareContext(context.Background(), q)
}
func (c *fConn) Close() error { return c.c.Close() }
func (c *fConn) Begin() (driver.Tx, error) {
	return c.BeginTx(context.Background(), driver.TxOptions{})
}
func (c *fConn) BeginTx(ctx context.Context, opts driver.TxOptions) (driver.Tx, error) {
	if fctl.hit() {
		return nil, errInjected
	}
	var tx driver.Tx
	var err error
	if b, ok := c.c.(driver.ConnBeginTx); ok {
		tx, err = b.BeginTx(ctx, opts)
	} else {
		tx, err = c.c.Begin() //nolint:staticcheck
	}
	if err != nil {
		return nil, err
	}
	return &fTx{tx}, nil
}
func (c *fConn) PrepareContext(ctx context.Context, q string) (driver.Stmt, error) {
	if fctl.hit() {
		return nil, errInjected
	}
	var st driver.Stmt
	var err error
	if p, ok := c.c.(driver.ConnPrepareContext); ok {
		st, err = p.PrepareContext(ctx, q)
	} else {
		st, err = c.c.Prepare(q)
	}
	if err != nil {
		return nil, err
	}
	return &fStmt{st}, nil
}

// direct Exec / Query on the connection (DDL, seed, queries): not part of a
// batch; passed through without counting.
func (c *fConn) ExecContext(ctx context.Context, q string, args []driver.NamedValue) (driver.Result, error) {
	if e, ok := c.c.(driver.ExecerContext); ok {
		return e.ExecContext(ctx, q, args)
	}
	return nil, driver.ErrSkip
}
func (c *fConn) QueryContext(ctx context.Context, q string, args []driver.NamedValue) (driver.Rows, error) {
	if e, ok := c.c.(driver.QueryerContext); ok {
		return e.QueryContext(ctx, q, args)
	}
	return nil, driver.ErrSkip
}
func (c *fConn) Ping(ctx context.Context) error {
	if p, ok := c.c.(driver.Pinger); ok {
		return p.Ping(ctx)
	}
	return nil
}
func (c *fConn) ResetSession(ctx context.Context) error {
	if p, ok := c.c.(driver.SessionResetter); ok {
		return p.ResetSession(ctx)
	}
	return nil
}

type fTx struct{ tx driver.Tx }

func (t *fTx) Commit() error {
	if fctl.hit() {
		// a failed COMMIT: the transaction does not take effect
		_ = t.tx.Rollback()
		return errInjected
	}
	return t.tx.Commit()
}
func (t *fTx) Rollback() error { return t.tx.Rollback() }

type fStmt struct{ st driver.Stmt }

func (s *fStmt) Close() error  { return s.st.Close() }
func (s *fStmt) NumInput() int { return s.st.NumInput() }
func (s *fStmt) Exec(args []driver.Value) (driver.Result, error) {
	if fctl.hit() {
		return nil, errInjected
	}
	return s.st.Exec(args) //nolint:staticcheck
}
func (s *fStmt) Query(args []driver.Value) (driver.Rows, error) {
	return s.st.Query(args) //nolint:staticcheck
}
func (s *fStmt) ExecContext(ctx context.Context, args []driver.NamedValue) (driver.Result, error) {
	if fctl.hit() {
		return nil, errInjected
	}
	if e, ok := s.st.(driver.StmtExecContext); ok {
		return e.ExecContext(ctx, args)
	}
	vals := make([]driver.Value, len(args))
	for i, a := range args {
		vals[i] = a.Value
	}
	return s.st.Exec(vals) //nolint:staticcheck
}
func (s *fStmt) QueryContext(ctx context.Context, args []driver.NamedValue) (driver.Rows, error) {
	if e, ok := s.st.(driver.StmtQueryContext); ok {
		return e.QueryContext(ctx, args)
	}
	vals := make([]driver.Value, len(args))
	for i, a := range args {
		vals[i] = a.Value
	}
	return s.st.Query(vals) //nolint:staticcheck
}

func init() {
	sql.Register("sqlite3_fault", fDriver{&sqlite3.SQLiteDriver{}})
}

// ---------------------------------------------------------------------------

type qres struct {
	Err bool            `json:"err"`
	Out []common.JEvent `json:"out"`
}

type reopenStep struct {
	Re bool `json:"re"`
	// Via = "handler": the batch is not handed to insertEvents directly: a SQLiteHandler (bulk size 50, no timer)
	// is created on the database, one session submits the events and gets its OKs, the session ends and the
	// handler's context is cancelled: what the handler has acknowledged must be in the database when it has shut
	// down.  A sentinel event (appended to B, so the model sees it too) tells when the final insertion is done.
	Via string          `json:"via,omitempty"`
	B   []common.JEvent `json:"b"`
	Got []qres          `json:"got"`
	Ref []qres          `json:"ref"`
}

type c14Case struct {
	K  string             `json:"k"` // "fault" | "bigfault" | "reopen"
	Qs [][]common.JFilter `json:"qs"`
	// fault
	Pre    [][]common.JEvent `json:"pre,omitempty"`
	B      []common.JEvent   `json:"b,omitempty"`
	NCalls int               `json:"ncalls"`
	Ks     []int             `json:"ks,omitempty"` // bigfault: the sampled fault positions
	Before []qres            `json:"before,omitempty"`
	Fault  [][]qres          `json:"fault,omitempty"`
	Retry  [][]qres          `json:"retry,omitempty"`
	Clean  []qres            `json:"clean,omitempty"`
	Twice  []qres            `json:"twice,omitempty"`
	// reopen
	Steps []reopenStep `json:"steps,omitempty"`
	// Preset: the database file exists already and holds this hash seed before the relay opens it for the
	// first time (0 is a seed like any other); it is then the first element of Seeds
	Preset *uint32  `json:"preset,omitempty"`
	Seeds  []uint32 `json:"seeds,omitempty"`
	Panic  string   `json:"panic,omitempty"`
}

func openDB(ctx context.Context, drv, dsn string) (*sql.DB, uint32, error) {
	db, err := sql.Open(drv, dsn)
	if err != nil {
		return nil, 0, err
	}
	db.SetMaxOpenConns(1)
	if err := sqlite.SetPragmas(ctx, db); err != nil {
		db.Close()
		return nil, 0, err
	}
	if err := sqlite.Migrate(ctx, db); err != nil {
		db.Close()
		return nil, 0, err
	}
	seed, err := sqlite.VerifSetOrLoadXXHashSeed(ctx, db)
	if err != nil {
		db.Close()
		return nil, 0, err
	}
	return db, seed, nil
}

func answers(ctx context.Context, db *sql.DB, seed uint32, qs [][]common.JFilter) []qres {
	out := make([]qres, len(qs))
	for i, fs := range qs {
		evs, err := sqlite.VerifQueryEvent(ctx, db, seed, common.ToFilters(fs), sqlite.NoLimit)
		out[i] = qres{Err: err != nil, Out: fromEvents(evs)}
		if err != nil {
			out[i].Out = []common.JEvent{}
		}
	}
	return out
}

// freshWithPre: an in-memory database behind the fault driver holding the
// batches of pre.
func freshWithPre(ctx context.Context, pre [][]common.JEvent) (*sql.DB, uint32) {
	db, seed, err := openDB(ctx, "sqlite3_fault", ":memory:")
	if err != nil {
		panic(fmt.Sprintf("open: %v", err))
	}
	for _, b := range pre {
		if err := insertChecked(ctx, db, seed, b); err != nil {
			// a failure of the implementation is an observation (c14Run records it)
			db.Close()
			panic("insertEvents failed on an earlier batch: " + err.Error())
		}
	}
	return db, seed
}

func c14RunFault(c *c14Case) {
	ctx := context.Background()
	// clean run: count the driver calls, answers after one and two insertions
	db, seed := freshWithPre(ctx, c.Pre)
	c.Before = answers(ctx, db, seed, c.Qs)
	fctl.arm(-1)
	err := insertChecked(ctx, db, seed, c.B)
	c.NCalls = fctl.disarm()
	if err != nil {
		c.Panic = "clean insertion failed: " + err.Error()
		db.Close()
		return
	}
	c.Clean = answers(ctx, db, seed, c.Qs)
	if err := insertChecked(ctx, db, seed, c.B); err != nil {
		c.Panic = "second insertion failed: " + err.Error()
		db.Close()
		return
	}
	c.Twice = answers(ctx, db, seed, c.Qs)
	db.Close()
	// every fault position (fault), or a sample of them that depends on the
	// number of driver calls only (bigfault)
	ks := make([]int, 0, c.NCalls)
	if c.K == "bigfault" {
		ks = c14SamplePositions(c.NCalls)
		c.Ks = ks
	} else {
		for k := 0; k < c.NCalls; k++ {
			ks = append(ks, k)
		}
	}
	c.Fault = make([][]qres, len(ks))
	c.Retry = make([][]qres, len(ks))
	for i, k := range ks {
		db, seed := freshWithPre(ctx, c.Pre)
		fctl.arm(k)
		err := insertChecked(ctx, db, seed, c.B)
		fctl.disarm()
		if err == nil {
			c.Panic = fmt.Sprintf("fault at call %d was not reported by insertEvents", k)
			db.Close()
			return
		}
		// what follows a failed insertion runs under a deadline: a transaction that was neither committed nor
		// rolled back keeps the only connection of the pool, and every later statement would wait for ever
		fctx, fcancel := context.WithTimeout(ctx, c14AfterFaultBound)
		c.Fault[i] = answers(fctx, db, seed, c.Qs)
		if err := insertChecked(fctx, db, seed, c.B); err != nil {
			c.Panic = fmt.Sprintf("retry after fault at call %d failed: %v", k, err)
			fcancel()
			go db.Close() // Close waits for the connections in use: not on this goroutine
			return
		}
		c.Retry[i] = answers(fctx, db, seed, c.Qs)
		fcancel()
		db.Close()
	}
}

const c14AfterFaultBound = 4 * time.Second

// c14SamplePositions: for a big batch every position would cost one fresh
// database each; begin, a prepare, the first exec, the middle, two positions in
// the last quarter (past the 100th event of a batch of up to 135) and the last
// three calls (two execs, commit).
func c14SamplePositions(n int) []int {
	cand := []int{0, 3, 6, n / 2, 3 * n / 4, 11 * n / 12, n - 3, n - 2, n - 1}
	seen := map[int]bool{}
	out := []int{}
	for _, k := range cand {
		if k >= 0 && k < n && !seen[k] {
			seen[k] = true
			out = append(out, k)
		}
	}
	return out
}

func c14RunReopen(c *c14Case) {
	ctx := context.Background()
	dir, err := os.MkdirTemp(os.TempDir(), "verif-c14-")
	if err != nil {
		panic(fmt.Sprintf("mkdtemp: %v", err))
	}
	defer os.RemoveAll(dir)
	path := filepath.Join(dir, "relay.db")
	if c.Preset != nil {
		raw, err := sql.Open("sqlite3", path)
		if err != nil {
			panic(fmt.Sprintf("open file db: %v", err))
		}
		if err := sqlite.Migrate(ctx, raw); err != nil {
			panic(fmt.Sprintf("migrate: %v", err))
		}
		if _, err := raw.ExecContext(ctx, "insert into xxhash_seed (seed) values (?)", *c.Preset); err != nil {
			panic(fmt.Sprintf("preset seed: %v", err))
		}
		raw.Close()
	}
	db, seed, err := openDB(ctx, "sqlite3", path)
	if err != nil {
		panic(fmt.Sprintf("open file db: %v", err))
	}
	c.Seeds = []uint32{seed}
	if c.Preset != nil {
		c.Seeds = []uint32{*c.Preset, seed}
	}
	ref, rseed, err := openDB(ctx, "sqlite3", ":memory:")
	if err != nil {
		panic(fmt.Sprintf("open: %v", err))
	}
	defer ref.Close()
	for i := range c.Steps {
		st := &c.Steps[i]
		if st.Re {
			if err := db.Close(); err != nil {
				c.Panic = "close failed: " + err.Error()
				return
			}
			db, seed, err = openDB(ctx, "sqlite3", path)
			if err != nil {
				c.Panic = "reopen failed: " + err.Error()
				return
			}
			c.Seeds = append(c.Seeds, seed)
		}
		if st.Via == "handler" {
			sid := fmt.Sprintf("%064x", 0xfeed0000+i)
			if n := len(st.B); n == 0 || st.B[n-1].ID != sid {
				st.B = append(st.B, common.JEvent{ID: sid, PK: c14SentinelPK, TS: 0, Kind: 1, Tags: [][]string{},
					Sig: fmt.Sprintf("%0128x", 1)})
			}
			if msg := c14ViaHandler(ctx, db, seed, st.B, sid); msg != "" {
				c.Panic = msg
				db.Close()
				return
			}
		} else if err := insertChecked(ctx, db, seed, st.B); err != nil {
			c.Panic = "insertEvents failed: " + err.Error()
			db.Close()
			return
		}
		if err := insertChecked(ctx, ref, rseed, st.B); err != nil {
			c.Panic = "insertEvents (reference) failed: " + err.Error()
			db.Close()
			return
		}
		st.Got = answers(ctx, db, seed, c.Qs)
		st.Ref = answers(ctx, ref, rseed, c.Qs)
	}
	db.Close()
}

var c14SentinelPK = fmt.Sprintf("%064x", 0xee)

// c14ViaHandler: one lifetime of a SQLiteHandler on db.  Returns "" or what went wrong on the harness's side of
// the protocol (an OK that does not come, a session that does not end).  That the events are stored is not
// checked here: the answers of the database are compared with the reference afterwards.
func c14ViaHandler(ctx context.Context, db *sql.DB, seed uint32, b []common.JEvent, sentinel string) string {
	hctx, hcancel := context.WithCancel(ctx)
	defer hcancel()
	hopt := &sqlite.SQLiteHandlerOption{EventBulkInsertNum: 50, EventBulkInsertDur: time.Hour, MaxLimit: sqlite.NoLimit}
	if os.Getenv("C14_LOG") != "" {
		hopt.Logger = slog.New(slog.NewTextHandler(os.Stderr, nil))
	}
	h, err := sqlite.NewSQLiteHandler(hctx, db, hopt)
	if err != nil {
		return "NewSQLiteHandler: " + err.Error()
	}
	sctx, scancel := context.WithCancel(ctx)
	defer scancel()
	recv := make(chan mocrelay.ClientMsg)
	send := make(chan mocrelay.ServerMsg, 2*len(b)+4)
	done := make(chan struct{})
	go func() {
		defer close(done)
		defer func() { recover() }()
		h.ServeNostr(sctx, send, recv)
	}()
	for _, e := range b {
		select {
		case recv <- &mocrelay.ClientEventMsg{Event: e.ToEvent()}:
		case <-time.After(3 * time.Second):
			return "the handler's session does not take an EVENT"
		}
		select {
		case m := <-send:
			if ok, is := m.(*mocrelay.ServerOKMsg); !is || !ok.Accepted {
				return fmt.Sprintf("EVENT %s was not acknowledged with an accepting OK", e.ID)
			}
		case <-time.After(3 * time.Second):
			return "no OK for an EVENT"
		}
	}
	scancel()
	select {
	case <-done:
	case <-time.After(3 * time.Second):
		return "the handler's session does not end"
	}
	hcancel()
	// the final insertion runs after the cancellation (the handler gives it 3 s)
	deadline := time.Now().Add(3500 * time.Millisecond)
	for time.Now().Before(deadline) {
		evs, err := sqlite.VerifQueryEvent(ctx, db, seed, []*mocrelay.ReqFilter{{IDs: []string{sentinel}}}, sqlite.NoLimit)
		if err == nil && len(evs) == 1 {
			return ""
		}
		time.Sleep(2 * time.Millisecond)
	}
	return "" // not stored in time: the comparison with the reference shows it
}

func c14Run(c *c14Case) {
	defer func() {
		if r := recover(); r != nil {
			fctl.disarm()
			c.Panic = fmt.Sprint("panic: ", r)
		}
	}()
	c.Panic = ""
	if c.Qs == nil {
		c.Qs = [][]common.JFilter{}
	}
	for i := range c.Qs {
		if c.Qs[i] == nil {
			c.Qs[i] = []common.JFilter{}
		}
	}
	c.Before, c.Fault, c.Retry, c.Clean, c.Twice, c.Seeds, c.NCalls, c.Ks = nil, nil, nil, nil, nil, nil, 0, nil
	switch c.K {
	case "fault", "bigfault":
		if c.Pre == nil {
			c.Pre = [][]common.JEvent{}
		}
		for i := range c.Pre {
			if c.Pre[i] == nil {
				c.Pre[i] = []common.JEvent{}
			}
		}
		if c.B == nil {
			c.B = []common.JEvent{}
		}
		c14RunFault(c)
	default:
		c.K = "reopen"
		for i := range c.Steps {
			if c.Steps[i].B == nil {
				c.Steps[i].B = []common.JEvent{}
			}
			c.Steps[i].Got, c.Steps[i].Ref = nil, nil
		}
		c14RunReopen(c)
	}
}

// ---------------------------------------------------------------------------
// generators: functional ids, filters without limits (the answers are then
// determined up to the order inside a created_at level)

func c14Queries(g *sqlGen) [][]common.JFilter {
	qs := [][]common.JFilter{{{}}}
	for j := 0; j < 2; j++ {
		fs := g.filterList()
		if len(fs) == 0 {
			fs = []common.JFilter{{}}
		}
		for i := range fs {
			fs[i].Limit = nil
		}
		qs = append(qs, fs)
	}
	return qs
}

// c14GenBig: one batch of 101..135 distinct events (all classes, so that
// replacements and deletion requests happen inside the batch), after at most
// one small earlier batch; the handler's default EventBulkInsertNum is 1000,
// so batches of this size are ordinary.
func c14GenBig(r *common.Rand) c14Case {
	g := &sqlGen{r: r, twoOnly: true}
	np := 101 + r.Intn(35)
	g.makePool(np, true)
	var c c14Case
	c.K = "bigfault"
	ids := []string{}
	for _, i := range []int{0, 49, 98, 99, 100, np - 1} {
		ids = append(ids, sqlID(i))
	}
	c.Qs = [][]common.JFilter{{{}}, {{IDs: &ids}, {Kinds: &[]int64{0, 30000}, Authors: &[]string{sqlPKs[0]}}}}
	c.Pre = [][]common.JEvent{}
	if r.Chance(50) {
		pre := []common.JEvent{}
		for i, n := 0, 1+r.Intn(4); i < n; i++ {
			pre = append(pre, g.pool[r.Intn(np)])
		}
		c.Pre = append(c.Pre, pre)
	}
	c.B = append([]common.JEvent{}, g.pool...)
	return c
}

func c14Gen(r *common.Rand, idx int) c14Case {
	if idx%40 == 7 {
		return c14GenBig(r)
	}
	g := &sqlGen{r: r, twoOnly: true}
	np := 2 + r.Intn(8)
	g.makePool(np, true)
	var c c14Case
	c.Qs = c14Queries(g)
	draw := func(n int) []common.JEvent {
		out := make([]common.JEvent, n)
		for i := range out {
			out[i] = g.pool[r.Intn(np)]
		}
		return out
	}
	if r.Chance(55) {
		c.K = "fault"
		c.Pre = [][]common.JEvent{}
		for i, n := 0, r.Intn(3); i < n; i++ {
			c.Pre = append(c.Pre, draw(r.Intn(5)))
		}
		c.B = draw(1 + r.Intn(5))
		if r.Chance(5) {
			c.B = []common.JEvent{}
		}
	} else {
		c.K = "reopen"
		if r.Chance(20) {
			// a database that holds its seed already: 0 in half of these cases
			c.Preset = common.Ptr(common.Pick(r, []uint32{0, 0, 0, 1, 1<<32 - 1, uint32(r.Intn(1 << 30))}))
		}
		n := 1 + r.Intn(6)
		for i := 0; i < n; i++ {
			st := reopenStep{Re: i > 0 && r.Chance(60), B: draw(r.Intn(5))}
			if r.Chance(25) {
				st.Via = "handler"
			}
			c.Steps = append(c.Steps, st)
		}
	}
	return c
}

func init() {
	subcmds["c14"] = func(seed uint64, n int, out *common.Out, replay string) {
		if replay != "" {
			for _, raw := range common.ReadLines(replay) {
				var c c14Case
				if err := json.Unmarshal(raw, &c); err != nil {
					common.Fatalf("bad replay case: %v", err)
				}
				c14Run(&c)
				out.Emit(c)
			}
			return
		}
		root := common.NewRand(seed)
		for i := 0; i < n; i++ {
			c := c14Gen(root.Fork(uint64(i)), i)
			c14Run(&c)
			out.Emit(c)
		}
	}
}
