package main

import (
	"context"
	"database/sql"
	"fmt"
	"math"
	"strings"
	"time"

	"github.com/high-moctane/mocrelay"
	"github.com/high-moctane/mocrelay/handler/sqlite"
	_ "github.com/mattn/go-sqlite3"
	"verif/harness/common"
)

// C16 (3): sessions through the real SQLiteHandler with EventBulkInsertNum = 1.
// The handler acknowledges an EVENT before the inserter goroutine has stored
// it, so before every REQ that follows an EVENT the harness sends a sync EVENT
// (part of the recorded session) and polls the database directly until that
// event is stored; the inserter is FIFO, so everything sent earlier is stored
// by then.

type c16SqliteCase struct {
	T       string     `json:"t"`
	ML      uint64     `json:"ml"`
	Msgs    []c16Msg   `json:"msgs"`
	Replies []c16Reply `json:"replies"`
	Err     string     `json:"err"`
}

const c16NoLimit = uint64(math.MaxUint)

func c16SyncEvent(n int) common.JEvent {
	return common.JEvent{
		ID:   fmt.Sprintf("fe%062x", n),
		PK:   strings.Repeat("fd", 32),
		TS:   1000 + int64(n),
		Kind: 1, Tags: [][]string{}, Content: "sentinel", Sig: strings.Repeat("fc", 64),
	}
}

func c16RunSqlite(ml uint64, in []c16Msg) (c c16SqliteCase) {
	c = c16SqliteCase{T: "sqlite", ML: ml, Msgs: []c16Msg{}, Replies: []c16Reply{}}
	var d *c16Driver
	defer func() {
		if r := recover(); r != nil {
			c.Err = fmt.Sprint("panic: ", r)
		}
		if d != nil {
			c.Msgs, c.Replies = d.msgs, d.replies
			if c.Err == "" {
				c.Err = d.err
			}
		}
		if c.Err != "" && len(c.Msgs) == 0 {
			c.Msgs = c16StripSentinels(in)
		}
	}()
	ctx, cancel := context.WithCancel(context.Background())
	defer cancel()
	db, err := sql.Open("sqlite3", ":memory:")
	if err != nil {
		c.Err = "open: " + err.Error()
		return
	}
	db.SetMaxOpenConns(1)
	defer db.Close()
	if err := sqlite.SetPragmas(ctx, db); err != nil {
		c.Err = "pragmas: " + err.Error()
		return
	}
	h, err := sqlite.NewSQLiteHandler(ctx, db, &sqlite.SQLiteHandlerOption{
		EventBulkInsertNum: 1, EventBulkInsertDur: time.Hour, MaxLimit: uint(ml)})
	if err != nil {
		c.Err = "NewSQLiteHandler: " + err.Error()
		return
	}
	seed, err := sqlite.VerifSetOrLoadXXHashSeed(ctx, db)
	if err != nil {
		c.Err = "seed: " + err.Error()
		return
	}
	d = c16Start(ctx, h)
	dirty := false
	nsync := 0
	for _, m := range c16StripSentinels(in) {
		if m.K == "req" && dirty {
			se := c16SyncEvent(nsync)
			nsync++
			if !d.exchange(c16Msg{K: "event", E: &se, Sentinel: true}) {
				return
			}
			stored := false
			for try := 0; try < 4000; try++ {
				out, err := sqlite.VerifQueryEvent(ctx, db, seed, []*mocrelay.ReqFilter{{IDs: []string{se.ID}}}, math.MaxUint)
				if err != nil {
					c.Err = "polling the database: " + err.Error()
					return
				}
				if len(out) > 0 {
					stored = true
					break
				}
				time.Sleep(time.Millisecond)
			}
			if !stored {
				c.Err = "the sync event never reached the database"
				return
			}
			dirty = false
		}
		if !d.exchange(m) {
			return
		}
		if m.K == "event" {
			dirty = true
		}
	}
	return
}

// ---------------------------------------------------------------------------
// generator: gate-valid events and filters

var c16SqlPKs = []string{strings.Repeat("a1", 32), strings.Repeat("b2", 32), strings.Repeat("c3", 32)}
var c16SqlSigs = []string{strings.Repeat("5e", 64), strings.Repeat("6f", 64)}
var c16SqlFree = []string{"", "v1", "v2"}
var c16SqlD = []string{"", "a", "b"}

func c16SqlID(i int) string { return strings.Repeat(fmt.Sprintf("%02x", 0x10+i), 32) }

func c16SqlDOf(e common.JEvent) (string, bool) {
	for _, t := range e.Tags {
		if len(t) >= 1 && t[0] == "d" {
			if len(t) > 1 {
				return t[1], true
			}
			return "", true
		}
	}
	return "", false
}

func c16GenSqlPool(r *common.Rand, np int) []common.JEvent {
	pool := make([]common.JEvent, np)
	plain := func() [][]string {
		tags := [][]string{}
		for k := r.Intn(4); k > 0; k-- {
			switch r.Intn(5) {
			case 0, 1:
				tags = append(tags, []string{"e", c16SqlID(r.Intn(np))})
			case 2:
				tags = append(tags, []string{"p", common.Pick(r, c16SqlPKs)})
			case 3:
				tags = append(tags, []string{"t", common.Pick(r, c16SqlFree)})
			default:
				tags = append(tags, []string{"X", common.Pick(r, c16SqlFree)})
			}
		}
		if r.Chance(25) {
			// two different values under one tag letter: a join with the tag table yields this event twice
			switch r.Intn(3) {
			case 0:
				tags = append(tags, []string{"p", c16SqlPKs[0]}, []string{"p", c16SqlPKs[1]})
			case 1:
				tags = append(tags, []string{"t", c16SqlFree[0]}, []string{"t", c16SqlFree[1]})
			default:
				tags = append(tags, []string{"e", c16SqlID(0)}, []string{"e", c16SqlID(1 % np)})
			}
		}
		return tags
	}
	for i := 0; i < np; i++ {
		e := common.JEvent{ID: c16SqlID(i), PK: common.Pick(r, c16SqlPKs), TS: int64(r.Intn(7)), Tags: [][]string{},
			Content: common.Pick(r, c16Contents), Sig: common.Pick(r, c16SqlSigs)}
		switch x := r.Intn(100); {
		case x < 24:
			e.Kind = 1
			e.Tags = plain()
		case x < 44:
			e.Kind = common.Pick(r, []int64{0, 3, 10000})
			e.Tags = plain()
		case x < 68:
			e.Kind = 30000
			e.Tags = plain()
			d := []string{"d", common.Pick(r, c16SqlD)}
			pos := r.Intn(len(e.Tags) + 1)
			e.Tags = append(e.Tags[:pos], append([][]string{d}, e.Tags[pos:]...)...)
		case x < 75:
			e.Kind = 20000
			e.Tags = plain()
		default:
			e.Kind = 5
		}
		pool[i] = e
	}
	// deletion requests: exactly two-element e / a tags
	for i := range pool {
		e := &pool[i]
		if e.Kind != 5 {
			continue
		}
		for k := 1 + r.Intn(3); k > 0; k-- {
			tgt := pool[r.Intn(np)]
			if r.Chance(75) {
				e.PK = tgt.PK
			}
			if r.Chance(55) {
				e.Tags = append(e.Tags, []string{"e", tgt.ID})
			} else {
				d, ok := c16SqlDOf(tgt)
				if !ok {
					d = common.Pick(r, c16SqlD)
				}
				e.Tags = append(e.Tags, []string{"a", "30000:" + tgt.PK + ":" + d})
			}
		}
	}
	return pool
}

func c16SqlSubset(r *common.Rand, xs []string, lo, hi int) []string {
	out := []string{}
	for k := lo + r.Intn(hi-lo+1); k > 0; k-- {
		out = append(out, common.Pick(r, xs))
	}
	return out
}

func c16GenSqlFilter(r *common.Rand, ids []string, sel int) common.JFilter {
	var f common.JFilter
	if r.Chance(sel) {
		f.IDs = common.Ptr(c16SqlSubset(r, ids, 1, 3))
	}
	if r.Chance(sel) {
		f.Authors = common.Ptr(c16SqlSubset(r, c16SqlPKs, 1, 2))
	}
	if r.Chance(sel) {
		ks := []int64{}
		for k := 1 + r.Intn(3); k > 0; k-- {
			ks = append(ks, common.Pick(r, []int64{0, 1, 3, 5, 10000, 20000, 30000}))
		}
		f.Kinds = &ks
	}
	if r.Chance(sel) {
		tcs := []common.JTagCond{}
		names := []string{"e", "p", "t", "X"}
		for k := 1 + r.Intn(2); k > 0; k-- {
			i := r.Intn(len(names))
			var vals []string
			switch names[i] {
			case "e":
				vals = c16SqlSubset(r, ids, 0, 2)
				if r.Chance(30) {
					vals = []string{c16SqlID(0), c16SqlID(1 % len(ids))}
				}
			case "p":
				vals = c16SqlSubset(r, c16SqlPKs, 0, 2)
				if r.Chance(30) {
					vals = []string{c16SqlPKs[0], c16SqlPKs[1]}
				}
			default:
				vals = c16SqlSubset(r, c16SqlFree, 0, 2)
				if r.Chance(30) {
					vals = []string{c16SqlFree[0], c16SqlFree[1]}
				}
			}
			tcs = append(tcs, common.JTagCond{Name: names[i], Vals: vals})
			names = append(names[:i], names[i+1:]...)
		}
		f.Tags = &tcs
	}
	if r.Chance(sel) {
		f.Since = common.Ptr(int64(r.Intn(8)))
	}
	if r.Chance(sel) {
		f.Until = common.Ptr(int64(r.Intn(8)))
	}
	if r.Chance(45) {
		f.Limit = common.Ptr(int64(1 + r.Intn(4))) // never 0 (C06's finding)
	}
	return f
}

func c16GenSqlFilters(r *common.Rand, ids []string) []common.JFilter {
	nf := 1 + r.Intn(3) // never an empty list
	sel := []int{8, 20, 40}[r.Intn(3)]
	fs := []common.JFilter{}
	for k := 0; k < nf; k++ {
		fs = append(fs, c16GenSqlFilter(r, ids, sel))
	}
	return fs
}

func c16GenSqliteSession(r *common.Rand) (uint64, []c16Msg) {
	ml := c16NoLimit
	if r.Chance(15) {
		ml = 1000
	}
	np := 2 + r.Intn(9)
	pool := c16GenSqlPool(r, np)
	ids := make([]string, np)
	for i := range ids {
		ids[i] = c16SqlID(i)
	}
	subs := []string{"s1", "s2", ""}
	n := r.Intn(21)
	msgs := []c16Msg{}
	nauth := 0
	for i := 0; i < n; i++ {
		switch x := r.Intn(100); {
		case x < 50:
			e := pool[r.Intn(np)]
			msgs = append(msgs, c16Msg{K: "event", E: &e})
		case x < 80:
			fs := c16GenSqlFilters(r, ids)
			if r.Chance(20) {
				// both values of a tag letter and a small limit: an event that carries both must count once
				var tc common.JTagCond
				switch r.Intn(3) {
				case 0:
					tc = common.JTagCond{Name: "p", Vals: []string{c16SqlPKs[0], c16SqlPKs[1]}}
				case 1:
					tc = common.JTagCond{Name: "t", Vals: []string{c16SqlFree[0], c16SqlFree[1]}}
				default:
					tc = common.JTagCond{Name: "e", Vals: []string{c16SqlID(0), c16SqlID(1 % np)}}
				}
				fs = []common.JFilter{{Tags: common.Ptr([]common.JTagCond{tc}), Limit: common.Ptr(int64(1 + r.Intn(3)))}}
			}
			msgs = append(msgs, c16Msg{K: "req", Sub: common.Pick(r, subs), Fs: fs})
		case x < 87:
			msgs = append(msgs, c16Msg{K: "count", Sub: common.Pick(r, subs), Fs: c16GenSqlFilters(r, ids)})
		case x < 94:
			msgs = append(msgs, c16Msg{K: "close", Sub: common.Pick(r, subs)})
		default:
			msgs = append(msgs, c16Msg{K: "auth", E: c16AuthEvent(fmt.Sprintf("a0%062x", nauth), common.Pick(r, c16SqlPKs),
				common.Pick(r, c16SqlSigs), int64(r.Intn(7)))})
			nauth++
		}
	}
	return ml, msgs
}
